(** 64-bit integer layer of the claim encodings (src/utils.rs:14-22, src/claim/number.rs:49-74).
    Rust integers are modelled as Z with the wrap-around written out. *)
From Coq Require Import ZArith.
Open Scope Z_scope.

Definition two63 : Z := 2 ^ 63.
Definition two64 : Z := 2 ^ 64.
(** BLS12-381 scalar field modulus r. *)
Definition rmod : Z := 0x73eda753299d7d483339d80809a1d80553bda402fffe5bfeffffffff00000001.

(** [x as u64] for any integer x (two's complement reinterpretation). *)
Definition as_u64 (x : Z) : Z := x mod two64.
(** [u as i64]/[u as isize] for u in [0, 2^64). *)
Definition as_i64 (u : Z) : Z := if u <? two63 then u else u - two64.

Definition in_i64 (v : Z) : Prop := - two63 <= v < two63.
Definition in_u64 (v : Z) : Prop := 0 <= v < two64.
Definition in_i64b (v : Z) : bool := (- two63 <=? v) && (v <? two63).

(** utils.rs:20-22  [num as u64 ^ TOP_BIT] *)
Definition zero_center (num : Z) : Z := Z.lxor (as_u64 num) two63.

(** utils.rs:16-18 — the scalar of a number claim; the u64 is below r, no reduction. *)
Definition get_num_scalar (num : Z) : Z := zero_center num.

(** claim/number.rs:49-55 — From<Scalar> for NumberClaim: low 8 little-endian bytes as u64,
    cast to isize, zero-centred (a u64), converted by From<u64> (cast to isize). *)
Definition number_of_scalar (s : Z) : Z :=
  as_i64 (zero_center (as_i64 (s mod two64))).
