(** Signature suites in the exponent model: src/knox/bbs/{signature,pok_signature}.rs,
    src/knox/ps/{signature,pok_signature}.rs, short_group_sig_core/proof_committed_builder.rs.
    Verification of proofs of knowledge is [pok_verify] / [pok_items] of Model/Pres.v. *)
From Coq Require Import List Bool Arith.
From ACV Require Import Model.Field Model.Pres.
Import ListNotations.

Section Sigs.
Variable K : fops.
Local Notation "a + b" := (fadd K a b).
Local Notation "a - b" := (fsub K a b).
Local Notation "a * b" := (fmul K a b).
Local Notation "0" := (f0 K).
Local Notation "1" := (f1 K).
Local Notation "- a" := (fopp K a).

(** ---- BBS -------------------------------------------------------------------------------- *)
Definition bbs_B (ys msgs : list K) : K := 1 + msm K ys msgs.
(** Signature::new: A = B / (x + e); e is a hash of key and messages (any value) *)
Definition bbs_sign (x e : K) (ys msgs : list K) : K := bbs_B ys msgs * finv K (x + e).
(** Signature::verify: e(A, e*g2 + w) = e(B, g2) *)
Definition bbs_verify (x : K) (ys : list K) (A e : K) (msgs : list K) : bool :=
  negb (feqb K A 0) && negb (feqb K e 0) &&
  negb (Nat.eqb (length msgs) 0) && Nat.leb (length msgs) (length ys) &&
  feqb K (A * (e + x)) (bbs_B ys msgs).

(** ---- PS ----------------------------------------------------------------------------------- *)
Definition ps_exp (x w : K) (ys : list K) (m_tick : K) (msgs : list K) : K := x + w * m_tick + msm K ys msgs.
(** Signature::new: sigma_1 = hash point h, sigma_2 = h * exp *)
Definition ps_sign (x w : K) (ys : list K) (h m_tick : K) (msgs : list K) : K * K := (h, h * ps_exp x w ys m_tick msgs).
Definition ps_verify (x w : K) (ys : list K) (s1 s2 m_tick : K) (msgs : list K) : bool :=
  Nat.leb (length msgs) (length ys) && negb (feqb K s1 0) && negb (feqb K s2 0) &&
  feqb K (s1 * ps_exp x w ys m_tick msgs) s2.

(** ---- reveal / hide partitions -------------------------------------------------------------- *)
Fixpoint split_rev (i : nat) (reveal : list bool) (msgs : list K) : list (nat * K) :=
  match reveal, msgs with
  | b :: rt, m :: mt => if b then (i, m) :: split_rev (S i) rt mt else split_rev (S i) rt mt
  | _, _ => []
  end.
Fixpoint split_hid (reveal : list bool) (msgs : list K) : list K :=
  match reveal, msgs with
  | b :: rt, m :: mt => if b then split_hid rt mt else m :: split_hid rt mt
  | _, _ => []
  end.

(** Schnorr responses: ProofCommittedBuilder::generate_proof, p_i = nonce_i + secret_i * c *)
Fixpoint responses (nonces secrets : list K) (c : K) : list K :=
  match nonces, secrets with
  | n :: nt, s :: st => (n + s * c) :: responses nt st c
  | _, _ => []
  end.

(** ---- honest BBS proof of knowledge (PokSignature::commit / generate_proof) ---------------- *)
Definition bbs_pok (ys : list K) (A e : K) (msgs : list K) (reveal : list bool)
           (r : K) (nh : list K) (na nb : K) (c : K) : sigproof K :=
  let disc := split_rev 0 reveal msgs in
  let a_bar := A * r in
  let b_bar := bbs_B ys msgs * r - a_bar * e in
  let pk0 := mkPk K BBS 0 0 ys in
  let t := msm K (hidden_gens K pk0 disc ++ [a_bar; b_bar]) (nh ++ [na; nb]) in
  let r_inv := finv K (- r) in
  mkSp K 0 disc (PokBBS K a_bar b_bar t
                   (responses (nh ++ [na; nb]) (split_hid reveal msgs ++ [r_inv * e; r_inv]) c)).

(** ---- honest PS proof of knowledge ---------------------------------------------------------- *)
Definition ps_pok (w : K) (ys : list K) (s1 s2 m_tick : K) (msgs : list K) (reveal : list bool)
           (r t : K) (nt nm : K) (nh : list K) (c : K) : sigproof K :=
  let disc := split_rev 0 reveal msgs in
  let pk0 := mkPk K PS 0 w ys in
  let s1' := s1 * r in
  let s2' := (s2 + s1 * t) * r in
  let J := msm K ([1; w] ++ hidden_gens K pk0 disc) ([t; m_tick] ++ split_hid reveal msgs) in
  mkSp K 0 disc (PokPS K s1' s2' J
                   (responses ([nt; nm] ++ nh) ([t; m_tick] ++ split_hid reveal msgs) c)).
(** the commitment the honest PS prover hashes: msm [g2; w; Y_hidden..] nonces *)
Definition ps_prover_commitment (w : K) (ys : list K) (msgs : list K) (reveal : list bool) (nt nm : K) (nh : list K) : K :=
  let disc := split_rev 0 reveal msgs in
  msm K ([1; w] ++ hidden_gens K (mkPk K PS 0 w ys) disc) ([nt; nm] ++ nh).
End Sigs.
