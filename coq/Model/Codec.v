(** Byte layouts of the hand-written to_bytes / from_bytes codecs (C19, C20):
    PS public key, secret key, signature, proof of knowledge, blind-signature context and the BBS
    proof of knowledge.  Fixed-width leaves (compressed points, canonical scalars) are opaque
    codecs [leaf]; everything else — offsets, counts, length tests, slicing — is explicit. *)
From Coq Require Import ZArith List Bool Arith Lia.
From ACV Require Import Model.Ints Model.Bytes Model.ClaimCodec.
Import ListNotations.

Record leaf (A : Type) := { l_w : nat; l_enc : A -> bytes; l_dec : bytes -> option A }.
Arguments l_w {A}. Arguments l_enc {A}. Arguments l_dec {A}.

(** [&buf[..n]] with the remainder; None stands for "the code returns None / would have to slice
    beyond the end" — the codecs below test lengths first exactly where the code does *)
Definition take (n : nat) (l : bytes) : option (bytes * bytes) :=
  if Nat.leb n (length l) then Some (firstn n l, skipn n l) else None.

Definition rd {A} (L : leaf A) (l : bytes) : option (A * bytes) :=
  match take (l_w L) l with
  | Some (h, t) => match l_dec L h with Some a => Some (a, t) | None => None end
  | None => None
  end.

Fixpoint rd_n {A} (L : leaf A) (n : nat) (l : bytes) : option (list A * bytes) :=
  match n with
  | O => Some ([], l)
  | S k => match rd L l with
           | Some (a, t) => match rd_n L k t with Some (r, t') => Some (a :: r, t') | None => None end
           | None => None
           end
  end.

Definition wr_n {A} (L : leaf A) (xs : list A) : bytes := concat (map (l_enc L) xs).

(** all of [l] as leaves of one kind *)
Definition tail_dec {A} (L : leaf A) (l : bytes) : option (list A) :=
  if negb (Nat.eqb (length l mod l_w L) 0) then None
  else match rd_n L (length l / l_w L) l with Some (xs, _) => Some xs | None => None end.

(** scalars: 32 bytes, canonical (< r), big- or little-endian *)
(** (the argument is always a 32-byte array in the code; the model's byte strings are lists of
    integers, so that is tested here) *)
Definition scalar32_of_be (b : bytes) : option Z :=
  if Nat.eqb (length b) 32 && all_bytesb b then scalar_of_be b else None.
Definition scalar_of_le (b : bytes) : option Z := scalar32_of_be (rev b).
Definition sc_be : leaf Z := {| l_w := 32; l_enc := to_be 32; l_dec := scalar32_of_be |}.
Definition sc_le : leaf Z := {| l_w := 32; l_enc := to_le 32; l_dec := scalar_of_le |}.

(** PrimeField::from_repr of the scalar library (what the PS secret-key codec calls): a canonical
    little-endian encoding is taken as it is; any other 32 bytes are reduced modulo r and accepted
    unless the result is zero *)
Definition scalar_from_repr (b : bytes) : option Z :=
  match scalar_of_le b with
  | Some s => Some s
  | None => if Nat.eqb (length b) 32 && all_bytesb b
            then (let v := (of_le b mod rmod)%Z in if Z.eqb v 0 then None else Some v)
            else None
  end.
Definition sc_repr : leaf Z := {| l_w := 32; l_enc := to_le 32; l_dec := scalar_from_repr |}.

Definition u32_be (n : nat) : bytes := to_be 4 (Z.of_nat n).
Definition of_u32_be (b : bytes) : nat := Z.to_nat (of_be b).

Section Codecs.
  Context {G1 G2 : Type}.
  Variable g1 : leaf G1.
  Variable g2 : leaf G2.

  (** ---- PS public key (ps/public_key.rs) ---- *)
  Record ps_pk := { pk_w : G2; pk_x : G2; pk_y : list G2; pk_yb : list G1 }.

  Definition ps_pk_enc (k : ps_pk) : bytes :=
    l_enc g2 (pk_w k) ++ l_enc g2 (pk_x k) ++ u32_be (length (pk_y k)) ++ wr_n g2 (pk_y k)
    ++ u32_be (length (pk_yb k)) ++ wr_n g1 (pk_yb k).

  (** [count]: a 4-byte big-endian number bounded by what is left *)
  Definition rd_count (size : nat) (l : bytes) : option (nat * bytes) :=
    match take 4 l with
    | Some (c, t) =>
        (* the comparison is made on the number itself: a count of 2^32-1 is never turned into a length *)
        if Z.ltb (Z.of_nat (length t / size)) (of_be c) then None else Some (of_u32_be c, t)
    | None => None
    end.

  Definition ps_pk_dec (l : bytes) : option ps_pk :=
    match rd g2 l with None => None | Some (w, l) =>
    match rd g2 l with None => None | Some (x, l) =>
    match rd_count (l_w g2) l with None => None | Some (n, l) =>
    match rd_n g2 n l with None => None | Some (y, l) =>
    match rd_count (l_w g1) l with None => None | Some (m, l) =>
    match rd_n g1 m l with None => None | Some (yb, l) =>
    match l with
    | [] => Some {| pk_w := w; pk_x := x; pk_y := y; pk_yb := yb |}
    | _ => None
    end end end end end end end.

  (** ---- PS secret key (ps/secret_key.rs): w, x, y_1.. as little-endian scalars ---- *)
  Record ps_sk := { sk_w : Z; sk_x : Z; sk_y : list Z }.
  Definition ps_sk_enc (k : ps_sk) : bytes := wr_n sc_repr (sk_w k :: sk_x k :: sk_y k).
  Definition ps_sk_dec (l : bytes) : option ps_sk :=
    if negb (Nat.eqb (length l mod 32) 0) then None
    else if Nat.ltb (length l) 96 then None
    else match tail_dec sc_repr l with
         | Some (w :: x :: y) => Some {| sk_w := w; sk_x := x; sk_y := y |}
         | _ => None
         end.

  (** ---- PS signature (ps/signature.rs): [u8; 128] ---- *)
  Record ps_sig := { sg_1 : G1; sg_2 : G1; sg_m : Z }.
  Definition ps_sig_enc (s : ps_sig) : bytes := l_enc g1 (sg_1 s) ++ l_enc g1 (sg_2 s) ++ to_be 32 (sg_m s).
  Definition ps_sig_dec (l : bytes) : option ps_sig :=
    if negb (Nat.eqb (length l) (l_w g1 + l_w g1 + 32)) then None     (* the argument type is a fixed array *)
    else
    match rd g1 l with None => None | Some (a, l) =>
    match rd g1 l with None => None | Some (b, l) =>
    match rd sc_be l with None => None | Some (m, _) => Some {| sg_1 := a; sg_2 := b; sg_m := m |}
    end end end.

  (** ---- PS proof of knowledge (ps/pok_signature_proof.rs) ---- *)
  Record ps_pok := { pp_1 : G1; pp_2 : G1; pp_c : G2; pp_resp : list Z }.
  Definition ps_pok_enc (p : ps_pok) : bytes :=
    l_enc g1 (pp_1 p) ++ l_enc g1 (pp_2 p) ++ l_enc g2 (pp_c p) ++ wr_n sc_be (pp_resp p).
  Definition ps_pok_dec (min_resp : nat) (l : bytes) : option ps_pok :=
    if Nat.ltb (length l) (32 * min_resp + 48 * 4) then None
    else if negb (Nat.eqb (length l mod 32) 0) then None
    else
    match rd g1 l with None => None | Some (a, l) =>
    match rd g1 l with None => None | Some (b, l) =>
    match rd g2 l with None => None | Some (c, l) =>
    match tail_dec sc_be l with None => None | Some r => Some {| pp_1 := a; pp_2 := b; pp_c := c; pp_resp := r |}
    end end end end.

  (** ---- PS blind-signature context (ps/blind_signature_context.rs) ---- *)
  Record ps_ctx := { cx_c : G1; cx_ch : Z; cx_p : list Z }.
  Definition ps_ctx_enc (c : ps_ctx) : bytes := l_enc g1 (cx_c c) ++ to_be 32 (cx_ch c) ++ wr_n sc_be (cx_p c).
  Definition ps_ctx_dec (l : bytes) : option ps_ctx :=
    if Nat.ltb (length l) (32 * 2 + 48) then None
    else if negb (Nat.eqb ((length l - 48) mod 32) 0) then None
    else
    match rd g1 l with None => None | Some (c, l) =>
    match rd sc_be l with None => None | Some (ch, l) =>
    match tail_dec sc_be l with None => None | Some p => Some {| cx_c := c; cx_ch := ch; cx_p := p |}
    end end end.

  (** ---- BBS proof of knowledge (bbs/pok_signature_proof.rs): responses little-endian ---- *)
  Record bbs_pok := { bp_a : G1; bp_b : G1; bp_t : G1; bp_resp : list Z }.
  Definition bbs_pok_enc (p : bbs_pok) : bytes :=
    l_enc g1 (bp_a p) ++ l_enc g1 (bp_b p) ++ l_enc g1 (bp_t p) ++ wr_n sc_le (bp_resp p).
  Definition bbs_pok_dec (l : bytes) : option bbs_pok :=
    if Nat.ltb (length l) (32 * 2 + 48 * 3) then None
    else if negb (Nat.eqb ((length l - 48 * 3) mod 32) 0) then None
    else
    match rd g1 l with None => None | Some (a, l) =>
    match rd g1 l with None => None | Some (b, l) =>
    match rd g1 l with None => None | Some (t, l) =>
    match tail_dec sc_le l with None => None | Some r => Some {| bp_a := a; bp_b := b; bp_t := t; bp_resp := r |}
    end end end end.
End Codecs.
