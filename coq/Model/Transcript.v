(** Verifier-side transcript: what Presentation::create / verify absorb before any proof material.
    src/presentation/{create,verify}.rs:8-17, src/presentation/schema.rs:44-56, src/statement/*.rs
    (add_challenge_contribution), src/issuer.rs:330-349, src/credential/schema.rs:81-127.

    merlin frames every append_message(label, payload) with the label and the payload length, so the
    transcript is determined by, and determines, the SEQUENCE of payloads (labels are constants fixed by
    the position in this structure).  The model is that payload sequence. *)
From Coq Require Import ZArith List Bool String Ascii.
From ACV Require Import Model.Bytes.
Import ListNotations.
Open Scope Z_scope.

Definition item := bytes.
Definition str := bytes.      (* Rust String::as_bytes *)

Fixpoint s2b (s : string) : bytes :=
  match s with
  | EmptyString => []
  | String c t => Z.of_N (N_of_ascii c) :: s2b t
  end.

(** uint_zigzag::Uint::to_vec: unsigned LEB128 of a u128 *)
Fixpoint uvar_fuel (fuel : nat) (n : Z) : bytes :=
  match fuel with
  | O => []
  | S f => if n <? 128 then [n] else (n mod 128 + 128) :: uvar_fuel f (n / 128)
  end.
Definition uvar (n : Z) : bytes := uvar_fuel 19 n.
(** Uint::from(isize) = v as u128 (sign extension) *)
Definition isize_u128 (v : Z) : Z := v mod 2 ^ 128.

Fixpoint uvar_dec_fuel (fuel : nat) (l : bytes) : option Z :=
  match fuel, l with
  | S f, b :: t =>
      if b <? 128 then (match t with [] => Some b | _ => None end)
      else match uvar_dec_fuel f t with Some r => Some (b - 128 + 128 * r) | None => None end
  | _, _ => None
  end.
Definition uvar_dec (l : bytes) : option Z := uvar_dec_fuel 19 l.

Record cred_schema := mkCSch {
  cs_id : str; cs_label : str; cs_desc : str;          (* label / description after unwrap_or_default *)
  cs_blind : list str; cs_indices : list str; cs_nclaims : Z }.

Record issuer_pub := mkIP {
  ip_id : str; ip_vk : bytes; ip_rvk : bytes; ip_reg : bytes; ip_ek : bytes; ip_schema : cred_schema }.

Inductive tstmt :=
| TSig (id : str) (disclosed : list str) (issuer : issuer_pub)
| TRev (id ref : str) (claim : Z) (vk acc : bytes)
| TMem (id ref : str) (claim : Z) (vk acc : bytes)
| TEq (id : str) (refs : list (str * Z))
| TComm (id ref : str) (claim : Z) (gm gb : bytes)
| TRange (id ref sig : str) (claim : Z) (lo hi : option Z)
| TVenc (id : str) (dec : bool) (ref : str) (claim : Z) (gm ek : bytes)
| TVdec (id ref : str) (claim : Z) (gm ek : bytes).

Record tschema := mkTS { ts_id : str; ts_stmts : list (str * tstmt) }.

Definition tag_sig := s2b "ps signature".
Definition tag_rev := s2b "vb20 set membership revocation".
Definition tag_mem := s2b "vb20 set membership".
Definition tag_eq := s2b "equality".
Definition tag_comm := s2b "commitment".
Definition tag_range := s2b "range proof".
Definition tag_venc := s2b "el-gamal verifiable encryption".
Definition tag_vdec := s2b "el-gamal verifiable encryption w/decryption".

Definition len_item (s : bytes) : item := uvar (Z.of_nat (List.length s)).

Fixpoint enum_from {A} (i : Z) (l : list A) : list (Z * A) :=
  match l with [] => [] | a :: t => (i, a) :: enum_from (i + 1) t end.

Definition enc_cred_schema (c : cred_schema) : list item :=
  [len_item (cs_id c); cs_id c; len_item (cs_label c); cs_label c; len_item (cs_desc c); cs_desc c;
   uvar (Z.of_nat (List.length (cs_blind c)))] ++ cs_blind c ++
  [uvar (Z.of_nat (List.length (cs_indices c)))] ++
  flat_map (fun p => [len_item (snd p); snd p; uvar (fst p)]) (enum_from 0 (cs_indices c)) ++
  [uvar (cs_nclaims c)].

Definition enc_issuer (i : issuer_pub) : list item :=
  [ip_id i; ip_vk i; ip_rvk i; ip_reg i; ip_ek i] ++ enc_cred_schema (ip_schema i).

Definition u64_le (n : Z) : bytes := to_le 8 n.

Definition enc_opt (o : option Z) : list item :=
  match o with None => [[0]] | Some v => [[1]; uvar (isize_u128 v)] end.

Definition enc_stmt (s : tstmt) : list item :=
  match s with
  | TSig id disclosed issuer =>
      [tag_sig; id; uvar (Z.of_nat (List.length disclosed))] ++
      flat_map (fun p => [uvar (fst p); snd p]) (enum_from 0 disclosed) ++ enc_issuer issuer
  | TRev id ref claim vk acc => [tag_rev; id; ref; uvar claim; vk; acc]
  | TMem id ref claim vk acc => [tag_mem; id; ref; uvar claim; vk; acc]
  | TEq id refs =>
      [tag_eq; id; uvar (Z.of_nat (List.length refs))] ++ flat_map (fun p => [fst p; uvar (snd p)]) refs
  | TComm id ref claim gm gb => [tag_comm; id; ref; uvar claim; gm; gb]
  | TRange id ref sig claim lo hi => [tag_range; id; ref; sig; uvar claim] ++ enc_opt lo ++ enc_opt hi
  | TVenc id dec ref claim gm ek => [tag_venc; id; u64_le (if dec then 1 else 0); ref; uvar claim; gm; ek]
  | TVdec id ref claim gm ek => [tag_vdec; id; ref; uvar claim; gm; ek]
  end.

(** nonce, then PresentationSchema::add_challenge_contribution *)
Definition enc_context (nonce : bytes) (s : tschema) : list item :=
  [nonce; ts_id s; uvar (Z.of_nat (List.length (ts_stmts s)))] ++
  flat_map (fun p => fst p :: enc_stmt (snd p)) (ts_stmts s).

(** ------------------------------------------------------------------------------------------
    A decoder: the left inverse that makes the encoding injective. *)
Definition pres (A : Type) := option (A * list item).

Definition take1 (l : list item) : pres item := match l with [] => None | a :: t => Some (a, t) end.
Definition take_uvar (l : list item) : pres Z :=
  match l with [] => None | a :: t => match uvar_dec a with Some n => Some (n, t) | None => None end end.

Fixpoint take_n {A} (f : list item -> pres A) (n : nat) (l : list item) : pres (list A) :=
  match n with
  | O => Some ([], l)
  | S k => match f l with
           | Some (a, r) => match take_n f k r with Some (t, r') => Some (a :: t, r') | None => None end
           | None => None
           end
  end.

Definition dec_counted {A} (f : list item -> pres A) (l : list item) : pres (list A) :=
  match take_uvar l with
  | Some (n, r) => take_n f (Z.to_nat n) r
  | None => None
  end.

(** (len, label, index) -> label *)
Definition dec_index_entry (l : list item) : pres str :=
  match l with _ :: lab :: _ :: r => Some (lab, r) | _ => None end.
Definition dec_disclosed_entry (l : list item) : pres str :=
  match l with _ :: lab :: r => Some (lab, r) | _ => None end.
Definition dec_ref_entry (l : list item) : pres (str * Z) :=
  match l with id :: c :: r => match uvar_dec c with Some n => Some ((id, n), r) | None => None end | _ => None end.

Definition dec_cred_schema (l : list item) : pres cred_schema :=
  match l with
  | _ :: id :: _ :: lab :: _ :: desc :: r0 =>
      match dec_counted take1 r0 with
      | Some (blind, r1) =>
          match dec_counted dec_index_entry r1 with
          | Some (idx, r2) =>
              match take_uvar r2 with
              | Some (n, r3) => Some (mkCSch id lab desc blind idx n, r3)
              | None => None end
          | None => None end
      | None => None end
  | _ => None
  end.

Definition dec_issuer (l : list item) : pres issuer_pub :=
  match l with
  | id :: vk :: rvk :: reg :: ek :: r =>
      match dec_cred_schema r with Some (c, r') => Some (mkIP id vk rvk reg ek c, r') | None => None end
  | _ => None
  end.

(** option<isize>: the value is recovered modulo 2^128, i.e. as the unique i64/isize it came from *)
Definition of_u128 (u : Z) : Z := if u <? 2 ^ 127 then u else u - 2 ^ 128.
Definition dec_opt (l : list item) : pres (option Z) :=
  match l with
  | [0] :: r => Some (None, r)
  | [1] :: v :: r => match uvar_dec v with Some u => Some (Some (of_u128 u), r) | None => None end
  | _ => None
  end.

Definition dec_stmt (l : list item) : pres tstmt :=
  match l with
  | tag :: id :: r =>
      if list_eqb tag tag_sig then
        match dec_counted dec_disclosed_entry r with
        | Some (d, r1) => match dec_issuer r1 with Some (i, r2) => Some (TSig id d i, r2) | None => None end
        | None => None end
      else if list_eqb tag tag_rev then
        match r with ref :: c :: vk :: acc :: r' => match uvar_dec c with Some n => Some (TRev id ref n vk acc, r') | None => None end | _ => None end
      else if list_eqb tag tag_mem then
        match r with ref :: c :: vk :: acc :: r' => match uvar_dec c with Some n => Some (TMem id ref n vk acc, r') | None => None end | _ => None end
      else if list_eqb tag tag_eq then
        match dec_counted dec_ref_entry r with Some (refs, r') => Some (TEq id refs, r') | None => None end
      else if list_eqb tag tag_comm then
        match r with ref :: c :: gm :: gb :: r' => match uvar_dec c with Some n => Some (TComm id ref n gm gb, r') | None => None end | _ => None end
      else if list_eqb tag tag_range then
        match r with
        | ref :: sg :: c :: r0 =>
            match uvar_dec c with
            | Some n => match dec_opt r0 with
                        | Some (lo, r1) => match dec_opt r1 with Some (hi, r2) => Some (TRange id ref sg n lo hi, r2) | None => None end
                        | None => None end
            | None => None end
        | _ => None end
      else if list_eqb tag tag_venc then
        match r with
        | fl :: ref :: c :: gm :: ek :: r' =>
            match uvar_dec c with Some n => Some (TVenc id (list_eqb fl (u64_le 1)) ref n gm ek, r') | None => None end
        | _ => None end
      else if list_eqb tag tag_vdec then
        match r with ref :: c :: gm :: ek :: r' => match uvar_dec c with Some n => Some (TVdec id ref n gm ek, r') | None => None end | _ => None end
      else None
  | _ => None
  end.

Definition dec_keyed_stmt (l : list item) : pres (str * tstmt) :=
  match l with
  | k :: r => match dec_stmt r with Some (s, r') => Some ((k, s), r') | None => None end
  | [] => None
  end.

Definition dec_context (l : list item) : option (bytes * tschema) :=
  match l with
  | nonce :: id :: r =>
      match dec_counted dec_keyed_stmt r with
      | Some (stmts, []) => Some (nonce, mkTS id stmts)
      | _ => None end
  | _ => None
  end.
