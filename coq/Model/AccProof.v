(** VB20 zero-knowledge membership proof (src/knox/accumulator/vb20/proof.rs:104-335) and its use as the
    revocation / membership sub-protocol (src/presentation/revocation.rs, src/verifier/revocation.rs),
    in the exponent model: G1, G2 elements by their logs, GT by the product. *)
From Coq Require Import List Bool.
From ACV Require Import Model.Field.
Import ListNotations.

Section AccProof.
Variable K : fops.
Local Notation "a + b" := (fadd K a b).
Local Notation "a - b" := (fsub K a b).
Local Notation "a * b" := (fmul K a b).
Local Notation "- a" := (fopp K a).

(** proof parameters X, Y, Z (hash-derived), public key Q = alpha*g2 *)
Record aparams := mkAP { ap_x : K; ap_y : K; ap_z : K; ap_alpha : K }.

Record acommit := mkAC {
  ac_ec : K; ac_tsigma : K; ac_trho : K;
  ac_re : K; ac_rsigma : K; ac_rrho : K; ac_rdsigma : K; ac_rdrho : K }.

Record aproof := mkAPr {
  pr_ec : K; pr_tsigma : K; pr_trho : K;
  pr_ssigma : K; pr_srho : K; pr_sdsigma : K; pr_sdrho : K; pr_sy : K }.

Record arand := mkAR { ar_sigma : K; ar_rho : K; ar_ry : K; ar_rsigma : K; ar_rrho : K; ar_rdsigma : K; ar_rdrho : K }.

(** MembershipProofCommitting::new: [m] the element, [C] the witness, [ar_ry] the claim's shared nonce *)
Definition acc_commit (p : aparams) (m C : K) (r : arand) : acommit :=
  let ec := ap_z p * (ar_sigma r + ar_rho r) + C in
  let ts := ap_x p * ar_sigma r in
  let tr := ap_y p * ar_rho r in
  mkAC ec ts tr
    ((ec * ar_ry r + ap_z p * (- (ar_rdsigma r + ar_rdrho r))) + (ap_z p * (- (ar_rsigma r + ar_rrho r))) * ap_alpha p)
    (ap_x p * ar_rsigma r) (ap_y p * ar_rrho r)
    (ts * ar_ry r + (- ap_x p) * ar_rdsigma r)
    (tr * ar_ry r + (- ap_y p) * ar_rdrho r).

(** gen_proof: s = r + secret * c *)
Definition acc_respond (p : aparams) (m C : K) (r : arand) (c : K) : aproof :=
  let cm := acc_commit p m C r in
  mkAPr (ac_ec cm) (ac_tsigma cm) (ac_trho cm)
    (ar_sigma r * c + ar_rsigma r) (ar_rho r * c + ar_rrho r)
    ((m * ar_sigma r) * c + ar_rdsigma r) ((m * ar_rho r) * c + ar_rdrho r)
    (m * c + ar_ry r).

(** MembershipProof::finalize: what the verifier recomputes and hashes, against accumulator V *)
Definition acc_finalize (p : aparams) (V : K) (pr : aproof) (c : K) : acommit :=
  mkAC (pr_ec pr) (pr_tsigma pr) (pr_trho pr)
    ((pr_ec pr * pr_sy pr + ap_z p * (- (pr_sdsigma pr + pr_sdrho pr)) + V * (- c))
     + (ap_z p * (- (pr_ssigma pr + pr_srho pr)) + pr_ec pr * c) * ap_alpha p)
    (ap_x p * pr_ssigma pr + (- pr_tsigma pr) * c)
    (ap_y p * pr_srho pr + (- pr_trho pr) * c)
    (pr_tsigma pr * pr_sy pr + (- ap_x p) * pr_sdsigma pr)
    (pr_trho pr * pr_sy pr + (- ap_y p) * pr_sdrho pr).

(** RevocationVerifier::verify: the proof's s_y must be the signature proof's response for the claim *)
Definition acc_link (pr : aproof) (message_proof : K) : bool := feqb K (pr_sy pr) message_proof.
End AccProof.
