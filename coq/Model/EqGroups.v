(** How [Presentation::get_message_types] (presentation.rs) gives one blinder to claims tied together
    by equality statements.  A claim is a key (statement id, claim index); a statement is the list
    of its members; [pm] maps a claim to its proof message (value and blinder).
    [propagate_seq] is the pinned tree: statement by statement, the first member's message is copied
    onto the others.  [propagate] is the tree after fix a78606f: members are grouped across
    statements first, then every group takes the message of its first member. *)
From Coq Require Import List Bool Arith.
Import ListNotations.

Definition key := (nat * nat)%type.
Definition keyb (a b : key) : bool := Nat.eqb (fst a) (fst b) && Nat.eqb (snd a) (snd b).
Definition memk (k : key) (l : list key) : bool := existsb (keyb k) l.

Section Propagate.
  Variable V : Type.

  Definition upd (pm : key -> V) (k : key) (v : V) : key -> V := fun k' => if keyb k' k then v else pm k'.

  (** ---- pinned: sequential copying ---- *)
  Definition copy_stmt (pm : key -> V) (s : list key) : key -> V :=
    match s with
    | [] => pm
    | first :: rest => fold_left (fun m k => upd m k (m first)) rest pm
    end.
  Definition propagate_seq (stmts : list (list key)) (pm : key -> V) : key -> V := fold_left copy_stmt stmts pm.

  (** ---- fixed: grouping ---- *)
  Definition inter (g h : list key) : bool := existsb (fun m => memk m h) g.
  Fixpoint dedup (l : list key) : list key :=
    match l with
    | [] => []
    | x :: t => if memk x t then dedup t else x :: dedup t
    end.
  Definition add_stmt (groups : list (list key)) (s : list key) : list (list key) :=
    let joined := filter (fun g => inter g s) groups in
    let rest := filter (fun g => negb (inter g s)) groups in
    rest ++ [s ++ concat joined].
  Definition groups_of (stmts : list (list key)) : list (list key) := fold_left add_stmt stmts [].
  Definition assign (pm : key -> V) (g : list key) : key -> V :=
    match g with
    | [] => pm
    | x :: t => let v := pm x in fun k => if memk k t then v else pm k
    end.
  Definition propagate (stmts : list (list key)) (pm : key -> V) : key -> V := fold_left assign (groups_of stmts) pm.
End Propagate.
