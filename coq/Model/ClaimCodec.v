(** Claim values, their scalar encodings and their byte / text codecs.
    src/claim/{data,number,scalar,hashed,enumeration,revocation}.rs, src/utils.rs. *)
From Coq Require Import ZArith List Bool Decimal DecimalZ DecimalPos DecimalN.
From ACV Require Import Model.Res Model.Ints Model.Bytes.
Import ListNotations.
Open Scope Z_scope.

Inductive claim : Type :=
| CHashed (value : bytes) (print_friendly : bool)
| CNumber (v : Z)                                   (* isize *)
| CScalar (s : Z)                                   (* field element, 0 <= s < r *)
| CRevocation (id : bytes)                          (* String *)
| CEnum (dst : bytes) (value : Z) (total : Z).      (* String, u8, usize *)

Inductive ctype : Type := TUnknown | THashed | TNumber | TScalar | TRevocation | TEnumeration.

Definition claim_type (c : claim) : ctype :=
  match c with
  | CHashed _ _ => THashed | CNumber _ => TNumber | CScalar _ => TScalar
  | CRevocation _ => TRevocation | CEnum _ _ _ => TEnumeration
  end.

Definition ctype_eqb (a b : ctype) : bool :=
  match a, b with
  | TUnknown, TUnknown | THashed, THashed | TNumber, TNumber | TScalar, TScalar
  | TRevocation, TRevocation | TEnumeration, TEnumeration => true
  | _, _ => false
  end.

(** data.rs:144-154 *)
Definition is_type (c : claim) (t : ctype) : bool := ctype_eqb (claim_type c) t.

Definition len (l : bytes) : Z := Z.of_nat (length l).

(** "VB-ACC-HASH-SALT-" (accumulator.rs SALT) *)
Definition acc_salt : bytes :=
  [86;66;45;65;67;67;45;72;65;83;72;45;83;65;76;84;45].

(** Pre-image handed to SHAKE-256 for the hash-based encodings
    (hashed.rs:182-186, enumeration.rs:52-61, revocation.rs:62-64 / accumulator.rs Element::hash). *)
Definition preimage (c : claim) : option bytes :=
  match c with
  | CHashed v _ => Some v
  | CRevocation id => Some (acc_salt ++ id)
  | CEnum dst value total =>
      Some (dst ++ [len dst mod 256] ++ to_le 2 (total mod 65536) ++ [value])
  | _ => None
  end.

(** ---- scalar packing of <= 31 bytes (scalar.rs:43-88) ---- *)

Definition scalar_of_be (b : bytes) : option Z :=
  let z := of_be b in if z <? rmod then Some z else None.

Definition pack_bytes (value : bytes) : bytes :=
  match value with
  | [] => zeros 32
  | _ => [len value] ++ zeros (31 - length value) ++ value
  end.

Definition encode_packed (value : bytes) : res Z :=
  if 31 <? len value then Err
  else of_option (scalar_of_be (pack_bytes value)).

(** Rust's [data[n..]]: panics when the start lies beyond the end (or [n] underflowed). *)
Definition slice_from (n : Z) (data : bytes) : res bytes :=
  if (0 <=? n) && (n <=? len data) then Ok (skipn (Z.to_nat n) data) else Panic.

(** The length byte position read by the two decoders. *)
Definition unpack (pos : nat) (s : Z) : res bytes :=
  let data := to_be 32 s in
  match nth_error data pos with
  | None => Panic                      (* data[pos] *)
  | Some l => if 32 <? l then Err      (* explicit length check (fix 428bbc8) *)
              else slice_from (32 - l) data   (* data[32 - len..] *)
  end.

Section Codec.
  (** SHAKE-256 to 64 bytes followed by Scalar::from_bytes_wide; UTF-8 validity. *)
  Variable H_xof : bytes -> Z.
  Variable is_utf8 : bytes -> bool.

  Definition to_scalar (c : claim) : Z :=
    match c with
    | CNumber v => get_num_scalar v
    | CScalar s => s
    | _ => match preimage c with Some p => H_xof p | None => 0 end
    end.

  Definition encode_str (value : bytes) : res Z := encode_packed value.
  Definition encode_bytes (value : bytes) : res Z := encode_packed value.

  Definition decode_to_str (s : Z) : res bytes :=
    do b <- unpack 0 s; if is_utf8 b then Ok b else Err.
  Definition decode_to_bytes (s : Z) : res bytes := unpack 0 s.

  (** ---- byte codec (data.rs:77-141) ---- *)
  Definition to_bytes (c : claim) : bytes :=
    match c with
    | CHashed v _ => v
    | CNumber v => to_be 8 (as_u64 v)
    | CScalar s => to_be 32 s
    | CRevocation id => id
    | CEnum _ value _ => [value]
    end.

  Definition from_bytes (t : ctype) (data : bytes) : res claim :=
    match t with
    | THashed => Ok (CHashed data false)
    | TNumber =>
        match length data with
        | 1%nat | 2%nat | 4%nat => Ok (CNumber (of_be data))
        | 8%nat => Ok (CNumber (as_i64 (of_be data)))
        | _ => Err
        end
    | TScalar =>
        if negb (Nat.eqb (length data) 32) then Err   (* checked conversion to [u8; 32] (fix 3b055e9) *)
        else match scalar_of_be data with Some s => Ok (CScalar s) | None => Err end
    | TRevocation =>
        if negb (Nat.eqb (length data) 16) then Err
        else if is_utf8 data then Ok (CRevocation data) else Err
    | _ => Err
    end.

  (** ---- text codec (data.rs:155-239) ---- *)
  Definition pfx_hex : bytes := [104;101;120;58].
  Definition pfx_ut8 : bytes := [117;116;56;58].
  Definition pfx_scl : bytes := [115;99;108;58].
  Definition pfx_num : bytes := [110;117;109;58].
  Definition pfx_rev : bytes := [114;101;118;58].
  Definition pfx_enm : bytes := [101;110;109;58].

  (* decimal rendering through the standard library's Decimal numbers *)
  Fixpoint uint_bytes (u : Decimal.uint) : bytes :=
    match u with
    | Nil => []
    | D0 u => 48 :: uint_bytes u | D1 u => 49 :: uint_bytes u | D2 u => 50 :: uint_bytes u
    | D3 u => 51 :: uint_bytes u | D4 u => 52 :: uint_bytes u | D5 u => 53 :: uint_bytes u
    | D6 u => 54 :: uint_bytes u | D7 u => 55 :: uint_bytes u | D8 u => 56 :: uint_bytes u
    | D9 u => 57 :: uint_bytes u
    end.
  Fixpoint bytes_uint (b : bytes) : option Decimal.uint :=
    match b with
    | [] => Some Nil
    | c :: t =>
        match bytes_uint t with
        | None => None
        | Some u =>
            if c =? 48 then Some (D0 u) else if c =? 49 then Some (D1 u)
            else if c =? 50 then Some (D2 u) else if c =? 51 then Some (D3 u)
            else if c =? 52 then Some (D4 u) else if c =? 53 then Some (D5 u)
            else if c =? 54 then Some (D6 u) else if c =? 55 then Some (D7 u)
            else if c =? 56 then Some (D8 u) else if c =? 57 then Some (D9 u)
            else None
        end
    end.

  (** isize::to_string *)
  Definition dec_string (v : Z) : bytes :=
    match v with
    | Z0 => [48]
    | Zpos p => uint_bytes (Pos.to_uint p)
    | Zneg p => 45 :: uint_bytes (Pos.to_uint p)
    end.

  (** str::parse::<isize>: optional sign, at least one digit, digits only, no overflow *)
  Definition parse_isize (b : bytes) : option Z :=
    let digits (d : bytes) (neg : bool) :=
      match d with
      | [] => None
      | _ => match bytes_uint d with
             | None => None
             | Some u =>
                 let n := Z.of_N (N.of_uint u) in
                 let v := if neg then - n else n in
                 if in_i64b v then Some v else None
             end
      end in
    match b with
    | [] => None
    | c :: t =>
        if c =? 45 then digits t true
        else if c =? 43 then digits t false
        else digits b false
    end.

  (** serde_bare encoding of EnumerationClaim { dst: String, value: u8, total_values: usize } *)
  Definition bare_enum (dst : bytes) (value total : Z) : bytes :=
    uvarint (len dst) ++ dst ++ [value] ++ to_le 8 total.

  (** BARE uint: at most 10 bytes, the tenth at most 1 *)
  Fixpoint uvarint_dec (fuel : nat) (i : Z) (shift : Z) (acc : Z) (l : bytes) : option (Z * bytes) :=
    match fuel with
    | O => None
    | S f =>
        match l with
        | [] => None
        | b :: t =>
            if (9 <? i) || ((i =? 9) && (1 <? b)) then None
            else if b <? 128 then Some (acc + b * 2 ^ shift, t)
            else uvarint_dec f (i + 1) (shift + 7) (acc + (b - 128) * 2 ^ shift) t
        end
    end.

  Definition bare_enum_dec (l : bytes) : option claim :=
    match uvarint_dec 11 0 0 0 l with
    | None => None
    | Some (n, rest) =>
        if len rest <? n then None
        else
          let n' := Z.to_nat n in
          let dst := firstn n' rest in
          let rest := skipn n' rest in
          if negb (is_utf8 dst) then None
          else match rest with
               | v :: rest' =>
                   if Nat.ltb (length rest') 8 then None
                   else Some (CEnum dst v (of_le (firstn 8 rest')))
               | [] => None
               end
    end.

  (** Scalar::from_be_hex (blstrs_plus, release build): reads exactly 64 characters;
      fewer than 64 or a non-hex character among them panics; then canonical check. *)
  Definition scalar_from_be_hex (h : bytes) : res Z :=
    if len h <? 64 then Panic
    else match hex_decode (firstn 64 h) with
         | None => Panic
         | Some b => of_option (scalar_of_be b)
         end.

  Definition is_hexb (c : Z) : bool := match hex_val c with Some _ => true | None => false end.

  Definition to_text (c : claim) : res bytes :=
    match c with
    | CHashed v true => if is_utf8 v then Ok (pfx_ut8 ++ v) else Panic
    | CHashed v false => Ok (pfx_hex ++ hex_encode v)
    | CNumber v => Ok (pfx_num ++ dec_string v)
    | CScalar s => Ok (pfx_scl ++ hex_encode (to_be 32 s))
    | CRevocation id => Ok (pfx_rev ++ id)
    | CEnum dst value total => Ok (pfx_enm ++ hex_encode (bare_enum dst value total))
    end.

  (** [s.get(0..4)] / [s.get(4..)] on a str: [None] when shorter than 4 bytes or when byte 4 is a
      UTF-8 continuation byte (not a character boundary); [&s[0..4]] would panic there. *)
  Definition char_boundary_at4 (s : bytes) : bool :=
    match nth_error s 4 with
    | None => true
    | Some b => negb ((128 <=? b) && (b <? 192))
    end.

  Definition from_text (s : bytes) : res claim :=
    if (len s <? 4) || negb (char_boundary_at4 s) then Err   (* fix 3b055e9 *)
    else
      let p := firstn 4 s in
      let rest := skipn 4 s in
      if list_eqb p pfx_hex then
        match hex_decode rest with Some v => Ok (CHashed v false) | None => Err end
      else if list_eqb p pfx_ut8 then Ok (CHashed rest true)
      else if list_eqb p pfx_num then
        match parse_isize rest with Some v => Ok (CNumber v) | None => Err end
      else if list_eqb p pfx_scl then
        (* guard added by fix 3b055e9 in front of the panicking library call *)
        if negb (len rest =? 64) || negb (forallb is_hexb rest) then Err   (* exactly 64 hex digits (fix 06055a6) *)
        else rmap CScalar (scalar_from_be_hex rest)
      else if list_eqb p pfx_rev then Ok (CRevocation rest)
      else if list_eqb p pfx_enm then
        match hex_decode rest with
        | None => Err
        | Some b => of_option (bare_enum_dec b)
        end
      else Err.
  (** Values a Rust program can hold in the corresponding types. *)
  Definition wf_claim (c : claim) : Prop :=
    match c with
    | CHashed v pf => all_bytes v /\ (pf = true -> is_utf8 v = true)
    | CNumber v => in_i64 v
    | CScalar s => 0 <= s < rmod
    | CRevocation id => all_bytes id /\ is_utf8 id = true
    | CEnum dst value total =>
        all_bytes dst /\ is_utf8 dst = true /\ is_byte value /\ 0 <= total < two64
        /\ len dst < 128 ^ 8
    end.

  (** The classes of claims whose *byte* form does not decode back (known findings). *)
  Definition bytes_codec_lossy (c : claim) : Prop :=
    match c with
    | CHashed _ true => True
    | CRevocation id => length id <> 16%nat
    | CEnum _ _ _ => True
    | _ => False
    end.
End Codec.
