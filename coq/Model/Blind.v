(** Blind issuance in the exponent model: src/knox/{bbs,ps}/scheme.rs (new_blind_signature_context, blind_sign),
    src/knox/{bbs,ps}/blind_signature_context.rs (verify), src/knox/{bbs,ps}/blind_signature.rs,
    src/blind/request.rs, src/issuer.rs:186-288 (policy). *)
From Coq Require Import List Bool Arith NArith.
From ACV Require Import Model.Field Model.Pres Model.Sigs Model.Registry.
Import ListNotations.

Section Blind.
Variable K : fops.
Local Notation "a + b" := (fadd K a b).
Local Notation "a - b" := (fsub K a b).
Local Notation "a * b" := (fmul K a b).
Local Notation "0" := (f0 K).
Local Notation "1" := (f1 K).
Local Notation "- a" := (fopp K a).

Record bctx := mkBctx { bc_commitment : K; bc_challenge : K; bc_proofs : list K }.

(** generators of the claims the issuer does NOT supply, by index *)
Definition unknown_gens (ys : list K) (known : list nat) : list K := hidden_gens_from K 0 ys known.

(** the points the issuer pairs with proofs ++ [-challenge]: unknown generators, (PS: G), the commitment *)
Definition ctx_points (s : Pres.suite) (ys : list K) (known : list nat) (commitment : K) : list K :=
  unknown_gens ys known ++ (match s with PS => [1] | BBS => [] end) ++ [commitment].

(** what the issuer recomputes and hashes; the response vector must have exactly one entry per unknown
    generator (plus one for the blinding factor in PS) *)
Definition ctx_recompute (s : Pres.suite) (ys : list K) (known : list nat) (c : bctx) : option K :=
  let n := Nat.add (length (unknown_gens ys known)) (match s with PS => 1%nat | BBS => 0%nat end) in
  if Nat.eqb (length (bc_proofs c)) n
  then Some (msm K (ctx_points s ys known (bc_commitment c)) (bc_proofs c ++ [- (bc_challenge c)]))
  else None.

(** holder: hidden messages (index, value) in ascending index order, nonces, (PS) blinding and its nonce *)
Definition holder_commitment (s : suite) (ys : list K) (hidden : list (nat * K)) (blinding : K) : K :=
  revealed_sum K ys hidden + (match s with PS => blinding | BBS => 0 end).
Definition holder_random_commitment (s : suite) (ys : list K) (hidden_idx : list nat) (nonces : list K) (nb : K) : K :=
  msm K (map (fun i => match nth_error ys i with Some y => y | None => 0 end) hidden_idx ++ (match s with PS => [1] | BBS => [] end))
        (nonces ++ (match s with PS => [nb] | BBS => [] end)).
Definition holder_ctx (s : suite) (ys : list K) (hidden : list (nat * K)) (nonces : list K) (blinding nb c : K) : bctx :=
  mkBctx (holder_commitment s ys hidden blinding) c
         (responses K (nonces ++ (match s with PS => [nb] | BBS => [] end))
                      (map snd hidden ++ (match s with PS => [blinding] | BBS => [] end)) c).

(** issuer: blind signature over commitment + known claims, then unblinding by the holder *)
Definition bbs_blind_sign (x e : K) (ys : list K) (commitment : K) (known : list (nat * K)) : K :=
  (1 + commitment + revealed_sum K ys known) * finv K (x + e).
Definition ps_blind_sign (x w : K) (ys : list K) (u m_tick commitment : K) (known : list (nat * K)) : K * K :=
  (u, (x + m_tick * w + revealed_sum K ys known + commitment) * u).
Definition ps_unblind (sig : K * K) (blinding : K) : K * K := (fst sig, snd sig - fst sig * blinding).

(** issuer policy of blind_sign_credential (labels are claim indices; schema of [n] claims) *)
Definition blind_policy_ok (n : nat) (blindable : list nat) (req_labels : list nat) (known_labels : list nat) : bool :=
  Nat.eqb (Nat.add (length req_labels) (length known_labels)) n &&
  forallb (fun l => memn l blindable && negb (memn l known_labels)) req_labels &&
  nodupb (map N.of_nat req_labels).
End Blind.
