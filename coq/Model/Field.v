(** Abstract prime field used by the exponent model.  All algebraic model functions are
    polymorphic in a record of operations [fops]; lemma files assume [is_field K] as a
    Section hypothesis (never an Axiom), so every theorem reads
    [forall K, is_field K -> ...].  The executable instance is Exec/ZrBig.v. *)
From Coq Require Import Field List Bool.
Import ListNotations.

Record fops := mkF {
  F :> Type; f0 : F; f1 : F;
  fadd : F -> F -> F; fmul : F -> F -> F; fsub : F -> F -> F;
  fopp : F -> F; finv : F -> F; feqb : F -> F -> bool }.

Definition fdiv (K : fops) (a b : K) : K := fmul K a (finv K b).

Definition is_field (K : fops) : Prop :=
  field_theory (f0 K) (f1 K) (fadd K) (fmul K) (fsub K) (fopp K) (fdiv K) (finv K) eq.

Definition feqb_ok (K : fops) : Prop := forall a b : K, feqb K a b = true <-> a = b.

(** products / sums over lists *)
Definition fprod (K : fops) (l : list K) : K := fold_right (fmul K) (f1 K) l.
Definition fsum (K : fops) (l : list K) : K := fold_right (fadd K) (f0 K) l.

(** truncating multi-scalar multiplication in the exponent: sum_i p_i * s_i over
    min(len p, len s) terms — blstrs_plus sum_of_products stops at the shorter slice *)
Fixpoint msm (K : fops) (ps ss : list K) : K :=
  match ps, ss with
  | p :: pt, s :: st => fadd K (fmul K p s) (msm K pt st)
  | _, _ => f0 K
  end.
