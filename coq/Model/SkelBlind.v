(** Structural skeleton of the blind-issuance entry points (C20): BlindCredentialRequest::new (holder, from
    issuer-supplied public data), Issuer::blind_sign_credential with S::blind_sign, the blind-signature
    context verification and BlindSignature::new (issuer, from a holder-supplied request),
    BlindCredentialRequest::verify, and BlindCredentialBundle::to_unblinded (holder, from an
    issuer-supplied bundle).  Labels are numbers; every slice / map index of the code is a checked
    primitive; cryptographic and validator outcomes are oracle booleans. *)
From Coq Require Import List Bool Arith Lia.
From ACV Require Import Model.Res Model.Skeleton Model.SkelCreate.
Import ListNotations.

(** the parts of a credential schema and of a key that matter *)
Record bschema := { b_labels : list nat;      (* claim_indices, in index order *)
                    b_blindable : list nat;   (* blind_claims *)
                    b_nclaims : nat }.        (* claims.len() *)

(** new_blind_signature_context: messages (index, _) against the list of generators *)
Fixpoint ctx_points (ngens : nat) (idxs : list nat) : res unit :=
  match idxs with
  | [] => Ok tt
  | i :: t => if ngens <=? i then Err
              else do _ <- idx (repeat tt ngens) i; ctx_points ngens t     (* public_key.y[*i] / y_blinds[*i] *)
  end.

Fixpoint insert_sorted (i : nat) (l : list nat) : list nat :=
  match l with [] => [i] | x :: t => if i <=? x then i :: l else x :: insert_sorted i t end.

(** BlindCredentialRequest::new *)
Fixpoint request_indices (sc : bschema) (labels : list nat) : res (list nat) :=
  match labels with
  | [] => Ok []
  | l :: t => if negb (memn l (b_blindable sc)) then Err
              else match index_of l (b_labels sc) with
                   | None => Err
                   | Some i => rmap (insert_sorted i) (request_indices sc t)
                   end
  end.
Definition request_new (sc : bschema) (ngens : nat) (labels : list nat) (orc : bool) : res unit :=
  do is <- request_indices sc labels;
  do _ <- ctx_points ngens is;
  if orc then Ok tt else Err.

(** BlindSignatureContext::verify (both suites): known indices must lie below the key length, the
    response count must match, the recomputed challenge must agree *)
Definition ctx_verify (ps : bool) (nkey nresp : nat) (known : list nat) (orc : bool) : res bool :=
  if existsb (fun i => nkey <=? i) known then Err
  else
    let unknown := length (filter (fun i => negb (memn i known)) (seq 0 nkey)) in
    if negb (Nat.eqb nresp (unknown + (if ps then 1 else 0))) then Ok false
    else Ok orc.

(** BlindSignature::new: indexes the key's generators with the issuer-known indices *)
Fixpoint blind_sig_points (nkey : nat) (known : list nat) : res unit :=
  match known with
  | [] => Ok tt
  | i :: t => do _ <- idx (repeat tt nkey) i; blind_sig_points nkey t      (* expanded_pub_key.y[*i] / sk.y[*i] *)
  end.

Definition blind_sign (ps : bool) (nkey nresp : nat) (known : list nat) (orc_chal orc_sig : bool) : res unit :=
  do ok <- ctx_verify ps nkey nresp known orc_chal;
  if negb ok then Err
  else if (negb ps) && (match known with [] => true | _ => false end) then Err      (* BBS: "No messages" *)
  else if negb orc_sig then Err
  else blind_sig_points nkey known.

(** Issuer::blind_sign_credential *)
Fixpoint policy_ok (sc : bschema) (req_labels known_labels seen : list nat) : bool :=
  match req_labels with
  | [] => true
  | l :: t => if negb (memn l (b_blindable sc)) || memn l known_labels || memn l seen then false
              else policy_ok sc t known_labels (l :: seen)
  end.

Fixpoint known_indices (sc : bschema) (known_labels : list nat) (valid : nat -> bool) : res (list nat) :=
  match known_labels with
  | [] => Ok []
  | l :: t => match index_of l (b_labels sc) with
              | None => Err
              | Some i => do _ <- idx (repeat tt (b_nclaims sc)) i;       (* self.schema.claims[index] *)
                          if negb (valid l) then Err else rmap (cons i) (known_indices sc t valid)
              end
  end.

Definition blind_sign_credential (ps : bool) (sc : bschema) (nkey nresp : nat) (req_labels known_labels : list nat)
    (valid : nat -> bool) (has_revocation not_revoked orc_chal orc_sig : bool) : res unit :=
  if negb (Nat.eqb (length req_labels + length known_labels) (b_nclaims sc)) then Err
  else if negb (policy_ok sc req_labels known_labels []) then Err
  else
    do known <- known_indices sc known_labels valid;
    if negb has_revocation then Err
    else if negb not_revoked then Err
    else blind_sign ps nkey nresp known orc_chal orc_sig.

(** BlindCredentialRequest::verify *)
Fixpoint verify_indices (sc : bschema) (labels : list nat) : res (list nat) :=
  match labels with
  | [] => Ok []
  | l :: t => if negb (memn l (b_blindable sc)) then Err
              else match index_of l (b_labels sc) with
                   | None => Err
                   | Some i => rmap (cons i) (verify_indices sc t)
                   end
  end.
Definition request_verify (ps : bool) (sc : bschema) (nkey nresp : nat) (labels : list nat) (orc : bool) : res unit :=
  do is <- verify_indices sc labels;
  do ok <- ctx_verify ps nkey nresp is orc;
  if ok then Ok tt else Err.

(** BlindCredentialBundle::to_unblinded: rebuild the claim order from the labels *)
Fixpoint place (sc : bschema) (labels : list nat) (ordering : list (option nat)) : res (list (option nat)) :=
  match labels with
  | [] => Ok ordering
  | l :: t => match index_of l (b_labels sc) with
              | None => Err
              | Some i => if i <? length ordering then place sc t (set_nth i (Some l) ordering) else Err   (* ordering.get_mut(index) *)
              end
  end.
Definition to_unblinded (sc : bschema) (bundle_labels blind_labels : list nat) (revocation_label : nat) : res unit :=
  if existsb (fun l => negb (memn l (b_blindable sc)) || memn l bundle_labels) blind_labels then Err
  else
    let all := bundle_labels ++ blind_labels in
    do ordering <- place sc all (repeat None (length all));
    if existsb (fun o => match o with None => true | Some l => negb (memn l all) end) ordering then Err   (* claims.remove(label) *)
    else match index_of revocation_label (b_labels sc) with None => Err | Some _ => Ok tt end.
