(** Byte strings as lists of Z in [0,256), big/little-endian conversions, hex. *)
From Coq Require Import ZArith List Bool.
Import ListNotations.
Open Scope Z_scope.

Definition bytes := list Z.
Definition is_byte (b : Z) : Prop := 0 <= b < 256.
Definition all_bytes (l : bytes) : Prop := Forall is_byte l.
Definition is_byteb (b : Z) : bool := (0 <=? b) && (b <? 256).
Definition all_bytesb (l : bytes) : bool := forallb is_byteb l.

(** big-endian value of a byte list *)
Fixpoint of_be_acc (acc : Z) (l : bytes) : Z :=
  match l with [] => acc | b :: t => of_be_acc (acc * 256 + b) t end.
Definition of_be (l : bytes) : Z := of_be_acc 0 l.

(** n big-endian bytes of z (low n bytes when z is larger) *)
Fixpoint to_be (n : nat) (z : Z) : bytes :=
  match n with O => [] | S k => to_be k (z / 256) ++ [z mod 256] end.

Definition of_le (l : bytes) : Z := of_be (rev l).
Definition to_le (n : nat) (z : Z) : bytes := rev (to_be n z).

Definition zeros (n : nat) : bytes := repeat 0 n.

(** hex digits (ASCII codes) *)
Definition hex_digit (d : Z) : Z := if d <? 10 then 48 + d else 87 + d.   (* lower case *)
Definition hex_val (c : Z) : option Z :=
  if (48 <=? c) && (c <=? 57) then Some (c - 48)
  else if (97 <=? c) && (c <=? 102) then Some (c - 87)
  else if (65 <=? c) && (c <=? 70) then Some (c - 55)
  else None.

Fixpoint hex_encode (l : bytes) : bytes :=
  match l with [] => [] | b :: t => hex_digit (b / 16) :: hex_digit (b mod 16) :: hex_encode t end.

(** hex::decode — odd length or a non-hex character is an error *)
Fixpoint hex_decode (l : bytes) : option bytes :=
  match l with
  | [] => Some []
  | [_] => None
  | a :: b :: t =>
      match hex_val a, hex_val b, hex_decode t with
      | Some x, Some y, Some r => Some (x * 16 + y :: r)
      | _, _, _ => None
      end
  end.

Fixpoint list_eqb (a b : bytes) : bool :=
  match a, b with
  | [], [] => true
  | x :: a', y :: b' => (x =? y) && list_eqb a' b'
  | _, _ => false
  end.

(** unsigned LEB128 (BARE uint, uint-zigzag): little-endian base-128 groups *)
Fixpoint uvarint_fuel (fuel : nat) (n : Z) : bytes :=
  match fuel with
  | O => []
  | S f => if n <? 128 then [n] else (n mod 128 + 128) :: uvarint_fuel f (n / 128)
  end.
Definition uvarint (n : Z) : bytes := uvarint_fuel 11 n.   (* enough for n < 2^77 *)
