(** Results of modelled Rust operations: Ok, an error value, or an unwinding panic. *)
From Coq Require Import String.

Inductive res (A : Type) : Type :=
| Ok (a : A)
| Err
| Panic.
Arguments Ok {A} a.
Arguments Err {A}.
Arguments Panic {A}.

Definition rbind {A B} (x : res A) (f : A -> res B) : res B :=
  match x with Ok a => f a | Err => Err | Panic => Panic end.
Definition rmap {A B} (f : A -> B) (x : res A) : res B :=
  match x with Ok a => Ok (f a) | Err => Err | Panic => Panic end.
Definition of_option {A} (o : option A) : res A :=
  match o with Some a => Ok a | None => Err end.
Definition is_ok {A} (x : res A) : bool := match x with Ok _ => true | _ => false end.
Definition is_panic {A} (x : res A) : bool := match x with Panic => true | _ => false end.

Notation "'do' x <- e1 ; e2" := (rbind e1 (fun x => e2))
  (at level 200, x name, e1 at level 100, e2 at level 200, right associativity).
