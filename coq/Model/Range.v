(** Range statements (src/presentation/range.rs:122-217, src/verifier/range.rs:20-141).
    The adjusted values are u64 arithmetic; [build] says what an overflow does. *)
From Coq Require Import ZArith Bool.
From ACV Require Import Model.Res Model.Ints.
Open Scope Z_scope.

Definition i64_min : Z := - two63.
Definition i64_max : Z := two63 - 1.
Definition u64_max : Z := two64 - 1.

Definition bound_lo (lo : option Z) : Z := match lo with Some l => l | None => i64_min end.
Definition bound_hi (hi : option Z) : Z := match hi with Some h => h | None => i64_max end.

(** the property's reading of a range statement *)
Definition in_range (v : Z) (lo hi : option Z) : Prop := bound_lo lo <= v <= bound_hi hi.

(** prover pre-check (range.rs:134-146): [message < lower || message > upper] refuses *)
Definition precheck (v : Z) (lo hi : option Z) : bool :=
  negb ((v <? bound_lo lo) || (bound_hi hi <? v)).

Inductive build := Debug | Release.

(** u64 subtraction / addition: panic on overflow in debug builds, wrap in release builds *)
Definition u64_sub (b : build) (x y : Z) : res Z :=
  if y <=? x then Ok (x - y) else match b with Debug => Panic | Release => Ok ((x - y) mod two64) end.
Definition u64_add (b : build) (x y : Z) : res Z :=
  if x + y <? two64 then Ok (x + y) else match b with Debug => Panic | Release => Ok ((x + y) mod two64) end.

(** adjusted values computed by the prover (range.rs:158-205) *)
Definition adjusted_lower (b : build) (v lo : Z) : res Z := u64_sub b (zero_center v) (zero_center lo).
Definition adjusted_upper (b : build) (v hi : Z) : res Z :=
  u64_add b (zero_center v) (u64_max - zero_center hi).

(** RangeBuilder::commit as a decision: Err when there is no bound or the value is outside,
    otherwise the adjusted values handed to the bulletproof prover *)
Definition range_commit (b : build) (v : Z) (lo hi : option Z) : res (option Z * option Z) :=
  if negb (precheck v lo hi) then Err
  else match lo, hi with
       | None, None => Err
       | Some l, None => do a <- adjusted_lower b v l; Ok (Some a, None)
       | None, Some h => do a <- adjusted_upper b v h; Ok (None, Some a)
       | Some l, Some h =>
           do a <- adjusted_lower b v l; do c <- adjusted_upper b v h; Ok (Some a, Some c)
       end.

(** Field offsets the verifier applies to the commitment (verifier/range.rs:33-75):
    C - G*sc_lower and C + G*sc_upper, i.e. in the exponent m - zc(lo) and m + (MAX - zc(hi)). *)
Definition verifier_lower_offset (lo : Z) : Z := zero_center lo.
Definition verifier_upper_offset (hi : Z) : Z := u64_max - zero_center hi.

(** A 64-bit range proof on a commitment to the field element x (mod r) is satisfiable
    exactly when x is congruent to some k in [0, 2^64) — ideal bulletproof + binding. *)
Definition opens_in_u64 (x : Z) : Prop := exists k, 0 <= k < two64 /\ x mod rmod = k mod rmod.

(** What the verifier's two (or one) range proofs assert about the signed scalar m. *)
Definition verifier_accepts_value (m : Z) (lo hi : option Z) : Prop :=
  (match lo with Some l => opens_in_u64 (m - verifier_lower_offset l) | None => True end) /\
  (match hi with Some h => opens_in_u64 (m + verifier_upper_offset h) | None => True end).
