(** Issuer revocation bookkeeping: src/revocation_registry.rs, src/issuer.rs (sign_credential,
    blind_sign_credential, update_revocation_handle, revoke_credentials).

    IndexSet<String> = duplicate-free list in insertion order; identifiers are abstracted to N
    (the harness maps its identifier alphabet to numbers).  The accumulator value is
    v0 * prod_{x in removed} 1/(h x + alpha): the registry never multiplies on issuance
    (src/issuer.rs computes a witness and only records the identifier), it only divides on
    revocation (Accumulator::remove_elements_assign); `removed` is the list of identifiers
    divided out so far, in order. *)
From Coq Require Import List NArith Bool.
Import ListNotations.

Definition id := N.

Definition mem (x : id) (l : list id) : bool := existsb (N.eqb x) l.

(** IndexSet::shift_remove: removes the (unique) occurrence, keeps the order of the rest *)
Fixpoint shift_remove (x : id) (l : list id) : list id :=
  match l with
  | [] => []
  | y :: t => if N.eqb x y then t else y :: shift_remove x t
  end.

(** IndexSet::insert: appends unless present *)
Definition insert (x : id) (l : list id) : list id := if mem x l then l else l ++ [x].

Fixpoint nodupb (l : list id) : bool :=
  match l with
  | [] => true
  | x :: t => negb (mem x t) && nodupb t
  end.

Record reg := mkReg { elements : list id; active : list id; removed : list id }.

Definition reg0 : reg := mkReg [] [] [].

Inductive op :=
| Issue (i : id)                       (* sign_credential with conformant claims, revocation id i *)
| BlindIssue (i : id) (valid : bool)   (* blind_sign_credential; valid = the request's proof verifies *)
| Revoke (b : list id)                 (* revoke_credentials *)
| Refresh (i : id)                     (* update_revocation_handle *)
| PersistRestore.                      (* serde round trip of the Issuer *)

Inductive out := OOk | OErr.

Definition already_revoked (s : reg) (i : id) : bool :=
  negb (mem i (active s)) && mem i (elements s).

Definition record (s : reg) (i : id) : reg :=
  mkReg (insert i (elements s)) (insert i (active s)) (removed s).

(** RevocationRegistry::revoke: every identifier of the batch must be active and the batch
    duplicate-free, checked before anything is removed; then the identifiers leave `active`
    one by one and the accumulator is divided once by all of them. *)
Definition revoke_ok (s : reg) (b : list id) : bool :=
  forallb (fun x => mem x (active s)) b && nodupb b.

Definition revoke (s : reg) (b : list id) : reg * out :=
  if revoke_ok s b
  then (mkReg (elements s) (fold_left (fun a x => shift_remove x a) b (active s)) (removed s ++ b), OOk)
  else (s, OErr).

Definition step (s : reg) (o : op) : reg * out :=
  match o with
  | Issue i => if already_revoked s i then (s, OErr) else (record s i, OOk)
  | BlindIssue i valid =>
      if already_revoked s i then (s, OErr)
      else if valid then (record s i, OOk) else (s, OErr)
  | Revoke b => revoke s b
  | Refresh i => (s, if mem i (active s) then OOk else OErr)
  | PersistRestore => (s, OOk)
  end.

Definition run (ops : list op) (s : reg) : reg := fold_left (fun s o => fst (step s o)) ops s.

Fixpoint trace (ops : list op) (s : reg) : list (out * reg) :=
  match ops with
  | [] => []
  | o :: t => let '(s', r) := step s o in (r, s') :: trace t s'
  end.

(** ------------------------------------------------------------------------------------
    Abstract specification: the set of identifiers ever issued and the set revoked. *)
Record spec := mkSpec { issued : list id; revoked : list id }.
Definition spec0 : spec := mkSpec [] [].
Definition s_active (a : spec) (i : id) : bool := mem i (issued a) && negb (mem i (revoked a)).

Definition spec_step (a : spec) (o : op) : spec * out :=
  match o with
  | Issue i => if mem i (revoked a) then (a, OErr) else (mkSpec (i :: issued a) (revoked a), OOk)
  | BlindIssue i valid =>
      if mem i (revoked a) then (a, OErr)
      else if valid then (mkSpec (i :: issued a) (revoked a), OOk) else (a, OErr)
  | Revoke b =>
      if forallb (s_active a) b && nodupb b then (mkSpec (issued a) (b ++ revoked a), OOk) else (a, OErr)
  | Refresh i => (a, if s_active a i then OOk else OErr)
  | PersistRestore => (a, OOk)
  end.

Fixpoint spec_trace (ops : list op) (a : spec) : list out :=
  match ops with
  | [] => []
  | o :: t => let '(a', r) := spec_step a o in r :: spec_trace t a'
  end.
Definition spec_run (ops : list op) (a : spec) : spec := fold_left (fun a o => fst (spec_step a o)) ops a.
