(** Scalar decryption from the byte decomposition (presentation/verifiable_encryption.rs decrypt_scalar,
    verifier/verifiable_encryption.rs): the verifier checks [sum_i 256^(31-i) * byte_i = m] in the field
    (weighted sum of the byte ciphertexts against the ciphertext of the claim), each byte being in
    [0, 256) by its range proof; the decryptor recovers the bytes one by one and reassembles them. *)
From Coq Require Import ZArith List.
From ACV Require Import Model.Ints Model.Bytes.
Import ListNotations.
Open Scope Z_scope.

(** what the verifier's sum check establishes about the recovered bytes and the signed claim m *)
Definition sum_check (bs : bytes) (m : Z) : Prop := of_be bs mod rmod = m mod rmod.

(** the pinned tree: the bytes are handed to the canonical-only decoder *)
Definition reassemble_canonical (bs : bytes) : option Z :=
  let z := of_be bs in if z <? rmod then Some z else None.

(** after fix 29a40fd: Horner evaluation in the field *)
Definition reassemble_field (bs : bytes) : Z :=
  fold_left (fun acc b => (acc * 256 + b) mod rmod) bs 0.
