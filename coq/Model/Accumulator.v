(** VB20 accumulator in the exponent model: src/knox/accumulator/vb20.rs (Polynomial,
    PolynomialG1, dad), vb20/key.rs (batch_additions, batch_deletions, create_coefficients),
    vb20/accumulator.rs (update), vb20/witness.rs (witness creation, verification, single-step /
    batch / multi-batch update, evaluate_delta, evaluate_deltas).

    G1 points are represented by their discrete logarithm w.r.t. the generator; the pairing check
    e(C, y*P2 + Q) = e(V, P2) becomes C * (y + alpha) = V. *)
From Coq Require Import List Bool.
From ACV Require Import Model.Field.
Import ListNotations.

Section Acc.
Variable K : fops.
Local Notation "a + b" := (fadd K a b).
Local Notation "a - b" := (fsub K a b).
Local Notation "a * b" := (fmul K a b).
Local Notation "0" := (f0 K).
Local Notation "1" := (f1 K).

(** ---- polynomials: coefficient lists, lowest degree first -------------------------------- *)

(** `+=` of Polynomial and PolynomialG1: when self is the shorter operand it is extended by the
    tail of rhs; the common prefix is added pointwise *)
Fixpoint padd (p q : list K) : list K :=
  match p, q with
  | [], _ => q
  | _, [] => p
  | a :: p', b :: q' => (a + b) :: padd p' q'
  end.

(** `-=`: as `+=` with the tail negated *)
Fixpoint psub (p q : list K) : list K :=
  match p, q with
  | [], _ => map (fopp K) q
  | _, [] => p
  | a :: p', b :: q' => (a - b) :: psub p' q'
  end.

Definition pscale (c : K) (p : list K) : list K := map (fun a => a * c) p.

(** `poly *= &[j, -1]` for a non-empty poly: result has one more coefficient,
    r[i] = j*p[i] - p[i-1] *)
Definition pmul_lin (p : list K) (j : K) : list K :=
  padd (map (fun a => j * a) p ++ [0]) (0 :: map (fun a => fopp K 1 * a) p).

(** PolynomialG1::evaluate: None on the empty polynomial, else Horner-free power sum *)
Fixpoint peval_from (p : list K) (x pw : K) : K :=
  match p with
  | [] => 0
  | a :: t => a * pw + peval_from t x (pw * x)
  end.
Definition peval (p : list K) (x : K) : K := peval_from p x 1.
Definition evaluate (p : list K) (x : K) : option K :=
  match p with [] => None | _ => Some (peval p x) end.

(** ---- secret-key side ---------------------------------------------------------------------- *)
Variable alpha : K.

Definition batch_additions (l : list K) : K := fold_left (fun a y => a * y) (map (fun v => v + alpha) l) 1.
Definition batch_deletions (l : list K) : K := finv K (batch_additions l).

(** dA(x), dD(x) *)
Definition dad (l : list K) (y : K) : K :=
  match l with
  | [v] => v - y
  | _ => fold_left (fun a z => a * z) (map (fun v => v - y) l) 1
  end.

(** prefixes deletions[0..s+1] and the s-th partial polynomial, s = 0 .. m-1 *)
Definition vd_term (dels : list K) (s : nat) : list K :=
  let c := batch_deletions (firstn (S s) dels) in
  pscale c (fold_left pmul_lin (firstn s dels) [1]).
Definition va_term (adds : list K) (s : nat) : list K :=
  let c := match s with O => 1 | _ => batch_additions (firstn s adds) end in
  pscale c (fold_left pmul_lin (skipn (S s) adds) [1]).

Definition create_coefficients (adds dels : list K) : list K :=
  let v_d := fold_left (fun acc s => padd acc (vd_term dels s)) (seq 0 (length dels)) [] in
  let v_d := pscale (batch_additions adds) v_d in
  let v_a := fold_left (fun acc s => padd acc (va_term adds s)) (seq 0 (length adds)) [] in
  psub v_a v_d.

(** Accumulator::update_assign: new value and published coefficients Omega = V * c_i *)
Definition acc_update (V : K) (adds dels : list K) : K * list K :=
  let a := batch_additions adds * batch_deletions dels in
  (V * a, map (fun c => V * c) (create_coefficients adds dels)).

(** MembershipWitness::new / verify *)
Definition mem_new (y V : K) : K := V * finv K (y + alpha).
Definition mem_verify (C y V : K) : bool := feqb K (C * (y + alpha)) V.

(** NonMembershipWitness::new (for the accumulator with_elements = prod (e + alpha)) / verify *)
Definition acc_with_elements (els : list K) : K := batch_additions els.
Definition nonmem_new (y : K) (els : list K) : option (K * K) :=
  if existsb (feqb K y) els then None
  else
    let fv := fold_left (fun a z => a * z) (map (fun e => e + alpha) els) 1 in
    let d := fold_left (fun a z => a * z) (map (fun e => e - y) els) 1 in
    Some ((fv - d) * finv K (y + alpha), d).
Definition nonmem_verify (w : K * K) (y V : K) : bool := feqb K (fst w * (y + alpha) + snd w) V.

(** ---- public side ------------------------------------------------------------------------- *)
Inductive delta_res := DOk (d p : K) | DNoInverse | DEmptyPoly.

(** evaluate_delta *)
Definition evaluate_delta (y : K) (adds dels omega : list K) : delta_res :=
  let dd := dad dels y in
  if feqb K dd 0 then DNoInverse
  else
    let ddi := finv K dd in
    let da := dad adds y * ddi in
    match evaluate omega y with
    | Some v => DOk da (v * ddi)
    | None => DEmptyPoly
    end.

Definition batch := (list K * list K * list K)%type.   (* additions, deletions, coefficients *)

(** evaluate_deltas: aa_i = dA_i(y), dd_i = dD_i(y);
    poly = sum_i (prod_{h<i} dd_h) (prod_{k>i} aa_k) Omega_i, accumulated with `+=` from i = 0 *)
Definition fprod_l (l : list K) : K := fold_left (fun a z => a * z) l 1.
Definition evaluate_deltas (y : K) (deltas : list batch) : delta_res :=
  let aa := map (fun b => dad (fst (fst b)) y) deltas in
  let dd := map (fun b => dad (snd (fst b)) y) deltas in
  let acc_a := fprod_l aa in
  let acc_d := fprod_l dd in
  if feqb K acc_d 0 then DNoInverse
  else
    let acc_di := finv K acc_d in
    let poly := fold_left (fun acc i =>
                  let ddh := fprod_l (firstn i dd) in
                  let dak := fprod_l (skipn (S i) aa) in
                  padd acc (pscale (dak * ddh) (snd (nth i deltas ([], [], [])))))
                (seq 0 (length deltas)) [] in
    match evaluate poly y with
    | Some v => DOk (acc_a * acc_di) (v * acc_di)
    | None => DEmptyPoly
    end.

(** apply_delta for membership and non-membership witnesses *)
Definition apply_delta (C : K) (r : delta_res) : K :=
  match r with DOk d p => C * d + p | _ => C end.
Definition apply_delta_nm (w : K * K) (r : delta_res) : K * K :=
  match r with DOk d p => (fst w * d + p, snd w * d) | _ => w end.

Definition batch_update (C y : K) (adds dels omega : list K) : K :=
  apply_delta C (evaluate_delta y adds dels omega).
Definition multi_batch_update (C y : K) (deltas : list batch) : K :=
  apply_delta C (evaluate_deltas y deltas).
Definition batch_update_nm (w : K * K) (y : K) (adds dels omega : list K) : K * K :=
  apply_delta_nm w (evaluate_delta y adds dels omega).
Definition multi_batch_update_nm (w : K * K) (y : K) (deltas : list batch) : K * K :=
  apply_delta_nm w (evaluate_deltas y deltas).

(** single-step MembershipWitness::update_assign: deletions first, each with the NEW accumulator,
    returning early (keeping what was done so far) when y is being deleted; then additions, each
    with the OLD accumulator *)
Fixpoint upd_dels (C y Vnew : K) (dels : list K) : K * bool :=
  match dels with
  | [] => (C, true)
  | d :: t => let diff := d - y in
              if feqb K diff 0 then (C, false)
              else upd_dels ((C - Vnew) * finv K diff) y Vnew t
  end.
Definition upd_adds (C y Vold : K) (adds : list K) : K :=
  fold_left (fun c a => c * (a - y) + Vold) adds C.
Definition single_update (C y Vold Vnew : K) (adds dels : list K) : K :=
  let '(C1, cont) := upd_dels C y Vnew dels in
  if cont then upd_adds C1 y Vold adds else C1.

Fixpoint upd_dels_nm (w : K * K) (y Vnew : K) (dels : list K) : (K * K) * bool :=
  match dels with
  | [] => (w, true)
  | d :: t => let diff := d - y in
              if feqb K diff 0 then (w, false)
              else let di := finv K diff in upd_dels_nm ((fst w - Vnew) * di, snd w * di) y Vnew t
  end.
Definition upd_adds_nm (w : K * K) (y Vold : K) (adds : list K) : K * K :=
  fold_left (fun c a => (fst c * (a - y) + Vold, snd c * (a - y))) adds w.
Definition single_update_nm (w : K * K) (y Vold Vnew : K) (adds dels : list K) : K * K :=
  let '(w1, cont) := upd_dels_nm w y Vnew dels in
  if cont then upd_adds_nm w1 y Vold adds else w1.

End Acc.
