(** Structural skeleton of [Presentation::verify] (presentation/verify.rs, verifier/*.rs and the
    two proofs of signature knowledge): the same control flow with every cryptographic test
    replaced by an oracle boolean, and every Rust operation that can unwind (slice indexing,
    unsigned subtraction) modelled by a checked primitive that returns [Panic].
    Used by C20: the no-panic theorem quantifies over every structure and every oracle. *)
From Coq Require Import ZArith List Bool Arith Lia.
From ACV Require Import Model.Res.
Import ListNotations.

(** ---- primitives that can unwind ---- *)
Definition idx {A} (l : list A) (i : nat) : res A :=          (* l[i] *)
  match nth_error l i with Some a => Ok a | None => Panic end.
Definition usub (a b : nat) : res nat :=                      (* a - b on usize *)
  if b <=? a then Ok (a - b) else Panic.

Inductive kind := KSig | KRev | KMem | KEq | KComm | KRange | KVenc | KVdec.
Definition kind_eqb (a b : kind) : bool :=
  match a, b with
  | KSig, KSig | KRev, KRev | KMem, KMem | KEq, KEq | KComm, KComm | KRange, KRange
  | KVenc, KVenc | KVdec, KVdec => true
  | _, _ => false
  end.

Inductive suite := BBS | PS.
Definition resp_offset (s : suite) : nat := match s with BBS => 0 | PS => 2 end.

(** identifiers and labels are interned as numbers by the harness *)
Record sstmt := {
  s_key : nat;                  (* key under which the statement is stored in the schema *)
  s_kind : kind;
  s_id : nat;                   (* the id field of the statement itself *)
  s_ref : nat;                  (* reference_id of a predicate statement *)
  s_claim : nat;
  s_refs : list (nat * nat);    (* equality: (signature statement id, claim index) *)
  s_disclosed : list nat;       (* signature: requested labels *)
  s_labels : list nat;          (* signature: labels of the issuer's schema in index order *)
  s_keylen : nat;               (* signature: number of message generators of the key *)
  s_lo : bool; s_hi : bool;     (* range: presence of the bounds *)
  s_dec : bool                  (* verifiable encryption: scalar decryption requested *)
}.

Record sproof := {
  p_key : nat;                  (* key under which the proof is stored *)
  p_kind : kind;
  p_id : nat;                   (* the id the proof carries *)
  p_disc : list (nat * Z);      (* signature proof: disclosed (index, scalar), in its own order *)
  p_nresp : nat;                (* signature proof: number of responses *)
  p_has_dec : bool              (* verifiable encryption: decryptable part present *)
}.

Record spres := {
  proofs : list sproof;
  reported : list (nat * list (nat * Z))   (* statement id -> label -> scalar of the reported claim *)
}.

(** outcomes of the cryptographic tests, indexed by the statement key *)
Record oracle := {
  o_key_invalid : nat -> bool;     (* PublicKey::is_invalid *)
  o_fs_equal : bool;               (* recomputed challenge = presented challenge *)
  o_identity : nat -> bool;        (* identity elements in a signature proof *)
  o_pok : nat -> bool;             (* commitment / pairing equations of a signature proof *)
  o_pred : nat -> bool;            (* post-challenge test of a predicate proof *)
  o_eq : nat -> bool               (* all referenced responses of an equality statement equal *)
}.

Definition find_proof (P : spres) (k : nat) : option sproof :=
  find (fun p => Nat.eqb (p_key p) k) (proofs P).
Definition find_stmt (S : list sstmt) (k : nat) : option sstmt :=
  find (fun s => Nat.eqb (s_key s) k) S.
Fixpoint assoc {A} (k : nat) (l : list (nat * A)) : option A :=
  match l with
  | [] => None
  | (k', a) :: t => if Nat.eqb k k' then Some a else assoc k t
  end.
Fixpoint index_of (x : nat) (l : list nat) : option nat :=
  match l with
  | [] => None
  | y :: t => if Nat.eqb x y then Some 0 else option_map S (index_of x t)
  end.

(** BTreeMap<usize, Scalar>::insert *)
Fixpoint bt_insert (k : nat) (v : Z) (m : list (nat * Z)) : list (nat * Z) :=
  match m with
  | [] => [(k, v)]
  | (k', v') :: t =>
      if k <? k' then (k, v) :: m
      else if Nat.eqb k k' then (k, v) :: t
      else (k', v') :: bt_insert k v t
  end.

Definition pair_eqb (a b : nat * Z) : bool := Nat.eqb (fst a) (fst b) && Z.eqb (snd a) (snd b).
Fixpoint seq_eqb (a b : list (nat * Z)) : bool :=
  match a, b with
  | [], [] => true
  | x :: a', y :: b' => pair_eqb x y && seq_eqb a' b'
  | _, _ => false
  end.

(** check_disclosed_messages (verify.rs) *)
Fixpoint expected_map (labels : list nat) (rep : list (nat * Z)) (req : list nat) (acc : list (nat * Z))
  : res (list (nat * Z)) :=
  match req with
  | [] => Ok acc
  | l :: t =>
      match index_of l labels with
      | None => expected_map labels rep t acc          (* label the issuer's schema does not contain *)
      | Some i =>
          match assoc l rep with
          | None => Err
          | Some sc => expected_map labels rep t (bt_insert i sc acc)
          end
      end
  end.

Definition check_disclosed (s : sstmt) (p : sproof) (rep : list (nat * Z)) : res unit :=
  do e <- expected_map (s_labels s) rep (s_disclosed s) [];
  if negb (Nat.eqb (length rep) (length e)) || negb (Nat.eqb (length (p_disc p)) (length e)) then Err
  else if seq_eqb (p_disc p) e then Ok tt else Err.

(** get_hidden_message_proofs (bbs/pok_signature_proof.rs, ps/pok_signature_proof.rs):
    [rem] generators remain, [i] is the current index, [j] the number of consumed disclosed entries *)
Fixpoint walk (rem i j off : nat) (disc : list (nat * Z)) (nresp : nat) (acc : list nat) : res (list nat) :=
  match rem with
  | O => Ok (rev acc)
  | S rem' =>
      let hidden :=
        do d <- usub (i + off) j;                     (* i - j  /  i + 2 - j *)
        if d <? nresp then walk rem' (S i) j off disc nresp (i :: acc)   (* proof.get(d) *)
        else Err in
      if j <? length disc then
        do e <- idx disc j;                            (* rvl_msgs[j] *)
        if Nat.eqb (fst e) i then walk rem' (S i) (S j) off disc nresp acc else hidden
      else hidden
  end.

Definition hidden_message_proofs (su : suite) (O : oracle) (st : sstmt) (p : sproof) : res (list nat) :=
  if s_keylen st <? length (p_disc p) then Err
  else if o_key_invalid O (s_key st) then Err
  else walk (s_keylen st) 0 0 (resp_offset su) (p_disc p) (p_nresp p) [].

(** get_sig_hidden_message_proofs (verify.rs) *)
Definition sig_hidden (su : suite) (O : oracle) (S : list sstmt) (P : spres) (ref : nat) : res (list nat) :=
  match find_proof P ref with
  | None => Err
  | Some sp =>
      if negb (kind_eqb (p_kind sp) KSig) then Err
      else match find_stmt S (p_id sp) with
           | None => Err
           | Some st => if negb (kind_eqb (s_kind st) KSig) then Err
                        else hidden_message_proofs su O st sp
           end
  end.

Definition memn (x : nat) (l : list nat) : bool := existsb (Nat.eqb x) l.

(** ---- first pass: transcript contributions ---- *)
Fixpoint sig_pass (S : list sstmt) (P : spres) : res unit :=
  match S with
  | [] => Ok tt
  | s :: t =>
      if negb (kind_eqb (s_kind s) KSig) then sig_pass t P
      else match find_proof P (s_key s) with
           | None => Err
           | Some p =>
               if negb (kind_eqb (p_kind p) KSig) then Err
               else match assoc (s_id s) (reported P) with
                    | None => Err
                    | Some rep => do _ <- check_disclosed s p rep; sig_pass t P
                    end
           end
  end.

Definition linked (k : kind) : bool :=
  match k with KRev | KMem | KComm | KVenc | KVdec => true | _ => false end.

Definition pred_one (su : suite) (O : oracle) (S0 : list sstmt) (P : spres) (s : sstmt) : res unit :=
  match find_proof P (s_key s) with
  | None => Err
  | Some p =>
      if negb (kind_eqb (p_kind p) (s_kind s)) then Err
      else if linked (s_kind s) then
        do h <- sig_hidden su O S0 P (s_ref s);
        if memn (s_claim s) h then Ok tt else Err
      else match s_kind s with
           | KEq => Ok tt
           | KRange =>
               match find_stmt S0 (s_ref s) with
               | None => Err
               | Some cs =>
                   if negb (kind_eqb (s_kind cs) KComm) then Err   (* a signature statement is not among the predicates *)
                   else match find_proof P (s_ref s) with
                        | None => Err
                        | Some cp => if kind_eqb (p_kind cp) KComm then Ok tt else Err
                        end
               end
           | _ => Err
           end
  end.

Fixpoint pred_pass (su : suite) (O : oracle) (S0 S : list sstmt) (P : spres) : res unit :=
  match S with
  | [] => Ok tt
  | s :: t =>
      if kind_eqb (s_kind s) KSig then pred_pass su O S0 t P
      else do _ <- pred_one su O S0 P s; pred_pass su O S0 t P
  end.

Fixpoint range_pass (S : list sstmt) : res unit :=
  match S with
  | [] => Ok tt
  | s :: t => if kind_eqb (s_kind s) KRange && negb (s_lo s) && negb (s_hi s) then Err else range_pass t
  end.

(** ---- second pass: the verifiers ---- *)
(** distinct disclosed indices below the key length (BTreeSet) *)
Fixpoint known_set (n : nat) (disc : list (nat * Z)) (acc : list nat) : list nat :=
  match disc with
  | [] => acc
  | (i, _) :: t => if (i <? n) && negb (memn i acc) then known_set n t (i :: acc) else known_set n t acc
  end.

Fixpoint index_all {A} (ys : list A) (disc : list (nat * Z)) : res unit :=
  match disc with
  | [] => Ok tt
  | (i, _) :: t => do _ <- idx ys i; index_all ys t            (* public_key.y[*idx] *)
  end.

Definition pok_verify (su : suite) (O : oracle) (st : sstmt) (p : sproof) : res unit :=
  let n := s_keylen st in
  let ys := repeat tt n in
  let known := known_set n (p_disc p) [] in
  if o_identity O (s_key st) then Err
  else match su with
       | BBS =>
           if o_key_invalid O (s_key st) then Err
           else
             (* revealed indices beyond the key are skipped, the others index the generators *)
             do _ <- index_all ys (filter (fun e => fst e <? n) (p_disc p));
             let h := n - length known in              (* a count of the remaining generators, no subtraction *)
             if negb (Nat.eqb (p_nresp p) (h + 2)) then Err
             else if o_pok O (s_key st) then Ok tt else Err
       | PS =>
           if n <? length (p_disc p) then Err
           else if o_key_invalid O (s_key st) then Err
           else
             do h <- usub n (length known);            (* y.len() - known.len() + 2 *)
             if negb (Nat.eqb (p_nresp p) (h + 2)) then Err
             else if existsb (fun e => n <=? fst e) (p_disc p) then Err
             else do _ <- index_all ys (p_disc p);
                  if o_pok O (s_key st) then Ok tt else Err
       end.

Fixpoint eq_messages (su : suite) (O : oracle) (S0 : list sstmt) (P : spres) (refs : list (nat * nat)) : res nat :=
  match refs with
  | [] => Ok 0
  | (id, c) :: t =>
      do h <- sig_hidden su O S0 P id;
      if memn c h then rmap S (eq_messages su O S0 P t) else Err
  end.

Definition post_one (su : suite) (O : oracle) (S0 : list sstmt) (P : spres) (s : sstmt) : res unit :=
  match s_kind s with
  | KSig =>
      match find_proof P (s_key s) with
      | Some p => pok_verify su O s p
      | None => Err
      end
  | KEq =>
      do n <- eq_messages su O S0 P (s_refs s);
      if Nat.eqb n 0 then Err                            (* messages.first() *)
      else if (n <=? 1) || o_eq O (s_key s) then Ok tt else Err
  | KVenc =>
      match find_proof P (s_key s) with
      | Some p => if s_dec s && negb (p_has_dec p) then Err
                  else if o_pred O (s_key s) then Ok tt else Err
      | None => Err
      end
  | KRange =>
      if negb (s_lo s) && negb (s_hi s) then Err
      else if o_pred O (s_key s) then Ok tt else Err
  | _ => if o_pred O (s_key s) then Ok tt else Err
  end.

Fixpoint post_pass (su : suite) (O : oracle) (S0 S : list sstmt) (P : spres) : res unit :=
  match S with
  | [] => Ok tt
  | s :: t => do _ <- post_one su O S0 P s; post_pass su O S0 t P
  end.

Definition sigs (S : list sstmt) := filter (fun s => kind_eqb (s_kind s) KSig) S.
Definition preds_no_range (S : list sstmt) :=
  filter (fun s => negb (kind_eqb (s_kind s) KSig) && negb (kind_eqb (s_kind s) KRange)) S.
Definition ranges (S : list sstmt) := filter (fun s => kind_eqb (s_kind s) KRange) S.

Definition ids_ok (P : spres) : bool := forallb (fun p => Nat.eqb (p_id p) (p_key p)) (proofs P).

Definition verify (su : suite) (O : oracle) (S : list sstmt) (P : spres) : res unit :=
  if negb (ids_ok P) then Err
  else
    do _ <- sig_pass S P;
    do _ <- pred_pass su O S S P;
    do _ <- range_pass S;
    if negb (o_fs_equal O) then Err
    else
      do _ <- post_pass su O S (sigs S) P;
      do _ <- post_pass su O S (preds_no_range S) P;
      post_pass su O S (ranges S) P.

(** every cryptographic test succeeds: what remains is the structural verdict *)
Definition all_pass : oracle :=
  {| o_key_invalid := fun _ => false; o_fs_equal := true; o_identity := fun _ => false;
     o_pok := fun _ => true; o_pred := fun _ => true; o_eq := fun _ => true |}.
