(** Structural skeleton of [Presentation::create] (presentation/create.rs, presentation.rs
    get_message_types, presentation/equality.rs) on a verifier-supplied schema and the holder's
    credential map: every map / slice index and every unwrap of the code is a checked primitive
    that can return [Panic]; builder commitments that can fail for cryptographic or arithmetic
    reasons (range pre-check, proof commitment) are oracle booleans.  Used by C20. *)
From Coq Require Import ZArith List Bool Arith Lia.
From ACV Require Import Model.Res Model.Skeleton.
Import ListNotations.

Inductive cred := CredSig (is_number : list bool) | CredMem.   (* one flag per claim: is it a number claim *)
Definition cred_len (c : cred) : nat := match c with CredSig l => length l | CredMem => 0 end.

Record cstmt := {
  c_key : nat; c_kind : kind; c_id : nat;
  c_ref : nat; c_sig : nat; c_claim : nat;
  c_refs : list (nat * nat);
  c_disclosed : list nat; c_labels : list nat; c_keylen : nat
}.

Inductive mk := MRevealed | MExternal | MSpecific.
Definition is_revealed (m : mk) : bool := match m with MRevealed => true | _ => false end.

(** m[&k] *)
Definition map_idx {A} (k : nat) (m : list (nat * A)) : res A :=
  match assoc k m with Some a => Ok a | None => Panic end.
(** o.unwrap() *)
Definition unwrap {A} (o : option A) : res A := match o with Some a => Ok a | None => Panic end.

Fixpoint set_nth {A} (n : nat) (a : A) (l : list A) : list A :=
  match l, n with
  | [], _ => []
  | _ :: t, O => a :: t
  | x :: t, S k => x :: set_nth k a t
  end.
Fixpoint set_assoc {A} (k : nat) (a : A) (m : list (nat * A)) : list (nat * A) :=
  match m with
  | [] => []
  | (k', x) :: t => if Nat.eqb k k' then (k', a) :: t else (k', x) :: set_assoc k a t
  end.

Definition is_sigk (s : cstmt) : bool := kind_eqb (c_kind s) KSig.
Definition csigs (S : list cstmt) := filter is_sigk S.
Definition cpreds (S : list cstmt) := filter (fun s => negb (is_sigk s)) S.

(** Statements::reference_ids (predicate statements only) *)
Definition ref_ids (s : cstmt) : list nat :=
  match c_kind s with KEq => map fst (c_refs s) | KSig => [] | _ => [c_ref s] end.
(** Statements::get_claim_index: EqualityStatement indexes its map *)
Definition claim_index (s : cstmt) (r : nat) : res nat :=
  match c_kind s with KEq => map_idx r (c_refs s) | _ => Ok (c_claim s) end.

Section Create.
  Variable creds : list (nat * cred).
  Variable S0 : list cstmt.

  (** ---- get_message_types ---- *)
  Definition shared0 : list (nat * list bool) :=
    flat_map (fun kc => match snd kc with CredSig l => [(fst kc, repeat false (length l))] | CredMem => [] end) creds.

  Fixpoint mark_refs (s : cstmt) (refs : list nat) (sh : list (nat * list bool)) : res (list (nat * list bool)) :=
    match refs with
    | [] => Ok sh
    | r :: t =>
        match assoc r sh with
        | None => if existsb (fun p => Nat.eqb (c_key p) r) (cpreds S0) then mark_refs s t sh else Err
        | Some v =>
            do ci <- claim_index s r;
            if ci <? length v then mark_refs s t (set_assoc r (set_nth ci true v) sh) else Err
        end
    end.

  Fixpoint mark_all (P : list cstmt) (sh : list (nat * list bool)) : res (list (nat * list bool)) :=
    match P with
    | [] => Ok sh
    | s :: t => do sh' <- mark_refs s (ref_ids s) sh; mark_all t sh'
    end.

  Fixpoint msgs_from (s : cstmt) (marks : list bool) (n i : nat) : res (list mk) :=
    match n with
    | O => Ok []
    | S n' =>
        match nth_error (c_labels s) i with
        | None => Err                                      (* get_index(index).ok_or(..) *)
        | Some lab =>
            do m <- (if memn lab (c_disclosed s) then Ok MRevealed
                     else do b <- idx marks i; Ok (if b then MExternal else MSpecific));   (* shared[id][index] *)
            do r <- msgs_from s marks n' (S i);
            Ok (m :: r)
        end
    end.

  Fixpoint pm_build (Sg : list cstmt) (sh : list (nat * list bool)) : res (list (nat * list mk)) :=
    match Sg with
    | [] => Ok []
    | s :: t =>
        do c <- map_idx (c_key s) creds;                    (* credentials[*id] *)
        match c with
        | CredMem => pm_build t sh
        | CredSig l =>
            do marks <- map_idx (c_key s) sh;              (* shared_proof_msg_indices[id] *)
            do ms <- msgs_from s marks (length l) 0;
            do r <- pm_build t sh;
            Ok ((c_key s, ms) :: r)
        end
    end.

  Fixpoint same_one (s : cstmt) (id1 : nat) (rest : list nat) (pm : list (nat * list mk)) : res (list (nat * list mk)) :=
    match rest with
    | [] => Ok pm
    | id2 :: t =>
        do ix2 <- claim_index s id2;
        do ix1 <- claim_index s id1;
        match assoc id1 pm, assoc id2 pm with
        | Some m1, Some m2 =>
            if (length m1 <=? ix1) || (length m2 <=? ix2) then Err
            else
              do a <- idx m1 ix1;                           (* map1[ix1] *)
              do b <- idx m2 ix2;                           (* map2[ix2] *)
              if is_revealed a || is_revealed b then Err
              else same_one s id1 t (set_assoc id2 (set_nth ix2 a m2) pm)
        | _, _ => Err
        end
    end.

  Fixpoint same_all (P : list cstmt) (pm : list (nat * list mk)) : res (list (nat * list mk)) :=
    match P with
    | [] => Ok pm
    | s :: t =>
        if 1 <? length (ref_ids s) then
          do id1 <- idx (ref_ids s) 0;                      (* ref_ids[0] *)
          do pm' <- same_one s id1 (tl (ref_ids s)) pm;
          same_all t pm'
        else same_all t pm
    end.

  Definition message_types : res (list (nat * list mk)) :=
    do sh <- mark_all (cpreds S0) shared0;
    do pm <- pm_build (csigs S0) sh;
    same_all (cpreds S0) pm.

  (** ---- the builders ---- *)
  Record oracle_c := { oc_sig : nat -> bool; oc_pred : nat -> bool }.   (* does the builder's commit succeed *)
  Variable Orc : oracle_c.

  (** disclosed-message map of one signature statement: messages[id][index], get_index(index).unwrap() *)
  Fixpoint disclosed_from (s : cstmt) (msgs : list mk) (n i : nat) : res unit :=
    match n with
    | O => Ok tt
    | S n' =>
        do m <- idx msgs i;
        do _ <- (if is_revealed m then do _ <- unwrap (nth_error (c_labels s) i); Ok tt else Ok tt);
        disclosed_from s msgs n' (S i)
    end.

  Fixpoint sig_builders (Sg : list cstmt) (pm : list (nat * list mk)) : res nat :=   (* number of builders pushed *)
    match Sg with
    | [] => Ok 0
    | s :: t =>
        do c <- map_idx (c_key s) creds;
        match c with
        | CredMem => sig_builders t pm
        | CredSig l =>
            do msgs <- map_idx (c_key s) pm;                (* messages[id] *)
            do _ <- disclosed_from s msgs (length l) 0;
            if (c_keylen s <? length msgs) || negb (oc_sig Orc (c_key s)) then Err
            else rmap S (sig_builders t pm)
        end
    end.

  (** EqualityBuilder::commit *)
  Fixpoint eq_commit (refs : list (nat * nat)) : res unit :=
    match refs with
    | [] => Ok tt
    | (id, ci) :: t =>
        match assoc id creds with
        | None => Err
        | Some (CredSig l) => do _ <- idx l ci; eq_commit t     (* c.claims[*claim_index] *)
        | Some CredMem => eq_commit t
        end
    end.

  Definition hidden_msg (s : cstmt) (pm : list (nat * list mk)) : res mk :=
    match assoc (c_ref s) pm with
    | None => Err
    | Some ms => match nth_error ms (c_claim s) with
                 | None => Err
                 | Some m => if is_revealed m then Err else Ok m
                 end
    end.
  (** ProofMessage::get_blinder(..).unwrap() *)
  Definition blinder (m : mk) : res unit := unwrap (match m with MRevealed => None | _ => Some tt end).

  (** builders: the kinds pushed so far, and the map statement key -> index *)
  Fixpoint pred_builders (P : list cstmt) (pm : list (nat * list mk)) (bs : list kind) (ix : list (nat * nat))
    : res (list kind * list (nat * nat)) :=
    match P with
    | [] => Ok (bs, ix)
    | s :: t =>
        let push := fun k => pred_builders t pm (bs ++ [k]) ((c_key s, length bs) :: ix) in
        match c_kind s with
        | KEq => do _ <- eq_commit (c_refs s); if oc_pred Orc (c_key s) then push KEq else Err
        | KRev =>
            do m <- hidden_msg s pm;
            match assoc (c_ref s) creds with
            | Some (CredSig _) => if oc_pred Orc (c_key s) then push KRev else Err
            | _ => pred_builders t pm bs ix                   (* continue *)
            end
        | KMem =>
            do m <- hidden_msg s pm;
            match assoc (c_id s) creds with
            | Some CredMem => if oc_pred Orc (c_key s) then push KMem else Err
            | _ => pred_builders t pm bs ix
            end
        | KComm | KVenc | KVdec =>
            do m <- hidden_msg s pm;
            do _ <- blinder m;
            if oc_pred Orc (c_key s) then push (c_kind s) else Err
        | KRange | KSig => pred_builders t pm bs ix          (* ranges are handled afterwards *)
        end
    end.

  Fixpoint range_builders (P : list cstmt) (bs : list kind) (ix : list (nat * nat)) : res unit :=
    match P with
    | [] => Ok tt
    | s :: t =>
        if negb (kind_eqb (c_kind s) KRange) then range_builders t bs ix
        else
          match assoc (c_sig s) creds with
          | None => Err
          | Some CredMem => range_builders t bs ix            (* continue *)
          | Some (CredSig l) =>
              match assoc (c_ref s) ix with
              | None => Err
              | Some bi =>
                  do b <- idx bs bi;                         (* builders[builder_index] *)
                  if negb (kind_eqb b KComm) then Err
                  else
                    (* RangeBuilder::commit: the range statement names the commitment statement's claim and signature statement *)
                    match find (fun p => Nat.eqb (c_key p) (c_ref s)) (cpreds S0) with
                    | None => Err
                    | Some cs =>
                        if negb (Nat.eqb (c_claim s) (c_claim cs)) || negb (Nat.eqb (c_sig s) (c_ref cs)) then Err
                        else match nth_error l (c_claim s) with
                             | None => Err
                             | Some isnum => if isnum && oc_pred Orc (c_key s) then range_builders t bs ix else Err
                             end
                    end
              end
          end
    end.

  Definition create : res unit :=
    if length creds <? length (csigs S0) then Err
    else if negb (forallb (fun s => existsb (fun kc => Nat.eqb (fst kc) (c_key s)) creds) (csigs S0)) then Err
    else
      do pm <- message_types;
      do n <- sig_builders (csigs S0) pm;
      do bi <- pred_builders (cpreds S0) pm (repeat KSig n) [];
      range_builders (cpreds S0) (fst bi) (snd bi).
End Create.

Definition all_pass_c : oracle_c := {| oc_sig := fun _ => true; oc_pred := fun _ => true |}.
