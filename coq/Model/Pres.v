(** Presentation verification in the exponent model:
    src/presentation/verify.rs, src/verifier/{signature,equality,commitment}.rs,
    src/knox/bbs/pok_signature_proof.rs, src/knox/ps/pok_signature_proof.rs.

    Group elements are discrete logarithms (G1, G2 w.r.t. their generators); the pairing
    e(P,Q) = e(P',Q') becomes p*q = p'*q'.  Multi-scalar multiplication is the truncating [msm].
    Statement and proof identifiers are numbers; IndexMap = association list in insertion order
    with first-match lookup.

    Fiat-Shamir is read symbolically: [items] is the list of proof-dependent values the verifier
    absorbs into the transcript (everything else it absorbs is verifier-side data, identical for
    every presentation checked against the same schema and nonce); the challenge comparison
    succeeds iff the presented challenge is the hash of that transcript, which the cases express
    as "the presented challenge was obtained by hashing transcript [ref]" and equality of item
    lists (collision resistance / random-oracle reading). *)
From Coq Require Import List Bool Arith.
From ACV Require Import Model.Field Model.Res.
Import ListNotations.

Section Pres.
Variable K : fops.
Local Notation "a + b" := (fadd K a b).
Local Notation "a - b" := (fsub K a b).
Local Notation "a * b" := (fmul K a b).
Local Notation "0" := (f0 K).
Local Notation "1" := (f1 K).
Local Notation "- a" := (fopp K a).

Inductive suite := BBS | PS.

(** verification key.  BBS: w = x*g2, y_i in G1 (message generators).
    PS: w, x, y_i in G2.  All as discrete logs. *)
Record pubkey := mkPk { pk_suite : suite; pk_x : K; pk_w : K; pk_y : list K }.

Inductive pok :=
| PokBBS (a_bar b_bar t : K) (resp : list K)
| PokPS (s1 s2 comm : K) (resp : list K).

Record sigproof := mkSp { sp_id : nat; sp_disclosed : list (nat * K); sp_pok : pok }.

Inductive proof :=
| PSig (sp : sigproof)
| PEq (pid : nat)
| PComm (pid : nat) (commitment blinder_proof : K)
| PVenc (pid : nat) (c1 c2 blinder_proof : K) (has_decryptable_part : bool)
| POther (pid : nat)
| PRev (pid : nat) (s_y fin : K).       (* accumulator membership proof (revocation / set membership): the element's
                                           response, and the verifier's recomputed commitments as one opaque item *)

Inductive stmt :=
| SSig (sid : nat) (pk : pubkey) (requested : list nat)   (* requested = claim indices of the labels to disclose, ascending *)
| SEq (sid : nat) (refs : list (nat * nat))               (* (signature statement id, claim index) *)
| SComm (sid : nat) (ref : nat) (claim : nat) (gm gb : K)
| SVenc (sid : nat) (ref : nat) (claim : nat) (gm ek : K) (allow_decryption : bool)
| SRev (sid : nat) (ref : nat) (claim : nat).          (* revocation / membership: the element is the claim at [claim] of [ref] *)

Definition stmt_id (s : stmt) : nat :=
  match s with SSig i _ _ => i | SEq i _ => i | SComm i _ _ _ _ => i | SVenc i _ _ _ _ _ => i | SRev i _ _ => i end.
Definition is_sig (s : stmt) : bool := match s with SSig _ _ _ => true | _ => false end.

(** reported disclosed claims, per signature statement id: (label, scalar of the reported claim).
    Labels are numbers; a label below the key size is the claim with that index in the issuer's
    schema, any other label is unknown to the schema. *)
Record pres := mkPres {
  proofs : list (nat * proof);
  challenge : K;
  reported : list (nat * list (nat * K)) }.

Fixpoint lookup {A} (k : nat) (l : list (nat * A)) : option A :=
  match l with
  | [] => None
  | (k', v) :: t => if Nat.eqb k k' then Some v else lookup k t
  end.

Definition memn (x : nat) (l : list nat) : bool := existsb (Nat.eqb x) l.

(** strictly ascending *)
Fixpoint ascending (l : list nat) : bool :=
  match l with
  | a :: ((b :: _) as t) => Nat.ltb a b && ascending t
  | _ => true
  end.

Fixpoint list_eqb {A} (e : A -> A -> bool) (l l' : list A) : bool :=
  match l, l' with
  | [], [] => true
  | a :: t, b :: t' => e a b && list_eqb e t t'
  | _, _ => false
  end.

(** ---- disclosed-claim consistency (the comparison added to verify by the C02/C05 fix) -------
    the reported labels, sorted as the BTreeSet of the statement, are exactly the requested ones;
    the proof's index->scalar list is exactly those indices, ascending, each below the key size,
    and carries the scalar of the reported claim *)
Definition disclosed_consistent (pk : pubkey) (requested : list nat) (rep : list (nat * K))
           (disc : list (nat * K)) : bool :=
  ascending requested &&
  list_eqb Nat.eqb (map fst disc) requested &&
  (Nat.eqb (length rep) (length requested)) &&
  forallb (fun i => match lookup i rep, lookup i disc with
                    | Some v, Some v' => feqb K v v'
                    | _, _ => false end) requested.

(** ---- get_hidden_message_proofs: index -> response slot -------------------------------------
    walks i = 0..n-1 with a cursor j into the disclosed list; offset = 0 (BBS) or 2 (PS) *)
Fixpoint hidden_walk (fuel i : nat) (disc : list (nat * K)) (off j : nat) (resp : list K)
  : option (list (nat * K)) :=
  match fuel with
  | O => Some []
  | S fuel' =>
      match nth_error disc j with
      | Some (idx, _) =>
          if Nat.eqb idx i then hidden_walk fuel' (S i) disc off (S j) resp
          else match nth_error resp (i + off - j) with
               | Some m => option_map (cons (i, m)) (hidden_walk fuel' (S i) disc off j resp)
               | None => None
               end
      | None =>
          match nth_error resp (i + off - j) with
          | Some m => option_map (cons (i, m)) (hidden_walk fuel' (S i) disc off j resp)
          | None => None
          end
      end
  end.

Definition pok_resp (p : pok) : list K := match p with PokBBS _ _ _ r => r | PokPS _ _ _ r => r end.
Definition pok_off (p : pok) : nat := match p with PokBBS _ _ _ _ => 0 | PokPS _ _ _ _ => 2 end.

Definition hidden_message_proofs (pk : pubkey) (sp : sigproof) : option (list (nat * K)) :=
  if Nat.ltb (length (pk_y pk)) (length (sp_disclosed sp)) then None
  else hidden_walk (length (pk_y pk)) 0 (sp_disclosed sp) (pok_off (sp_pok sp)) 0 (pok_resp (sp_pok sp)).

(** generators of the hidden (not revealed) messages, by key order *)
Fixpoint hidden_gens_from (i : nat) (ys : list K) (known : list nat) : list K :=
  match ys with
  | [] => []
  | y :: t => if memn i known then hidden_gens_from (S i) t known else y :: hidden_gens_from (S i) t known
  end.
Definition hidden_gens (pk : pubkey) (disc : list (nat * K)) : list K :=
  hidden_gens_from 0 (pk_y pk) (map fst disc).
Definition hidden_count (pk : pubkey) (disc : list (nat * K)) : nat := length (hidden_gens pk disc).

(** sum over the revealed list of Y_idx * msg (entries with idx out of range are skipped by BBS) *)
Fixpoint revealed_sum (ys : list K) (disc : list (nat * K)) : K :=
  match disc with
  | [] => 0
  | (idx, m) :: t => match nth_error ys idx with
                     | Some y => y * m + revealed_sum ys t
                     | None => revealed_sum ys t
                     end
  end.

(** ---- proof-dependent transcript items ---------------------------------------------------- *)
Definition pok_items (pk : pubkey) (sp : sigproof) (c : K) : list K :=
  match sp_pok sp with
  | PokBBS a_bar b_bar t _ => [a_bar; b_bar; t]
  | PokPS s1 s2 comm resp =>
      (* recomputed blind commitment: msm [g2; w; Y_hidden...; J] (resp ++ [-c]) *)
      [s1; s2; comm; msm K ([1; pk_w pk] ++ hidden_gens pk (sp_disclosed sp) ++ [comm]) (resp ++ [- c])]
  end.

Definition rep_items (rep : list (nat * K)) : list K :=
  flat_map (fun lv => [snd lv]) rep.

(** ---- post-challenge checks of the proofs of knowledge ------------------------------------ *)
Definition pok_verify (pk : pubkey) (sp : sigproof) (c : K) : bool :=
  let disc := sp_disclosed sp in
  match sp_pok sp with
  | PokBBS a_bar b_bar t resp =>
      negb (feqb K a_bar 0) && negb (feqb K b_bar 0) && negb (feqb K t 0) &&
      Nat.eqb (length resp) (hidden_count pk disc + 2) &&
      (let lhs := - (revealed_sum (pk_y pk) disc) - 1 in
       feqb K t (msm K (hidden_gens pk disc ++ [a_bar; b_bar; lhs]) (resp ++ [- c]))) &&
      feqb K (a_bar * pk_x pk) b_bar
  | PokPS s1 s2 comm resp =>
      negb (feqb K s1 0) && negb (feqb K s2 0) &&
      (* more revealed entries than generators, or an index beyond the key: Err (index = key size: panic) *)
      Nat.leb (length disc) (length (pk_y pk)) &&
      forallb (fun i => Nat.ltb i (length (pk_y pk))) (map fst disc) &&
      Nat.eqb (length resp) (hidden_count pk disc + 2) &&
      feqb K (s1 * (revealed_sum (pk_y pk) disc + pk_x pk + comm)) s2
  end.

(** ---- the verifier -------------------------------------------------------------------------- *)
Definition schema := list stmt.   (* IndexMap of statements in insertion order *)

Definition find_stmt (S : schema) (i : nat) : option stmt :=
  find (fun s => Nat.eqb (stmt_id s) i) S.

(** get_sig_hidden_message_proofs: the proof under [ref] must be a signature proof; the statement is
    looked up under the proof's inner id and must be a signature statement *)
Definition sig_hidden (S : schema) (P : pres) (ref : nat) : option (list (nat * K)) :=
  match lookup ref (proofs P) with
  | Some (PSig sp) =>
      match find_stmt S (sp_id sp) with
      | Some (SSig _ pk _) => hidden_message_proofs pk sp
      | _ => None
      end
  | _ => None
  end.

Inductive verdict := Accept | RejectStruct | RejectFS | RejectPost.

(** pass 1: dispatch and transcript items; None = structural rejection before the challenge check *)
Fixpoint sig_pass (S : schema) (P : pres) : option (list K) :=
  match S with
  | [] => Some []
  | SSig sid pk requested :: t =>
      match lookup sid (proofs P), lookup sid (reported P) with
      | Some (PSig sp), Some rep =>
          if disclosed_consistent pk requested rep (sp_disclosed sp)
          then option_map (app (rep_items rep ++ pok_items pk sp (challenge P))) (sig_pass t P)
          else None
      | _, _ => None
      end
  | _ :: t => sig_pass t P
  end.

Fixpoint pred_pass (S0 S : schema) (P : pres) : option (list K) :=
  match S with
  | [] => Some []
  | SSig _ _ _ :: t => pred_pass S0 t P
  | SEq sid refs :: t =>
      match lookup sid (proofs P) with
      | Some (PEq _) => pred_pass S0 t P
      | _ => None
      end
  | SComm sid ref claim gm gb :: t =>
      match lookup sid (proofs P) with
      | Some (PComm _ cm bp) =>
          match sig_hidden S0 P ref with
          | Some hid =>
              match lookup claim hid with
              | Some mp =>
                  option_map (app [cm; cm * (- (challenge P)) + gm * mp + gb * bp]) (pred_pass S0 t P)
              | None => None
              end
          | None => None
          end
      | _ => None
      end
  | SVenc sid ref claim gm ek _ :: t =>
      match lookup sid (proofs P) with
      | Some (PVenc _ c1 c2 bp _) =>
          match sig_hidden S0 P ref with
          | Some hid =>
              match lookup claim hid with
              | Some mp =>
                  (* r1 = -c*c1 + G*bp,  r2 = -c*c2 + gm*mp + ek*bp  (the byte part's items are not modelled) *)
                  option_map (app [c1; c2; c1 * (- (challenge P)) + bp; c2 * (- (challenge P)) + gm * mp + ek * bp])
                             (pred_pass S0 t P)
              | None => None
              end
          | None => None
          end
      | _ => None
      end
  | SRev sid ref claim :: t =>
      match lookup sid (proofs P) with
      | Some (PRev _ sy fin) =>
          match sig_hidden S0 P ref with
          | Some hid =>
              match lookup claim hid with
              | Some mp => option_map (app [fin]) (pred_pass S0 t P)
              | None => None
              end
          | None => None
          end
      | _ => None
      end
  end.

(** every proof carries the id it is stored under *)
Definition proof_id (p : proof) : nat :=
  match p with PSig sp => sp_id sp | PEq i => i | PComm i _ _ => i | PVenc i _ _ _ _ => i | POther i => i | PRev i _ _ => i end.
Definition ids_ok (P : pres) : bool := forallb (fun kp => Nat.eqb (proof_id (snd kp)) (fst kp)) (proofs P).

Definition items (S : schema) (P : pres) : option (list K) :=
  if ids_ok P then
    match sig_pass S P, pred_pass S S P with
    | Some a, Some b => Some (a ++ b)
    | _, _ => None
    end
  else None.

(** pass 2: post-challenge verifiers *)
Definition eq_verify (S : schema) (P : pres) (refs : list (nat * nat)) : bool :=
  let ms := map (fun rc => match sig_hidden S P (fst rc) with
                           | Some hid => lookup (snd rc) hid
                           | None => None end) refs in
  match ms with
  | [] => false
  | None :: _ => false
  | Some first :: rest => forallb (fun m => match m with Some v => feqb K first v | None => false end) rest
  end.

Definition post_one (S : schema) (P : pres) (s : stmt) : bool :=
  match s with
  | SSig sid pk _ =>
      match lookup sid (proofs P) with
      | Some (PSig sp) => pok_verify pk sp (challenge P)
      | _ => false
      end
  | SEq _ refs => eq_verify S P refs
  | SComm _ _ _ _ _ => true
  | SVenc sid _ _ _ _ allow =>
      (* a statement that requests scalar decryption must be answered with the decryptable part *)
      match lookup sid (proofs P) with
      | Some (PVenc _ _ _ _ has_part) => implb allow has_part
      | _ => false
      end
  | SRev sid ref claim =>
      (* RevocationVerifier / MembershipVerifier::verify: the proof's element response is the signature proof's
         response for the referenced claim *)
      match lookup sid (proofs P), sig_hidden S P ref with
      | Some (PRev _ sy _), Some hid => match lookup claim hid with Some mp => feqb K sy mp | None => false end
      | _, _ => false
      end
  end.

Definition post (S : schema) (P : pres) : bool := forallb (post_one S P) S.

(** [fs] : the outcome of the challenge comparison (decided symbolically by the caller) *)
Definition verify_with (S : schema) (P : pres) (fs : option (list K) -> bool) : verdict :=
  match items S P with
  | None => RejectStruct
  | Some it => if fs (Some it) then (if post S P then Accept else RejectPost) else RejectFS
  end.

(** symbolic Fiat-Shamir for executed cases: the presented challenge is the hash of the transcript
    of the reference presentation [P0] (same schema, same nonce) iff [derived] *)
Definition fs_symbolic (S : schema) (P0 : pres) (derived : bool) (it : option (list K)) : bool :=
  derived &&
  match it, items S P0 with
  | Some a, Some b => list_eqb (feqb K) a b
  | _, _ => false
  end.

Definition verify_case (S : schema) (P0 P : pres) (derived : bool) : verdict :=
  verify_with S P (fs_symbolic S P0 derived).

End Pres.
