(** Serde data-model trees of the types whose Serialize / Deserialize impls are hand-written or
    attribute-driven (C19): ClaimType (claim/type.rs), HashedClaim (claim/hashed.rs), ClaimData,
    ClaimValidator (skipped optional bounds, claim/validator.rs), ClaimSchema (validators skipped
    when empty) and CredentialSchema (label / description skipped when absent, order-preserving
    set adapters; credential/schema.rs, utils.rs).
    [ser hr x] is the tree the Serialize impl hands to a serializer whose [is_human_readable]
    is [hr]; [None] stands for an impl that panics or errors.  Two decoders: by name (what a
    self-describing format such as JSON or CBOR supports) and positional (BARE: no names, a
    skipped field is simply not there). *)
From Coq Require Import ZArith List Bool String Ascii.
From ACV Require Import Model.Ints Model.Bytes Model.ClaimCodec.
Import ListNotations.
Open Scope string_scope.

Inductive tree : Type :=
| TBool (b : bool)
| TU8 (n : Z) | TU64 (n : Z) | TI64 (z : Z)
| TStr (s : bytes)
| TNone | TSome (t : tree)
| TSeq (l : list tree)
| TTuple (l : list tree)
| TStruct (name : string) (fields : list (string * tree))
| TVarN (idx : nat) (name : string) (t : tree)                       (* newtype variant *)
| TVarS (idx : nat) (name : string) (fields : list (string * tree)). (* struct variant *)

Inductive validator : Type :=
| VLength (min max : option Z)
| VRange (min max : option Z)
| VRegex (src : bytes)
| VAnyOne (l : list claim).

Record claim_schema := { cs_type : ctype; cs_label : bytes; cs_pf : bool; cs_validators : list validator }.
Record cred_schema := { sch_id : bytes; sch_label : option bytes; sch_desc : option bytes;
                        sch_blind : list bytes; sch_indices : list bytes; sch_claims : list claim_schema }.

Definition str_bytes (s : string) : bytes := map (fun c => Z.of_N (N_of_ascii c)) (list_ascii_of_string s).

Section Ser.
  Variable is_utf8 : bytes -> bool.

  (** ---- ClaimType ---- *)
  Definition ctype_name (t : ctype) : option string :=
    match t with
    | TUnknown => None                      (* Display returns an error: to_string panics *)
    | THashed => Some "Hashed" | TNumber => Some "Number" | TScalar => Some "Scalar"
    | TRevocation => Some "Revocation" | TEnumeration => Some "Enumeration"
    end.
  Definition ctype_tag (t : ctype) : Z :=
    match t with TUnknown => 0 | THashed => 1 | TNumber => 2 | TScalar => 3 | TRevocation => 4 | TEnumeration => 5 end.
  Definition ctype_of_tag (n : Z) : ctype :=
    if Z.eqb n 1 then THashed else if Z.eqb n 2 then TNumber else if Z.eqb n 3 then TScalar
    else if Z.eqb n 4 then TRevocation else if Z.eqb n 5 then TEnumeration else TUnknown.
  Definition lower (c : Z) : Z := if (65 <=? c)%Z && (c <=? 90)%Z then (c + 32)%Z else c.
  Definition ctype_of_name (s : bytes) : option ctype :=
    let l := map lower s in
    if list_eqb l (str_bytes "enumeration") then Some TEnumeration
    else if list_eqb l (str_bytes "hashed") then Some THashed
    else if list_eqb l (str_bytes "number") then Some TNumber
    else if list_eqb l (str_bytes "scalar") then Some TScalar
    else if list_eqb l (str_bytes "revocation") then Some TRevocation
    else None.

  Definition ser_ctype (hr : bool) (t : ctype) : option tree :=
    if hr then option_map (fun n => TStr (str_bytes n)) (ctype_name t) else Some (TU8 (ctype_tag t)).
  Definition de_ctype (hr : bool) (t : tree) : option ctype :=
    match hr, t with
    | true, TStr s => ctype_of_name s
    | false, TU8 n => Some (ctype_of_tag n)
    | _, _ => None
    end.

  (** ---- claims ---- *)
  Definition ser_claim (hr : bool) (c : claim) : option tree :=
    match c with
    | CHashed v pf =>
        if hr then
          if pf then (if is_utf8 v then Some (TVarN 0 "Hashed" (TStruct "HashedClaimSerdesFriendly" [("value", TStr v); ("print_friendly", TBool true)])) else None)
          else Some (TVarN 0 "Hashed" (TStruct "HashedClaimSerdesFriendly" [("value", TStr (hex_encode v)); ("print_friendly", TBool false)]))
        else Some (TVarN 0 "Hashed" (TStruct "HashedClaimSerdes" [("value", TSeq (map TU8 v)); ("print_friendly", TBool pf)]))
    | CNumber v => Some (TVarN 1 "Number" (TStruct "NumberClaim" [("value", TI64 v)]))
    | CScalar s =>
        Some (TVarN 2 "Scalar" (TStruct "ScalarClaim"
          [("value", if hr then TStr (hex_encode (to_be 32 s)) else TTuple (map TU8 (to_be 32 s)))]))
    | CRevocation id => Some (TVarN 3 "Revocation" (TStruct "RevocationClaim" [("value", TStr id)]))
    | CEnum dst v total =>
        Some (TVarN 4 "Enumeration" (TStruct "EnumerationClaim" [("dst", TStr dst); ("value", TU8 v); ("total_values", TU64 total)]))
    end.

  Fixpoint field (n : string) (l : list (string * tree)) : option tree :=
    match l with
    | [] => None
    | (k, v) :: t => if String.eqb k n then Some v else field n t
    end.

  Fixpoint u8s (l : list tree) : option bytes :=
    match l with
    | [] => Some []
    | TU8 b :: t => option_map (cons b) (u8s t)
    | _ => None
    end.

  Definition de_claim (hr : bool) (t : tree) : option claim :=
    match t with
    | TVarN 0 _ (TStruct _ f) =>
        match field "value" f, field "print_friendly" f with
        | Some (TStr s), Some (TBool pf) =>
            if hr then (if pf then Some (CHashed s true) else option_map (fun v => CHashed v false) (hex_decode s)) else None
        | Some (TSeq l), Some (TBool pf) => if hr then None else option_map (fun v => CHashed v pf) (u8s l)
        | _, _ => None
        end
    | TVarN 1 _ (TStruct _ f) => match field "value" f with Some (TI64 v) => Some (CNumber v) | _ => None end
    | TVarN 2 _ (TStruct _ f) =>
        match field "value" f with
        | Some (TStr h) => if hr then match hex_decode h with Some b => option_map CScalar (scalar_of_be b) | None => None end else None
        | Some (TTuple l) => if hr then None else match u8s l with Some b => option_map CScalar (scalar_of_be b) | None => None end
        | _ => None
        end
    | TVarN 3 _ (TStruct _ f) => match field "value" f with Some (TStr s) => Some (CRevocation s) | _ => None end
    | TVarN 4 _ (TStruct _ f) =>
        match field "dst" f, field "value" f, field "total_values" f with
        | Some (TStr d), Some (TU8 v), Some (TU64 n) => Some (CEnum d v n)
        | _, _, _ => None
        end
    | _ => None
    end.

  (** ---- validators ---- *)
  Fixpoint opt_all {A} (l : list (option A)) : option (list A) :=
    match l with
    | [] => Some []
    | Some a :: t => option_map (cons a) (opt_all t)
    | None :: _ => None
    end.

  Definition opt_field (n : string) (mk : Z -> tree) (o : option Z) : list (string * tree) :=
    match o with Some v => [(n, TSome (mk v))] | None => [] end.   (* skip_serializing_if = "Option::is_none" *)

  Definition ser_validator (hr : bool) (v : validator) : option tree :=
    match v with
    | VLength mn mx => Some (TVarS 0 "Length" (opt_field "min" TU64 mn ++ opt_field "max" TU64 mx))
    | VRange mn mx => Some (TVarS 1 "Range" (opt_field "min" TI64 mn ++ opt_field "max" TI64 mx))
    | VRegex src => Some (TVarN 2 "Regex" (TStr src))
    | VAnyOne l => option_map (fun ts => TVarN 3 "AnyOne" (TSeq ts)) (opt_all (map (ser_claim hr) l))
    end.

  Definition get_u64 (o : option tree) : option (option Z) :=
    match o with
    | None => Some None                      (* an absent Option field is None *)
    | Some TNone => Some None
    | Some (TSome (TU64 v)) => Some (Some v)
    | _ => None
    end.
  Definition get_i64 (o : option tree) : option (option Z) :=
    match o with
    | None => Some None
    | Some TNone => Some None
    | Some (TSome (TI64 v)) => Some (Some v)
    | _ => None
    end.

  Definition de_validator (hr : bool) (t : tree) : option validator :=
    match t with
    | TVarS 0 _ f => match get_u64 (field "min" f), get_u64 (field "max" f) with
                     | Some a, Some b => Some (VLength a b) | _, _ => None end
    | TVarS 1 _ f => match get_i64 (field "min" f), get_i64 (field "max" f) with
                     | Some a, Some b => Some (VRange a b) | _, _ => None end
    | TVarN 2 _ (TStr s) => Some (VRegex s)
    | TVarN 3 _ (TSeq l) => option_map VAnyOne (opt_all (map (de_claim hr) l))
    | _ => None
    end.

  (** ---- claim schema / credential schema ---- *)
  Definition ser_claim_schema (hr : bool) (c : claim_schema) : option tree :=
    match ser_ctype hr (cs_type c), opt_all (map (ser_validator hr) (cs_validators c)) with
    | Some ty, Some vs =>
        Some (TStruct "ClaimSchema"
          ([("claim_type", ty); ("label", TStr (cs_label c)); ("print_friendly", TBool (cs_pf c))]
           ++ match vs with [] => [] | _ => [("validators", TSeq vs)] end))   (* skip_serializing_if = "Vec::is_empty" *)
    | _, _ => None
    end.

  Definition de_claim_schema (hr : bool) (t : tree) : option claim_schema :=
    match t with
    | TStruct _ f =>
        match field "claim_type" f, field "label" f, field "print_friendly" f with
        | Some ty, Some (TStr l), Some (TBool pf) =>
            match de_ctype hr ty with
            | None => None
            | Some ct =>
                match field "validators" f with
                | None => Some {| cs_type := ct; cs_label := l; cs_pf := pf; cs_validators := [] |}   (* default *)
                | Some (TSeq vs) =>
                    option_map (fun v => {| cs_type := ct; cs_label := l; cs_pf := pf; cs_validators := v |})
                               (opt_all (map (de_validator hr) vs))
                | Some _ => None
                end
            end
        | _, _, _ => None
        end
    | _ => None
    end.

  Definition opt_str_field (n : string) (o : option bytes) : list (string * tree) :=
    match o with Some s => [(n, TSome (TStr s))] | None => [] end.

  Definition ser_cred_schema (hr : bool) (s : cred_schema) : option tree :=
    match opt_all (map (ser_claim_schema hr) (sch_claims s)) with
    | Some cl =>
        Some (TStruct "CredentialSchema"
          ([("id", TStr (sch_id s))] ++ opt_str_field "label" (sch_label s) ++ opt_str_field "description" (sch_desc s)
           ++ [("blind_claims", TSeq (map TStr (sch_blind s))); ("claim_indices", TSeq (map TStr (sch_indices s)));
               ("claims", TSeq cl)]))
    | None => None
    end.

  Definition get_str (o : option tree) : option (option bytes) :=
    match o with
    | None => Some None
    | Some TNone => Some None
    | Some (TSome (TStr s)) => Some (Some s)
    | _ => None
    end.
  Fixpoint strs (l : list tree) : option (list bytes) :=
    match l with
    | [] => Some []
    | TStr s :: t => option_map (cons s) (strs t)
    | _ => None
    end.
  (** IndexSet: insertion order, a repeated element is dropped *)
  Fixpoint dedup (seen l : list bytes) : list bytes :=
    match l with
    | [] => []
    | x :: t => if existsb (list_eqb x) seen then dedup seen t else x :: dedup (x :: seen) t
    end.

  Definition de_cred_schema (hr : bool) (t : tree) : option cred_schema :=
    match t with
    | TStruct _ f =>
        match field "id" f, get_str (field "label" f), get_str (field "description" f),
              field "blind_claims" f, field "claim_indices" f, field "claims" f with
        | Some (TStr id), Some lab, Some desc, Some (TSeq b), Some (TSeq ix), Some (TSeq cl) =>
            match strs b, strs ix, opt_all (map (de_claim_schema hr) cl) with
            | Some b', Some ix', Some cl' =>
                Some {| sch_id := id; sch_label := lab; sch_desc := desc; sch_blind := dedup [] b';
                        sch_indices := dedup [] ix'; sch_claims := cl' |}
            | _, _, _ => None
            end
        | _, _, _, _, _, _ => None
        end
    | _ => None
    end.

  (** ---- positional reading (BARE) ----
      A positional format writes the values in order and nothing else: no field names, no
      marker for a field that was skipped.  [flat] is what gets written; the positional decoder
      of a struct reads one value per *declared* field. *)
  Inductive tok : Type :=
  | KBool (b : bool) | KU8 (n : Z) | KU64 (n : Z) | KI64 (z : Z) | KStr (s : bytes)
  | KOpt (present : bool) | KLen (n : nat) | KVar (idx : nat).

  Fixpoint flat (t : tree) : list tok :=
    match t with
    | TBool b => [KBool b]
    | TU8 n => [KU8 n] | TU64 n => [KU64 n] | TI64 z => [KI64 z]
    | TStr s => [KStr s]
    | TNone => [KOpt false]
    | TSome x => KOpt true :: flat x
    | TSeq l => KLen (List.length l) :: flat_map flat l
    | TTuple l => flat_map flat l
    | TStruct _ f => flat_map (fun kv => flat (snd kv)) f
    | TVarN i _ x => KVar i :: flat x
    | TVarS i _ f => KVar i :: flat_map (fun kv => flat (snd kv)) f
    end.

  (** positional decoder of the two variants of ClaimValidator with optional bounds: both
      declared fields are read as options *)
  Definition pos_opt_u64 (l : list tok) : option (option Z * list tok) :=
    match l with
    | KOpt false :: r => Some (None, r)
    | KOpt true :: KU64 v :: r => Some (Some v, r)
    | _ => None
    end.
  Definition pos_opt_i64 (l : list tok) : option (option Z * list tok) :=
    match l with
    | KOpt false :: r => Some (None, r)
    | KOpt true :: KI64 v :: r => Some (Some v, r)
    | _ => None
    end.
  Definition pos_bounds (l : list tok) : option (validator * list tok) :=
    match l with
    | KVar 0 :: r => match pos_opt_u64 r with
                     | Some (a, r1) => match pos_opt_u64 r1 with Some (b, r2) => Some (VLength a b, r2) | None => None end
                     | None => None end
    | KVar 1 :: r => match pos_opt_i64 r with
                     | Some (a, r1) => match pos_opt_i64 r1 with Some (b, r2) => Some (VRange a b, r2) | None => None end
                     | None => None end
    | _ => None
    end.

  (** positional reader of a ClaimSchema (binary serializer): claim type tag, label, flag, then the
      validator list with its length — validators with bounds and regexes (an AnyOne list of claims is
      outside this reader) *)
  Definition pos_validator (l : list tok) : option (validator * list tok) :=
    match l with
    | KVar 2 :: KStr s :: r => Some (VRegex s, r)
    | _ => pos_bounds l
    end.
  Fixpoint pos_validators (n : nat) (l : list tok) : option (list validator * list tok) :=
    match n with
    | O => Some ([], l)
    | S k => match pos_validator l with
             | Some (v, r) => match pos_validators k r with Some (vs, r') => Some (v :: vs, r') | None => None end
             | None => None
             end
    end.
  Definition pos_claim_schema (l : list tok) : option (claim_schema * list tok) :=
    match l with
    | KU8 ty :: KStr lab :: KBool pf :: KLen n :: r =>
        match pos_validators n r with
        | Some (vs, r') => Some ({| cs_type := ctype_of_tag ty; cs_label := lab; cs_pf := pf; cs_validators := vs |}, r')
        | None => None
        end
    | _ => None
    end.

  (** which objects have a field the Serialize impl leaves out *)
  Definition validator_skips (v : validator) : bool :=
    match v with
    | VLength a b | VRange a b => match a, b with Some _, Some _ => false | _, _ => true end
    | _ => false
    end.
  Definition claim_schema_skips (c : claim_schema) : bool :=
    match cs_validators c with [] => true | vs => existsb validator_skips vs end.
  Definition cred_schema_skips (s : cred_schema) : bool :=
    match sch_label s, sch_desc s with
    | Some _, Some _ => existsb claim_schema_skips (sch_claims s)
    | _, _ => true
    end.
End Ser.
