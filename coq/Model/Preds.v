(** Honest prover side of the predicate sub-protocols that share a signed claim's Schnorr response:
    src/presentation/commitment.rs (CommitmentBuilder), src/presentation/equality.rs,
    src/presentation/create.rs:126-158 (which value is used as which blinder). *)
From Coq Require Import List Bool Arith.
From ACV Require Import Model.Field.
Import ListNotations.

Section Preds.
Variable K : fops.
Local Notation "a + b" := (fadd K a b).
Local Notation "a * b" := (fmul K a b).
Local Notation "- a" := (fopp K a).

(** CommitmentBuilder::commit(statement, message, b, rng): on the pinned tree [b] is the claim's shared
    Schnorr nonce (create.rs passes proof_message.get_blinder), [r] is fresh.
    Published: commitment C, blinder_proof = r + c*b; the message response b + c*m lives in the signature
    proof.  Hashed by the prover: C and the blind commitment gm*b + gb*r. *)
Record comm_out := mkCommOut { co_C : K; co_blind : K; co_bp : K; co_mp : K }.
Definition comm_prover (gm gb m b r c : K) : comm_out :=
  mkCommOut (gm * m + gb * b) (gm * b + gb * r) (r + c * b) (b + m * c).

(** what the verifier recomputes and hashes (src/verifier/commitment.rs) *)
Definition comm_verifier_blind (gm gb C bp mp c : K) : K := C * (- c) + gm * mp + gb * bp.
End Preds.
