(** Honest prover side of the predicate sub-protocols that share a signed claim's Schnorr response:
    src/presentation/commitment.rs (CommitmentBuilder), src/presentation/equality.rs,
    src/presentation/create.rs:126-158 (which value is used as which blinder). *)
From Coq Require Import List Bool Arith.
From ACV Require Import Model.Field.
Import ListNotations.

Section Preds.
Variable K : fops.
Local Notation "a + b" := (fadd K a b).
Local Notation "a * b" := (fmul K a b).
Local Notation "- a" := (fopp K a).

(** CommitmentBuilder::commit(statement, message, b, rng): [n] = the claim's shared Schnorr nonce handed in by
    Presentation::create, [b'] = the commitment's own blinding factor, [r] = the nonce of the blinding factor.
    Published: commitment C = gm*m + gb*b', blinder_proof = r + c*b'; the message response n + c*m lives in
    the signature proof.  Hashed by the prover: C and the blind commitment gm*n + gb*r. *)
Record comm_out := mkCommOut { co_C : K; co_blind : K; co_bp : K; co_mp : K }.
Definition comm_prover (gm gb m b' n r c : K) : comm_out :=
  mkCommOut (gm * m + gb * b') (gm * n + gb * r) (r + c * b') (n + m * c).

(** the prover as it was on the pinned tree before fix b4949f5: the blinding factor WAS the shared nonce *)
Definition comm_prover_pinned (gm gb m b r c : K) : comm_out := comm_prover gm gb m b b r c.

(** VerifiableEncryptionBuilder::commit: ElGamal in the exponent with its own randomness [k];
    nonces: [n] (shared, for the message) and [r] (for k).  Published: c1 = G*k, c2 = gm*m + ek*k,
    blinder_proof = r + c*k; hashed: c1, c2, r1 = G*r, r2 = gm*n + ek*r. *)
Record venc_out := mkVencOut { vo_c1 : K; vo_c2 : K; vo_r1 : K; vo_r2 : K; vo_bp : K; vo_mp : K }.
Definition venc_prover (gm ek m k n r c : K) : venc_out :=
  mkVencOut k (gm * m + ek * k) r (gm * n + ek * r) (r + c * k) (n + m * c).
(** src/verifier/verifiable_encryption.rs: r1 = -c*c1 + G*bp, r2 = -c*c2 + gm*mp + ek*bp  (G has log 1) *)
Definition venc_verifier_r1 (c1 bp c : K) : K := c1 * (- c) + bp.
Definition venc_verifier_r2 (gm ek c2 bp mp c : K) : K := c2 * (- c) + gm * mp + ek * bp.

(** what the verifier recomputes and hashes (src/verifier/commitment.rs) *)
Definition comm_verifier_blind (gm gb C bp mp c : K) : K := C * (- c) + gm * mp + gb * bp.
End Preds.
