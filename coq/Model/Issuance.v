(** Issuance frontier: src/issuer.rs:104-175 (sign_credential), src/claim/validator.rs:72-107,
    src/credential/schema.rs:38-79 (CredentialSchema::new), 142-151 (ClaimSchema::is_valid). *)
From Coq Require Import ZArith List Bool NArith.
From ACV Require Import Model.Res Model.Ints Model.Bytes Model.ClaimCodec Model.Registry.
Import ListNotations.
Open Scope Z_scope.

Inductive validator :=
| VLength (min max : option Z)         (* usize *)
| VRange (min max : option Z)          (* isize *)
| VRegex (rx : nat)                    (* a compiled regex, identified by number *)
| VAnyOne (l : list claim).

Record claim_schema := mkCS { cs_type : ctype; cs_validators : list validator }.

Definition claim_eqb (a b : claim) : bool :=
  match a, b with
  | CHashed v p, CHashed v' p' => list_eqb v v' && Bool.eqb p p'
  | CNumber v, CNumber v' => v =? v'
  | CScalar s, CScalar s' => s =? s'
  | CRevocation i, CRevocation i' => list_eqb i i'
  | CEnum d v t, CEnum d' v' t' => list_eqb d d' && (v =? v') && (t =? t')
  | _, _ => false
  end.

Section Issuance.
  Variable rx_match : nat -> bytes -> bool.    (* regex crate: Regex::is_match on the string *)
  Variable is_utf8 : bytes -> bool.
  Variable idn : bytes -> id.                  (* identifier strings as registry identifiers *)

  Definition u64_max_z : Z := 2 ^ 64 - 1.

  (** ClaimValidator::is_valid *)
  Definition is_valid (v : validator) (c : claim) : option bool :=
    match v with
    | VLength mn mx =>
        let lo := match mn with Some x => x | None => 0 end in
        let hi := match mx with Some x => x | None => u64_max_z end in
        match c with
        | CHashed value _ => Some ((lo <=? len value) && (len value <=? hi))
        | CRevocation i => Some ((lo <=? len i) && (len i <=? hi))
        | _ => None
        end
    | VRange mn mx =>
        let lo := match mn with Some x => x | None => - two63 end in
        let hi := match mx with Some x => x | None => two63 - 1 end in
        match c with
        | CNumber n => Some ((lo <=? n) && (n <=? hi))
        | _ => None
        end
    | VRegex rx =>
        match c with
        | CHashed value _ => if is_utf8 value then Some (rx_match rx value) else None
        | CRevocation i => Some (rx_match rx i)
        | _ => None
        end
    | VAnyOne l => Some (existsb (fun x => claim_eqb x c) l)
    end.

  (** ClaimSchema::is_valid: conjunction, None at the first validator that does not apply *)
  Fixpoint schema_valid (vs : list validator) (c : claim) (acc : bool) : option bool :=
    match vs with
    | [] => Some acc
    | v :: t => match is_valid v c with
                | Some b => schema_valid t c (acc && b)
                | None => None
                end
    end.

  (** the checking loop of sign_credential: returns the revocation claim if everything is fine *)
  Fixpoint check_claims (cs : list claim) (ts : list claim_schema) (found : option bytes) : res (option bytes) :=
    match cs, ts with
    | c :: ct, t :: ts1 =>
        if negb (is_type c (cs_type t)) then Err
        else match schema_valid (cs_validators t) c true with
             | Some true =>
                 match c with
                 | CRevocation i =>
                     match found with
                     | Some _ => Err                         (* multiple revocation claims *)
                     | None => check_claims ct ts1 (Some i)
                     end
                 | _ => check_claims ct ts1 found
                 end
             | Some false => Err
             | None => Err
             end
    | _, _ => Ok found
    end.

  (** Issuer::sign_credential on the registry state; Ok carries the new state and the identifier *)
  Definition sign_credential (sch : list claim_schema) (s : reg) (claims : list claim) : res (reg * bytes) :=
    if negb (Nat.eqb (length claims) (length sch)) then Err
    else match check_claims claims sch None with
         | Ok (Some i) =>
             if already_revoked s (idn i) then Err
             else Ok (record s (idn i), i)
         | Ok None => Err
         | Err => Err
         | Panic => Panic
         end.
  (** ---- Issuer::blind_sign_credential, the issuer's own part: the claims it supplies itself are checked
      like directly issued ones, each at the schema position of its label (here: its index), and exactly
      one of them is a revocation claim ---- *)
  Fixpoint check_known (known : list (nat * claim)) (sch : list claim_schema) (found : option bytes) : res (option bytes) :=
    match known with
    | [] => Ok found
    | (j, c) :: t =>
        match nth_error sch j with
        | None => Err                                          (* claim not found in schema *)
        | Some ts =>
            if negb (is_type c (cs_type ts)) then Err
            else match schema_valid (cs_validators ts) c true with
                 | Some true =>
                     match c with
                     | CRevocation i =>
                         match found with
                         | Some _ => Err                       (* multiple revocation claims *)
                         | None => check_known t sch (Some i)
                         end
                     | _ => check_known t sch found
                     end
                 | _ => Err
                 end
        end
    end.

  (** the label policy: every requested label is declared blindable, is not supplied by the issuer, and is
      requested once *)
  Fixpoint labels_ok (blindable req known_labels seen : list nat) : bool :=
    match req with
    | [] => true
    | l :: t => existsb (Nat.eqb l) blindable && negb (existsb (Nat.eqb l) known_labels) && negb (existsb (Nat.eqb l) seen)
                && labels_ok blindable t known_labels (l :: seen)
    end.

  (** [ctx_ok]: does the suite's blind_sign accept the request's context (C16) *)
  Definition blind_sign_credential (sch : list claim_schema) (blindable : list nat) (s : reg)
             (req : list nat) (known : list (nat * claim)) (ctx_ok : bool) : res (reg * bytes) :=
    if negb (Nat.eqb (length req + length known) (length sch)) then Err
    else if negb (labels_ok blindable req (map fst known) []) then Err
    else match check_known known sch None with
         | Ok (Some i) =>
             if already_revoked s (idn i) then Err
             else if ctx_ok then Ok (record s (idn i), i) else Err
         | Ok None => Err
         | Err => Err
         | Panic => Panic
         end.
End Issuance.

(** CredentialSchema::new: labels are compared as strings (here: numbers) *)
Definition schema_new (labels blind : list N) : bool :=
  negb (Nat.eqb (length labels) 0) && nodupb labels && forallb (fun b => mem b labels) blind.
