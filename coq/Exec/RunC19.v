(** Case runner for the wire-format models (C19). *)
From Coq Require Import ZArith List String Bool Ascii.
From ACV Require Import Model.Res Model.Bytes Model.ClaimCodec Model.Codec Model.SerdeTree Exec.Show Exec.Utf8.
Import ListNotations.
Open Scope string_scope.

Definition show_nat (n : nat) : string := show_Z (Z.of_nat n).

Fixpoint show_tree (t : tree) : string :=
  match t with
  | TBool b => "bool(" ++ show_bool b ++ ")"
  | TU8 n => "u8(" ++ show_Z n ++ ")"
  | TU64 n => "u64(" ++ show_Z n ++ ")"
  | TI64 n => "i64(" ++ show_Z n ++ ")"
  | TStr s => "str(" ++ show_hex s ++ ")"
  | TNone => "none"
  | TSome x => "some(" ++ show_tree x ++ ")"
  | TSeq l => "seq[" ++ join "," (map show_tree l) ++ "]"
  | TTuple l => "tuple[" ++ join "," (map show_tree l) ++ "]"
  | TStruct _ f => "struct{" ++ join "," (map (fun kv => fst kv ++ ":" ++ show_tree (snd kv)) f) ++ "}"
  | TVarN i n x => "variant:" ++ show_nat i ++ ":" ++ n ++ "(" ++ show_tree x ++ ")"
  | TVarS i n f => "variant:" ++ show_nat i ++ ":" ++ n ++ "{" ++ join "," (map (fun kv => fst kv ++ ":" ++ show_tree (snd kv)) f) ++ "}"
  end.

Definition show_otree (o : option tree) : string := match o with Some t => show_tree t | None => "panic" end.

Inductive obj : Type :=
| OClaim (c : claim) | OType (t : ctype) | OValidator (v : validator)
| OClaimSchema (c : claim_schema) | OSchema (s : cred_schema).

Definition ser_obj (hr : bool) (o : obj) : option tree :=
  match o with
  | OClaim c => ser_claim utf8_valid hr c
  | OType t => ser_ctype hr t
  | OValidator v => ser_validator utf8_valid hr v
  | OClaimSchema c => ser_claim_schema utf8_valid hr c
  | OSchema s => ser_cred_schema utf8_valid hr s
  end.

Definition opt_eqb {A} (e : A -> A -> bool) (a b : option A) : bool :=
  match a, b with Some x, Some y => e x y | None, None => true | _, _ => false end.
Definition claim_eqb (a b : claim) : bool :=
  match a, b with
  | CHashed v p, CHashed v' p' => list_eqb v v' && Bool.eqb p p'
  | CNumber x, CNumber y => Z.eqb x y
  | CScalar x, CScalar y => Z.eqb x y
  | CRevocation x, CRevocation y => list_eqb x y
  | CEnum d v t, CEnum d' v' t' => list_eqb d d' && Z.eqb v v' && Z.eqb t t'
  | _, _ => false
  end.
Fixpoint lst_eqb {A} (e : A -> A -> bool) (a b : list A) : bool :=
  match a, b with [], [] => true | x :: a', y :: b' => e x y && lst_eqb e a' b' | _, _ => false end.
Definition validator_eqb (a b : validator) : bool :=
  match a, b with
  | VLength x y, VLength x' y' => opt_eqb Z.eqb x x' && opt_eqb Z.eqb y y'
  | VRange x y, VRange x' y' => opt_eqb Z.eqb x x' && opt_eqb Z.eqb y y'
  | VRegex s, VRegex s' => list_eqb s s'
  | VAnyOne l, VAnyOne l' => lst_eqb claim_eqb l l'
  | _, _ => false
  end.
Definition cs_eqb (a b : claim_schema) : bool :=
  ctype_eqb (cs_type a) (cs_type b) && list_eqb (cs_label a) (cs_label b) && Bool.eqb (cs_pf a) (cs_pf b)
  && lst_eqb validator_eqb (cs_validators a) (cs_validators b).
Definition sch_eqb (a b : cred_schema) : bool :=
  list_eqb (sch_id a) (sch_id b) && opt_eqb list_eqb (sch_label a) (sch_label b) && opt_eqb list_eqb (sch_desc a) (sch_desc b)
  && lst_eqb list_eqb (sch_blind a) (sch_blind b) && lst_eqb list_eqb (sch_indices a) (sch_indices b)
  && lst_eqb cs_eqb (sch_claims a) (sch_claims b).

(** decode-by-name after serialise gives the object back *)
Definition rt_obj (hr : bool) (o : obj) : bool :=
  match ser_obj hr o with
  | None => false
  | Some t =>
      match o with
      | OClaim c => opt_eqb claim_eqb (de_claim hr t) (Some c)
      | OType x => opt_eqb ctype_eqb (de_ctype hr t) (Some x)
      | OValidator v => opt_eqb validator_eqb (de_validator hr t) (Some v)
      | OClaimSchema c => opt_eqb cs_eqb (de_claim_schema hr t) (Some c)
      | OSchema s => opt_eqb sch_eqb (de_cred_schema hr t) (Some s)
      end
  end.

Definition skips_obj (o : obj) : bool :=
  match o with
  | OValidator v => validator_skips v
  | OClaimSchema c => claim_schema_skips c
  | OSchema s => cred_schema_skips s
  | _ => false
  end.

(** the positional reader on what the binary serializer wrote: does it give the object back and
    consume everything ("na": the object is outside the reader) *)
Fixpoint no_anyone (l : list validator) : bool :=
  match l with [] => true | VAnyOne _ :: _ => false | _ :: t => no_anyone t end.
Definition pos_obj (o : obj) : string :=
  match ser_obj false o, o with
  | Some t, OValidator (VAnyOne _) => "na"
  | Some t, OValidator v =>
      match pos_validator (flat t) with Some (v', []) => if validator_eqb v v' then "ok" else "differs" | Some _ => "differs" | None => "dec-err" end
  | Some t, OClaimSchema c =>
      if no_anyone (cs_validators c) then
        match pos_claim_schema (flat t) with Some (c', []) => if cs_eqb c c' then "ok" else "differs" | Some _ => "differs" | None => "dec-err" end
      else "na"
  | _, _ => "na"
  end.

(** hand-written codecs: points are the chunks the implementation's point decoder accepts *)
Definition tleaf (w : nat) (table : list bytes) : leaf bytes :=
  {| l_w := w; l_enc := fun b => b; l_dec := fun b => if existsb (list_eqb b) table then Some b else None |}.

Inductive codec := CPsPk | CPsSk | CPsSig | CPsPok | CPsCtx | CBbsPok.

Definition run_codec (c : codec) (t48 t96 : list bytes) (b : bytes) : string :=
  let g1 := tleaf 48 t48 in
  let g2 := tleaf 96 t96 in
  let out (o : option bytes) := match o with Some e => "ok " ++ show_hex e | None => "none" end in
  match c with
  | CPsPk => out (option_map (ps_pk_enc g1 g2) (ps_pk_dec g1 g2 b))
  | CPsSk => out (option_map ps_sk_enc (ps_sk_dec b))
  | CPsSig => out (option_map (ps_sig_enc g1) (ps_sig_dec g1 b))
  | CPsPok => out (option_map (ps_pok_enc g1 g2) (ps_pok_dec g1 g2 2 b))
  | CPsCtx => out (option_map (ps_ctx_enc g1) (ps_ctx_dec g1 b))
  | CBbsPok => out (option_map (bbs_pok_enc g1) (bbs_pok_dec g1 b))
  end.

Inductive case : Type :=
| KTree (hr : bool) (o : obj)
| KRt (hr : bool) (o : obj)
| KSkips (o : obj)
| KPos (o : obj)
| KCodec (c : codec) (t48 t96 : list bytes) (b : bytes).

Definition run_case (k : case) : string :=
  match k with
  | KTree hr o => show_otree (ser_obj hr o)
  | KRt hr o => show_bool (rt_obj hr o)
  | KSkips o => show_bool (skips_obj o)
  | KPos o => pos_obj o
  | KCodec c a b x => run_codec c a b x
  end.

Definition run_all (l : list case) : string := unlines (map run_case l).
