(** Runner for the presentation-verifier correspondence (C01, C02, C05, C09, C11):
    a case is (schema, reference presentation P0, presented P, derived) *)
From Coq Require Import ZArith List String Bool.
From Bignums Require Import BigZ.
From ACV Require Import Model.Field Model.Pres Exec.ZrBig Exec.Show.
Import ListNotations.
Open Scope string_scope.

Definition z (x : Z) : Zr := zr_of_Z x.
Definition zs (l : list Z) : list Zr := map z l.
Definition zp (l : list (nat * Z)) : list (nat * Zr) := map (fun p => (fst p, z (snd p))) l.

Record pcase := mkCase { c_schema : schema Zr; c_p0 : pres Zr; c_p : pres Zr; c_derived : bool }.

Definition show_verdict (v : verdict) : string :=
  match v with Accept => "accept" | RejectStruct => "struct" | RejectFS => "fs" | RejectPost => "post" end.

Definition run_case (c : pcase) : string :=
  show_verdict (verify_case Zr (c_schema c) (c_p0 c) (c_p c) (c_derived c)).
Definition run_all (l : list pcase) : string := unlines (map run_case l).
