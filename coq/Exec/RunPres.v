(** Runner for the presentation-verifier correspondence (C01, C02, C05, C09, C11):
    a case is (schema, reference presentation P0, presented P, derived) *)
From Coq Require Import ZArith List String Bool.
From Bignums Require Import BigZ.
From ACV Require Import Model.Field Model.Pres Exec.ZrBig Exec.Show.
Import ListNotations.
Open Scope string_scope.

Definition z (x : Z) : Zr := zr_of_Z x.
Definition zs (l : list Z) : list Zr := map z l.
Definition zp (l : list (nat * Z)) : list (nat * Zr) := map (fun p => (fst p, z (snd p))) l.

Record pcase := mkCase { c_schema : schema Zr; c_p0 : pres Zr; c_p : pres Zr; c_derived : bool }.

Definition show_verdict (v : verdict) : string :=
  match v with Accept => "accept" | RejectStruct => "struct" | RejectFS => "fs" | RejectPost => "post" end.

Definition run_case (c : pcase) : string :=
  show_verdict (verify_case Zr (c_schema c) (c_p0 c) (c_p c) (c_derived c)).
Definition run_all (l : list pcase) : string := unlines (map run_case l).

(** ---- knox-level cases (C17): a proof of knowledge checked directly, without the presentation layer.
    FS: the verifier's transcript contribution for (sp, c) must equal the one for the reference (sp0, 0) *)
Record kcase := mkK { k_pk : pubkey Zr; k_sp0 : sigproof Zr; k_sp : sigproof Zr; k_c : Zr }.
Definition run_kcase (k : kcase) : string :=
  let fs := list_eqb zr_eqb (pok_items Zr (k_pk k) (k_sp k) (k_c k)) (pok_items Zr (k_pk k) (k_sp0 k) (z 0)) in
  let ver := pok_verify Zr (k_pk k) (k_sp k) (k_c k) in
  (if fs && ver then "accept" else "reject") ++ " fs=" ++ show_bool fs ++ " ver=" ++ show_bool ver ++ " hid=" ++
  match hidden_message_proofs Zr (k_pk k) (k_sp k) with
  | Some l => join "," (map (fun p => show_Z (Z.of_nat (fst p)) ++ ":" ++ show_scalar (zr_to_Z (snd p))) l)
  | None => "none" end.
Definition run_kall (l : list kcase) : string := unlines (map run_kcase l).
