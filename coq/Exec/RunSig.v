(** Runner for plain signature verification cases (C17) *)
From Coq Require Import ZArith List String Bool.
From Bignums Require Import BigZ.
From ACV Require Import Model.Field Model.Pres Model.Sigs Exec.ZrBig Exec.Show Exec.RunPres.
Import ListNotations.
Open Scope string_scope.

Inductive sigcase :=
| SigBBS (x : Z) (ys : list Z) (a e : Z) (msgs : list Z)
| SigPS (x w : Z) (ys : list Z) (s1 s2 mtick : Z) (msgs : list Z).

Definition run_sigcase (c : sigcase) : string :=
  match c with
  | SigBBS x ys a e msgs => if bbs_verify Zr (z x) (zs ys) (z a) (z e) (zs msgs) then "accept" else "reject"
  | SigPS x w ys s1 s2 mt msgs => if ps_verify Zr (z x) (z w) (zs ys) (z s1) (z s2) (z mt) (zs msgs) then "accept" else "reject"
  end.
Definition run_sigall (l : list sigcase) : string := unlines (map run_sigcase l).
