From Coq Require Import ZArith List String Bool.
From Bignums Require Import BigZ.
From ACV Require Import Model.Field Model.Pres Model.Blind Exec.ZrBig Exec.Show Exec.RunPres.
Import ListNotations.
Open Scope string_scope.

Record bcase := mkB { b_suite : suite; b_ys : list Z; b_known : list nat; b_commit : Z; b_chal : Z; b_proofs : list Z;
                      b_t0 : Z; b_derived : bool; b_n : nat; b_blindable : list nat; b_req : list nat; b_knownl : list nat }.

(** issuer side of blind_sign_credential: label policy, then the request's proof (symbolic Fiat-Shamir:
    the recomputed commitment must be the one the holder hashed) *)
Definition run_case (c : bcase) : string :=
  if negb (blind_policy_ok (b_n c) (b_blindable c) (b_req c) (b_knownl c)) then "policy"
  else match ctx_recompute Zr (b_suite c) (zs (b_ys c)) (b_known c) (mkBctx Zr (z (b_commit c)) (z (b_chal c)) (zs (b_proofs c))) with
       | None => "length"
       | Some t => if b_derived c && zr_eqb t (z (b_t0 c)) then "accept" else "fs"
       end.
Definition run_all (l : list bcase) : string := unlines (map run_case l).
