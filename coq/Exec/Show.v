(** Printers used by the generated case files: one line of plain ASCII per case. *)
From Coq Require Import ZArith List String Ascii Bool Decimal DecimalString DecimalZ.
From ACV Require Import Model.Res Model.Bytes.
Import ListNotations.
Open Scope string_scope.

Definition show_Z (z : Z) : string := NilZero.string_of_int (Z.to_int z).

Definition hexc (d : Z) : ascii := ascii_of_N (Z.to_N (hex_digit d)).

Fixpoint show_hex (l : bytes) : string :=
  match l with
  | [] => ""
  | b :: t => String (hexc (b / 16)) (String (hexc (b mod 16)) (show_hex t))
  end%Z.

(** field elements / scalars are printed as 64 hex digits (32 big-endian bytes) *)
Definition show_scalar (s : Z) : string := show_hex (to_be 32 s).

Definition show_bool (b : bool) : string := if b then "1" else "0".

Definition show_res {A} (f : A -> string) (r : res A) : string :=
  match r with
  | Ok a => "ok " ++ f a
  | Err => "err"
  | Panic => "panic"
  end.

Definition nl : string := String (ascii_of_N 10) "".

Fixpoint unlines (l : list string) : string :=
  match l with
  | [] => ""
  | s :: t => s ++ nl ++ unlines t
  end.

Fixpoint join (sep : string) (l : list string) : string :=
  match l with
  | [] => ""
  | [s] => s
  | s :: t => s ++ sep ++ join sep t
  end.
