(** Executable instance of [fops]: integers modulo the BLS12-381 group order r, on
    Bignums.BigZ (vm_compute friendly).  Used only to *run* the model in the correspondence
    check; no property theorem depends on it. *)
From Coq Require Import ZArith.
From Bignums Require Import BigZ.
From ACV Require Import Model.Field.

Definition r_Z : Z := 0x73eda753299d7d483339d80809a1d80553bda402fffe5bfeffffffff00000001%Z.
Definition r_big : bigZ := BigZ.of_Z r_Z.

Definition zr_red (a : bigZ) : bigZ := BigZ.modulo a r_big.
Definition zr_add (a b : bigZ) := zr_red (BigZ.add a b).
Definition zr_mul (a b : bigZ) := zr_red (BigZ.mul a b).
Definition zr_sub (a b : bigZ) := zr_red (BigZ.sub a b).
Definition zr_opp (a : bigZ) := zr_red (BigZ.opp a).

(** a^e by square and multiply on the binary expansion of a positive *)
Fixpoint zr_pow_pos (a : bigZ) (e : positive) : bigZ :=
  match e with
  | xH => a
  | xO e' => let h := zr_pow_pos a e' in zr_mul h h
  | xI e' => let h := zr_pow_pos a e' in zr_mul a (zr_mul h h)
  end.
(** Fermat inverse a^(r-2); 0 maps to 0 like blstrs' invert().unwrap_or(0)-style totalisation is
    NOT relied upon: model code tests for zero before inverting wherever the Rust code does *)
Definition zr_inv (a : bigZ) : bigZ :=
  match (r_Z - 2)%Z with Zpos e => zr_pow_pos a e | _ => BigZ.zero end.
Definition zr_eqb (a b : bigZ) : bool := BigZ.eqb a b.

Definition Zr : fops :=
  mkF bigZ BigZ.zero BigZ.one zr_add zr_mul zr_sub zr_opp zr_inv zr_eqb.

Definition zr_of_Z (z : Z) : Zr := zr_red (BigZ.of_Z z).
Definition zr_to_Z (a : Zr) : Z := BigZ.to_Z a.
