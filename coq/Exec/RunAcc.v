(** Runner for the accumulator membership proof (C06): the verifier's recomputation [acc_finalize] on
    concrete parameters, proof and challenge; prints the eight exponents E_C, T_sigma, T_rho, R_E (in GT),
    R_sigma, R_rho, R_delta_sigma, R_delta_rho *)
From Coq Require Import ZArith List String Bool.
From Bignums Require Import BigZ.
From ACV Require Import Model.Field Model.AccProof Exec.ZrBig Exec.Show.
Import ListNotations.
Open Scope string_scope.

Definition z (x : Z) : Zr := zr_of_Z x.

Record fcase := mkF { f_x : Z; f_y : Z; f_z : Z; f_alpha : Z; f_V : Z;
                      f_ec : Z; f_ts : Z; f_tr : Z; f_ss : Z; f_sr : Z; f_sds : Z; f_sdr : Z; f_sy : Z; f_c : Z }.

Definition run_fin (k : fcase) : string :=
  let p := mkAP Zr (z (f_x k)) (z (f_y k)) (z (f_z k)) (z (f_alpha k)) in
  let pr := mkAPr Zr (z (f_ec k)) (z (f_ts k)) (z (f_tr k)) (z (f_ss k)) (z (f_sr k)) (z (f_sds k)) (z (f_sdr k)) (z (f_sy k)) in
  let a := acc_finalize Zr p (z (f_V k)) pr (z (f_c k)) in
  join " " (map (fun e => show_scalar (zr_to_Z e))
                [ac_ec Zr a; ac_tsigma Zr a; ac_trho Zr a; ac_re Zr a; ac_rsigma Zr a; ac_rrho Zr a; ac_rdsigma Zr a; ac_rdrho Zr a]).
Definition run_fins (l : list fcase) : string := unlines (map run_fin l).
