(** Executable UTF-8 validity (the Unicode standard's well-formed byte sequences, which is
    what Rust's str::from_utf8 accepts); used only to run the model, never in a theorem. *)
From Coq Require Import ZArith List Bool.
From ACV Require Import Model.Bytes.
Import ListNotations.
Open Scope Z_scope.

Definition inr (lo hi b : Z) : bool := (lo <=? b) && (b <=? hi).
Definition cont (b : Z) : bool := inr 128 191 b.

Fixpoint utf8_fuel (fuel : nat) (l : bytes) : bool :=
  match fuel with
  | O => false
  | S f =>
      match l with
      | [] => true
      | a :: t =>
          if inr 0 127 a then utf8_fuel f t
          else if inr 194 223 a then
            match t with b :: t' => cont b && utf8_fuel f t' | _ => false end
          else if inr 224 239 a then
            match t with
            | b :: c :: t' =>
                (if a =? 224 then inr 160 191 b else if a =? 237 then inr 128 159 b else cont b)
                && cont c && utf8_fuel f t'
            | _ => false
            end
          else if inr 240 244 a then
            match t with
            | b :: c :: d :: t' =>
                (if a =? 240 then inr 144 191 b else if a =? 244 then inr 128 143 b else cont b)
                && cont c && cont d && utf8_fuel f t'
            | _ => false
            end
          else false
      end
  end.
Definition utf8_valid (l : bytes) : bool := utf8_fuel (S (length l)) l.
