(** Case runner for the verification skeleton (C20). *)
From Coq Require Import ZArith List String Bool.
From ACV Require Import Model.Res Model.Skeleton Model.SkelCreate Exec.Show.
Import ListNotations.
Open Scope string_scope.

Inductive case : Type :=
| KVer (su : suite) (ss : list sstmt) (P : spres)
| KCre (creds : list (nat * cred)) (ss : list cstmt).

Definition St := Build_sstmt.
Definition Pr := Build_sproof.
Definition Ps := Build_spres.
Definition Cs := Build_cstmt.

Definition run_case (k : case) : string :=
  match k with
  | KVer su ss P => show_res (fun _ => "") (verify su all_pass ss P)
  | KCre creds ss => show_res (fun _ => "") (create creds ss all_pass_c)
  end.

Definition run_all (l : list case) : string := unlines (map run_case l).
