(** Case runner for the verification skeleton (C20). *)
From Coq Require Import ZArith List String Bool.
From ACV Require Import Model.Res Model.Skeleton Model.SkelCreate Model.SkelBlind Exec.Show.
Import ListNotations.
Open Scope string_scope.

Inductive case : Type :=
| KVer (su : suite) (ss : list sstmt) (P : spres)
| KCre (creds : list (nat * cred)) (ss : list cstmt)
| KReqNew (sc : bschema) (ngens : nat) (labels : list nat)
| KBSign (ps : bool) (sc : bschema) (nkey nresp : nat) (req_labels : list nat) (known : list (nat * bool)) (has_rev : bool)
| KUnblind (sc : bschema) (bundle_labels blind_labels : list nat) (rev_label : nat).

Definition St := Build_sstmt.
Definition Pr := Build_sproof.
Definition Ps := Build_spres.
Definition Cs := Build_cstmt.
Definition Bs := Build_bschema.
Definition valid_of (known : list (nat * bool)) (l : nat) : bool := existsb (fun p => Nat.eqb (fst p) l && snd p) known.

Definition run_case (k : case) : string :=
  match k with
  | KVer su ss P => show_res (fun _ => "") (verify su all_pass ss P)
  | KCre creds ss => show_res (fun _ => "") (create creds ss all_pass_c)
  | KReqNew sc n labels => show_res (fun _ => "") (request_new sc n labels true)
  | KBSign ps sc nkey nresp rl known hr =>
      show_res (fun _ => "") (blind_sign_credential ps sc nkey nresp rl (map fst known) (valid_of known) hr true true true)
      ++ " " ++ show_res (fun _ => "") (request_verify ps sc nkey nresp rl true)
  | KUnblind sc bl blind rl => show_res (fun _ => "") (to_unblinded sc bl blind rl)
  end.

Definition run_all (l : list case) : string := unlines (map run_case l).
