(** Case runner for the verification skeleton (C20). *)
From Coq Require Import ZArith List String Bool.
From ACV Require Import Model.Res Model.Skeleton Exec.Show.
Import ListNotations.
Open Scope string_scope.

Inductive case : Type :=
| KVer (su : suite) (ss : list sstmt) (P : spres).

Definition St := Build_sstmt.
Definition Pr := Build_sproof.
Definition Ps := Build_spres.

Definition run_case (k : case) : string :=
  match k with
  | KVer su ss P => show_res (fun _ => "") (verify su all_pass ss P)
  end.

Definition run_all (l : list case) : string := unlines (map run_case l).
