From Coq Require Import ZArith List String Bool.
From ACV Require Import Model.Bytes Model.Transcript Exec.Show.
Import ListNotations.
Open Scope string_scope.

(** fingerprint of the verifier-side transcript: all payloads in hex, separated by '|' *)
Definition run_case (c : bytes * tschema) : string :=
  join "|" (map show_hex (enc_context (fst c) (snd c))).
Definition run_all (l : list (bytes * tschema)) : string := unlines (map run_case l).
