From Coq Require Import ZArith NArith List String Bool.
From ACV Require Import Model.Res Model.Ints Model.Bytes Model.ClaimCodec Model.Registry Model.Issuance Exec.Show Exec.Utf8.
Import ListNotations.
Open Scope string_scope.

Record icase := mkI { i_schema : list claim_schema; i_state : nat; i_claims : list claim; i_rx : list (nat * bool) }.

Fixpoint rx_lookup (t : list (nat * bool)) (k : nat) : bool :=
  match t with [] => false | (k', b) :: r => if Nat.eqb k k' then b else rx_lookup r k end.

(** registry state before the call: 0 fresh, 1 identifier issued, 2 identifier issued and revoked *)
Definition pre_state (n : nat) : reg :=
  match n with
  | O => reg0
  | S O => run [Issue 1%N] reg0
  | _ => run [Issue 1%N; Revoke [1%N]] reg0
  end.

Definition run_case (c : icase) : string :=
  match sign_credential (fun k _ => rx_lookup (i_rx c) k) utf8_valid (fun _ => 1%N) (i_schema c) (pre_state (i_state c)) (i_claims c) with
  | Ok _ => "ok" | Err => "err" | Panic => "panic" end.
Definition run_all (l : list icase) : string := unlines (map run_case l).

(** the same vector through blind issuance: the schema has one more claim (Hashed, no validators,
    blindable) hidden by an honest holder; the vector is the issuer's own part, labels in index order *)
Definition run_blind (c : icase) : string :=
  let n := List.length (i_schema c) in
  let sch := (i_schema c ++ [mkCS THashed []])%list in
  let known := combine (seq 0 (List.length (i_claims c))) (i_claims c) in
  match blind_sign_credential (fun k _ => rx_lookup (i_rx c) k) utf8_valid (fun _ => 1%N) sch [n] (pre_state (i_state c)) [n] known true with
  | Ok _ => "ok" | Err => "err" | Panic => "panic" end.
Definition run_blinds (l : list icase) : string := unlines (map run_blind l).

Definition run_schema (p : list N * list N) : string := if schema_new (fst p) (snd p) then "ok" else "err".
Definition run_schemas (l : list (list N * list N)) : string := unlines (map run_schema l).
