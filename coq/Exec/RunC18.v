(** Case runner for the claim-encoding model (C18, and the parsers of C20). *)
From Coq Require Import ZArith List String Bool.
From ACV Require Import Model.Res Model.Ints Model.Bytes Model.ClaimCodec Exec.Show Exec.Utf8.
Import ListNotations.
Open Scope string_scope.

Definition H0 (_ : bytes) : Z := 0%Z.

Inductive case : Type :=
| KToScalar (c : claim)
| KNumFromScalar (s : Z)
| KEncodeStr (b : bytes)
| KEncodeBytes (b : bytes)
| KDecodeStr (s : Z)
| KDecodeBytes (s : Z)
| KToBytes (c : claim)
| KFromBytes (t : ctype) (b : bytes)
| KToText (c : claim)
| KFromText (b : bytes).

Definition show_claim (c : claim) : string :=
  match c with
  | CHashed v pf => "hashed " ++ show_hex v ++ " " ++ show_bool pf
  | CNumber v => "number " ++ show_Z v
  | CScalar s => "scalar " ++ show_scalar s
  | CRevocation id => "revocation " ++ show_hex id
  | CEnum dst v total => "enumeration " ++ show_hex dst ++ " " ++ show_Z v ++ " " ++ show_Z total
  end.

Definition run_case (k : case) : string :=
  match k with
  | KToScalar c =>
      match preimage c with
      | Some p => "pre " ++ show_hex p
      | None => "ok " ++ show_scalar (to_scalar H0 c)
      end
  | KNumFromScalar s => "ok " ++ show_Z (number_of_scalar s)
  | KEncodeStr b => show_res show_scalar (encode_str b)
  | KEncodeBytes b => show_res show_scalar (encode_bytes b)
  | KDecodeStr s => show_res show_hex (decode_to_str utf8_valid s)
  | KDecodeBytes s => show_res show_hex (decode_to_bytes s)
  | KToBytes c => "ok " ++ show_hex (to_bytes c)
  | KFromBytes t b => show_res show_claim (from_bytes utf8_valid t b)
  | KToText c => show_res show_hex (to_text utf8_valid c)
  | KFromText b => show_res show_claim (from_text utf8_valid b)
  end.

Definition run_all (l : list case) : string := unlines (map run_case l).
