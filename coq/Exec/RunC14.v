(** Runner for the C14 correspondence: a case is (alpha, V0, y, history, groups); the model computes the
    manager's published data and every public update procedure. *)
From Coq Require Import ZArith List String Bool.
From Bignums Require Import BigZ.
From ACV Require Import Model.Field Model.Accumulator Exec.ZrBig Exec.Show.
Import ListNotations.
Open Scope string_scope.

Definition sh (a : Zr) : string := show_scalar (zr_to_Z a).
Definition shl (l : list Zr) : string := join "," (map sh l).

Record c14case := mkC14 {
  c_alpha : Z; c_v0 : Z; c_y : Z;
  c_hist : list (list Z * list Z);     (* (additions, deletions) per epoch *)
  c_groups : list nat;                 (* sizes of consecutive multi-batch groups *)
  c_els : list Z                       (* initial set for the non-membership witness *)
}.

Definition zl (l : list Z) : list Zr := map zr_of_Z l.

Fixpoint publish (alpha V : Zr) (hist : list (list Z * list Z)) : list (Zr * batch Zr) :=
  match hist with
  | [] => []
  | (A, D) :: t =>
      let '(V1, omega) := acc_update Zr alpha V (zl A) (zl D) in
      (V1, (zl A, zl D, omega)) :: publish alpha V1 t
  end.

Fixpoint group {A} (sizes : list nat) (l : list A) : list (list A) :=
  match sizes with
  | [] => match l with [] => [] | _ => [l] end
  | n :: t => firstn n l :: group t (skipn n l)
  end.

Definition run_case (c : c14case) : string :=
  let alpha := zr_of_Z (c_alpha c) in
  let v0 := zr_of_Z (c_v0 c) in
  let y := zr_of_Z (c_y c) in
  let pub := publish alpha v0 (c_hist c) in
  let batches := map snd pub in
  let vals := map fst pub in
  let c0 := mem_new Zr alpha y v0 in
  (* membership: batch per epoch, multi over everything, multi per group, single-step per epoch *)
  let seqw := fold_left (fun acc b => let c := batch_update Zr (hd c0 acc) y (fst (fst b)) (snd (fst b)) (snd b) in c :: acc) batches [c0] in
  let multi := multi_batch_update Zr c0 y batches in
  let grouped := fold_left (fun c g => multi_batch_update Zr c y g) (group (c_groups c) batches) c0 in
  let singles := snd (fold_left (fun st vb =>
                    let '(vprev, acc) := st in
                    let '(vnew, b) := vb in
                    let c := single_update Zr (hd c0 acc) y vprev vnew (fst (fst b)) (snd (fst b)) in (vnew, c :: acc))
                  pub (v0, [c0])) in
  (* non-membership, over the accumulator with_elements(els) *)
  let els := zl (c_els c) in
  let vn0 := acc_with_elements Zr alpha els in
  let nm := nonmem_new Zr alpha y els in
  let pubn := publish alpha vn0 (c_hist c) in
  let nmseq := match nm with
               | Some w => map (fun w => sh (fst w) ++ ":" ++ sh (snd w))
                             (rev (fold_left (fun acc b => batch_update_nm Zr (hd w acc) y (fst (fst b)) (snd (fst b)) (snd b) :: acc) (map snd pubn) [w]))
               | None => ["none"] end in
  let nmmulti := match nm with
                 | Some w => let w' := multi_batch_update_nm Zr w y (map snd pubn) in sh (fst w') ++ ":" ++ sh (snd w')
                 | None => "none" end in
  let nmsingle := match nm with
                  | Some w0 => map (fun w => sh (fst w) ++ ":" ++ sh (snd w))
                                 (rev (snd (fold_left (fun st vb =>
                                    let '(vprev, acc) := st in
                                    let '(vnew, b) := vb in
                                    (vnew, single_update_nm Zr (hd w0 acc) y vprev vnew (fst (fst b)) (snd (fst b)) :: acc))
                                  pubn (vn0, [w0]))))
                  | None => ["none"] end in
  "vals=" ++ shl vals ++ " coeffs=" ++ join "/" (map (fun b => shl (snd b)) batches)
  ++ " seq=" ++ shl (rev seqw) ++ " multi=" ++ sh multi ++ " grouped=" ++ sh grouped
  ++ " single=" ++ shl (rev singles)
  ++ " nvals=" ++ shl (map fst pubn) ++ " nm=" ++ join "," nmseq ++ " nmmulti=" ++ nmmulti ++ " nmsingle=" ++ join "," nmsingle.

Definition run_all (l : list c14case) : string := unlines (map run_case l).
