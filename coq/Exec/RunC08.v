From Coq Require Import ZArith List String Bool.
From ACV Require Import Model.Res Model.Ints Model.Range Exec.Show.
Import ListNotations.
Open Scope string_scope.

(** (v, lower, upper) -> what the honest prover does, in both build modes *)
Definition show_oz (o : option Z) : string := match o with Some z => show_Z z | None => "-" end.
Definition show_commit (r : res (option Z * option Z)) : string :=
  show_res (fun p => show_oz (fst p) ++ " " ++ show_oz (snd p)) r.
Definition run_case (c : Z * option Z * option Z) : string :=
  let '(v, lo, hi) := c in
  show_commit (range_commit Release v lo hi) ++ " | " ++ show_commit (range_commit Debug v lo hi).
Definition run_all (l : list (Z * option Z * option Z)) : string := unlines (map run_case l).
