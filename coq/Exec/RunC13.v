From Coq Require Import ZArith NArith List String Bool.
From ACV Require Import Model.Registry Exec.Show.
Import ListNotations.
Open Scope string_scope.

Definition show_ids (l : list id) : string := join "," (map (fun x => show_Z (Z.of_N x)) l).
Definition show_step (p : out * reg) : string :=
  (match fst p with OOk => "ok" | OErr => "err" end) ++ " e=" ++ show_ids (elements (snd p))
  ++ " a=" ++ show_ids (active (snd p)) ++ " r=" ++ show_ids (removed (snd p)).
Definition run_case (ops : list op) : string := join " | " (map show_step (trace ops reg0)).
Definition run_all (l : list (list op)) : string := unlines (map run_case l).
