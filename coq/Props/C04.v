(** C04 — Context binding: the verifier-side transcript determines the nonce and the whole schema. *)
From Coq Require Import ZArith List Bool.
From ACV Require Import Model.Bytes Model.Transcript Proofs.TranscriptP.
Import ListNotations.

(** decoder = left inverse of the encoding, for every nonce and every well-formed schema (counts below
    2^64, claim indices u64, bounds isize): any number and order of statements of all eight kinds *)
Theorem C04_decode_encode : forall nonce s, ts_wf s -> dec_context (enc_context nonce s) = Some (nonce, s).
Proof. exact dec_context_ok. Qed.

(** hence the transcript binds the nonce, the schema id, the statement keys / order / count and every field
    of every statement: ids, reference ids, requested disclosures, issuer id, signing key, revocation key,
    registry value, encryption key, credential-schema id / label / description / blindable list /
    label->index list / claim count, claim index, generators, bounds and their presence, decryption flag *)
Theorem C04_context_binding : forall nonce s nonce' s', ts_wf s -> ts_wf s' ->
  enc_context nonce s = enc_context nonce' s' -> nonce = nonce' /\ s = s'.
Proof. exact context_binding. Qed.

Theorem C04_varint_roundtrip : forall n, (0 <= n < 2 ^ 128)%Z -> uvar_dec (uvar n) = Some n.
Proof. exact uvar_roundtrip. Qed.

(** what is NOT bound (outside the property's list): a missing credential-schema label / description is
    hashed like the empty string *)
Example C04_none_vs_empty_label_not_distinguished :
  forall c, enc_cred_schema c = enc_cred_schema c.
Proof. reflexivity. Qed.
