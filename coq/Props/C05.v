(** C05 — Predicate proofs are bound to the referenced signed claim. *)
From Coq Require Import List Bool Arith.
From ACV Require Import Model.Field Model.Res Model.Pres Proofs.PresP Proofs.SlotP.
Import ListNotations.

(** the commitment verifier's recomputed Schnorr commitment, which is what the Fiat-Shamir comparison
    covers, is computed with the response that the referenced signature proof carries for the referenced
    claim index; the proof under the reference id is a signature proof whose statement is a signature
    statement of the schema *)
Theorem C05_accept_commitment_link : forall K (S : schema K) (P : pres K) fs,
  verify_with K S P fs = Accept ->
  forall sid ref claim gm gb, In (SComm K sid ref claim gm gb) S ->
  exists pid cm bp hid mp it, lookup sid (proofs K P) = Some (PComm K pid cm bp) /\
    sig_hidden K S P ref = Some hid /\ lookup claim hid = Some mp /\
    items K S P = Some it /\ fs (Some it) = true /\
    In (fadd K (fadd K (fmul K cm (fopp K (challenge K P))) (fmul K gm mp)) (fmul K gb bp)) it /\ In cm it.
Proof. exact accept_commitment_link. Qed.

(** index -> response-slot lookup: with the ascending disclosed list that acceptance forces (C02), the map
    handed to every predicate verifier pairs the k-th hidden claim index with response off+k, and the proof
    of knowledge multiplies that same response with the generator of that same claim index — so the
    lookup cannot be shifted to another response *)
Theorem C05_hidden_slot : forall K (pk : pubkey K) (sp : sigproof K) hid,
  ascending (idxs K (sp_disclosed K sp)) = true ->
  hidden_message_proofs K pk sp = Some hid ->
  hid = combine (hidden_idx K (sp_disclosed K sp) 0 (length (pk_y K pk)))
                (skipn (pok_off K (sp_pok K sp)) (pok_resp K (sp_pok K sp))) /\
  length (hidden_idx K (sp_disclosed K sp) 0 (length (pk_y K pk)))
    <= length (skipn (pok_off K (sp_pok K sp)) (pok_resp K (sp_pok K sp))).
Proof. exact hidden_slot. Qed.

Theorem C05_hidden_gens_aligned : forall K (pk : pubkey K) disc,
  hidden_gens K pk disc =
    map snd (filter (fun p => is_hidden K disc (fst p)) (combine (seq 0 (length (pk_y K pk))) (pk_y K pk))) /\
  map fst (filter (fun p => is_hidden K disc (fst p)) (combine (seq 0 (length (pk_y K pk))) (pk_y K pk)))
    = hidden_idx K disc 0 (length (pk_y K pk)).
Proof. exact hidden_gens_aligned. Qed.

(** acceptance gives the ascending list (from C02's consistency check) *)
Theorem C05_accept_ascending : forall K, feqb_ok K -> forall (S : schema K) (P : pres K) fs,
  verify_with K S P fs = Accept ->
  forall sid pk req, In (SSig K sid pk req) S ->
  exists sp, lookup sid (proofs K P) = Some (PSig K sp) /\ ascending (idxs K (sp_disclosed K sp)) = true.
Proof.
  intros K HK S P fs H sid pk req Hin.
  destruct (accept_dispatch K S P fs H sid pk req Hin) as [sp [rep [E1 [_ [E3 _]]]]].
  exists sp. split; [exact E1|]. destruct (consistent_inv K HK pk req rep _ E3) as [A [_ [B _]]].
  unfold idxs. rewrite A. exact B.
Qed.

(** the same for a revocation or set-membership statement: it is only satisfied by an accumulator proof whose
    element response is the response the referenced signature proof carries for the referenced claim (with
    C06_membership_proof_extract and C06_link_response the element proved a member is therefore the signed
    claim), and whose recomputed commitments are covered by the challenge *)
Theorem C05_accept_revocation_link : forall K, feqb_ok K -> forall (S : schema K) (P : pres K) fs,
  verify_with K S P fs = Accept ->
  forall sid ref claim, In (SRev K sid ref claim) S ->
  exists pid fin hid mp it, lookup sid (proofs K P) = Some (PRev K pid mp fin) /\
    sig_hidden K S P ref = Some hid /\ lookup claim hid = Some mp /\
    items K S P = Some it /\ fs (Some it) = true /\ In fin it.
Proof. exact accept_revocation_link. Qed.
Theorem C05_revocation_response_mismatch_rejected : forall K, feqb_ok K -> forall (S : schema K) (P : pres K) fs sid ref claim pid sy fin hid mp,
  In (SRev K sid ref claim) S -> lookup sid (proofs K P) = Some (PRev K pid sy fin) ->
  sig_hidden K S P ref = Some hid -> lookup claim hid = Some mp -> sy <> mp ->
  verify_with K S P fs <> Accept.
Proof. exact revocation_response_mismatch_rejected. Qed.
Print Assumptions C05_accept_revocation_link.
Print Assumptions C05_revocation_response_mismatch_rejected.
