(** C03 — Completeness: honest presentations of true statements are accepted.
    Per-statement completeness for every key size, partition, generator, value, randomness and challenge;
    the verifier model composes them statement by statement (verify_with is a fold over the schema), and
    the index->slot alignment makes the predicate verifiers read the honest prover's response. *)
From Coq Require Import List Bool Arith.
From ACV Require Import Model.Field Model.Pres Model.Sigs Model.Preds Proofs.FieldP Proofs.SigsP Proofs.PredsP Proofs.SlotP.
Import ListNotations.

Theorem C03_bbs_pok_complete : forall K, is_field K -> forall x ys A e msgs reveal r nh na nb c,
  length reveal = length ys -> length msgs = length ys ->
  fmul K A (fadd K e x) = bbs_B K ys msgs -> r <> f0 K -> length nh = length (split_hid K reveal msgs) ->
  let sp := bbs_pok K ys A e msgs reveal r nh na nb c in
  let pk := mkPk K BBS x (f0 K) ys in
  match sp_pok K sp with
  | PokBBS _ a_bar b_bar t resp =>
      msm K (hidden_gens K pk (sp_disclosed K sp) ++ [a_bar; b_bar; bbs_lhs K ys (sp_disclosed K sp)]) (resp ++ [fopp K c]) = t /\
      fmul K a_bar x = b_bar /\
      length resp = S (S (hidden_count K pk (sp_disclosed K sp)))
  | _ => False
  end.
Proof. exact bbs_pok_complete. Qed.

Theorem C03_ps_pok_complete : forall K, is_field K -> forall x w ys s1 s2 m_tick msgs reveal r t nt nm nh c,
  length reveal = length ys -> length msgs = length ys ->
  fmul K s1 (ps_exp K x w ys m_tick msgs) = s2 -> length nh = length (split_hid K reveal msgs) ->
  let sp := ps_pok K w ys s1 s2 m_tick msgs reveal r t nt nm nh c in
  let pk := mkPk K PS x w ys in
  match sp_pok K sp with
  | PokPS _ s1' s2' J resp =>
      msm K ([f1 K; w] ++ hidden_gens K pk (sp_disclosed K sp) ++ [J]) (resp ++ [fopp K c])
        = ps_prover_commitment K w ys msgs reveal nt nm nh /\
      fmul K s1' (fadd K (fadd K (revealed_sum K ys (sp_disclosed K sp)) x) J) = s2' /\
      length resp = S (S (hidden_count K pk (sp_disclosed K sp)))
  | _ => False
  end.
Proof. exact ps_pok_complete. Qed.

Theorem C03_commitment_complete : forall K, is_field K -> forall gm gb m b' n r c,
  let o := comm_prover K gm gb m b' n r c in
  comm_verifier_blind K gm gb (co_C K o) (co_bp K o) (co_mp K o) c = co_blind K o.
Proof. exact comm_complete. Qed.

Theorem C03_encryption_complete : forall K, is_field K -> forall gm ek m k n r c,
  let o := venc_prover K gm ek m k n r c in
  venc_verifier_r1 K (vo_c1 K o) (vo_bp K o) c = vo_r1 K o /\
  venc_verifier_r2 K gm ek (vo_c2 K o) (vo_bp K o) (vo_mp K o) c = vo_r2 K o.
Proof. exact venc_complete. Qed.

(** the verifier's index->slot walk reads, for the k-th hidden claim, the k-th response after the offset —
    the position where the honest provers put that claim's response (responses are built in claim order) *)
Theorem C03_hidden_slot : forall K (pk : pubkey K) (sp : sigproof K) hid,
  ascending (idxs K (sp_disclosed K sp)) = true ->
  hidden_message_proofs K pk sp = Some hid ->
  hid = combine (hidden_idx K (sp_disclosed K sp) 0 (length (pk_y K pk)))
                (skipn (pok_off K (sp_pok K sp)) (pok_resp K (sp_pok K sp))) /\
  length (hidden_idx K (sp_disclosed K sp) 0 (length (pk_y K pk)))
    <= length (skipn (pok_off K (sp_pok K sp)) (pok_resp K (sp_pok K sp))).
Proof. exact hidden_slot. Qed.
