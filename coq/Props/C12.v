(** C12 — Unlinkability of presentations from the same credential (partial; see C07 for the assumptions). *)
From Coq Require Import List Bool.
From ACV Require Import Model.Field Model.Pres Model.Sigs Proofs.FieldP Proofs.SigsP Proofs.PrivacyP.
Import ListNotations.

(** BBS: the published pair (a_bar, b_bar) is the same function of fresh randomness for any two valid
    signatures of the issuer — explicit bijection on the randomiser *)
Theorem C12_bbs_rerandomise : forall K, is_field K -> forall x ys A e msgs A' e' msgs' r, A <> f0 K -> A' <> f0 K ->
  fmul K A (fadd K e x) = bbs_B K ys msgs -> fmul K A' (fadd K e' x) = bbs_B K ys msgs' ->
  let r' := fdiv K (fmul K r A) A' in
  fmul K A' r' = fmul K A r /\
  fsub K (fmul K (bbs_B K ys msgs') r') (fmul K (fmul K A' r') e') = fsub K (fmul K (bbs_B K ys msgs) r) (fmul K (fmul K A r) e).
Proof. exact bbs_rerandomise. Qed.
Theorem C12_bbs_rerandomise_inverse : forall K, is_field K -> forall (A A' r : K), A <> f0 K -> A' <> f0 K ->
  fdiv K (fmul K (fdiv K (fmul K r A) A') A') A = r.
Proof. exact bbs_rerandomise_inverse. Qed.

(** PS: likewise for (sigma_1*r, (sigma_2 + sigma_1*t)*r) *)
Theorem C12_ps_rerandomise : forall K, is_field K -> forall (s1 E s1' E' r t : K), s1 <> f0 K -> s1' <> f0 K ->
  let r' := fdiv K (fmul K r s1) s1' in
  let t' := fsub K (fadd K E t) E' in
  fmul K s1' r' = fmul K s1 r /\
  fmul K (fadd K (fmul K s1' E') (fmul K s1' t')) r' = fmul K (fadd K (fmul K s1 E) (fmul K s1 t)) r.
Proof. exact ps_rerandomise. Qed.

(** what would link: a nonce reused across two presentations reveals the secret it blinds *)
Theorem C12_reused_nonce_reveals : forall K, is_field K -> forall (n s c c' : K), c <> c' ->
  fdiv K (fsub K (fadd K n (fmul K s c)) (fadd K n (fmul K s c'))) (fsub K c c') = s.
Proof. exact reused_nonce_reveals. Qed.
