(** C17 — Signature suites: signatures and proofs of knowledge bind key and messages. *)
From Coq Require Import List Bool Arith.
From ACV Require Import Model.Field Model.Pres Model.Sigs Proofs.FieldP Proofs.SigsP.
Import ListNotations.

Section C17.
Variable K : fops.
Hypothesis Kf : is_field K.
Hypothesis Keq : feqb_ok K.
Local Notation "a + b" := (fadd K a b).
Local Notation "a - b" := (fsub K a b).
Local Notation "a * b" := (fmul K a b).
Local Notation "a / b" := (fdiv K a b).
Local Notation "0" := (f0 K).
Local Notation "1" := (f1 K).
Local Notation "- a" := (fopp K a).

(** ---- BBS ---- *)
Theorem C17_bbs_sign_verify : forall x e ys msgs, x + e <> 0 ->
  bbs_sign K x e ys msgs * (e + x) = bbs_B K ys msgs.
Proof. exact (bbs_sign_verify K Kf). Qed.
Theorem C17_bbs_verify_iff : forall x ys A e msgs, bbs_verify K x ys A e msgs = true <->
  A <> 0 /\ e <> 0 /\ msgs <> [] /\ length msgs <= length ys /\ A * (e + x) = bbs_B K ys msgs.
Proof. exact (bbs_verify_iff K Keq). Qed.
Theorem C17_bbs_other_messages_fail : forall x ys A e msgs msgs',
  A * (e + x) = bbs_B K ys msgs -> msm K ys msgs <> msm K ys msgs' -> A * (e + x) <> bbs_B K ys msgs'.
Proof. exact (bbs_other_messages_fail K Kf). Qed.
Theorem C17_single_message_change : forall (pre suf : list K) y m m' (mpre msuf : list K),
  length pre = length mpre -> y <> 0 -> m <> m' ->
  msm K (pre ++ y :: suf) (mpre ++ m :: msuf) <> msm K (pre ++ y :: suf) (mpre ++ m' :: msuf).
Proof. exact (msm_single_change K Kf). Qed.
Theorem C17_bbs_other_component_fails : forall x ys A A' e msgs, e + x <> 0 ->
  A * (e + x) = bbs_B K ys msgs -> A' <> A -> A' * (e + x) <> bbs_B K ys msgs.
Proof. exact (bbs_other_component_fails K Kf). Qed.
Theorem C17_bbs_other_e_fails : forall x ys A e e' msgs, A <> 0 ->
  A * (e + x) = bbs_B K ys msgs -> e' <> e -> A * (e' + x) <> bbs_B K ys msgs.
Proof. exact (bbs_other_e_fails K Kf). Qed.
Theorem C17_bbs_other_key_fails : forall x x' ys A e msgs, A <> 0 ->
  A * (e + x) = bbs_B K ys msgs -> x' <> x -> A * (e + x') <> bbs_B K ys msgs.
Proof. exact (bbs_other_key_fails K Kf). Qed.

(** proof of knowledge: complete for every key size and every reveal/hide partition (mask [reveal]) *)
Theorem C17_bbs_pok_complete : forall x ys A e msgs reveal r nh na nb c,
  length reveal = length ys -> length msgs = length ys ->
  A * (e + x) = bbs_B K ys msgs -> r <> 0 -> length nh = length (split_hid K reveal msgs) ->
  let sp := bbs_pok K ys A e msgs reveal r nh na nb c in
  let pk := mkPk K BBS x 0 ys in
  match sp_pok K sp with
  | PokBBS _ a_bar b_bar t resp =>
      msm K (hidden_gens K pk (sp_disclosed K sp) ++ [a_bar; b_bar; bbs_lhs K ys (sp_disclosed K sp)]) (resp ++ [- c]) = t /\
      a_bar * x = b_bar /\
      length resp = S (S (hidden_count K pk (sp_disclosed K sp)))
  | _ => False
  end.
Proof. exact (bbs_pok_complete K Kf). Qed.

(** special soundness: two accepting transcripts with one commitment and different challenges give an
    opening of the public term, and for v <> 0 a valid signature (A', e') on the complete vector whose
    revealed entries are the claimed ones *)
Theorem C17_bbs_extract : forall x ys disc a_bar b_bar t (zh zh' : list K) za zb za' zb' c c',
  let HG := hidden_gens K (mkPk K BBS x 0 ys) disc in
  length zh = length HG -> length zh' = length HG -> c <> c' ->
  msm K (HG ++ [a_bar; b_bar; bbs_lhs K ys disc]) ((zh ++ [za; zb]) ++ [- c]) = t ->
  msm K (HG ++ [a_bar; b_bar; bbs_lhs K ys disc]) ((zh' ++ [za'; zb']) ++ [- c']) = t ->
  a_bar * x = b_bar ->
  let d := finv K (c - c') in
  let mh := map (fun z => z * d) (vsub K zh zh') in
  let u := (za - za') * d in
  let v := (zb - zb') * d in
  length mh = length HG /\
  1 + revealed_sum K ys disc + msm K HG mh = - (a_bar * (u + v * x)) /\
  (v <> 0 -> (- (v * a_bar)) * (u / v + x) = 1 + revealed_sum K ys disc + msm K HG mh).
Proof. exact (bbs_extract K Kf). Qed.

(** the partition identity used by both directions *)
Theorem C17_partition : forall (ys : list K) reveal msgs,
  length reveal = length ys -> length msgs = length ys ->
  msm K ys msgs = revealed_sum K ys (split_rev K 0 reveal msgs)
                  + msm K (hidden_gens K (mkPk K BBS 0 0 ys) (split_rev K 0 reveal msgs)) (split_hid K reveal msgs).
Proof. exact (partition_sum0 K Kf). Qed.

(** ---- PS ---- *)
Theorem C17_ps_verify_iff : forall x w ys s1 s2 m_tick msgs, ps_verify K x w ys s1 s2 m_tick msgs = true <->
  length msgs <= length ys /\ s1 <> 0 /\ s2 <> 0 /\ s1 * ps_exp K x w ys m_tick msgs = s2.
Proof. exact (ps_verify_iff K Keq). Qed.
Theorem C17_ps_sign_verify : forall x w ys h m_tick msgs,
  fst (ps_sign K x w ys h m_tick msgs) * ps_exp K x w ys m_tick msgs = snd (ps_sign K x w ys h m_tick msgs).
Proof. exact (ps_sign_verify K). Qed.
Theorem C17_ps_other_messages_fail : forall x w ys s1 s2 m_tick msgs msgs', s1 <> 0 ->
  s1 * ps_exp K x w ys m_tick msgs = s2 -> msm K ys msgs <> msm K ys msgs' ->
  s1 * ps_exp K x w ys m_tick msgs' <> s2.
Proof. exact (ps_other_messages_fail K Kf). Qed.
Theorem C17_ps_other_key_fails : forall x x' w ys s1 s2 m_tick msgs, s1 <> 0 ->
  s1 * ps_exp K x w ys m_tick msgs = s2 -> x' <> x -> s1 * ps_exp K x' w ys m_tick msgs <> s2.
Proof. exact (ps_other_key_fails K Kf). Qed.
Theorem C17_ps_other_component_fails : forall x w ys s1 s2 s2' m_tick msgs,
  s1 * ps_exp K x w ys m_tick msgs = s2 -> s2' <> s2 -> s1 * ps_exp K x w ys m_tick msgs <> s2'.
Proof. exact (ps_other_component_fails K). Qed.

Theorem C17_ps_pok_complete : forall x w ys s1 s2 m_tick msgs reveal r t nt nm nh c,
  length reveal = length ys -> length msgs = length ys ->
  s1 * ps_exp K x w ys m_tick msgs = s2 -> length nh = length (split_hid K reveal msgs) ->
  let sp := ps_pok K w ys s1 s2 m_tick msgs reveal r t nt nm nh c in
  let pk := mkPk K PS x w ys in
  match sp_pok K sp with
  | PokPS _ s1' s2' J resp =>
      msm K ([1; w] ++ hidden_gens K pk (sp_disclosed K sp) ++ [J]) (resp ++ [- c])
        = ps_prover_commitment K w ys msgs reveal nt nm nh /\
      s1' * (revealed_sum K ys (sp_disclosed K sp) + x + J) = s2' /\
      length resp = S (S (hidden_count K pk (sp_disclosed K sp)))
  | _ => False
  end.
Proof. exact (ps_pok_complete K Kf). Qed.

Theorem C17_ps_extract : forall x w ys disc s1 s2 J T (zt zm zt' zm' : K) (zh zh' : list K) c c',
  let HG := hidden_gens K (mkPk K PS x w ys) disc in
  length zh = length HG -> length zh' = length HG -> c <> c' ->
  msm K ([1; w] ++ HG ++ [J]) (([zt; zm] ++ zh) ++ [- c]) = T ->
  msm K ([1; w] ++ HG ++ [J]) (([zt'; zm'] ++ zh') ++ [- c']) = T ->
  s1 * (revealed_sum K ys disc + x + J) = s2 ->
  let d := finv K (c - c') in
  let mh := map (fun z => z * d) (vsub K zh zh') in
  let te := (zt - zt') * d in
  let me := (zm - zm') * d in
  length mh = length HG /\
  J = te + w * me + msm K HG mh /\
  s1 * (x + w * me + (revealed_sum K ys disc + msm K HG mh)) = s2 - te * s1.
Proof. exact (ps_extract K Kf). Qed.

(** ---- commitment sub-protocol ---- *)
Theorem C17_commitment_extract : forall gm gb C T zm zb zm' zb' c c', c <> c' ->
  C * (- c) + gm * zm + gb * zb = T -> C * (- c') + gm * zm' + gb * zb' = T ->
  C = gm * ((zm - zm') / (c - c')) + gb * ((zb - zb') / (c - c')).
Proof. exact (commitment_extract K Kf). Qed.
End C17.
