(** C01 — Unforgeability (partial): what acceptance forces, for every presentation object.
    The algebraic half (special soundness of the BBS and PS proofs of knowledge: an explicit extractor
    producing a valid signature on a complete claim vector from two accepting transcripts) is in
    Props/C17.v; the final reduction to q-SDH / the PS assumption in the random-oracle model is assumed. *)
From Coq Require Import List Bool Arith.
From ACV Require Import Model.Field Model.Res Model.Pres Proofs.PresP.
Import ListNotations.

(** dispatch: every signature statement of the schema is matched with a SIGNATURE proof stored under its
    id, whose disclosed data is consistent and whose proof of knowledge passes all post-challenge checks *)
Theorem C01_accept_dispatch : forall K, feqb_ok K -> forall (S : schema K) (P : pres K) fs,
  verify_with K S P fs = Accept ->
  forall sid pk req, In (SSig K sid pk req) S ->
  exists sp rep, lookup sid (proofs K P) = Some (PSig K sp) /\ lookup sid (reported K P) = Some rep /\
    disclosed_consistent K pk req rep (sp_disclosed K sp) = true /\
    pok_verify K pk sp (challenge K P) = true.
Proof. intros K _. exact (accept_dispatch K). Qed.

(** no proof, or a proof of another variant, under a signature id is never accepted *)
Theorem C01_no_sig_proof_rejected : forall K, feqb_ok K -> forall (S : schema K) (P : pres K) fs sid pk req,
  In (SSig K sid pk req) S ->
  (forall sp, lookup sid (proofs K P) <> Some (PSig K sp)) ->
  verify_with K S P fs <> Accept.
Proof.
  intros K HK S P fs sid pk req Hin Hno H.
  destruct (accept_dispatch K S P fs H sid pk req Hin) as [sp [rep [E _]]]. exact (Hno sp E).
Qed.

(** the response vector has exactly hidden+2 entries: the truncating multi-scalar multiplication can
    never drop the challenge term or shift the point assignment *)
Theorem C01_response_length : forall K (pk : pubkey K) (sp : sigproof K) c,
  pok_verify K pk sp c = true ->
  length (pok_resp K (sp_pok K sp)) = hidden_count K pk (sp_disclosed K sp) + 2.
Proof. exact pok_verify_length. Qed.

(** the Fiat-Shamir comparison was made on exactly the item list recomputed from this presentation *)
Theorem C01_accept_fs : forall K (S : schema K) (P : pres K) fs,
  verify_with K S P fs = Accept -> exists it, items K S P = Some it /\ fs (Some it) = true.
Proof. exact accept_fs. Qed.

(** identity elements are rejected *)
Theorem C01_identity_rejected : forall K, feqb_ok K -> forall (pk : pubkey K) sid disc b t resp c,
  pok_verify K pk (mkSp K sid disc (PokBBS K (f0 K) b t resp)) c = false /\
  forall s2 cm, pok_verify K pk (mkSp K sid disc (PokPS K (f0 K) s2 cm resp)) c = false.
Proof.
  intros K HK pk sid disc b t resp c. assert (E : feqb K (f0 K) (f0 K) = true) by (apply HK; reflexivity).
  split; [|intros s2 cm]; unfold pok_verify; cbn [sp_pok sp_disclosed]; rewrite E; reflexivity.
Qed.
