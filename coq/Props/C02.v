(** C02 — Disclosed claims are exactly those requested and exactly what the proof of knowledge covers. *)
From Coq Require Import List Bool Arith.
From ACV Require Import Model.Field Model.Res Model.Pres Proofs.PresP.
Import ListNotations.

(** for every signature statement of an accepted presentation: the proof's disclosed index list IS the
    requested index list (ascending, no duplicate, nothing missing, nothing extra), the reported map has
    exactly as many entries, every requested label is reported, and the reported scalar is the one the
    proof of knowledge was verified with *)
Theorem C02_accept_disclosed : forall K, feqb_ok K -> forall (S : schema K) (P : pres K) fs,
  verify_with K S P fs = Accept ->
  forall sid pk req, In (SSig K sid pk req) S ->
  exists sp rep, lookup sid (proofs K P) = Some (PSig K sp) /\ lookup sid (reported K P) = Some rep /\
    map fst (sp_disclosed K sp) = req /\ length rep = length req /\
    (forall i, In i req -> exists v, lookup i rep = Some v /\ lookup i (sp_disclosed K sp) = Some v) /\
    pok_verify K pk sp (challenge K P) = true.
Proof. exact accept_disclosed. Qed.

Theorem C02_consistent_inv : forall K, feqb_ok K -> forall (pk : pubkey K) req rep disc,
  disclosed_consistent K pk req rep disc = true ->
  map fst disc = req /\ length rep = length req /\ ascending req = true /\
  forall i, In i req -> exists v, lookup i rep = Some v /\ lookup i disc = Some v.
Proof. exact consistent_inv. Qed.

(** a presentation with no reported entry for a signature statement is rejected (not a panic) *)
Theorem C02_missing_entry_rejected : forall K, feqb_ok K -> forall (S : schema K) (P : pres K) fs sid pk req,
  In (SSig K sid pk req) S -> lookup sid (reported K P) = None -> verify_with K S P fs <> Accept.
Proof.
  intros K HK S P fs sid pk req Hin Hn H.
  destruct (accept_dispatch K S P fs H sid pk req Hin) as [sp [rep [_ [E _]]]]. congruence.
Qed.
