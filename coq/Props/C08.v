(** C08 — Range statements hold exactly when lower <= value <= upper over all of i64. *)
From Coq Require Import ZArith Bool.
From ACV Require Import Model.Res Model.Ints Model.Range Proofs.IntsP Proofs.RangeP.
Open Scope Z_scope.

(** honest prover: creation succeeds exactly in range, in debug and release builds alike *)
Theorem C08_create_iff : forall b v lo hi,
  in_i64 v -> opt_in_i64 lo -> opt_in_i64 hi -> (lo <> None \/ hi <> None) ->
  ((exists a, range_commit b v lo hi = Ok a) <-> in_range v lo hi).
Proof. exact range_commit_iff. Qed.

Theorem C08_precheck_iff : forall v lo hi, precheck v lo hi = true <-> in_range v lo hi.
Proof. exact precheck_iff. Qed.

(** in range there is no u64 overflow and the adjusted values are the true differences *)
Theorem C08_adjusted_lower_exact : forall b v l, in_i64 v -> in_i64 l -> l <= v ->
  adjusted_lower b v l = Ok (v - l) /\ 0 <= v - l < two64.
Proof. exact adjusted_lower_ok. Qed.
Theorem C08_adjusted_upper_exact : forall b v h, in_i64 v -> in_i64 h -> v <= h ->
  adjusted_upper b v h = Ok (u64_max - (h - v)) /\ 0 <= u64_max - (h - v) < two64.
Proof. exact adjusted_upper_ok. Qed.

(** prover and verifier speak about the same adjusted commitments (same value, same blinding) *)
Theorem C08_prover_matches_verifier : forall b v lo hi al au,
  in_i64 v -> opt_in_i64 lo -> opt_in_i64 hi ->
  range_commit b v lo hi = Ok (al, au) ->
  (match lo, al with
   | Some l, Some a => a = get_num_scalar v - verifier_lower_offset l
   | None, None => True | _, _ => False end) /\
  (match hi, au with
   | Some h, Some a => a = get_num_scalar v + verifier_upper_offset h
   | None, None => True | _, _ => False end).
Proof. exact adjusted_matches_verifier. Qed.
Theorem C08_adjust_hom : forall m b g h off,
  (m * g + b * h) - g * off = (m - off) * g + b * h /\
  (m * g + b * h) + g * off = (m + off) * g + b * h.
Proof. intros. split; [apply adjust_hom_lower|apply adjust_hom_upper]. Qed.

(** soundness of the verifier's arithmetic: 64-bit range proofs on the adjusted commitments of
    the signed scalar are satisfiable exactly for in-range values; a wrap-around in the field
    (r > 2^65) cannot fake one — whatever offsets a deviating holder feeds its own prover *)
Theorem C08_verifier_iff : forall v lo hi,
  in_i64 v -> opt_in_i64 lo -> opt_in_i64 hi ->
  (verifier_accepts_value (get_num_scalar v) lo hi <-> in_range v lo hi).
Proof. exact verifier_accepts_iff. Qed.

(** out of range, a holder that skips the pre-check gets a panic (debug) or a wrapped offset
    (release) that the verifier's commitment does not open to *)
Theorem C08_out_of_range_wraps : forall v l, in_i64 v -> in_i64 l -> v < l ->
  adjusted_lower Debug v l = Panic /\ adjusted_lower Release v l = Ok (v - l + two64).
Proof. exact adjusted_lower_out. Qed.

Example C08_nonvacuous :
  in_i64 (-5) /\ opt_in_i64 (Some (- 2 ^ 63)) /\ opt_in_i64 None /\ in_range (-5) (Some (- 2 ^ 63)) None
  /\ range_commit Release (-5) (Some (-2 ^ 63)) None = Ok (Some (2 ^ 63 - 5), None).
Proof. unfold in_i64, in_range, opt_in_i64, in_i64. repeat split; vm_compute; congruence. Qed.
