(** C07 — Undisclosed claims stay confidential (partial).
    Proved: perfect honest-verifier zero knowledge of the commitment sub-protocol (explicit bijection of the
    randomness), uniformity of all Schnorr responses, the encryption sub-protocol's view as a function of the
    ElGamal ciphertext and uniform responses, credential-independence of the re-randomised signature elements.
    Assumed, not proved: semantic security of ElGamal / linear encryption (DDH / DLIN), zero knowledge of
    bulletproofs-bls, hiding of the accumulator proof's blinded witness beyond its algebra. *)
From Coq Require Import List Bool.
From ACV Require Import Model.Field Model.Pres Model.Sigs Model.Preds Proofs.FieldP Proofs.PredsP Proofs.PrivacyP.
Import ListNotations.

Theorem C07_commitment_view_independent : forall K, is_field K -> forall gm gb m m' b' n r c, gb <> f0 K ->
  let '(b2, n2, r2) := comm_shift K gm gb m m' c (b', n, r) in
  comm_prover K gm gb m' b2 n2 r2 c = comm_prover K gm gb m b' n r c.
Proof. exact comm_view_independent. Qed.
Theorem C07_commitment_shift_bijective : forall K, is_field K -> forall gm gb m m' c rnd, gb <> f0 K ->
  comm_shift K gm gb m' m c (comm_shift K gm gb m m' c rnd) = rnd.
Proof. exact comm_shift_bijective. Qed.

Theorem C07_encryption_view_from_ciphertext : forall K, is_field K -> forall gm ek m k n r c,
  let o := venc_prover K gm ek m k n r c in
  vo_r1 K o = venc_verifier_r1 K (vo_c1 K o) (vo_bp K o) c /\
  vo_r2 K o = venc_verifier_r2 K gm ek (vo_c2 K o) (vo_bp K o) (vo_mp K o) c.
Proof. exact venc_view_from_ciphertext. Qed.
Theorem C07_responses_uniform : forall K, is_field K -> forall (m k c mp bp : K),
  exists n r, fadd K n (fmul K m c) = mp /\ fadd K r (fmul K c k) = bp /\
    forall n' r', fadd K n' (fmul K m c) = mp -> fadd K r' (fmul K c k) = bp -> n' = n /\ r' = r.
Proof. exact responses_uniform. Qed.
Theorem C07_response_bijective : forall K, is_field K -> forall (s c z : K),
  exists n, fadd K n (fmul K s c) = z /\ forall n', fadd K n' (fmul K s c) = z -> n' = n.
Proof. exact response_bijective. Qed.

(** what breaks confidentiality: a nonce shared between two secrets, or reused across presentations *)
Theorem C07_shared_nonce_links : forall K, is_field K -> forall (n s s' c : K),
  fsub K (fadd K n (fmul K s c)) (fadd K n (fmul K s' c)) = fmul K c (fsub K s s').
Proof. exact shared_nonce_links. Qed.

(** the finding repaired by fix b4949f5, kept on record: with the commitment's blinding factor equal to the
    claim's shared nonce (pinned tree), a guess of the committed value is testable from public data *)
Theorem C07_pinned_commitment_guess_test : forall K, is_field K -> forall gm gb m m' b r c,
  fsub K gm (fmul K c gb) <> f0 K ->
  let o := comm_prover_pinned K gm gb m b r c in
  (fsub K (co_C K o) (fmul K gb (co_mp K o)) = fmul K m' (fsub K gm (fmul K c gb)) <-> m' = m).
Proof. exact comm_pinned_guess_test. Qed.
