(** C16 — Blind issuance is correct, enforces issuer policy, and hides blinded claims (hiding: PS perfectly,
    BBS not — finding). *)
From Coq Require Import List Bool Arith NArith.
From ACV Require Import Model.Field Model.Pres Model.Sigs Model.Blind Proofs.FieldP Proofs.SigsP Proofs.BlindP.
Import ListNotations.

(** the issuer's check of the request recomputes the holder's hashed commitment, for requests that list the
    hidden claims in index order and cover exactly the claims the issuer does not supply *)
Theorem C16_request_complete : forall K, is_field K -> forall s ys known hidden nonces blinding nb c,
  map (gen_at K ys) (map fst hidden) = unknown_gens K ys known -> length nonces = length hidden ->
  ctx_recompute K s ys known (holder_ctx K s ys hidden nonces blinding nb c)
  = Some (holder_random_commitment K s ys (map fst hidden) nonces nb).
Proof. exact blind_ctx_complete. Qed.

(** unblinded blind signatures satisfy the ordinary verification equation over the union of the
    issuer-known and the holder-hidden claims *)
Theorem C16_bbs_blind_valid : forall K, is_field K -> forall x e ys hidden known, fadd K x e <> f0 K ->
  fmul K (bbs_blind_sign K x e ys (holder_commitment K BBS ys hidden (f0 K)) known) (fadd K e x)
  = fadd K (f1 K) (fadd K (revealed_sum K ys hidden) (revealed_sum K ys known)).
Proof. exact bbs_blind_valid. Qed.
Theorem C16_ps_blind_valid : forall K, is_field K -> forall x w ys u m_tick hidden known blinding,
  let sig := ps_unblind K (ps_blind_sign K x w ys u m_tick (holder_commitment K PS ys hidden blinding) known) blinding in
  fmul K (fst sig) (fadd K (fadd K x (fmul K w m_tick)) (fadd K (revealed_sum K ys known) (revealed_sum K ys hidden))) = snd sig.
Proof. exact ps_blind_valid. Qed.

(** policy: the response vector has exactly one entry per claim the issuer does not supply (so the challenge
    term cannot be dropped), and two accepting transcripts open the commitment on those generators only —
    the holder cannot place a value on a generator of an issuer-supplied claim *)
Theorem C16_response_length : forall K s ys known c v, ctx_recompute K s ys known c = Some v ->
  length (bc_proofs K c) = Nat.add (length (unknown_gens K ys known)) (match s with PS => 1%nat | BBS => 0%nat end).
Proof. exact ctx_recompute_length. Qed.
Theorem C16_request_extract_bbs : forall K, is_field K -> forall ys known C T (z z' : list K) c c',
  let UG := unknown_gens K ys known in
  length z = length UG -> length z' = length UG -> c <> c' ->
  msm K (UG ++ [C]) (z ++ [fopp K c]) = T -> msm K (UG ++ [C]) (z' ++ [fopp K c']) = T ->
  C = msm K UG (map (fun v => fmul K v (finv K (fsub K c c'))) (vsub K z z')).
Proof. exact blind_ctx_extract_bbs. Qed.
Theorem C16_request_extract_ps : forall K, is_field K -> forall ys known C T (z z' : list K) zb zb' c c',
  let UG := unknown_gens K ys known in
  length z = length UG -> length z' = length UG -> c <> c' ->
  msm K (UG ++ [f1 K; C]) ((z ++ [zb]) ++ [fopp K c]) = T -> msm K (UG ++ [f1 K; C]) ((z' ++ [zb']) ++ [fopp K c']) = T ->
  C = fadd K (msm K UG (map (fun v => fmul K v (finv K (fsub K c c'))) (vsub K z z'))) (fdiv K (fsub K zb zb') (fsub K c c')).
Proof. exact blind_ctx_extract_ps. Qed.
Theorem C16_label_policy : forall n blindable req known, blind_policy_ok n blindable req known = true ->
  Nat.add (length req) (length known) = n /\
  (forall l, In l req -> In l blindable /\ ~ In l known) /\ NoDup req.
Proof. exact blind_policy_spec. Qed.

(** hiding: PS requests are perfectly hiding (bijection on the blinding factor); BBS requests are a
    deterministic function of the hidden values — recorded finding bbs-blind-request-not-hiding *)
Theorem C16_ps_request_hiding : forall K, is_field K -> forall ys hidden hidden' blinding,
  let b' := fsub K (fadd K blinding (revealed_sum K ys hidden)) (revealed_sum K ys hidden') in
  holder_commitment K PS ys hidden' b' = holder_commitment K PS ys hidden blinding.
Proof. exact ps_request_hiding. Qed.
Theorem C16_bbs_request_hiding_refuted : forall K, is_field K -> forall ys hidden b,
  holder_commitment K BBS ys hidden b = revealed_sum K ys hidden.
Proof. exact bbs_request_not_hiding. Qed.
