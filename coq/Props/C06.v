(** C06 — Revocation: revoked credentials cannot present, all others still can (partial).
    Composition of C13 (bookkeeping = accumulator), C14 (public updates) and the zero-knowledge membership
    sub-protocol modelled here.  "No efficiently computable handle exists for a revoked identifier" is the
    accumulator's q-SDH assumption and is not a theorem. *)
From Coq Require Import List Bool NArith.
From ACV Require Import Model.Field Model.Registry Model.Accumulator Model.AccProof
     Proofs.FieldP Proofs.RegistryP Proofs.AccumulatorP Proofs.AccProofP.
From ACV Require Import Model.Pres Proofs.PresP.
Import ListNotations.

(** the sub-protocol: with a handle valid for the statement's registry value the verifier recomputes the
    prover's commitment exactly (so the Fiat-Shamir comparison passes), for all parameters and randomness *)
Theorem C06_membership_proof_complete : forall K, is_field K -> forall p m C V r c,
  fmul K C (fadd K m (ap_alpha K p)) = V ->
  acc_finalize K p V (acc_respond K p m C r c) c = acc_commit K p m C r.
Proof. exact acc_proof_complete. Qed.

(** ... and with a handle that is not valid for that value the recomputed R_E differs for every non-zero
    challenge: stale handles, handles updated across the holder's own revocation (returned unchanged, C14),
    another holder's handle, or the registry value itself cannot pass through the honest sub-protocol *)
Theorem C06_invalid_handle_rejected : forall K, is_field K -> forall p m C V r c,
  c <> f0 K -> fmul K C (fadd K m (ap_alpha K p)) <> V ->
  ac_re K (acc_finalize K p V (acc_respond K p m C r c) c) <> ac_re K (acc_commit K p m C r).
Proof. exact acc_proof_invalid_witness. Qed.

(** special soundness: any two accepting transcripts yield a witness valid for the statement's value for
    the extracted element, whose response is the one linked to the signed identifier *)
Theorem C06_membership_proof_extract : forall K, is_field K -> forall p V ec ts tr (pr pr' : aproof K) c c',
  pr_ec K pr = ec -> pr_tsigma K pr = ts -> pr_trho K pr = tr ->
  pr_ec K pr' = ec -> pr_tsigma K pr' = ts -> pr_trho K pr' = tr ->
  c <> c' -> ap_x K p <> f0 K -> ap_y K p <> f0 K ->
  acc_finalize K p V pr c = acc_finalize K p V pr' c' ->
  let d := finv K (fsub K c c') in
  let y := fmul K (fsub K (pr_sy K pr) (pr_sy K pr')) d in
  let sigma := fmul K (fsub K (pr_ssigma K pr) (pr_ssigma K pr')) d in
  let rho := fmul K (fsub K (pr_srho K pr) (pr_srho K pr')) d in
  ts = fmul K (ap_x K p) sigma /\ tr = fmul K (ap_y K p) rho /\
  fmul K (fsub K ec (fmul K (ap_z K p) (fadd K sigma rho))) (fadd K y (ap_alpha K p)) = V.
Proof. exact acc_proof_extract. Qed.

Theorem C06_link_response : forall K (p : aparams K) m C r c,
  pr_sy K (acc_respond K p m C r c) = fadd K (fmul K m c) (ar_ry K r).
Proof. exact acc_link_complete. Qed.

(** handles: a handle refreshed by the issuer at the current state verifies; a handle verifies against a
    later state iff the registry value is unchanged; after a successful revocation a handle from before does
    not verify (C13) *)
Theorem C06_refreshed_handle_valid : forall K, is_field K -> forall (v0 alpha : K) (h : id -> K),
  (forall x, fadd K (h x) alpha <> f0 K) -> forall s i,
  handle_verifies K alpha h (handle K v0 alpha h s i) i (value K v0 alpha h s).
Proof. exact fresh_handle_verifies. Qed.
Theorem C06_stale_handle_invalid : forall K, is_field K -> forall (v0 alpha : K) (h : id -> K),
  (forall x, fadd K (h x) alpha <> f0 K) -> forall s b i,
  revoke_ok s b = true -> divisor K alpha h b <> f1 K -> value K v0 alpha h s <> f0 K ->
  ~ handle_verifies K alpha h (handle K v0 alpha h s i) i (value K v0 alpha h (fst (revoke s b))).
Proof. exact stale_handle_fails. Qed.

(** public update with the single-step procedure across the revocation of ANOTHER identifier gives a valid
    handle; across the holder's own revocation it returns the handle unchanged (C14) *)
Theorem C06_public_update_other : forall K, is_field K -> feqb_ok K -> forall alpha C y V d,
  fmul K C (fadd K y alpha) = V -> fadd K d alpha <> f0 K -> fsub K d y <> f0 K ->
  fmul K (single_update K C y V (Vnext K alpha V [] [d]) [] [d]) (fadd K y alpha) = Vnext K alpha V [] [d].
Proof. exact single_del_correct. Qed.
Theorem C06_public_update_self : forall K, is_field K -> feqb_ok K -> forall alpha C y V,
  single_update K C y V (Vnext K alpha V [] [y]) [] [y] = C.
Proof. exact single_del_self. Qed.

(** the same for a revocation or set-membership statement: it is only satisfied by an accumulator proof whose
    element response is the response the referenced signature proof carries for the referenced claim (with
    C06_membership_proof_extract and C06_link_response above the element proved a member is therefore the signed
    claim), and whose recomputed commitments are covered by the challenge *)
Theorem C06_accept_revocation_link : forall K, feqb_ok K -> forall (S : schema K) (P : pres K) fs,
  verify_with K S P fs = Accept ->
  forall sid ref claim, In (SRev K sid ref claim) S ->
  exists pid fin hid mp it, lookup sid (proofs K P) = Some (PRev K pid mp fin) /\
    sig_hidden K S P ref = Some hid /\ lookup claim hid = Some mp /\
    items K S P = Some it /\ fs (Some it) = true /\ In fin it.
Proof. exact accept_revocation_link. Qed.
Theorem C06_revocation_response_mismatch_rejected : forall K, feqb_ok K -> forall (S : schema K) (P : pres K) fs sid ref claim pid sy fin hid mp,
  In (SRev K sid ref claim) S -> lookup sid (proofs K P) = Some (PRev K pid sy fin) ->
  sig_hidden K S P ref = Some hid -> lookup claim hid = Some mp -> sy <> mp ->
  verify_with K S P fs <> Accept.
Proof. exact revocation_response_mismatch_rejected. Qed.
Print Assumptions C06_accept_revocation_link.
Print Assumptions C06_revocation_response_mismatch_rejected.
