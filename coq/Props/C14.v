(** C14 — Public witness updates agree with secret-key recomputation. *)
From Coq Require Import List Bool.
From ACV Require Import Model.Field Model.Accumulator Proofs.FieldP Proofs.AccumulatorP.
Import ListNotations.

Section C14.
Variable K : fops.
Hypothesis Kf : is_field K.
Hypothesis Keq : feqb_ok K.
Variable alpha : K.
Local Notation "a + b" := (fadd K a b).
Local Notation "a - b" := (fsub K a b).
Local Notation "a * b" := (fmul K a b).
Local Notation "a / b" := (fdiv K a b).
Local Notation "0" := (f0 K).
Local Notation "1" := (f1 K).

(** the polynomial identities behind the update, for batches of any size and order *)
Theorem C14_vA_telescope : forall adds y, (y + alpha) * vA K alpha adds y = PA K alpha adds - dY K adds y.
Proof. exact (vA_telescope K Kf alpha). Qed.
Theorem C14_vD_telescope : forall dels y, (forall v, In v dels -> v + alpha <> 0) ->
  (y + alpha) * vD K alpha dels y = 1 - dY K dels y / PA K alpha dels.
Proof. exact (vD_telescope K Kf alpha). Qed.
Theorem C14_coefficients_identity : forall adds dels y, (forall v, In v dels -> v + alpha <> 0) ->
  (y + alpha) * peval K (create_coefficients K alpha adds dels) y
  = PA K alpha adds * dY K dels y / PA K alpha dels - dY K adds y.
Proof. exact (coefficients_identity K Kf alpha). Qed.

(** batch update of a membership witness: verifies against the new accumulator and is the witness
    the manager computes from scratch — provided y itself is not deleted (dD(y) <> 0) *)
Theorem C14_batch_update_correct : forall C y V adds dels,
  C * (y + alpha) = V -> (forall v, In v dels -> v + alpha <> 0) -> dY K dels y <> 0 ->
  let '(V', omega) := acc_update K alpha V adds dels in
  batch_update K C y adds dels omega * (y + alpha) = V'.
Proof. exact (batch_update_correct K Kf Keq alpha). Qed.
Theorem C14_verifying_is_from_scratch : forall C y V, y + alpha <> 0 ->
  C * (y + alpha) = V -> C = mem_new K alpha y V.
Proof. exact (verifies_is_from_scratch K Kf alpha). Qed.
Theorem C14_from_scratch_verifies : forall y V, y + alpha <> 0 -> mem_new K alpha y V * (y + alpha) = V.
Proof. exact (from_scratch_verifies K Kf alpha). Qed.

(** multi-batch update = one batch update per epoch, hence correct over whole published histories
    and independent of how the epochs are grouped into calls *)
Theorem C14_multi_eq_sequential : forall C y deltas,
  (forall b, In b deltas -> dd_of K y b <> 0) -> (forall b, In b deltas -> honest_len K b) ->
  multi_batch_update K C y deltas = fold_left (step_b K y) deltas C.
Proof. exact (multi_eq_sequential K Kf Keq). Qed.
Theorem C14_multi_batch_correct : forall y hist V C, hist_ok K alpha y hist -> C * (y + alpha) = V ->
  multi_batch_update K C y (snd (publish K alpha V hist)) * (y + alpha) = fst (publish K alpha V hist).
Proof. exact (multi_batch_correct K Kf Keq alpha). Qed.
Theorem C14_sequential_correct : forall y hist V C, hist_ok K alpha y hist -> C * (y + alpha) = V ->
  fold_left (step_b K y) (snd (publish K alpha V hist)) C * (y + alpha) = fst (publish K alpha V hist).
Proof. exact (sequential_correct K Kf Keq alpha). Qed.
Theorem C14_multi_grouping : forall y (groups : list (list (batch K))) C,
  (forall g b, In g groups -> In b g -> dd_of K y b <> 0 /\ honest_len K b) ->
  fold_left (fun c g => multi_batch_update K c y g) groups C = fold_left (step_b K y) (concat groups) C.
Proof. exact (multi_grouping K Kf Keq). Qed.

(** deleted element: batch and multi-batch return the witness unchanged, and an unchanged witness
    does not verify against a changed accumulator *)
Theorem C14_batch_update_deleted : forall C y adds dels omega, In y dels -> batch_update K C y adds dels omega = C.
Proof. exact (batch_update_deleted K Kf Keq). Qed.
Theorem C14_multi_batch_deleted : forall C y deltas, (exists b, In b deltas /\ In y (snd (fst b))) ->
  multi_batch_update K C y deltas = C.
Proof. exact (multi_batch_deleted K Kf Keq). Qed.
Theorem C14_stale_witness_fails : forall C y V V', C * (y + alpha) = V -> V' <> V -> C * (y + alpha) <> V'.
Proof. exact (stale_witness_fails K alpha). Qed.

(** single-step update: correct for exactly one addition or one deletion, keeps the witness when y
    itself is deleted, and — as the pinned code is written — wrong for two additions
    (known finding single-step-update-multi) *)
Theorem C14_single_add_correct : forall C y V a, C * (y + alpha) = V ->
  single_update K C y V (Vnext K alpha V [a] []) [a] [] * (y + alpha) = Vnext K alpha V [a] [].
Proof. exact (single_add_correct K Kf alpha). Qed.
Theorem C14_single_del_correct : forall C y V d, C * (y + alpha) = V -> d + alpha <> 0 -> d - y <> 0 ->
  single_update K C y V (Vnext K alpha V [] [d]) [] [d] * (y + alpha) = Vnext K alpha V [] [d].
Proof. exact (single_del_correct K Kf Keq alpha). Qed.
Theorem C14_single_add_correct_nm : forall (w : K * K) y V a, fst w * (y + alpha) + snd w = V ->
  let w' := single_update_nm K w y V (Vnext K alpha V [a] []) [a] [] in
  fst w' * (y + alpha) + snd w' = Vnext K alpha V [a] [] /\ snd w' = snd w * (a - y).
Proof. exact (single_add_correct_nm K Kf alpha). Qed.
Theorem C14_single_del_correct_nm : forall (w : K * K) y V d, fst w * (y + alpha) + snd w = V -> d + alpha <> 0 -> d - y <> 0 ->
  let w' := single_update_nm K w y V (Vnext K alpha V [] [d]) [] [d] in
  fst w' * (y + alpha) + snd w' = Vnext K alpha V [] [d] /\ snd w' = snd w * finv K (d - y).
Proof. exact (single_del_correct_nm K Kf Keq alpha). Qed.
Theorem C14_single_del_self : forall C y V, single_update K C y V (Vnext K alpha V [] [y]) [] [y] = C.
Proof. exact (single_del_self K Kf Keq alpha). Qed.
Theorem C14_single_two_additions_refuted : forall C y V a1 a2, C * (y + alpha) = V ->
  V <> 0 -> y + alpha <> 0 -> a1 + alpha <> 1 ->
  single_update K C y V (Vnext K alpha V [a1; a2] []) [a1; a2] [] * (y + alpha) <> Vnext K alpha V [a1; a2] [].
Proof. exact (single_two_additions_refuted K Kf alpha). Qed.

(** non-membership witnesses: creation and batch update verify; d is updated by dA(y)/dD(y) *)
Theorem C14_nonmem_new_verifies : forall y els w, y + alpha <> 0 -> nonmem_new K alpha y els = Some w ->
  fst w * (y + alpha) + snd w = acc_with_elements K alpha els /\ snd w = dY K els y.
Proof. exact (nonmem_new_verifies K Kf alpha). Qed.
Theorem C14_nonmem_batch_update_correct : forall w y V adds dels,
  fst w * (y + alpha) + snd w = V -> (forall v, In v dels -> v + alpha <> 0) -> dY K dels y <> 0 ->
  let '(V', omega) := acc_update K alpha V adds dels in
  let w' := batch_update_nm K w y adds dels omega in
  fst w' * (y + alpha) + snd w' = V' /\
  (adds <> [] \/ dels <> [] -> snd w' = snd w * dY K adds y / dY K dels y).
Proof. exact (nonmem_batch_update_correct K Kf Keq alpha). Qed.
End C14.
