(** C20 — Totality: untrusted input yields an error, never a panic.
    Only statements here; proofs live in Proofs/.  Every modelled function is a total Gallina
    function (structural recursion, no fuel), so termination holds by construction; what the
    theorems add is that the checked primitives standing for Rust's unwinding operations
    (slice indexing, range slicing, unsigned subtraction, the panicking hex decoder of the
    scalar library) are never reached with an argument on which they unwind. *)
From Coq Require Import ZArith List Bool.
From ACV Require Import Model.Res Model.Bytes Model.ClaimCodec Model.Skeleton Model.SkelCreate Model.SkelBlind.
From ACV Require Import Proofs.TotalP Proofs.SkeletonP Proofs.SkelCreateP Proofs.SkelBlindP.
Import ListNotations.

(** claim parsing and scalar unpacking: every byte string / every scalar *)
Theorem C20_from_text_total : forall (is_utf8 : bytes -> bool) s, from_text is_utf8 s <> Panic.
Proof. exact from_text_np. Qed.
Theorem C20_from_bytes_total : forall (is_utf8 : bytes -> bool) t data, from_bytes is_utf8 t data <> Panic.
Proof. exact from_bytes_np. Qed.
Theorem C20_decode_to_str_total : forall (is_utf8 : bytes -> bool) s, decode_to_str is_utf8 s <> Panic.
Proof. exact decode_to_str_np. Qed.
Theorem C20_decode_to_bytes_total : forall s, decode_to_bytes s <> Panic.
Proof. exact decode_to_bytes_np. Qed.

(** Presentation::verify: every structure (statements, proofs, reported claims, with missing
    entries, dangling / mistyped references, out-of-range and unsorted indices, response vectors
    of any length, keys of any size) and every outcome of every cryptographic test *)
Theorem C20_verify_total : forall su (O : oracle) S P, verify su O S P <> Panic.
Proof. exact verify_no_panic. Qed.

(** a structure the skeleton rejects when every cryptographic test passes is rejected whatever
    those tests say (this is what the correspondence check compares with the implementation) *)
Theorem C20_structural_reject_is_final : forall su (O : oracle) S P,
  verify su all_pass S P = Err -> verify su O S P = Err.
Proof. exact structural_reject_is_final. Qed.

(** the index walk of get_hidden_message_proofs on its own, for every key size, disclosed
    list, response count and starting point with j <= i *)
Theorem C20_index_walk_total : forall rem i j off disc nresp acc,
  (j <= i)%nat -> walk rem i j off disc nresp acc <> Panic.
Proof. exact walk_no_panic. Qed.

(** non-vacuity: the primitives do unwind when unguarded, and the skeleton accepts a
    non-trivial structure *)
Example C20_primitives_can_panic :
  idx (@nil nat) 0%nat = Panic /\ usub 1%nat 2%nat = Panic /\ slice_from 40 (repeat 0%Z 32) = Panic
  /\ scalar_from_be_hex [97%Z; 98%Z] = Panic.
Proof. repeat split; reflexivity. Qed.

Local Open Scope nat_scope.
Example C20_skeleton_accepts_something :
  let S := [Build_sstmt 0 KSig 0 0 0 [] [7] [5; 7; 9] 3 false false false;
            Build_sstmt 1 KComm 1 0 2 [] [] [] 0 false false false;
            Build_sstmt 2 KRange 2 1 2 [] [] [] 0 true false false] in
  let P := Build_spres [Build_sproof 0 KSig 0 [(1, 42%Z)] 4 false;
                        Build_sproof 1 KComm 1 [] 0 false;
                        Build_sproof 2 KRange 2 [] 0 false] [(0, [(7, 42%Z)])] in
  let P' := Build_spres [Build_sproof 0 KSig 0 [(1, 42%Z)] 3 false;
                         Build_sproof 1 KComm 1 [] 0 false;
                         Build_sproof 2 KRange 2 [] 0 false] [(0, [(7, 42%Z)])] in
  verify BBS all_pass S P = Ok tt /\ verify PS all_pass S P = Ok tt
  /\ verify BBS all_pass S P' = Err      (* one response short: rejected by the count check *)
  /\ verify PS all_pass S P' = Err.      (* ... and in PS already by the index walk *)
Proof. repeat split; vm_compute; reflexivity. Qed.

(** Presentation::create on a verifier-supplied schema: every credential map and every list of
    statements (dangling or mistyped references, claim indices beyond the credential, issuer
    schemas with fewer labels than the credential has claims, equality statements with no, one
    or many references, a range statement before or after its commitment statement, membership
    credentials under signature ids, ...) and every outcome of the builders' own tests.  The two
    hypotheses are datatype invariants of the IndexMaps involved (unique keys). *)
Theorem C20_create_total : forall (creds : list (nat * cred)) (S0 : list cstmt),
  NoDup (map fst creds) -> (forall s, In s S0 -> NoDup (map fst (c_refs s))) ->
  forall Orc, create creds S0 Orc <> Panic.
Proof. exact create_no_panic. Qed.

(** ... and when creation succeeds, every range statement on a signature credential names the claim and the
    signature statement of the commitment statement it refers to (the check repaired by aaf6d94) *)
Theorem C20_create_ok_ranges_agree : forall (creds : list (nat * cred)) (S0 : list cstmt) Orc,
  create creds S0 Orc = Ok tt ->
  forall s, In s (cpreds S0) -> c_kind s = KRange -> forall l, assoc (c_sig s) creds = Some (CredSig l) ->
  exists cs, find (fun p => Nat.eqb (c_key p) (c_ref s)) (cpreds S0) = Some cs /\
             c_claim s = c_claim cs /\ c_sig s = c_ref cs.
Proof. exact create_ok_ranges_agree. Qed.

Example C20_create_skeleton_accepts_something :
  let creds := [(0%nat, CredSig [false; false; true])] in
  let S0 := [Build_cstmt 0 KSig 0 0 0 0 [] [7%nat] [5%nat; 7%nat; 9%nat] 3;
             Build_cstmt 1 KRange 1 2 0 2 [] [] [] 0;
             Build_cstmt 2 KComm 2 0 0 2 [] [] [] 0] in
  create creds S0 all_pass_c = Ok tt
  /\ create creds (firstn 2 S0) all_pass_c = Err.     (* the range statement's commitment statement is missing *)
Proof. split; vm_compute; reflexivity. Qed.

(** blind issuance: the holder's request from issuer-supplied public data (any schema, any key
    size), the issuer's handling of a holder-supplied request (any labels, any response count;
    the hypothesis is the issuer's own schema invariant: as many claim schemas as labels), the
    stand-alone request verification, and unblinding of an issuer-supplied bundle *)
Theorem C20_blind_request_total : forall sc ngens labels orc, request_new sc ngens labels orc <> Panic.
Proof. exact request_new_np. Qed.
Theorem C20_blind_sign_total : forall ps sc nkey nresp req_labels known_labels valid o1 o2 o3 o4,
  b_nclaims sc = length (b_labels sc) ->
  blind_sign_credential ps sc nkey nresp req_labels known_labels valid o1 o2 o3 o4 <> Panic.
Proof. exact blind_sign_credential_np. Qed.
Theorem C20_blind_request_verify_total : forall ps sc nkey nresp labels orc, request_verify ps sc nkey nresp labels orc <> Panic.
Proof. exact request_verify_np. Qed.
Theorem C20_unblind_total : forall sc bundle_labels blind_labels rl, to_unblinded sc bundle_labels blind_labels rl <> Panic.
Proof. exact to_unblinded_np. Qed.

Print Assumptions C20_blind_sign_total.
Print Assumptions C20_create_total.
Print Assumptions C20_create_ok_ranges_agree.
Print Assumptions C20_from_text_total.
Print Assumptions C20_verify_total.
Print Assumptions C20_structural_reject_is_final.
