(** C09 — Equality statements are accepted only for identical responses of all referenced claims. *)
From Coq Require Import List Bool Arith.
From ACV Require Import Model.Field Model.Res Model.Pres Proofs.PresP Model.EqGroups Proofs.EqGroupsP.
Import ListNotations.

Theorem C09_accept_equality : forall K, feqb_ok K -> forall (S : schema K) (P : pres K) fs,
  verify_with K S P fs = Accept ->
  forall sid refs, In (SEq K sid refs) S ->
  refs <> [] /\ exists v, forall r c, In (r, c) refs ->
    exists hid, sig_hidden K S P r = Some hid /\ lookup c hid = Some v.
Proof. exact accept_equality. Qed.

(** the honest holder's side (Presentation::get_message_types after fix a78606f): whatever statements
    the verifier writes the equalities with — one statement, a chain, a star, in any order, with any
    overlaps — any two claims named by one statement end up with the same proof message (value and
    blinder), so the verifier's comparison of their responses succeeds *)
Theorem C09_one_blinder_per_statement : forall (V : Type) stmts (pm : key -> V) s a b,
  In s stmts -> In a s -> In b s -> propagate V stmts pm a = propagate V stmts pm b.
Proof. exact propagate_equalises. Qed.

(** the pinned tree copied the first member's message onto the others statement by statement: with
    the statements (b = c, a = b) the claims b and c keep different blinders (repaired) *)
Theorem C09_pinned_sequential_copy_refuted :
  exists (stmts : list (list key)) (pm : key -> nat) s a b,
    In s stmts /\ In a s /\ In b s /\ propagate_seq nat stmts pm a <> propagate_seq nat stmts pm b.
Proof. exact propagate_seq_refuted. Qed.

Print Assumptions C09_one_blinder_per_statement.
