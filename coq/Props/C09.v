(** C09 — Equality statements are accepted only for identical responses of all referenced claims. *)
From Coq Require Import List Bool Arith.
From ACV Require Import Model.Field Model.Res Model.Pres Proofs.PresP.
Import ListNotations.

Theorem C09_accept_equality : forall K, feqb_ok K -> forall (S : schema K) (P : pres K) fs,
  verify_with K S P fs = Accept ->
  forall sid refs, In (SEq K sid refs) S ->
  refs <> [] /\ exists v, forall r c, In (r, c) refs ->
    exists hid, sig_hidden K S P r = Some hid /\ lookup c hid = Some v.
Proof. exact accept_equality. Qed.
