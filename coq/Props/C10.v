(** C10 — Verifiable encryption: whatever verifies decrypts to the signed claim (group encoding; the byte
    decomposition behind scalar decryption is exercised on the implementation). *)
From Coq Require Import ZArith List Bool Arith Field Ring.
From ACV Require Import Model.Field Model.Res Model.Pres Model.Preds Proofs.FieldP Proofs.PresP Proofs.PredsP.
From ACV Require Import Model.Ints Model.Bytes Model.ByteDec Proofs.ByteDecP.
Import ListNotations.

Theorem C10_accept_venc_link : forall K (S : schema K) (P : pres K) fs,
  verify_with K S P fs = Accept ->
  forall sid ref claim gm ek al, In (SVenc K sid ref claim gm ek al) S ->
  exists pid c1 c2 bp hp hid mp it, lookup sid (proofs K P) = Some (PVenc K pid c1 c2 bp hp) /\
    sig_hidden K S P ref = Some hid /\ lookup claim hid = Some mp /\
    items K S P = Some it /\ fs (Some it) = true /\ In c1 it /\ In c2 it /\
    In (fadd K (fmul K c1 (fopp K (challenge K P))) bp) it /\
    In (fadd K (fadd K (fmul K c2 (fopp K (challenge K P))) (fmul K gm mp)) (fmul K ek bp)) it /\
    (al = true -> hp = true).
Proof. exact accept_venc_link. Qed.

Theorem C10_encryption_complete : forall K, is_field K -> forall gm ek m k n r c,
  let o := venc_prover K gm ek m k n r c in
  venc_verifier_r1 K (vo_c1 K o) (vo_bp K o) c = vo_r1 K o /\
  venc_verifier_r2 K gm ek (vo_c2 K o) (vo_bp K o) (vo_mp K o) c = vo_r2 K o.
Proof. exact venc_complete. Qed.

Section Dec.
Variable K : fops.
Hypothesis Kf : is_field K.
Add Field KF : (Kf_th K Kf).

(** special soundness of the encryption sub-protocol: two accepting transcripts (same c1, c2, r1, r2) open
    the pair to (k, m) with m the quotient of the SHARED responses, i.e. the value extracted from the
    signature proof for the referenced claim *)
Theorem C10_encryption_extract : forall gm ek c1 c2 r1 r2 bp mp bp' mp' c c', c <> c' ->
  venc_verifier_r1 K c1 bp c = r1 -> venc_verifier_r1 K c1 bp' c' = r1 ->
  venc_verifier_r2 K gm ek c2 bp mp c = r2 -> venc_verifier_r2 K gm ek c2 bp' mp' c' = r2 ->
  let k := fdiv K (fsub K bp bp') (fsub K c c') in
  let m := fdiv K (fsub K mp mp') (fsub K c c') in
  c1 = k /\ c2 = fadd K (fmul K gm m) (fmul K ek k).
Proof.
  intros gm ek c1 c2 r1 r2 bp mp bp' mp' c c' Hc A1 A2 B1 B2. cbn zeta.
  assert (Hd : fsub K c c' <> f0 K) by (intros Z; apply Hc; apply (fsub_zero K Kf); exact Z).
  unfold venc_verifier_r1, venc_verifier_r2 in *.
  assert (T1 : fmul K (fsub K c c') c1 = fsub K bp bp').
  { apply (fsub_zero K Kf).
    transitivity (fsub K (fadd K (fmul K c1 (fopp K c')) bp') (fadd K (fmul K c1 (fopp K c)) bp)); [ring|rewrite A1, A2; ring]. }
  assert (T2 : fmul K (fsub K c c') c2 = fadd K (fmul K gm (fsub K mp mp')) (fmul K ek (fsub K bp bp'))).
  { apply (fsub_zero K Kf).
    transitivity (fsub K (fadd K (fadd K (fmul K c2 (fopp K c')) (fmul K gm mp')) (fmul K ek bp'))
                         (fadd K (fadd K (fmul K c2 (fopp K c)) (fmul K gm mp)) (fmul K ek bp))); [ring|rewrite B1, B2; ring]. }
  split.
  - transitivity (fdiv K (fmul K (fsub K c c') c1) (fsub K c c')); [field; exact Hd|]. rewrite T1. reflexivity.
  - transitivity (fdiv K (fmul K (fsub K c c') c2) (fsub K c c')); [field; exact Hd|]. rewrite T2. field. exact Hd.
Qed.

(** decryption with the key dk (encryption key = dk * G) recovers the group encoding of that value *)
Theorem C10_decrypt_group : forall gm dk m k,
  fsub K (fadd K (fmul K gm m) (fmul K dk k)) (fmul K k dk) = fmul K gm m.
Proof. intros. ring. Qed.

(** pseudonyms: the same claim and generator give the same value whatever the randomness; different
    generators give values in the ratio of the generators *)
Theorem C10_pseudonym_deterministic : forall gm dk m k k',
  fsub K (fadd K (fmul K gm m) (fmul K dk k)) (fmul K k dk) = fsub K (fadd K (fmul K gm m) (fmul K dk k')) (fmul K k' dk).
Proof. intros. ring. Qed.
End Dec.

(** scalar decryption from the byte decomposition: every byte string that passes the verifier's
    (field) sum check reassembles to the signed claim (decrypt_scalar after fix 29a40fd); on the
    pinned tree the decomposition of m + r passed the check and decrypted to nothing, for every
    claim below 2^256 - r *)
Theorem C10_scalar_from_bytes : forall bs m, (0 <= m < rmod)%Z -> sum_check bs m -> reassemble_field bs = m.
Proof. exact reassemble_field_sound. Qed.
Theorem C10_pinned_noncanonical_bytes_refuted : forall m, (0 <= m < 2 ^ 256 - rmod)%Z ->
  sum_check (to_be 32 (m + rmod)) m /\ reassemble_canonical (to_be 32 (m + rmod)) = None.
Proof. exact reassemble_canonical_refuted_all. Qed.


Print Assumptions C10_scalar_from_bytes.
