(** C18 — Claim encodings are deterministic, collision-free, monotone and reversible.
    Only statements here; proofs live in Proofs/.  Determinism is by construction: every
    encoding is a Gallina function of the claim (and of the hash oracle). *)
From Coq Require Import ZArith List Bool.
From ACV Require Import Model.Res Model.Ints Model.Bytes Model.ClaimCodec.
From ACV Require Import Proofs.IntsP Proofs.BytesP Proofs.ClaimCodecP Exec.Utf8.
Import ListNotations.
Open Scope Z_scope.

(** integer claims: value, order, injectivity, canonicity, inverse — over all of i64 *)
Theorem C18_int_value : forall v, in_i64 v -> zero_center v = v + 2 ^ 63.
Proof. exact zc_value. Qed.
Theorem C18_int_monotone : forall a b, in_i64 a -> in_i64 b ->
  (a < b <-> get_num_scalar a < get_num_scalar b).
Proof. exact zc_mono. Qed.
Theorem C18_int_injective : forall a b, in_i64 a -> in_i64 b ->
  get_num_scalar a = get_num_scalar b -> a = b.
Proof. exact zc_inj. Qed.
Theorem C18_int_canonical : forall v, in_i64 v -> 0 <= get_num_scalar v < rmod.
Proof. exact zc_lt_rmod. Qed.
Theorem C18_int_reversible : forall v, in_i64 v -> number_of_scalar (get_num_scalar v) = v.
Proof. exact number_roundtrip. Qed.
Theorem C18_int_decode_total : forall s, in_i64 (number_of_scalar s).
Proof. exact number_of_scalar_range. Qed.

(** scalar packing of text / bytes (<= 31 bytes) *)
Theorem C18_pack_ok : forall v, (length v <= 31)%nat -> all_bytes v ->
  encode_packed v = Ok (of_be (pack_bytes v)).
Proof. exact encode_packed_ok. Qed.
Theorem C18_pack_too_long : forall v, (31 < length v)%nat -> encode_packed v = Err.
Proof. exact encode_packed_long. Qed.
Theorem C18_pack_canonical : forall v s, all_bytes v -> encode_packed v = Ok s -> 0 <= s < rmod.
Proof. exact encode_packed_canonical. Qed.
Theorem C18_pack_roundtrip_bytes : forall v s, all_bytes v ->
  encode_bytes v = Ok s -> decode_to_bytes s = Ok v.
Proof. exact encode_decode_packed. Qed.
Theorem C18_pack_roundtrip_str : forall (is_utf8 : bytes -> bool) v s, all_bytes v ->
  is_utf8 v = true -> encode_str v = Ok s -> decode_to_str is_utf8 s = Ok v.
Proof.
  intros is_utf8 v s Hb Hu He. unfold decode_to_str.
  rewrite (encode_decode_packed v s Hb He). cbn [rbind]. rewrite Hu. reflexivity.
Qed.
Theorem C18_pack_injective : forall a b s, all_bytes a -> all_bytes b ->
  encode_packed a = Ok s -> encode_packed b = Ok s -> a = b.
Proof. exact encode_packed_inj. Qed.

(** hash-based encodings: distinct values have distinct pre-images; with a collision-resistant
    hash (H_inj) distinct values of one type have distinct scalars *)
Theorem C18_collision_free :
  forall (H_xof : bytes -> Z) (is_utf8 : bytes -> bool),
    (forall a b, H_xof a = H_xof b -> a = b) ->
    forall c1 c2, claim_type c1 = claim_type c2 ->
    wf_claim is_utf8 c1 -> wf_claim is_utf8 c2 -> enum_total_u16 c1 -> enum_total_u16 c2 ->
    to_scalar H_xof c1 = to_scalar H_xof c2 -> same_value c1 c2.
Proof. exact to_scalar_collision_free. Qed.

(** known finding: total_values is hashed as u16 *)
Theorem C18_enum_total_truncation_refuted :
  exists c1 c2, c1 <> c2 /\ claim_type c1 = claim_type c2 /\ preimage c1 = preimage c2.
Proof.
  exists (CEnum [97] 3 1), (CEnum [97] 3 65537).
  split; [discriminate|split; [reflexivity|exact enum_pre_collision]].
Qed.

(** byte codec: round trip outside the three lossy classes, which are exhibited *)
Theorem C18_bytes_roundtrip : forall (is_utf8 : bytes -> bool) c,
  wf_claim is_utf8 c -> ~ bytes_codec_lossy c ->
  from_bytes is_utf8 (claim_type c) (to_bytes c) = Ok c.
Proof. exact claim_bytes_roundtrip. Qed.
Theorem C18_bytes_lossy_refuted : forall (is_utf8 : bytes -> bool),
  (forall v, from_bytes is_utf8 THashed (to_bytes (CHashed v true)) = Ok (CHashed v false)) /\
  (forall id, length id <> 16%nat -> from_bytes is_utf8 TRevocation (to_bytes (CRevocation id)) = Err) /\
  (forall d v t, from_bytes is_utf8 TEnumeration (to_bytes (CEnum d v t)) = Err).
Proof.
  intros u. split; [exact (bytes_codec_hashed_flag_lost u)|].
  split; [exact (bytes_codec_revocation_len u)|exact (bytes_codec_enum u)].
Qed.

(** text codec: every claim the library can hold prints and parses back *)
Theorem C18_text_roundtrip : forall (is_utf8 : bytes -> bool),
  (forall b t, is_utf8 (b :: t) = true -> (128 <=? b) && (b <? 192) = false) ->
  forall c, wf_claim is_utf8 c ->
  exists t, to_text is_utf8 c = Ok t /\ from_text is_utf8 t = Ok c.
Proof. exact claim_text_roundtrip. Qed.
Theorem C18_text_roundtrip_exec : forall c, wf_claim utf8_valid c ->
  exists t, to_text utf8_valid c = Ok t /\ from_text utf8_valid t = Ok c.
Proof. exact (claim_text_roundtrip utf8_valid utf8_valid_head). Qed.

(** non-vacuity: concrete claims meeting the hypotheses *)
Example C18_nonvacuous_wf :
  wf_claim utf8_valid (CEnum [97;98] 3 70000) /\ wf_claim utf8_valid (CNumber (-9223372036854775808))
  /\ wf_claim utf8_valid (CHashed [195;169] true) /\ wf_claim utf8_valid (CRevocation [105;100;45;49])
  /\ ~ bytes_codec_lossy (CNumber 5) /\ in_i64 (2 ^ 63 - 1) /\ in_i64 (- 2 ^ 63).
Proof.
  assert (B : forall l, all_bytesb l = true -> all_bytes l).
  { intros l H. unfold all_bytes, all_bytesb in *. rewrite forallb_forall in H. apply Forall_forall.
    intros x Hx. specialize (H x Hx). unfold is_byteb, is_byte in *. apply andb_prop in H.
    destruct H as [H1 H2]. apply Z.leb_le in H1. apply Z.ltb_lt in H2. split; assumption. }
  cbn [wf_claim bytes_codec_lossy]. unfold in_i64, is_byte.
  repeat split; try (apply B; reflexivity); try reflexivity; try (intros _; reflexivity);
    try (vm_compute; congruence); auto.
Qed.
Example C18_nonvacuous_pack : encode_packed [104;105] = Ok (of_be (pack_bytes [104;105]))
  /\ decode_to_bytes (of_be (pack_bytes [104;105])) = Ok [104;105].
Proof. split; vm_compute; reflexivity. Qed.
