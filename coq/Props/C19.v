(** C19 — Wire formats round-trip every protocol object without changing its meaning.
    Only statements here; proofs live in Proofs/. *)
From Coq Require Import ZArith List Bool.
From ACV Require Import Model.Bytes Model.ClaimCodec Model.Codec.
From ACV Require Import Model.SerdeTree Proofs.CodecP Proofs.SerdeP.
Import ListNotations.
Local Open Scope nat_scope.

(** hand-written byte codecs: decode after encode returns the object, and whatever decodes
    re-encodes to the very bytes it came from — for every key size, every number of responses,
    every leaf codec with fixed width that decodes what it encodes and only that *)
Theorem C19_ps_public_key_roundtrip : forall (G1 G2 : Type) (g1 : leaf G1) (g2 : leaf G2),
  leaf_ok g1 (fun _ => True) -> leaf_ok g2 (fun _ => True) ->
  forall k, (Z.of_nat (length (pk_y k)) < 2 ^ 32)%Z -> (Z.of_nat (length (pk_yb k)) < 2 ^ 32)%Z ->
  ps_pk_dec g1 g2 (ps_pk_enc g1 g2 k) = Some k.
Proof. exact @ps_pk_roundtrip. Qed.
Theorem C19_ps_public_key_canonical : forall (G1 G2 : Type) (g1 : leaf G1) (g2 : leaf G2),
  leaf_ok g1 (fun _ => True) -> leaf_ok g2 (fun _ => True) ->
  forall l k, all_bytes l -> ps_pk_dec g1 g2 l = Some k -> ps_pk_enc g1 g2 k = l.
Proof. exact @ps_pk_canonical. Qed.
Theorem C19_ps_secret_key_roundtrip : forall k, canonical (sk_w k) -> canonical (sk_x k) -> Forall canonical (sk_y k) ->
  sk_y k <> [] -> ps_sk_dec (ps_sk_enc k) = Some k.
Proof. exact ps_sk_roundtrip. Qed.
Theorem C19_ps_secret_key_canonical_refuted : exists l k, ps_sk_dec l = Some k /\ ps_sk_enc k <> l.
Proof. exact ps_sk_canonical_refuted. Qed.
Theorem C19_ps_signature_roundtrip : forall (G1 : Type) (g1 : leaf G1), leaf_ok g1 (fun _ => True) ->
  forall s, canonical (sg_m s) -> ps_sig_dec g1 (ps_sig_enc g1 s) = Some s.
Proof. exact @ps_sig_roundtrip. Qed.
Theorem C19_ps_signature_canonical : forall (G1 : Type) (g1 : leaf G1), leaf_ok g1 (fun _ => True) ->
  forall l s, ps_sig_dec g1 l = Some s -> ps_sig_enc g1 s = l.
Proof. exact @ps_sig_canonical. Qed.
Theorem C19_ps_pok_roundtrip : forall (G1 G2 : Type) (g1 : leaf G1) (g2 : leaf G2),
  leaf_ok g1 (fun _ => True) -> leaf_ok g2 (fun _ => True) -> l_w g1 = 48 -> l_w g2 = 96 ->
  forall mn p, Forall canonical (pp_resp p) -> mn <= length (pp_resp p) ->
  ps_pok_dec g1 g2 mn (ps_pok_enc g1 g2 p) = Some p.
Proof. exact @ps_pok_roundtrip. Qed.
Theorem C19_ps_pok_canonical : forall (G1 G2 : Type) (g1 : leaf G1) (g2 : leaf G2),
  leaf_ok g1 (fun _ => True) -> leaf_ok g2 (fun _ => True) ->
  forall mn l p, ps_pok_dec g1 g2 mn l = Some p -> ps_pok_enc g1 g2 p = l.
Proof. exact @ps_pok_canonical. Qed.
Theorem C19_ps_blind_context_roundtrip : forall (G1 : Type) (g1 : leaf G1), leaf_ok g1 (fun _ => True) -> l_w g1 = 48 ->
  forall c, canonical (cx_ch c) -> Forall canonical (cx_p c) -> cx_p c <> [] -> ps_ctx_dec g1 (ps_ctx_enc g1 c) = Some c.
Proof. exact @ps_ctx_roundtrip. Qed.
Theorem C19_ps_blind_context_canonical : forall (G1 : Type) (g1 : leaf G1), leaf_ok g1 (fun _ => True) ->
  forall l c, ps_ctx_dec g1 l = Some c -> ps_ctx_enc g1 c = l.
Proof. exact @ps_ctx_canonical. Qed.
Theorem C19_bbs_pok_roundtrip : forall (G1 : Type) (g1 : leaf G1), leaf_ok g1 (fun _ => True) -> l_w g1 = 48 ->
  forall p, Forall canonical (bp_resp p) -> 2 <= length (bp_resp p) -> bbs_pok_dec g1 (bbs_pok_enc g1 p) = Some p.
Proof. exact @bbs_pok_roundtrip. Qed.
Theorem C19_bbs_pok_canonical : forall (G1 : Type) (g1 : leaf G1), leaf_ok g1 (fun _ => True) ->
  forall l p, bbs_pok_dec g1 l = Some p -> bbs_pok_enc g1 p = l.
Proof. exact @bbs_pok_canonical. Qed.

(** the scalar leaves satisfy the leaf hypotheses (canonical scalars, both byte orders) *)
Theorem C19_scalar_be_leaf : leaf_ok sc_be canonical.  Proof. exact sc_be_ok. Qed.
Theorem C19_scalar_le_leaf : leaf_ok sc_le canonical.  Proof. exact sc_le_ok. Qed.

(** the decoders of the pinned tree could not accept any encoding (defects repaired by 7b5a1f0, a631d4d) *)
Theorem C19_pinned_bbs_pok_rejected_all : forall k, bbs_pok_len_ok_pinned (48 * 3 + 32 * k) = false.
Proof. exact bbs_pok_pinned_rejects_every_encoding. Qed.
Theorem C19_pinned_ps_ctx_rejected_all : forall n, ps_ctx_len_ok_pinned n = false.
Proof. exact ps_ctx_pinned_rejects_every_encoding. Qed.

(** serde data-model layer: decoding by name (JSON, CBOR) what the Serialize impl hands to a
    human-readable or a binary serializer returns the object, for every claim, validator, claim
    schema and credential schema (any number of claims, validators, blindable labels) *)
Theorem C19_claim_type_roundtrip : forall hr t tr, ser_ctype hr t = Some tr -> de_ctype hr tr = Some t.
Proof. exact ctype_rt. Qed.
Theorem C19_claim_roundtrip : forall (is_utf8 : bytes -> bool) hr c tr, claim_ok c ->
  ser_claim is_utf8 hr c = Some tr -> de_claim hr tr = Some c.
Proof. exact claim_rt. Qed.
Theorem C19_validator_roundtrip : forall (is_utf8 : bytes -> bool) hr v tr, validator_ok v ->
  ser_validator is_utf8 hr v = Some tr -> de_validator hr tr = Some v.
Proof. exact validator_rt. Qed.
Theorem C19_claim_schema_roundtrip : forall (is_utf8 : bytes -> bool) hr c tr, claim_schema_ok c ->
  ser_claim_schema is_utf8 hr c = Some tr -> de_claim_schema hr tr = Some c.
Proof. exact claim_schema_rt. Qed.
Theorem C19_credential_schema_roundtrip : forall (is_utf8 : bytes -> bool) hr s tr, cred_schema_ok s ->
  ser_cred_schema is_utf8 hr s = Some tr -> de_cred_schema hr tr = Some s.
Proof. exact cred_schema_rt. Qed.

(** positional decoding (BARE) of a validator with optional bounds succeeds when no bound was
    skipped, and fails or misreads otherwise (known finding bare-skipped-optional-field) *)
Theorem C19_positional_roundtrip_if_no_skipped_field : forall (is_utf8 : bytes -> bool) hr v tr r,
  match v with VLength _ _ | VRange _ _ => True | _ => False end ->
  validator_skips v = false -> ser_validator is_utf8 hr v = Some tr -> pos_bounds (flat tr ++ r) = Some (v, r).
Proof. exact pos_bounds_rt. Qed.
Theorem C19_positional_skipped_field_refuted : forall (is_utf8 : bytes -> bool),
  exists v tr, validator_skips v = true /\ ser_validator is_utf8 false v = Some tr /\ pos_bounds (flat tr) <> Some (v, []).
Proof. exact pos_bounds_skipped_refuted. Qed.

(** the same one level up: a claim schema whose validator list is non-empty and complete is read
    back positionally; one whose (empty) list was skipped is not *)
Theorem C19_positional_claim_schema_roundtrip : forall (is_utf8 : bytes -> bool) c tr r,
  cs_validators c <> [] -> Forall simple_validator (cs_validators c) -> ctype_of_tag (ctype_tag (cs_type c)) = cs_type c ->
  ser_claim_schema is_utf8 false c = Some tr -> pos_claim_schema (flat tr ++ r)%list = Some (c, r).
Proof. exact pos_claim_schema_rt. Qed.
Theorem C19_positional_claim_schema_skipped_refuted : forall (is_utf8 : bytes -> bool),
  exists c tr, claim_schema_skips c = true /\ ser_claim_schema is_utf8 false c = Some tr /\ pos_claim_schema (flat tr) = None.
Proof. exact pos_claim_schema_skipped_refuted. Qed.

Print Assumptions C19_credential_schema_roundtrip.
Print Assumptions C19_positional_claim_schema_roundtrip.
Print Assumptions C19_positional_claim_schema_skipped_refuted.
Print Assumptions C19_positional_skipped_field_refuted.

Print Assumptions C19_ps_public_key_roundtrip.
Print Assumptions C19_ps_public_key_canonical.
Print Assumptions C19_bbs_pok_canonical.
Print Assumptions C19_scalar_le_leaf.
