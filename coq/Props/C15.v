(** C15 — Issuance signs exactly schema-conformant claims and yields valid credentials. *)
From Coq Require Import ZArith List Bool NArith.
From ACV Require Import Model.Res Model.Ints Model.Bytes Model.ClaimCodec Model.Registry Model.Issuance
     Model.Field Model.Sigs Proofs.RegistryP Proofs.IssuanceP Proofs.SigsP.
Import ListNotations.

(** the decision: for every schema (any claim types, any validators, attached to any type), every claim
    vector and every registry state *)
Theorem C15_sign_decision : forall rx_match is_utf8 idn sch s claims s' i,
  sign_credential rx_match is_utf8 idn sch s claims = Ok (s', i) <->
  length claims = length sch /\ conformant rx_match is_utf8 sch claims /\ rev_claims claims = [i] /\
  already_revoked s (idn i) = false /\ s' = record s (idn i).
Proof. exact sign_decision. Qed.

Theorem C15_sign_no_panic : forall rx_match is_utf8 idn sch s claims,
  sign_credential rx_match is_utf8 idn sch s claims <> Panic.
Proof. exact sign_no_panic. Qed.

(** blind issuance applies the same per-claim rule to what the issuer supplies itself: the type check and
    every validator at the claim's own schema position; and it honours the label policy (C16) *)
Theorem C15_blind_sign_decision : forall rx_match is_utf8 idn sch blindable s req known ctx_ok s' i,
  blind_sign_credential rx_match is_utf8 idn sch blindable s req known ctx_ok = Ok (s', i) <->
  (length req + length known = length sch)%nat /\ labels_ok blindable req (map fst known) [] = true /\
  Forall (known_passes rx_match is_utf8 sch) known /\ rev_claims (map snd known) = [i] /\
  already_revoked s (idn i) = false /\ ctx_ok = true /\ s' = record s (idn i).
Proof. exact blind_sign_decision. Qed.
Theorem C15_blind_sign_no_panic : forall rx_match is_utf8 idn sch blindable s req known ctx_ok,
  blind_sign_credential rx_match is_utf8 idn sch blindable s req known ctx_ok <> Panic.
Proof. exact blind_sign_no_panic. Qed.
Theorem C15_blind_labels_policy : forall blindable known_labels req,
  labels_ok blindable req known_labels [] = true ->
  (forall l, In l req -> In l blindable /\ ~ In l known_labels /\ ~ In l []) /\ NoDup req.
Proof. intros b k r. exact (labels_ok_spec b k r []). Qed.
Print Assumptions C15_blind_sign_decision.
Print Assumptions C15_blind_labels_policy.

(** validator semantics: inclusive bounds with the documented defaults, applicability *)
Theorem C15_range_validator : forall rx_match is_utf8 mn mx n,
  is_valid rx_match is_utf8 (VRange mn mx) (CNumber n) =
  Some (((match mn with Some x => x | None => - two63 end) <=? n)%Z && (n <=? (match mx with Some x => x | None => two63 - 1 end))%Z).
Proof. reflexivity. Qed.
Theorem C15_length_validator : forall rx_match is_utf8 mn mx v p,
  is_valid rx_match is_utf8 (VLength mn mx) (CHashed v p) =
  Some (((match mn with Some x => x | None => 0 end) <=? len v)%Z && (len v <=? (match mx with Some x => x | None => 2 ^ 64 - 1 end))%Z).
Proof. reflexivity. Qed.
Theorem C15_inapplicable_validator_refuses : forall rx_match is_utf8 idn sch s claims c t v,
  In v (cs_validators t) -> is_valid rx_match is_utf8 v c = None ->
  forall pre post pre' post', claims = pre ++ c :: post -> sch = pre' ++ t :: post' -> length pre = length pre' ->
  forall s' i, sign_credential rx_match is_utf8 idn sch s claims <> Ok (s', i).
Proof.
  intros rx u idn sch s claims c t v Hv Hn pre post pre' post' -> -> Hl s' i H.
  apply sign_decision in H. destruct H as [_ [Hc _]].
  assert (P : passes rx u t c).
  { clear -Hc Hl. revert pre' Hl Hc. induction pre as [|a p IH]; intros [|b p'] Hl Hc; try discriminate; cbn in Hc.
    - inversion Hc; subst. assumption.
    - inversion Hc; subst. apply (IH p'); [cbn in Hl; congruence|assumption]. }
  destruct P as [_ P]. specialize (P v Hv). congruence.
Qed.

(** schema construction *)
Theorem C15_schema_new : forall labels blind, schema_new labels blind = true <->
  labels <> [] /\ NoDup labels /\ incl blind labels.
Proof. exact schema_new_spec. Qed.

(** what is returned is valid: the signature over the claims' encodings verifies under the issuer's key
    (C17) and the revocation handle verifies against the published registry value (C13) *)
Theorem C15_issued_signature_valid : forall K, is_field K -> forall x e ys (msgs : list K),
  fadd K x e <> f0 K -> fmul K (bbs_sign K x e ys msgs) (fadd K e x) = bbs_B K ys msgs.
Proof. intros K Kf. exact (bbs_sign_verify K Kf). Qed.
Theorem C15_issued_signature_valid_ps : forall (K : fops) x w ys h m_tick (msgs : list K),
  fmul K (fst (ps_sign K x w ys h m_tick msgs)) (ps_exp K x w ys m_tick msgs) = snd (ps_sign K x w ys h m_tick msgs).
Proof. exact ps_sign_verify. Qed.
Theorem C15_issued_handle_valid : forall K, is_field K -> forall (v0 alpha : K) (h : id -> K),
  (forall x, fadd K (h x) alpha <> f0 K) -> forall s i,
  handle_verifies K alpha h (handle K v0 alpha h s i) i (value K v0 alpha h s).
Proof. exact fresh_handle_verifies. Qed.
