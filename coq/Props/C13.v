(** C13 — Issuer registry coherence: atomic operations, bookkeeping matches accumulator. *)
From Coq Require Import List NArith Bool.
From ACV Require Import Model.Field Model.Registry Proofs.RegistryP.
Import ListNotations.

(** every reachable state (any operation sequence, including failing operations and restores) *)
Theorem C13_inv_reachable : forall ops, Inv (run ops reg0).
Proof. intros ops. apply run_inv. exact inv0. Qed.

(** refinement to the abstract issued / revoked sets: the same outcomes, and
    active = issued \ revoked, elements = issued, divided-out identifiers = revoked *)
Theorem C13_refines_spec : forall ops,
  map fst (trace ops reg0) = spec_trace ops spec0 /\ Rel (run ops reg0) (spec_run ops spec0).
Proof. intros ops. apply trace_refines; [exact inv0|exact rel0]. Qed.

(** atomicity: an operation that returns an error leaves bookkeeping (and hence the value) equal *)
Theorem C13_err_unchanged : forall s o, snd (step s o) = OErr -> fst (step s o) = s.
Proof. exact step_err_unchanged. Qed.

(** refresh succeeds exactly for active identifiers; issuance is refused exactly for revoked ones *)
Theorem C13_refresh_iff_active : forall s i, snd (step s (Refresh i)) = OOk <-> In i (active s).
Proof.
  intros s i. cbn [step snd]. rewrite <- mem_In. destruct (mem i (active s)); split; congruence.
Qed.
Theorem C13_issue_refused_iff_revoked : forall ops i,
  snd (step (run ops reg0) (Issue i)) = OErr <-> In i (removed (run ops reg0)).
Proof.
  intros ops i. pose proof (run_inv ops reg0 inv0) as I. cbn [step].
  destruct (already_revoked (run ops reg0) i) eqn:A; cbn [snd].
  - split; [intros _|reflexivity]. apply (inv_rm _ I). unfold already_revoked in A.
    apply andb_true_iff in A. destruct A as [A1 A2]. apply negb_true_iff, mem_false in A1. apply mem_In in A2. tauto.
  - split; [discriminate|]. intros H. destruct (revoked_refused _ i I H) as [E _]. cbn [step] in E. rewrite A in E. exact E.
Qed.

(** a revoked identifier stays revoked and is never issued, blind-issued or refreshed again *)
Theorem C13_revoked_forever : forall ops ops' i,
  In i (removed (run ops reg0)) ->
  let s := run ops' (run ops reg0) in
  In i (removed s) /\ snd (step s (Issue i)) = OErr /\ (forall v, snd (step s (BlindIssue i v)) = OErr) /\
  snd (step s (Refresh i)) = OErr.
Proof.
  intros ops ops' i H s. assert (H' : In i (removed s)) by (apply removed_mono_run; exact H).
  split; [exact H'|]. apply revoked_refused; [|exact H']. apply run_inv, run_inv, inv0.
Qed.

(** active / revoked / never issued are told apart by the bookkeeping *)
Theorem C13_classes : forall ops i, let s := run ops reg0 in
  (In i (active s) /\ In i (elements s) /\ ~ In i (removed s)) \/
  (~ In i (active s) /\ In i (elements s) /\ In i (removed s)) \/
  (~ In i (active s) /\ ~ In i (elements s) /\ ~ In i (removed s)).
Proof. intros ops i s. apply classes. apply run_inv, inv0. Qed.

(** the published value: each revoked identifier divided out exactly once (NoDup removed, from the
    invariant), unchanged by every operation except a successful revocation *)
Theorem C13_value_step : forall K, is_field K -> forall (v0 alpha : K) (h : id -> K),
  (forall x, fadd K (h x) alpha <> f0 K) -> forall s o,
  value K v0 alpha h (fst (step s o)) =
  match o with
  | Revoke b => if revoke_ok s b then fdiv K (value K v0 alpha h s) (divisor K alpha h b) else value K v0 alpha h s
  | _ => value K v0 alpha h s end.
Proof. exact value_step. Qed.

(** a handle handed out (issued or refreshed) at the current state verifies against the
    published value; a handle from state s verifies against state s' iff the values agree;
    a handle from before a successful revocation fails afterwards (unless the batch's divisor
    is 1, probability 1/r) *)
Theorem C13_fresh_handle_verifies : forall K, is_field K -> forall (v0 alpha : K) (h : id -> K),
  (forall x, fadd K (h x) alpha <> f0 K) -> forall s i,
  handle_verifies K alpha h (handle K v0 alpha h s i) i (value K v0 alpha h s).
Proof. exact fresh_handle_verifies. Qed.
Theorem C13_handle_verifies_iff : forall K, is_field K -> forall (v0 alpha : K) (h : id -> K),
  (forall x, fadd K (h x) alpha <> f0 K) -> forall s s' i,
  handle_verifies K alpha h (handle K v0 alpha h s i) i (value K v0 alpha h s') <->
  value K v0 alpha h s = value K v0 alpha h s'.
Proof. exact handle_verifies_iff. Qed.
Theorem C13_stale_handle_fails : forall K, is_field K -> forall (v0 alpha : K) (h : id -> K),
  (forall x, fadd K (h x) alpha <> f0 K) -> forall s b i,
  revoke_ok s b = true -> divisor K alpha h b <> f1 K -> value K v0 alpha h s <> f0 K ->
  ~ handle_verifies K alpha h (handle K v0 alpha h s i) i (value K v0 alpha h (fst (revoke s b))).
Proof. exact stale_handle_fails. Qed.

(** saving and restoring is the identity on the modelled state (the serde round trip itself is
    compared on the implementation by the correspondence check) *)
Theorem C13_persist_restore_id : forall s, step s PersistRestore = (s, OOk).
Proof. reflexivity. Qed.

(** non-vacuity: a history with issuance, a failing batch, a successful batch and refused re-issue *)
Example C13_nonvacuous :
  let ops := [Issue 1; Issue 2; Revoke [2; 7]; Revoke [2]; Issue 2; Refresh 1; Refresh 2]%N in
  map fst (trace ops reg0) = [OOk; OOk; OErr; OOk; OErr; OOk; OErr] /\
  active (run ops reg0) = [1%N] /\ removed (run ops reg0) = [2%N].
Proof. vm_compute. repeat split. Qed.
