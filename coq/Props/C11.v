(** C11 — Tamper evidence, for the modelled proof kinds (signature proofs of both suites, commitment,
    equality); the remaining proof kinds are exercised on the implementation. *)
From Coq Require Import List Bool Arith.
From ACV Require Import Model.Field Model.Res Model.Pres Model.Preds Proofs.FieldP Proofs.PresP Proofs.TamperP.
Import ListNotations.

(** a changed response changes what the verifier recomputes (BBS: compared with the supplied t after the
    challenge check; PS: absorbed into the transcript) *)
Theorem C11_response_tamper : forall K, is_field K -> forall (ppre psuf : list K) y (pre suf : list K) z z' c,
  length ppre = length pre -> y <> f0 K -> z <> z' ->
  msm K (ppre ++ y :: psuf) ((pre ++ z :: suf) ++ [fopp K c]) <> msm K (ppre ++ y :: psuf) ((pre ++ z' :: suf) ++ [fopp K c]).
Proof. exact response_tamper. Qed.

(** group elements of the proofs of knowledge are transcript items *)
Theorem C11_pok_items_elements : forall K (pk : pubkey K) sid disc sid' disc' c c' a b t r a' b' t' r',
  pok_items K pk (mkSp K sid disc (PokBBS K a b t r)) c = pok_items K pk (mkSp K sid' disc' (PokBBS K a' b' t' r')) c' ->
  a = a' /\ b = b' /\ t = t'.
Proof. exact pok_items_elements. Qed.
Theorem C11_pok_items_elements_ps : forall K (pk : pubkey K) sid disc sid' disc' c c' s1 s2 j r s1' s2' j' r',
  pok_items K pk (mkSp K sid disc (PokPS K s1 s2 j r)) c = pok_items K pk (mkSp K sid' disc' (PokPS K s1' s2' j' r')) c' ->
  s1 = s1' /\ s2 = s2' /\ j = j'.
Proof. exact pok_items_elements_ps. Qed.

Theorem C11_comm_bp_tamper : forall K, is_field K -> forall gm gb C bp bp' mp c, gb <> f0 K -> bp <> bp' ->
  comm_verifier_blind K gm gb C bp mp c <> comm_verifier_blind K gm gb C bp' mp c.
Proof. exact comm_bp_tamper. Qed.
Theorem C11_comm_mp_tamper : forall K, is_field K -> forall gm gb C bp mp mp' c, gm <> f0 K -> mp <> mp' ->
  comm_verifier_blind K gm gb C bp mp c <> comm_verifier_blind K gm gb C bp mp' c.
Proof. exact comm_mp_tamper. Qed.

(** acceptance relative to the honestly derived challenge forces identical transcript items; any change
    of the challenge itself is rejected; a proof whose carried id was altered is rejected; a removed or
    replaced signature proof is rejected *)
Theorem C11_accept_same_items : forall K, feqb_ok K -> forall (S : schema K) P0 P derived,
  verify_case K S P0 P derived = Accept ->
  derived = true /\ exists it, items K S P = Some it /\ items K S P0 = Some it.
Proof. exact accept_same_items. Qed.
Theorem C11_underived_challenge_rejected : forall K, feqb_ok K -> forall (S : schema K) P0 P,
  verify_case K S P0 P false <> Accept.
Proof. exact underived_challenge_rejected. Qed.
Theorem C11_altered_inner_id_rejected : forall K (S : schema K) P fs, ids_ok K P = false -> verify_with K S P fs <> Accept.
Proof. intros K S P fs H A. rewrite (accept_ids K S P fs A) in H. discriminate. Qed.
Theorem C11_removed_signature_proof_rejected : forall K, feqb_ok K -> forall (S : schema K) (P : pres K) fs sid pk req,
  In (SSig K sid pk req) S -> (forall sp, lookup sid (proofs K P) <> Some (PSig K sp)) -> verify_with K S P fs <> Accept.
Proof.
  intros K HK S P fs sid pk req Hin Hno H.
  destruct (accept_dispatch K S P fs H sid pk req Hin) as [sp [rep [E _]]]. exact (Hno sp E).
Qed.
