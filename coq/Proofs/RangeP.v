From Coq Require Import ZArith Lia Bool.
From ACV Require Import Model.Res Model.Ints Model.Range Proofs.IntsP.
Open Scope Z_scope.

Lemma precheck_iff v lo hi : precheck v lo hi = true <-> in_range v lo hi.
Proof.
  unfold precheck, in_range. rewrite negb_true_iff, orb_false_iff, !Z.ltb_ge. lia.
Qed.

Definition opt_in_i64 (o : option Z) : Prop := match o with Some x => in_i64 x | None => True end.

Lemma bound_lo_in lo : opt_in_i64 lo -> in_i64 (bound_lo lo).
Proof. destruct lo; cbn; [auto|]. unfold in_i64, i64_min, two63. lia. Qed.
Lemma bound_hi_in hi : opt_in_i64 hi -> in_i64 (bound_hi hi).
Proof. destruct hi; cbn; [auto|]. unfold in_i64, i64_max, two63. lia. Qed.

(** in range: the honest prover's u64 arithmetic neither underflows nor overflows, in
    either build mode, and yields the true differences *)
Lemma adjusted_lower_ok b v l : in_i64 v -> in_i64 l -> l <= v ->
  adjusted_lower b v l = Ok (v - l) /\ 0 <= v - l < two64.
Proof.
  intros Hv Hl Hle. unfold adjusted_lower, u64_sub. rewrite !zc_value by assumption.
  replace (l + two63 <=? v + two63) with true by (symmetry; apply Z.leb_le; lia).
  unfold in_i64 in *. rewrite two64_two63. split; [f_equal; lia|lia].
Qed.

Lemma adjusted_upper_ok b v h : in_i64 v -> in_i64 h -> v <= h ->
  adjusted_upper b v h = Ok (u64_max - (h - v)) /\ 0 <= u64_max - (h - v) < two64.
Proof.
  intros Hv Hh Hle. unfold adjusted_upper, u64_add, u64_max. rewrite !zc_value by assumption.
  replace (v + two63 + (two64 - 1 - (h + two63)) <? two64) with true by (symmetry; apply Z.ltb_lt; lia).
  unfold in_i64 in *. rewrite two64_two63 in *. split; [f_equal; lia|lia].
Qed.

(** out of range: debug builds panic, release builds wrap (what a holder that skips the
    pre-check would feed to the bulletproof prover) *)
Lemma adjusted_lower_out v l : in_i64 v -> in_i64 l -> v < l ->
  adjusted_lower Debug v l = Panic /\ adjusted_lower Release v l = Ok (v - l + two64).
Proof.
  intros Hv Hl Hlt. unfold adjusted_lower, u64_sub. rewrite !zc_value by assumption.
  replace (l + two63 <=? v + two63) with false by (symmetry; apply Z.leb_gt; lia).
  split; [reflexivity|]. f_equal. unfold in_i64 in *.
  rewrite <- (Z.mod_add _ 1 two64) by (rewrite two64_val; lia).
  rewrite Z.mod_small; rewrite two64_two63 in *; lia.
Qed.

Lemma range_commit_iff b v lo hi :
  in_i64 v -> opt_in_i64 lo -> opt_in_i64 hi -> (lo <> None \/ hi <> None) ->
  ((exists a, range_commit b v lo hi = Ok a) <-> in_range v lo hi).
Proof.
  intros Hv Hlo Hhi Hb. unfold range_commit.
  destruct (precheck v lo hi) eqn:P; cbn [negb].
  - apply precheck_iff in P. split; [intros _; exact P|intros _].
    unfold in_range in P. destruct lo as [l|], hi as [h|]; cbn [bound_lo bound_hi opt_in_i64] in *.
    + destruct (adjusted_lower_ok b v l Hv Hlo) as [-> _]; [lia|].
      destruct (adjusted_upper_ok b v h Hv Hhi) as [-> _]; [lia|]. cbn [rbind]. eauto.
    + destruct (adjusted_lower_ok b v l Hv Hlo) as [-> _]; [lia|]. cbn [rbind]. eauto.
    + destruct (adjusted_upper_ok b v h Hv Hhi) as [-> _]; [lia|]. cbn [rbind]. eauto.
    + destruct Hb; congruence.
  - split; [intros [a Ha]; discriminate Ha|].
    intros Hin. apply precheck_iff in Hin. congruence.
Qed.

(** no wrap-around in the field can fake a 64-bit range proof: r > 2^65 *)
Lemma rmod_gt_two65 : 2 * two64 < rmod. Proof. reflexivity. Qed.

Lemma cong_small x k : - two64 < x < 2 * two64 -> 0 <= k < two64 -> x mod rmod = k mod rmod -> x = k.
Proof.
  intros Hx Hk E. pose proof rmod_gt_two65 as Hr.
  assert (Hd : (x - k) mod rmod = 0).
  { rewrite Zminus_mod, E, Z.sub_diag. apply Z.mod_0_l. lia. }
  apply Z.mod_divide in Hd; [|lia]. destruct Hd as [q Hq].
  assert (Hr0 : 0 < rmod) by lia.
  assert (q = 0).
  { destruct (Z_lt_le_dec q 1) as [H1|H1]; [destruct (Z_lt_le_dec (-1) q) as [H2|H2]; [lia|]|].
    - assert (q * rmod <= (-1) * rmod) by (apply Z.mul_le_mono_nonneg_r; lia). lia.
    - assert (1 * rmod <= q * rmod) by (apply Z.mul_le_mono_nonneg_r; lia). lia. }
  subst q. lia.
Qed.

Lemma wrap_sound_lower v l : in_i64 v -> in_i64 l ->
  (opens_in_u64 (zero_center v - verifier_lower_offset l) <-> l <= v).
Proof.
  intros Hv Hl. unfold opens_in_u64, verifier_lower_offset. rewrite !zc_value by assumption.
  unfold in_i64 in *. split.
  - intros (k & Hk & E). apply cong_small in E; [lia| rewrite two64_two63 in *; lia|exact Hk].
  - intros Hle. exists (v - l). rewrite two64_two63 in *. split; [lia|f_equal; lia].
Qed.

Lemma wrap_sound_upper v h : in_i64 v -> in_i64 h ->
  (opens_in_u64 (zero_center v + verifier_upper_offset h) <-> v <= h).
Proof.
  intros Hv Hh. unfold opens_in_u64, verifier_upper_offset, u64_max. rewrite !zc_value by assumption.
  unfold in_i64 in *. split.
  - intros (k & Hk & E). apply cong_small in E; [lia| rewrite two64_two63 in *; lia|exact Hk].
  - intros Hle. exists (two64 - 1 - (h - v)). rewrite two64_two63 in *. split; [lia|f_equal; lia].
Qed.

(** the verifier's range proofs on the signed scalar are satisfiable exactly in range *)
Theorem verifier_accepts_iff v lo hi :
  in_i64 v -> opt_in_i64 lo -> opt_in_i64 hi ->
  (verifier_accepts_value (get_num_scalar v) lo hi <-> in_range v lo hi).
Proof.
  intros Hv Hlo Hhi. unfold verifier_accepts_value, in_range, get_num_scalar.
  destruct lo as [l|], hi as [h|]; cbn [opt_in_i64 bound_lo bound_hi] in *;
    rewrite ?wrap_sound_lower, ?wrap_sound_upper by assumption;
    unfold in_i64, i64_min, i64_max in *; lia.
Qed.

(** the prover's adjusted values are exactly the verifier's offsets applied to the signed
    scalar (so both sides talk about the same commitments, with the same blinding) *)
Lemma adjusted_matches_verifier b v lo hi al au :
  in_i64 v -> opt_in_i64 lo -> opt_in_i64 hi ->
  range_commit b v lo hi = Ok (al, au) ->
  (match lo, al with
   | Some l, Some a => a = get_num_scalar v - verifier_lower_offset l
   | None, None => True | _, _ => False end) /\
  (match hi, au with
   | Some h, Some a => a = get_num_scalar v + verifier_upper_offset h
   | None, None => True | _, _ => False end).
Proof.
  intros Hv Hlo Hhi H. unfold range_commit in H.
  destruct (precheck v lo hi) eqn:P; cbn [negb] in H; [|discriminate H].
  apply precheck_iff in P. unfold in_range in P.
  unfold get_num_scalar, verifier_lower_offset, verifier_upper_offset.
  destruct lo as [l|], hi as [h|]; cbn [bound_lo bound_hi opt_in_i64] in *; try discriminate H.
  - destruct (adjusted_lower_ok b v l Hv Hlo) as [E1 _]; [lia|].
    destruct (adjusted_upper_ok b v h Hv Hhi) as [E2 _]; [lia|].
    rewrite E1, E2 in H. cbn [rbind] in H.
    assert (al = Some (v - l)) by congruence. assert (au = Some (u64_max - (h - v))) by congruence. subst al au.
    rewrite !zc_value by assumption. unfold u64_max. split; lia.
  - destruct (adjusted_lower_ok b v l Hv Hlo) as [E1 _]; [lia|].
    rewrite E1 in H. cbn [rbind] in H.
    assert (al = Some (v - l)) by congruence. assert (au = None) by congruence. subst al au.
    rewrite !zc_value by assumption. split; [lia|exact I].
  - destruct (adjusted_upper_ok b v h Hv Hhi) as [E2 _]; [lia|].
    rewrite E2 in H. cbn [rbind] in H.
    assert (al = None) by congruence. assert (au = Some (u64_max - (h - v))) by congruence. subst al au.
    rewrite !zc_value by assumption. unfold u64_max. split; [exact I|lia].
Qed.

(** Pedersen commitments in the exponent: subtracting / adding the verifier's offset times the
    message generator changes the committed value and keeps the blinding *)
Lemma adjust_hom_lower m b g h off : (m * g + b * h) - g * off = (m - off) * g + b * h.
Proof. ring. Qed.
Lemma adjust_hom_upper m b g h off : (m * g + b * h) + g * off = (m + off) * g + b * h.
Proof. ring. Qed.
