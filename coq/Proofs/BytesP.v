(** Lemmas about byte strings: big-endian conversions, hex, LEB128. *)
From Coq Require Import ZArith Lia Bool List.
From ACV Require Import Model.Bytes.
Import ListNotations.
Open Scope Z_scope.

Lemma of_be_acc_spec l : forall acc, of_be_acc acc l = acc * 256 ^ Z.of_nat (length l) + of_be l.
Proof.
  unfold of_be. induction l as [|b t IH]; intros acc.
  - cbn [of_be_acc length]. change (Z.of_nat 0) with 0. rewrite Z.pow_0_r. lia.
  - cbn [of_be_acc length]. rewrite (IH (acc * 256 + b)), (IH (0 * 256 + b)).
    rewrite Nat2Z.inj_succ, Z.pow_succ_r by lia. ring.
Qed.

Lemma of_be_nil : of_be [] = 0. Proof. reflexivity. Qed.

Lemma of_be_cons b t : of_be (b :: t) = b * 256 ^ Z.of_nat (length t) + of_be t.
Proof. unfold of_be at 1. cbn [of_be_acc]. rewrite of_be_acc_spec. ring. Qed.

Lemma of_be_app a b : of_be (a ++ b) = of_be a * 256 ^ Z.of_nat (length b) + of_be b.
Proof.
  induction a as [|x a IH].
  - cbn [app]. rewrite of_be_nil. lia.
  - cbn [app]. rewrite !of_be_cons, IH, app_length, Nat2Z.inj_add, Z.pow_add_r by lia. ring.
Qed.

Lemma of_be_snoc l b : of_be (l ++ [b]) = of_be l * 256 + b.
Proof. rewrite of_be_app. cbn [length]. rewrite of_be_cons, of_be_nil. cbn [length]. change (256 ^ Z.of_nat 1) with 256. change (256 ^ Z.of_nat 0) with 1. lia. Qed.

Lemma of_be_bounds l : all_bytes l -> 0 <= of_be l < 256 ^ Z.of_nat (length l).
Proof.
  induction 1 as [|b t Hb Ht IH].
  - rewrite of_be_nil. cbn. lia.
  - rewrite of_be_cons. cbn [length]. rewrite Nat2Z.inj_succ, Z.pow_succ_r by lia.
    unfold is_byte in Hb. nia.
Qed.

Lemma of_be_zeros n : of_be (zeros n) = 0.
Proof.
  induction n as [|n IH]; [reflexivity|].
  unfold zeros in *. cbn [repeat]. rewrite of_be_cons, IH. lia.
Qed.

Lemma to_be_length n : forall z, length (to_be n z) = n.
Proof. induction n as [|n IH]; intros z; cbn [to_be]; [reflexivity|]. rewrite app_length, IH. cbn. lia. Qed.

Lemma to_be_all_bytes n : forall z, all_bytes (to_be n z).
Proof.
  induction n as [|n IH]; intros z; cbn [to_be]; [constructor|].
  apply Forall_app. split; [apply IH|]. constructor; [|constructor].
  unfold is_byte. apply Z.mod_pos_bound. lia.
Qed.

Lemma of_be_to_be n : forall z, of_be (to_be n z) = z mod 256 ^ Z.of_nat n.
Proof.
  induction n as [|n IH]; intros z.
  - cbn [to_be]. rewrite of_be_nil. change (256 ^ Z.of_nat 0) with 1. rewrite Z.mod_1_r. reflexivity.
  - cbn [to_be]. rewrite of_be_snoc, IH.
    rewrite Nat2Z.inj_succ, Z.pow_succ_r by lia.
    assert (Hp : 0 < 256 ^ Z.of_nat n) by (apply Z.pow_pos_nonneg; lia).
    rewrite Z.rem_mul_r by lia. lia.
Qed.

Lemma of_be_to_be_small n z : 0 <= z < 256 ^ Z.of_nat n -> of_be (to_be n z) = z.
Proof. intros H. rewrite of_be_to_be. apply Z.mod_small. exact H. Qed.

Lemma to_be_of_be l : all_bytes l -> to_be (length l) (of_be l) = l.
Proof.
  induction l as [|b t IH] using rev_ind; intros H; [reflexivity|].
  apply Forall_app in H. destruct H as [Ht Hb]. pose proof (Forall_inv Hb) as Hb'.
  rewrite app_length. cbn [length]. rewrite Nat.add_1_r. cbn [to_be].
  rewrite of_be_snoc. unfold is_byte in Hb'.
  replace ((of_be t * 256 + b) / 256) with (of_be t) by (apply Z.div_unique with b; lia).
  replace ((of_be t * 256 + b) mod 256) with b by (apply Z.mod_unique with (of_be t); lia).
  rewrite IH by exact Ht. reflexivity.
Qed.

Lemma to_be_inj n a b :
  0 <= a < 256 ^ Z.of_nat n -> 0 <= b < 256 ^ Z.of_nat n -> to_be n a = to_be n b -> a = b.
Proof.
  intros Ha Hb E. rewrite <- (of_be_to_be_small n a Ha), <- (of_be_to_be_small n b Hb), E. reflexivity.
Qed.

Lemma zeros_all_bytes n : all_bytes (zeros n).
Proof. unfold zeros. induction n; cbn; constructor; [unfold is_byte; lia|assumption]. Qed.

Lemma zeros_length n : length (zeros n) = n.
Proof. apply repeat_length. Qed.

(** little endian *)
Lemma to_le_length n z : length (to_le n z) = n.
Proof. unfold to_le. rewrite rev_length. apply to_be_length. Qed.

Lemma of_le_to_le_small n z : 0 <= z < 256 ^ Z.of_nat n -> of_le (to_le n z) = z.
Proof. intros H. unfold of_le, to_le. rewrite rev_involutive. apply of_be_to_be_small. exact H. Qed.

Lemma to_le_all_bytes n z : all_bytes (to_le n z).
Proof. unfold to_le, all_bytes. apply Forall_rev. apply to_be_all_bytes. Qed.

Lemma to_le_inj n a b :
  0 <= a < 256 ^ Z.of_nat n -> 0 <= b < 256 ^ Z.of_nat n -> to_le n a = to_le n b -> a = b.
Proof.
  intros Ha Hb E. unfold to_le in E. apply (f_equal (@rev Z)) in E. rewrite !rev_involutive in E.
  eapply to_be_inj; eassumption.
Qed.

(** hex *)
Lemma hex_val_digit d : 0 <= d < 16 -> hex_val (hex_digit d) = Some d.
Proof.
  intros H. unfold hex_digit, hex_val.
  destruct (Z.ltb_spec d 10).
  - replace ((48 <=? 48 + d) && (48 + d <=? 57)) with true
      by (symmetry; apply andb_true_intro; split; [apply Z.leb_le|apply Z.leb_le]; lia).
    f_equal. lia.
  - replace ((48 <=? 87 + d) && (87 + d <=? 57)) with false
      by (symmetry; apply andb_false_intro2; apply Z.leb_gt; lia).
    replace ((97 <=? 87 + d) && (87 + d <=? 102)) with true
      by (symmetry; apply andb_true_intro; split; apply Z.leb_le; lia).
    f_equal. lia.
Qed.

Lemma hex_roundtrip l : all_bytes l -> hex_decode (hex_encode l) = Some l.
Proof.
  induction 1 as [|b t Hb Ht IH]; [reflexivity|].
  cbn [hex_encode hex_decode]. unfold is_byte in Hb.
  rewrite !hex_val_digit, IH.
  - f_equal. f_equal. rewrite Z.mul_comm. symmetry. apply Z.div_mod. lia.
  - apply Z.mod_pos_bound. lia.
  - split; [apply Z.div_pos; lia | apply Z.div_lt_upper_bound; lia].
Qed.

Lemma hex_encode_length l : length (hex_encode l) = (2 * length l)%nat.
Proof. induction l as [|b t IH]; [reflexivity|]. cbn [hex_encode length]. rewrite IH. lia. Qed.

Lemma hex_encode_app a b : hex_encode (a ++ b) = hex_encode a ++ hex_encode b.
Proof. induction a as [|x a IH]; [reflexivity|]. cbn [app hex_encode]. rewrite IH. reflexivity. Qed.

Lemma list_eqb_refl l : list_eqb l l = true.
Proof. induction l as [|x l IH]; [reflexivity|]. cbn [list_eqb]. rewrite Z.eqb_refl, IH. reflexivity. Qed.

Lemma list_eqb_eq a : forall b, list_eqb a b = true <-> a = b.
Proof.
  induction a as [|x a IH]; intros [|y b]; cbn [list_eqb]; split; intros H; try reflexivity; try discriminate.
  - apply andb_prop in H. destruct H as [H1 H2]. apply Z.eqb_eq in H1. apply IH in H2. subst. reflexivity.
  - inversion H; subst. rewrite Z.eqb_refl. apply IH. reflexivity.
Qed.
