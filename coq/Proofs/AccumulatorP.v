From Coq Require Import Field Ring List Bool Lia.
From ACV Require Import Model.Field Model.Accumulator Proofs.FieldP.
Import ListNotations.

Lemma firstn_subset_local {A} n (l : list A) v : In v (firstn n l) -> In v l.
Proof.
  revert l. induction n as [|n IH]; intros l H; [destruct H|].
  destruct l as [|a t]; [destruct H|]. cbn [firstn] in H. destruct H as [->|H]; [left; reflexivity|right; apply IH; exact H].
Qed.

Section AccP.
Variable K : fops.
Hypothesis Kf : is_field K.
Hypothesis Keq : feqb_ok K.
Add Field KF : (Kf_th K Kf).
Local Notation "a + b" := (fadd K a b).
Local Notation "a - b" := (fsub K a b).
Local Notation "a * b" := (fmul K a b).
Local Notation "a / b" := (fdiv K a b).
Local Notation "0" := (f0 K).
Local Notation "1" := (f1 K).
Local Notation "- a" := (fopp K a).

(** ---- folds ---------------------------------------------------------------------------- *)
Lemma fold_mul (l : list K) (c : K) : fold_left (fun a z => a * z) l c = c * fprod K l.
Proof.
  revert c. induction l as [|x t IH]; intros c; cbn [fold_left fprod fold_right].
  - ring.
  - rewrite IH. fold (fprod K t). ring.
Qed.
Lemma fprod_l_eq (l : list K) : fprod_l K l = fprod K l.
Proof. unfold fprod_l. rewrite fold_mul. ring. Qed.

(** ---- polynomial evaluation ------------------------------------------------------------- *)
Lemma peval_from_scale (p : list K) x pw : peval_from K p x pw = pw * peval_from K p x 1.
Proof.
  revert pw. induction p as [|a t IH]; intros pw; cbn [peval_from]; [ring|].
  rewrite (IH (pw * x)), (IH (1 * x)). ring.
Qed.
Lemma peval_cons a (p : list K) x : peval K (a :: p) x = a + x * peval K p x.
Proof. unfold peval. cbn [peval_from]. rewrite (peval_from_scale p x (1 * x)). ring. Qed.
Lemma peval_nil x : peval K [] x = 0.
Proof. reflexivity. Qed.

Lemma peval_padd (p q : list K) x : peval K (padd K p q) x = peval K p x + peval K q x.
Proof.
  revert q. induction p as [|a p' IH]; intros q; cbn [padd].
  - rewrite peval_nil. ring.
  - destruct q as [|b q']; [rewrite peval_nil; ring|].
    rewrite !peval_cons, IH. ring.
Qed.
Lemma peval_map_opp (q : list K) x : peval K (map (fopp K) q) x = - peval K q x.
Proof.
  induction q as [|b q' IH]; cbn [map]; [rewrite peval_nil; ring|].
  rewrite !peval_cons, IH. ring.
Qed.
Lemma peval_psub (p q : list K) x : peval K (psub K p q) x = peval K p x - peval K q x.
Proof.
  revert q. induction p as [|a p' IH]; intros q; cbn [psub].
  - rewrite peval_map_opp, peval_nil. ring.
  - destruct q as [|b q']; [rewrite peval_nil; ring|].
    rewrite !peval_cons, IH. ring.
Qed.
Lemma peval_pscale c (p : list K) x : peval K (pscale K c p) x = c * peval K p x.
Proof.
  unfold pscale. induction p as [|a p' IH]; cbn [map]; [rewrite peval_nil; ring|].
  rewrite !peval_cons, IH. ring.
Qed.
Lemma peval_map_mul c (p : list K) x : peval K (map (fun a => c * a) p) x = c * peval K p x.
Proof.
  induction p as [|a p' IH]; cbn [map]; [rewrite peval_nil; ring|].
  rewrite !peval_cons, IH. ring.
Qed.
Lemma peval_snoc0 (p : list K) x : peval K (p ++ [0]) x = peval K p x.
Proof.
  induction p as [|a p' IH]; cbn [app]; [rewrite peval_cons, !peval_nil; ring|].
  rewrite !peval_cons, IH. ring.
Qed.
Lemma peval_pmul_lin (p : list K) j x : peval K (pmul_lin K p j) x = (j - x) * peval K p x.
Proof.
  unfold pmul_lin. rewrite peval_padd, peval_snoc0, peval_cons, !peval_map_mul. ring.
Qed.
Lemma peval_fold_pmul_lin (l : list K) p x :
  peval K (fold_left (pmul_lin K) l p) x = peval K p x * fprod K (map (fun j => j - x) l).
Proof.
  revert p. induction l as [|j t IH]; intros p; cbn [fold_left map fprod fold_right]; [ring|].
  rewrite IH, peval_pmul_lin. fold (fprod K (map (fun j => j - x) t)). ring.
Qed.
Lemma peval_one x : peval K [1] x = 1.
Proof. rewrite peval_cons, peval_nil. ring. Qed.

Lemma peval_fold_padd {A} (f : A -> list K) (l : list A) init x :
  peval K (fold_left (fun acc s => padd K acc (f s)) l init) x =
  peval K init x + fsum K (map (fun s => peval K (f s) x) l).
Proof.
  revert init. induction l as [|s t IH]; intros init; cbn [fold_left map fsum fold_right]; [ring|].
  rewrite IH, peval_padd. fold (fsum K (map (fun s => peval K (f s) x) t)). ring.
Qed.

Lemma fsum_seq_S (f : nat -> K) n :
  fsum K (map f (seq 0 (S n))) = f O + fsum K (map (fun s => f (S s)) (seq 0 n)).
Proof.
  cbn [seq map fsum fold_right]. rewrite <- seq_shift, map_map. reflexivity.
Qed.
Lemma fsum_scale (c : K) {A} (f : A -> K) (l : list A) :
  fsum K (map (fun s => c * f s) l) = c * fsum K (map f l).
Proof.
  induction l as [|s t IH]; cbn [map fsum fold_right]; [ring|].
  fold (fsum K (map (fun s => c * f s) t)). fold (fsum K (map f t)). rewrite IH. ring.
Qed.
Lemma fsum_ext {A} (f g : A -> K) (l : list A) : (forall s, In s l -> f s = g s) ->
  fsum K (map f l) = fsum K (map g l).
Proof.
  induction l as [|s t IH]; intros H; cbn [map fsum fold_right]; [reflexivity|].
  fold (fsum K (map f t)). fold (fsum K (map g t)). rewrite IH, (H s); [reflexivity|left; reflexivity|].
  intros s' Hs'. apply H. right. exact Hs'.
Qed.

(** ---- secret-key quantities ---------------------------------------------------------------- *)
Variable alpha : K.
Definition PA (l : list K) : K := fprod K (map (fun v => v + alpha) l).
Definition dY (l : list K) (y : K) : K := fprod K (map (fun v => v - y) l).

Lemma batch_additions_eq l : batch_additions K alpha l = PA l.
Proof. unfold batch_additions, PA. rewrite fold_mul. ring. Qed.
Lemma dad_eq l y : dad K l y = dY l y.
Proof.
  unfold dad, dY. destruct l as [|v [|w t]]; try (rewrite fold_mul; ring).
  cbn [map fprod fold_right]. ring.
Qed.
Lemma PA_cons a t : PA (a :: t) = (a + alpha) * PA t.
Proof. reflexivity. Qed.
Lemma dY_cons a t y : dY (a :: t) y = (a - y) * dY t y.
Proof. reflexivity. Qed.
Lemma PA_nz l : (forall v, In v l -> v + alpha <> 0) -> PA l <> 0.
Proof.
  intros H. apply (fprod_nz K Kf). intros x Hx. apply in_map_iff in Hx. destruct Hx as [v [<- Hv]]. apply H, Hv.
Qed.
Lemma dY_nz l y : (forall v, In v l -> v - y <> 0) -> dY l y <> 0.
Proof.
  intros H. apply (fprod_nz K Kf). intros x Hx. apply in_map_iff in Hx. destruct Hx as [v [<- Hv]]. apply H, Hv.
Qed.
Lemma dY_zero l y : In y l -> dY l y = 0.
Proof.
  induction l as [|v t IH]; intros H; [destruct H|]. rewrite dY_cons. destruct H as [->|H].
  - ring.
  - rewrite IH by exact H. ring.
Qed.

(** value of the two partial sums at a point *)
Definition vA (adds : list K) (y : K) : K :=
  fsum K (map (fun s => peval K (va_term K alpha adds s) y) (seq 0 (length adds))).
Definition vD (dels : list K) (y : K) : K :=
  fsum K (map (fun s => peval K (vd_term K alpha dels s) y) (seq 0 (length dels))).

Lemma va_term_eval adds s y :
  peval K (va_term K alpha adds s) y = PA (firstn s adds) * dY (skipn (S s) adds) y.
Proof.
  unfold va_term. rewrite peval_pscale, peval_fold_pmul_lin, peval_one.
  destruct s as [|s]; [cbn [firstn]; unfold PA, dY; cbn [map fprod fold_right]; ring|].
  rewrite batch_additions_eq. unfold dY. ring.
Qed.
Lemma vd_term_eval dels s y :
  peval K (vd_term K alpha dels s) y = finv K (PA (firstn (S s) dels)) * dY (firstn s dels) y.
Proof.
  unfold vd_term, batch_deletions. rewrite peval_pscale, peval_fold_pmul_lin, peval_one, batch_additions_eq.
  unfold dY. ring.
Qed.

Lemma vA_cons a t y : vA (a :: t) y = dY t y + (a + alpha) * vA t y.
Proof.
  unfold vA. cbn [length]. rewrite fsum_seq_S, va_term_eval. cbn [firstn skipn].
  rewrite <- fsum_scale. f_equal.
  - unfold PA. cbn [map fprod fold_right]. ring.
  - apply fsum_ext. intros s _. rewrite !va_term_eval. cbn [firstn skipn]. rewrite PA_cons. ring.
Qed.

(** telescoping identity for additions: (y+alpha) * vA(y) = prod(a+alpha) - prod(a-y) *)
Lemma vA_telescope adds y : (y + alpha) * vA adds y = PA adds - dY adds y.
Proof.
  induction adds as [|a t IH].
  - unfold vA, PA, dY. cbn. ring.
  - rewrite vA_cons, PA_cons, dY_cons.
    transitivity ((y + alpha) * dY t y + (a + alpha) * ((y + alpha) * vA t y)); [ring|].
    rewrite IH. ring.
Qed.

Lemma vD_cons d t y : d + alpha <> 0 -> (forall v, In v t -> v + alpha <> 0) ->
  vD (d :: t) y = finv K (d + alpha) * (1 + (d - y) * vD t y).
Proof.
  intros Hd Ht. unfold vD. cbn [length]. rewrite fsum_seq_S, vd_term_eval. cbn [firstn].
  transitivity (finv K (d + alpha) * 1 + finv K (d + alpha) * ((d - y) *
     fsum K (map (fun s => peval K (vd_term K alpha t s) y) (seq 0 (length t))))); [|ring].
  f_equal.
  - unfold PA, dY. cbn [map fprod fold_right]. field. exact Hd.
  - rewrite <- !fsum_scale. apply fsum_ext. intros s _. rewrite !vd_term_eval. cbn [firstn].
    rewrite PA_cons, dY_cons.
    assert (Hp : PA (firstn (S s) t) <> 0).
    { apply PA_nz. intros v Hv. apply Ht. apply (firstn_subset_local (S s) t v Hv). }
    field. split; [exact Hp|exact Hd].
Qed.

(** telescoping identity for deletions: (y+alpha) * vD(y) = 1 - prod(d-y)/prod(d+alpha) *)
Lemma vD_telescope dels y : (forall v, In v dels -> v + alpha <> 0) ->
  (y + alpha) * vD dels y = 1 - dY dels y / PA dels.
Proof.
  induction dels as [|d t IH]; intros H.
  - unfold vD, PA, dY. cbn. field. apply (f1_nz K Kf).
  - assert (Hd : d + alpha <> 0) by (apply H; left; reflexivity).
    assert (Ht : forall v, In v t -> v + alpha <> 0) by (intros v Hv; apply H; right; exact Hv).
    rewrite (vD_cons d t y Hd Ht), PA_cons, dY_cons.
    transitivity (finv K (d + alpha) * ((y + alpha) + (d - y) * ((y + alpha) * vD t y))); [ring|].
    rewrite (IH Ht). pose proof (PA_nz t Ht) as Hp. field. split; assumption.
Qed.

Lemma create_coefficients_eval adds dels y :
  peval K (create_coefficients K alpha adds dels) y = vA adds y - PA adds * vD dels y.
Proof.
  unfold create_coefficients. rewrite peval_psub, peval_pscale, !peval_fold_padd, !peval_nil, batch_additions_eq.
  unfold vA, vD. ring.
Qed.

(** <Upsilon_y, Omega> * (y+alpha) = V * (PA(A) * dD(y)/PA(D) - dA(y)) *)
Lemma coefficients_identity adds dels y : (forall v, In v dels -> v + alpha <> 0) ->
  (y + alpha) * peval K (create_coefficients K alpha adds dels) y
  = PA adds * dY dels y / PA dels - dY adds y.
Proof.
  intros H. rewrite create_coefficients_eval.
  transitivity ((y + alpha) * vA adds y - PA adds * ((y + alpha) * vD dels y)); [ring|].
  rewrite vA_telescope, (vD_telescope dels y H). pose proof (PA_nz dels H) as Hp. field. exact Hp.
Qed.

(** non-emptiness of the published coefficient vector unless both sides are empty *)
Lemma padd_nonempty_l (p q : list K) : p <> [] -> padd K p q <> [].
Proof. destruct p as [|a p']; [congruence|]. destruct q; cbn; congruence. Qed.
Lemma padd_nonempty_r (p q : list K) : q <> [] -> padd K p q <> [].
Proof. destruct p as [|a p']; [cbn; auto|]. destruct q; cbn; congruence. Qed.
Lemma fold_padd_nonempty {A} (f : A -> list K) (l : list A) init :
  init <> [] -> fold_left (fun acc s => padd K acc (f s)) l init <> [].
Proof.
  revert init. induction l as [|s t IH]; intros init H; cbn [fold_left]; [exact H|].
  apply IH. apply padd_nonempty_l. exact H.
Qed.
Lemma pmul_lin_nonempty (p : list K) j : pmul_lin K p j <> [].
Proof. unfold pmul_lin. apply padd_nonempty_r. congruence. Qed.
Lemma fold_pmul_lin_nonempty (l : list K) p : p <> [] -> fold_left (pmul_lin K) l p <> [].
Proof.
  revert p. induction l as [|j t IH]; intros p H; cbn [fold_left]; [exact H|].
  apply IH. apply pmul_lin_nonempty.
Qed.
Lemma pscale_nonempty c (p : list K) : p <> [] -> pscale K c p <> [].
Proof. destruct p; cbn; congruence. Qed.
Lemma psub_nonempty (p q : list K) : p <> [] \/ q <> [] -> psub K p q <> [].
Proof.
  intros [H|H]; destruct p as [|a p'], q as [|b q']; cbn; congruence.
Qed.
Lemma sum_terms_nonempty (f : nat -> list K) n : n <> O -> f O <> [] ->
  fold_left (fun acc s => padd K acc (f s)) (seq 0 n) [] <> [].
Proof.
  intros Hn H0. destruct n as [|n]; [congruence|]. cbn [seq fold_left padd].
  apply fold_padd_nonempty. exact H0.
Qed.
Lemma create_coefficients_nonempty adds dels : adds <> [] \/ dels <> [] ->
  create_coefficients K alpha adds dels <> [].
Proof.
  intros H. unfold create_coefficients. apply psub_nonempty. destruct H as [H|H].
  - left. apply sum_terms_nonempty; [destruct adds; cbn; congruence|].
    unfold va_term. apply pscale_nonempty, fold_pmul_lin_nonempty. congruence.
  - right. apply pscale_nonempty. apply sum_terms_nonempty; [destruct dels; cbn; congruence|].
    unfold vd_term. apply pscale_nonempty, fold_pmul_lin_nonempty. congruence.
Qed.

(** ---- the accumulator manager's step --------------------------------------------------- *)
Definition Vnext (V : K) (adds dels : list K) : K := V * PA adds / PA dels.

Lemma acc_update_value V adds dels : fst (acc_update K alpha V adds dels) = Vnext V adds dels.
Proof. unfold acc_update, Vnext, batch_deletions. cbn [fst]. rewrite !batch_additions_eq. unfold fdiv. ring. Qed.

Lemma omega_eval V adds dels y :
  peval K (snd (acc_update K alpha V adds dels)) y = V * peval K (create_coefficients K alpha adds dels) y.
Proof. unfold acc_update. cbn [snd]. apply peval_map_mul. Qed.

Lemma feqb_false (a b : K) : feqb K a b = false <-> a <> b.
Proof.
  pose proof (Keq a b) as H. destruct (feqb K a b); split; intros H1.
  - discriminate H1.
  - exfalso. apply H1. apply H. reflexivity.
  - intros E. apply H in E. discriminate E.
  - reflexivity.
Qed.

(** ---- batch update (membership) ----------------------------------------------------------- *)
Lemma evaluate_delta_ok y adds dels V :
  dY dels y <> 0 -> adds <> [] \/ dels <> [] ->
  evaluate_delta K y adds dels (snd (acc_update K alpha V adds dels)) =
  DOk K (dY adds y / dY dels y)
        (V * peval K (create_coefficients K alpha adds dels) y / dY dels y).
Proof.
  intros Hd Hne. unfold evaluate_delta. rewrite !dad_eq.
  destruct (feqb K (dY dels y) 0) eqn:E; [apply Keq in E; contradiction|].
  unfold evaluate. pose proof (create_coefficients_nonempty adds dels Hne) as Hc.
  destruct (snd (acc_update K alpha V adds dels)) as [|c0 ct] eqn:Eo.
  - unfold acc_update in Eo. cbn [snd] in Eo. apply map_eq_nil in Eo. contradiction.
  - rewrite <- Eo, omega_eval. reflexivity.
Qed.

Theorem batch_update_correct C y V adds dels :
  C * (y + alpha) = V -> (forall v, In v dels -> v + alpha <> 0) -> dY dels y <> 0 ->
  let '(V', omega) := acc_update K alpha V adds dels in
  batch_update K C y adds dels omega * (y + alpha) = V'.
Proof.
  intros HC Hdel Hd. destruct (acc_update K alpha V adds dels) as [V' omega] eqn:E.
  assert (EV : V' = Vnext V adds dels) by (rewrite <- acc_update_value, E; reflexivity).
  assert (Eo : omega = snd (acc_update K alpha V adds dels)) by (rewrite E; reflexivity).
  destruct adds as [|a0 at_]; [destruct dels as [|d0 dt]|].
  - (* nothing changes: empty coefficient vector, witness kept *)
    subst omega V'. unfold batch_update, evaluate_delta, acc_update, create_coefficients, Vnext, PA.
    cbn. destruct (feqb K 1 0) eqn:E1; cbn; rewrite HC; field; apply (f1_nz K Kf).
  - subst omega. unfold batch_update. rewrite (evaluate_delta_ok y [] (d0 :: dt) V Hd) by (right; congruence).
    cbn [apply_delta]. rewrite EV. unfold Vnext.
    pose proof (coefficients_identity [] (d0 :: dt) y Hdel) as ID. pose proof (PA_nz (d0 :: dt) Hdel) as Hp.
    transitivity (dY [] y / dY (d0 :: dt) y * (C * (y + alpha))
                  + V * ((y + alpha) * peval K (create_coefficients K alpha [] (d0 :: dt)) y) / dY (d0 :: dt) y).
    { field. exact Hd. }
    rewrite ID, HC. field. split; assumption.
  - subst omega. unfold batch_update. rewrite (evaluate_delta_ok y (a0 :: at_) dels V Hd) by (left; congruence).
    cbn [apply_delta]. rewrite EV. unfold Vnext.
    pose proof (coefficients_identity (a0 :: at_) dels y Hdel) as ID. pose proof (PA_nz dels Hdel) as Hp.
    transitivity (dY (a0 :: at_) y / dY dels y * (C * (y + alpha))
                  + V * ((y + alpha) * peval K (create_coefficients K alpha (a0 :: at_) dels) y) / dY dels y).
    { field. exact Hd. }
    rewrite ID, HC. field. split; assumption.
Qed.

(** uniqueness: what verifies is the from-scratch witness *)
Lemma verifies_is_from_scratch C y V : y + alpha <> 0 -> C * (y + alpha) = V -> C = mem_new K alpha y V.
Proof. intros Hy H. unfold mem_new. rewrite <- H. field. exact Hy. Qed.
Lemma from_scratch_verifies y V : y + alpha <> 0 -> mem_new K alpha y V * (y + alpha) = V.
Proof. intros Hy. unfold mem_new. field. exact Hy. Qed.

(** deleted element: the batch procedure returns the witness unchanged *)
Lemma batch_update_deleted C y adds dels omega : In y dels -> batch_update K C y adds dels omega = C.
Proof.
  intros H. unfold batch_update, evaluate_delta. rewrite dad_eq, (dY_zero dels y H).
  destruct (feqb K 0 0) eqn:E; [reflexivity|]. apply feqb_false in E. congruence.
Qed.

(** ---- multi-batch update = sequence of batch updates ------------------------------------- *)
Definition aa_of (y : K) (b : batch K) : K := dad K (fst (fst b)) y.
Definition dd_of (y : K) (b : batch K) : K := dad K (snd (fst b)) y.
Definition w_of (y : K) (b : batch K) : K := peval K (snd b) y.
Definition honest_len (b : batch K) : Prop := snd b = [] -> fst (fst b) = [] /\ snd (fst b) = [].

Fixpoint Tm (y : K) (l : list (batch K)) : K :=
  match l with
  | [] => 0
  | b :: t => w_of y b * fprod K (map (aa_of y) t) + dd_of y b * Tm y t
  end.

Definition step_b (y : K) (c : K) (b : batch K) : K := batch_update K c y (fst (fst b)) (snd (fst b)) (snd b).

Lemma dad_nil y : dad K [] y = 1.
Proof. reflexivity. Qed.

Lemma step_b_formula y c b : dd_of y b <> 0 -> honest_len b ->
  step_b y c b = c * aa_of y b / dd_of y b + w_of y b / dd_of y b.
Proof.
  intros Hd Hh. destruct b as [[A D] O]. unfold step_b, batch_update, evaluate_delta, aa_of, dd_of, w_of, honest_len in *.
  cbn [fst snd] in *. destruct (feqb K (dad K D y) 0) eqn:E; [apply Keq in E; contradiction|].
  destruct O as [|o0 ot]; cbn [evaluate apply_delta].
  - destruct (Hh eq_refl) as [-> ->]. rewrite !dad_nil, peval_nil. field. apply (f1_nz K Kf).
  - field. exact Hd.
Qed.

Lemma seq_formula y l : forall c, (forall b, In b l -> dd_of y b <> 0) -> (forall b, In b l -> honest_len b) ->
  fold_left (step_b y) l c =
  c * fprod K (map (aa_of y) l) / fprod K (map (dd_of y) l) + Tm y l / fprod K (map (dd_of y) l).
Proof.
  induction l as [|b t IH]; intros c Hd Hh; cbn [fold_left map fprod fold_right Tm].
  - field. apply (f1_nz K Kf).
  - assert (Hdb : dd_of y b <> 0) by (apply Hd; left; reflexivity).
    assert (Hdt : fprod K (map (dd_of y) t) <> 0).
    { apply (fprod_nz K Kf). intros x Hx. apply in_map_iff in Hx. destruct Hx as [b' [<- Hb']]. apply Hd. right; exact Hb'. }
    rewrite IH; [|intros b' Hb'; apply Hd; right; exact Hb'|intros b' Hb'; apply Hh; right; exact Hb'].
    rewrite (step_b_formula y c b Hdb) by (apply Hh; left; reflexivity).
    fold (fprod K (map (aa_of y) t)). fold (fprod K (map (dd_of y) t)). field. split; assumption.
Qed.

Lemma padd_nil_inv (p q : list K) : padd K p q = [] -> p = [] /\ q = [].
Proof. destruct p as [|a p']; cbn; [auto|]. destruct q; cbn; congruence. Qed.
Lemma fold_padd_nil_inv {A} (f : A -> list K) (l : list A) init :
  fold_left (fun acc s => padd K acc (f s)) l init = [] -> init = [] /\ forall s, In s l -> f s = [].
Proof.
  revert init. induction l as [|s t IH]; intros init H; cbn [fold_left] in H.
  - split; [exact H|intros s []].
  - apply IH in H. destruct H as [H1 H2]. apply padd_nil_inv in H1. destruct H1 as [H1 H3].
    split; [exact H1|]. intros s' [<-|Hs']; [exact H3|apply H2; exact Hs'].
Qed.

(** the indexed sum of evaluate_deltas is Tm *)
Definition idx_term (y : K) (deltas : list (batch K)) (i : nat) : list K :=
  let aa := map (fun b => dad K (fst (fst b)) y) deltas in
  let dd := map (fun b => dad K (snd (fst b)) y) deltas in
  pscale K (fprod_l K (skipn (S i) aa) * fprod_l K (firstn i dd)) (snd (nth i deltas ([], [], []))).

Lemma idx_sum_Tm y l :
  fsum K (map (fun i => peval K (idx_term y l i) y) (seq 0 (length l))) = Tm y l.
Proof.
  induction l as [|b t IH]; [reflexivity|].
  cbn [length]. rewrite fsum_seq_S. cbn [Tm]. f_equal.
  - unfold idx_term. cbn [map skipn firstn nth]. rewrite peval_pscale, !fprod_l_eq.
    unfold w_of, aa_of, batch. cbn [fprod fold_right]. ring.
  - rewrite <- IH, <- fsum_scale. apply fsum_ext. intros i _. unfold idx_term.
    cbn [map skipn firstn nth]. rewrite !peval_pscale, !fprod_l_eq. cbn [fprod fold_right].
    unfold dd_of, batch, fprod. ring.
Qed.

Theorem multi_eq_sequential C y deltas :
  (forall b, In b deltas -> dd_of y b <> 0) -> (forall b, In b deltas -> honest_len b) ->
  multi_batch_update K C y deltas = fold_left (step_b y) deltas C.
Proof.
  intros Hd Hh. rewrite (seq_formula y deltas C Hd Hh).
  unfold multi_batch_update, evaluate_deltas.
  set (aa := map (fun b => dad K (fst (fst b)) y) deltas).
  set (dd := map (fun b => dad K (snd (fst b)) y) deltas).
  change aa with (map (aa_of y) deltas). change dd with (map (dd_of y) deltas).
  rewrite !fprod_l_eq.
  assert (Hdd : fprod K (map (dd_of y) deltas) <> 0).
  { apply (fprod_nz K Kf). intros x Hx. apply in_map_iff in Hx. destruct Hx as [b' [<- Hb']]. apply Hd; exact Hb'. }
  destruct (feqb K (fprod K (map (dd_of y) deltas)) 0) eqn:E; [apply Keq in E; contradiction|].
  match goal with |- context [evaluate K ?p y] => set (poly := p) end.
  assert (Ep : peval K poly y = Tm y deltas).
  { unfold poly. rewrite <- idx_sum_Tm.
    etransitivity; [apply (peval_fold_padd (idx_term y deltas))|]. rewrite peval_nil. ring. }
  destruct poly as [|p0 pt] eqn:Epoly; cbn [evaluate apply_delta].
  - (* all coefficient vectors empty: nothing to do on either side *)
    assert (Hall : forall b, In b deltas -> aa_of y b = 1 /\ dd_of y b = 1 /\ w_of y b = 0).
    { intros b Hb. unfold poly in Epoly.
      match type of Epoly with fold_left ?g _ _ = [] =>
        change g with (fun acc i => padd K acc (idx_term y deltas i)) in Epoly end.
      apply fold_padd_nil_inv in Epoly. destruct Epoly as [_ Hn].
      destruct (In_nth deltas b ([], [], []) Hb) as [i [Hi Hnth]].
      specialize (Hn i). rewrite in_seq in Hn. specialize (Hn ltac:(lia)).
      unfold idx_term in Hn. rewrite Hnth in Hn. unfold pscale in Hn. apply map_eq_nil in Hn.
      destruct (Hh b Hb Hn) as [HA HD]. unfold aa_of, dd_of, w_of. rewrite HA, HD, Hn.
      repeat split; reflexivity. }
    assert (Ha1 : fprod K (map (aa_of y) deltas) = 1 /\ fprod K (map (dd_of y) deltas) = 1 /\ Tm y deltas = 0).
    { clear -Hall Kf. induction deltas as [|b t IH]; cbn [map fprod fold_right Tm]; [repeat split; reflexivity|].
      destruct (Hall b (or_introl eq_refl)) as [A1 [D1 W1]].
      destruct IH as [I1 [I2 I3]]; [intros b' Hb'; apply Hall; right; exact Hb'|].
      fold (fprod K (map (aa_of y) t)). fold (fprod K (map (dd_of y) t)). rewrite A1, D1, W1, I1, I2, I3.
      repeat split; ring. }
    destruct Ha1 as [A1 [D1 T1]]. rewrite A1, D1, T1. field. apply (f1_nz K Kf).
  - rewrite Ep. unfold fdiv. ring.
Qed.

(** ---- whole histories: the manager publishes batch after batch ---------------------------- *)
Fixpoint publish (V : K) (hist : list (list K * list K)) : K * list (batch K) :=
  match hist with
  | [] => (V, [])
  | (A, D) :: t =>
      let '(V1, omega) := acc_update K alpha V A D in
      let '(Vn, bs) := publish V1 t in (Vn, (A, D, omega) :: bs)
  end.

Definition hist_ok (y : K) (hist : list (list K * list K)) : Prop :=
  forall A D, In (A, D) hist -> (forall v, In v D -> v + alpha <> 0) /\ dY D y <> 0.

Lemma published_honest V hist : forall b, In b (snd (publish V hist)) -> honest_len b.
Proof.
  revert V. induction hist as [|[A D] t IH]; intros V b Hb; cbn [publish] in Hb.
  - destruct Hb.
  - destruct (acc_update K alpha V A D) as [V1 omega] eqn:E. destruct (publish V1 t) as [Vn bs] eqn:E2.
    cbn [snd] in Hb. destruct Hb as [<-|Hb].
    + unfold honest_len. cbn [fst snd]. intros Ho.
      assert (Eo : omega = snd (acc_update K alpha V A D)) by (rewrite E; reflexivity).
      unfold acc_update in Eo. cbn [snd] in Eo. rewrite Ho in Eo. symmetry in Eo. apply map_eq_nil in Eo.
      destruct A as [|a0 A']; [destruct D as [|d0 D']; [split; reflexivity|]|].
      * exfalso. apply (create_coefficients_nonempty [] (d0 :: D')); [right; congruence|exact Eo].
      * exfalso. apply (create_coefficients_nonempty (a0 :: A') D); [left; congruence|exact Eo].
    + apply (IH V1 b). rewrite E2. exact Hb.
Qed.

Lemma published_dd V y hist : hist_ok y hist -> forall b, In b (snd (publish V hist)) -> dd_of y b <> 0.
Proof.
  revert V. induction hist as [|[A D] t IH]; intros V Hok b Hb; cbn [publish] in Hb.
  - destruct Hb.
  - destruct (acc_update K alpha V A D) as [V1 omega] eqn:E. destruct (publish V1 t) as [Vn bs] eqn:E2.
    cbn [snd] in Hb. destruct Hb as [<-|Hb].
    + unfold dd_of. cbn [fst snd]. rewrite dad_eq. apply (Hok A D). left; reflexivity.
    + apply (IH V1); [|rewrite E2; exact Hb]. intros A' D' H'. apply (Hok A' D'). right; exact H'.
Qed.

Theorem sequential_correct y hist : forall V C, hist_ok y hist -> C * (y + alpha) = V ->
  fold_left (step_b y) (snd (publish V hist)) C * (y + alpha) = fst (publish V hist).
Proof.
  induction hist as [|[A D] t IH]; intros V C Hok HC; cbn [publish].
  - exact HC.
  - destruct (Hok A D (or_introl eq_refl)) as [HD Hd].
    pose proof (batch_update_correct C y V A D HC HD Hd) as B.
    destruct (acc_update K alpha V A D) as [V1 omega] eqn:E. destruct (publish V1 t) as [Vn bs] eqn:E2.
    cbn [fst snd fold_left]. unfold step_b at 2. cbn [fst snd].
    specialize (IH V1 (batch_update K C y A D omega)). rewrite E2 in IH. cbn [fst snd] in IH.
    apply IH; [|exact B]. intros A' D' H'. apply (Hok A' D'). right; exact H'.
Qed.

(** multi-batch over the whole published history verifies against the final value *)
Theorem multi_batch_correct y hist V C : hist_ok y hist -> C * (y + alpha) = V ->
  multi_batch_update K C y (snd (publish V hist)) * (y + alpha) = fst (publish V hist).
Proof.
  intros Hok HC. rewrite multi_eq_sequential.
  - apply sequential_correct; assumption.
  - apply published_dd. exact Hok.
  - apply published_honest.
Qed.

(** every grouping of the published batches into consecutive multi-batch calls gives the same
    witness as one batch update per epoch *)
Theorem multi_grouping y (groups : list (list (batch K))) C :
  (forall g b, In g groups -> In b g -> dd_of y b <> 0 /\ honest_len b) ->
  fold_left (fun c g => multi_batch_update K c y g) groups C = fold_left (step_b y) (concat groups) C.
Proof.
  revert C. induction groups as [|g t IH]; intros C H; cbn [fold_left concat]; [reflexivity|].
  rewrite fold_left_app, multi_eq_sequential.
  - apply IH. intros g' b Hg Hb. apply (H g' b); [right; exact Hg|exact Hb].
  - intros b Hb. apply (H g b); [left; reflexivity|exact Hb].
  - intros b Hb. apply (H g b); [left; reflexivity|exact Hb].
Qed.

(** deleted element: multi-batch returns the witness unchanged as well *)
Lemma multi_batch_deleted C y deltas : (exists b, In b deltas /\ In y (snd (fst b))) ->
  multi_batch_update K C y deltas = C.
Proof.
  intros [b [Hb Hy]]. unfold multi_batch_update, evaluate_deltas. rewrite !fprod_l_eq.
  assert (Z : fprod K (map (fun b0 => dad K (snd (fst b0)) y) deltas) = 0).
  { clear -Hb Hy Kf. induction deltas as [|b' t IH]; [destruct Hb|]. cbn [map fprod fold_right].
    destruct Hb as [->|Hb].
    - rewrite dad_eq, (dY_zero _ y Hy). ring.
    - fold (fprod K (map (fun b0 => dad K (snd (fst b0)) y) t)). rewrite (IH Hb). ring. }
  rewrite Z. destruct (feqb K 0 0) eqn:E; [reflexivity|]. apply feqb_false in E. congruence.
Qed.

(** an unchanged witness does not verify against a changed accumulator *)
Lemma stale_witness_fails C y V V' : C * (y + alpha) = V -> V' <> V -> C * (y + alpha) <> V'.
Proof. intros H Hne E. apply Hne. rewrite <- E, H. reflexivity. Qed.

(** ---- single-step update ------------------------------------------------------------------- *)
Theorem single_add_correct C y V a : C * (y + alpha) = V ->
  single_update K C y V (Vnext V [a] []) [a] [] * (y + alpha) = Vnext V [a] [].
Proof.
  intros H. unfold single_update, upd_dels, upd_adds, Vnext, PA. cbn [fold_left map fprod fold_right].
  transitivity ((a - y) * (C * (y + alpha)) + V * (y + alpha)); [ring|]. rewrite H. field. apply (f1_nz K Kf).
Qed.

Theorem single_del_correct C y V d : C * (y + alpha) = V -> d + alpha <> 0 -> d - y <> 0 ->
  single_update K C y V (Vnext V [] [d]) [] [d] * (y + alpha) = Vnext V [] [d].
Proof.
  intros H Hd Hdy. unfold single_update, upd_dels, upd_adds, Vnext, PA. cbn [fold_left map fprod fold_right].
  destruct (feqb K (d - y) 0) eqn:E; [apply Keq in E; contradiction|]. cbn [fold_left].
  transitivity ((C * (y + alpha) - V * 1 / ((d + alpha) * 1) * (y + alpha)) * finv K (d - y)); [ring|].
  rewrite H. field. repeat split; assumption.
Qed.

(** the same for a non-membership witness (C, d) with C*(y+alpha) + d = V: one addition, one deletion *)
Theorem single_add_correct_nm w y V a : fst w * (y + alpha) + snd w = V ->
  let w' := single_update_nm K w y V (Vnext V [a] []) [a] [] in
  fst w' * (y + alpha) + snd w' = Vnext V [a] [] /\ snd w' = snd w * (a - y).
Proof.
  intros H. unfold single_update_nm, upd_dels_nm, upd_adds_nm, Vnext, PA. cbn [fold_left map fprod fold_right fst snd].
  split; [|reflexivity].
  transitivity ((a - y) * (fst w * (y + alpha) + snd w) + V * (y + alpha)); [ring|]. rewrite H. field. apply (f1_nz K Kf).
Qed.

Theorem single_del_correct_nm w y V d : fst w * (y + alpha) + snd w = V -> d + alpha <> 0 -> d - y <> 0 ->
  let w' := single_update_nm K w y V (Vnext V [] [d]) [] [d] in
  fst w' * (y + alpha) + snd w' = Vnext V [] [d] /\ snd w' = snd w * finv K (d - y).
Proof.
  intros H Hd Hdy. unfold single_update_nm, upd_dels_nm, upd_adds_nm, Vnext, PA. cbn [fold_left map fprod fold_right].
  destruct (feqb K (d - y) 0) eqn:E; [apply Keq in E; contradiction|]. cbn [fold_left fst snd].
  split; [|reflexivity].
  transitivity (((fst w * (y + alpha) + snd w) - V * 1 / ((d + alpha) * 1) * (y + alpha)) * finv K (d - y)); [ring|].
  rewrite H. field. repeat split; assumption.
Qed.

Theorem single_del_self C y V : single_update K C y V (Vnext V [] [y]) [] [y] = C.
Proof.
  unfold single_update, upd_dels. assert (E : y - y = 0) by ring. rewrite E.
  destruct (feqb K 0 0) eqn:E0; [reflexivity|]. apply feqb_false in E0. congruence.
Qed.

(** the pinned single-step procedure is wrong for two additions: every step adds the OLD value *)
Theorem single_two_additions_refuted C y V a1 a2 : C * (y + alpha) = V ->
  V <> 0 -> y + alpha <> 0 -> a1 + alpha <> 1 ->
  single_update K C y V (Vnext V [a1; a2] []) [a1; a2] [] * (y + alpha) <> Vnext V [a1; a2] [].
Proof.
  intros H HV Hy Ha E. unfold single_update, upd_dels, upd_adds, Vnext, PA in E. cbn [fold_left map fprod fold_right] in E.
  assert (E2 : V * (y + alpha) * (a1 + alpha - 1) = 0).
  { transitivity (V * ((a1 + alpha) * ((a2 + alpha) * 1)) / 1
                  - ((C * (a1 - y) + V) * (a2 - y) + V) * (y + alpha)
                  + ((a1 - y) * (a2 - y) * (C * (y + alpha) - V))).
    - field. apply (f1_nz K Kf).
    - rewrite E, H. ring. }
  apply Ha. apply (fsub_zero K Kf). apply (fmul_zero_r K Kf (V * (y + alpha))); [|exact E2].
  apply (fmul_nz K Kf); assumption.
Qed.

(** ---- non-membership witnesses ------------------------------------------------------------ *)
Lemma delta_core y V adds dels :
  (forall v, In v dels -> v + alpha <> 0) -> dY dels y <> 0 ->
  let '(V', omega) := acc_update K alpha V adds dels in
  match evaluate_delta K y adds dels omega with
  | DOk _ d p => V * d + p * (y + alpha) = V'
  | _ => V = V'
  end.
Proof.
  intros Hdel Hd. destruct (acc_update K alpha V adds dels) as [V' omega] eqn:E.
  assert (EV : V' = Vnext V adds dels) by (rewrite <- acc_update_value, E; reflexivity).
  assert (Eo : omega = snd (acc_update K alpha V adds dels)) by (rewrite E; reflexivity).
  destruct adds as [|a0 at_]; [destruct dels as [|d0 dt]|].
  - subst omega V'. unfold evaluate_delta, acc_update, create_coefficients, Vnext, PA.
    cbn. destruct (feqb K 1 0) eqn:E1; cbn; field; apply (f1_nz K Kf).
  - subst omega. rewrite (evaluate_delta_ok y [] (d0 :: dt) V Hd) by (right; congruence).
    rewrite EV. unfold Vnext.
    pose proof (coefficients_identity [] (d0 :: dt) y Hdel) as ID. pose proof (PA_nz (d0 :: dt) Hdel) as Hp.
    transitivity (V * (dY [] y / dY (d0 :: dt) y)
                  + V * ((y + alpha) * peval K (create_coefficients K alpha [] (d0 :: dt)) y) / dY (d0 :: dt) y).
    { field. exact Hd. }
    rewrite ID. field. split; assumption.
  - subst omega. rewrite (evaluate_delta_ok y (a0 :: at_) dels V Hd) by (left; congruence).
    rewrite EV. unfold Vnext.
    pose proof (coefficients_identity (a0 :: at_) dels y Hdel) as ID. pose proof (PA_nz dels Hdel) as Hp.
    transitivity (V * (dY (a0 :: at_) y / dY dels y)
                  + V * ((y + alpha) * peval K (create_coefficients K alpha (a0 :: at_) dels) y) / dY dels y).
    { field. exact Hd. }
    rewrite ID. field. split; assumption.
Qed.

Theorem nonmem_new_verifies y els w : y + alpha <> 0 -> nonmem_new K alpha y els = Some w ->
  fst w * (y + alpha) + snd w = acc_with_elements K alpha els /\ snd w = dY els y.
Proof.
  intros Hy H. unfold nonmem_new in H. destruct (existsb (feqb K y) els); [discriminate|].
  injection H as <-. cbn [fst snd]. unfold acc_with_elements. rewrite batch_additions_eq, !fold_mul.
  unfold PA, dY. split; [field; exact Hy|ring].
Qed.

Theorem nonmem_batch_update_correct w y V adds dels :
  fst w * (y + alpha) + snd w = V -> (forall v, In v dels -> v + alpha <> 0) -> dY dels y <> 0 ->
  let '(V', omega) := acc_update K alpha V adds dels in
  let w' := batch_update_nm K w y adds dels omega in
  fst w' * (y + alpha) + snd w' = V' /\
  (adds <> [] \/ dels <> [] -> snd w' = snd w * dY adds y / dY dels y).
Proof.
  intros Hw Hdel Hd. pose proof (delta_core y V adds dels Hdel Hd) as DC.
  destruct (acc_update K alpha V adds dels) as [V' omega] eqn:E. unfold batch_update_nm.
  split.
  - destruct (evaluate_delta K y adds dels omega) as [d p| |]; cbn [apply_delta_nm fst snd].
    + rewrite <- DC, <- Hw. ring.
    + rewrite <- DC. exact Hw.
    + rewrite <- DC. exact Hw.
  - intros Hne. assert (Eo : omega = snd (acc_update K alpha V adds dels)) by (rewrite E; reflexivity).
    rewrite Eo, (evaluate_delta_ok y adds dels V Hd Hne). cbn [apply_delta_nm snd]. unfold fdiv. ring.
Qed.
End AccP.
