(** Totality of the claim parsers (C20): no input makes them unwind. *)
From Coq Require Import ZArith Lia Bool List.
From ACV Require Import Model.Res Model.Ints Model.Bytes Model.ClaimCodec Proofs.BytesP Proofs.ClaimCodecP.
Import ListNotations.
Open Scope Z_scope.

Lemma of_option_np {A} (o : option A) : of_option o <> Panic.
Proof. destruct o; discriminate. Qed.

Lemma rmap_np {A B} (f : A -> B) (x : res A) : x <> Panic -> rmap f x <> Panic.
Proof. destruct x; cbn [rmap]; congruence. Qed.

(** hex::decode of a list of hex digits of even length succeeds *)
Lemma hex_decode_all_hex : forall n l, length l = (2 * n)%nat ->
  forallb is_hexb l = true -> exists b, hex_decode l = Some b.
Proof.
  induction n as [|n IH]; intros l Hl Hh.
  - destruct l; [exists []; reflexivity|discriminate].
  - destruct l as [|a [|b t]]; try (cbn [length] in Hl; lia).
    cbn [forallb] in Hh. apply andb_true_iff in Hh. destruct Hh as [Ha Hh].
    apply andb_true_iff in Hh. destruct Hh as [Hb Ht].
    destruct (IH t) as [r Hr]; [cbn [length] in Hl; lia|exact Ht|].
    unfold is_hexb in Ha, Hb. cbn [hex_decode].
    destruct (hex_val a); [|discriminate]. destruct (hex_val b); [|discriminate].
    rewrite Hr. eauto.
Qed.

Lemma slice_from_np n data : 0 <= n <= len data -> slice_from n data <> Panic.
Proof.
  intros H. unfold slice_from.
  replace ((0 <=? n) && (n <=? len data)) with true; [discriminate|].
  symmetry. apply andb_true_iff. split; apply Z.leb_le; lia.
Qed.

(** the unpackers: the length byte is read from a 32-byte array and checked against 32 *)
Lemma unpack_np s : unpack 0 s <> Panic.
Proof.
  unfold unpack. pose proof (to_be_length 32 s) as HL.
  destruct (to_be 32 s) as [|b t] eqn:E; [discriminate HL|].
  cbn [nth_error]. destruct (32 <? b) eqn:Hb; [discriminate|].
  apply Z.ltb_ge in Hb. unfold slice_from, len. rewrite HL.
  destruct ((0 <=? 32 - b) && (32 - b <=? Z.of_nat 32)) eqn:G; [discriminate|].
  (* the guard can only fail for a negative length byte, which a byte never is *)
  exfalso. assert (Hbyte : is_byte b).
  { pose proof (to_be_all_bytes 32 s) as Hall. rewrite E in Hall. inversion Hall; assumption. }
  unfold is_byte in Hbyte. apply andb_false_iff in G. destruct G as [G|G]; apply Z.leb_gt in G; lia.
Qed.

Section Total.
  Variable is_utf8 : bytes -> bool.

  Theorem decode_to_bytes_np s : decode_to_bytes s <> Panic.
  Proof. apply unpack_np. Qed.

  Theorem decode_to_str_np s : decode_to_str is_utf8 s <> Panic.
  Proof.
    unfold decode_to_str. pose proof (unpack_np s) as H.
    destruct (unpack 0 s) as [b| |]; cbn [rbind]; [destruct (is_utf8 b); discriminate|discriminate|congruence].
  Qed.

  Theorem from_bytes_np t data : from_bytes is_utf8 t data <> Panic.
  Proof.
    destruct t; cbn [from_bytes]; try discriminate.
    - destruct (length data) as [|[|[|[|[|[|[|[|[|n]]]]]]]]]; discriminate.
    - destruct (negb (Nat.eqb (length data) 32)); [discriminate|].
      destruct (scalar_of_be data); discriminate.
    - destruct (negb (Nat.eqb (length data) 16)); [discriminate|]. destruct (is_utf8 data); discriminate.
  Qed.

  Lemma scalar_from_be_hex_guarded rest :
    negb (len rest =? 64) || negb (forallb is_hexb rest) = false ->
    scalar_from_be_hex rest <> Panic.
  Proof.
    intros G. apply orb_false_iff in G. destruct G as [G1 G2].
    apply negb_false_iff in G1, G2. apply Z.eqb_eq in G1. unfold len in G1.
    assert (HL : length rest = 64%nat) by lia.
    unfold scalar_from_be_hex, len. rewrite HL. cbn [Z.of_nat Z.ltb Z.compare Pos.compare Pos.compare_cont].
    rewrite <- HL, firstn_all.
    destruct (hex_decode_all_hex 32 rest) as [b Hb]; [exact HL|exact G2|].
    rewrite Hb. apply of_option_np.
  Qed.

  Theorem from_text_np s : from_text is_utf8 s <> Panic.
  Proof.
    unfold from_text. destruct ((len s <? 4) || negb (char_boundary_at4 s)); [discriminate|].
    destruct (list_eqb (firstn 4 s) pfx_hex); [destruct (hex_decode (skipn 4 s)); discriminate|].
    destruct (list_eqb (firstn 4 s) pfx_ut8); [discriminate|].
    destruct (list_eqb (firstn 4 s) pfx_num); [destruct (parse_isize (skipn 4 s)); discriminate|].
    destruct (list_eqb (firstn 4 s) pfx_scl).
    { destruct (negb (len (skipn 4 s) =? 64) || negb (forallb is_hexb (skipn 4 s))) eqn:G; [discriminate|].
      apply rmap_np. apply scalar_from_be_hex_guarded. exact G. }
    destruct (list_eqb (firstn 4 s) pfx_rev); [discriminate|].
    destruct (list_eqb (firstn 4 s) pfx_enm); [|discriminate].
    destruct (hex_decode (skipn 4 s)); [apply of_option_np|discriminate].
  Qed.

  (** the guard in front of the library call is needed: without it short or non-hex input unwinds *)
  Example from_be_hex_unguarded_short : scalar_from_be_hex [97; 98] = Panic.
  Proof. reflexivity. Qed.
  Example from_be_hex_unguarded_nonhex : scalar_from_be_hex (repeat 122 64) = Panic.
  Proof. vm_compute. reflexivity. Qed.
  Example slice_unguarded : slice_from 40 (repeat 0 32) = Panic.
  Proof. reflexivity. Qed.
End Total.
