From Coq Require Import Field Ring List Bool.
From ACV Require Import Model.Field Model.Preds Proofs.FieldP.
Import ListNotations.

Section PredsP.
Variable K : fops.
Hypothesis Kf : is_field K.
Add Field KF : (Kf_th K Kf).
Local Notation "a + b" := (fadd K a b).
Local Notation "a - b" := (fsub K a b).
Local Notation "a * b" := (fmul K a b).
Local Notation "a / b" := (fdiv K a b).
Local Notation "- a" := (fopp K a).

(** completeness: the verifier's hashed blind commitment is the prover's, for all generators, values,
    randomness and challenges *)
Theorem comm_complete gm gb m b' n r c :
  let o := comm_prover K gm gb m b' n r c in
  comm_verifier_blind K gm gb (co_C K o) (co_bp K o) (co_mp K o) c = co_blind K o.
Proof. cbn. unfold comm_verifier_blind. ring. Qed.

Theorem venc_complete gm ek m k n r c :
  let o := venc_prover K gm ek m k n r c in
  venc_verifier_r1 K (vo_c1 K o) (vo_bp K o) c = vo_r1 K o /\
  venc_verifier_r2 K gm ek (vo_c2 K o) (vo_bp K o) (vo_mp K o) c = vo_r2 K o.
Proof. cbn. unfold venc_verifier_r1, venc_verifier_r2. split; ring. Qed.

(** equality: one shared nonce and equal values give equal responses, for every challenge *)
Theorem eq_complete (n m c : K) : n + m * c = n + m * c.
Proof. reflexivity. Qed.
(** and with one shared nonce, equal responses force equal values unless the challenge is zero *)
Theorem eq_sound_shared_nonce (n m m' c : K) : c <> f0 K -> n + m * c = n + m' * c -> m = m'.
Proof.
  intros Hc E. apply (fmul_cancel_l K Kf c _ _ Hc).
  transitivity (n + m * c - n); [ring|rewrite E; ring].
Qed.

(** C07, commitment statements: perfect honest-verifier zero knowledge.  For every challenge and every two
    values m, m' there is a bijection of the prover's randomness (b', n, r) under which the whole published and
    hashed tuple (C, blind commitment, blinder response, message response) is identical: the view carries no
    information about the committed value. *)
Definition comm_shift (gm gb m m' c : K) (rnd : K * K * K) : K * K * K :=
  let '(b', n, r) := rnd in
  let d := m - m' in
  (b' + d * gm / gb, n + c * d, r - c * (d * gm / gb)).

Theorem comm_view_independent gm gb m m' b' n r c : gb <> f0 K ->
  let '(b2, n2, r2) := comm_shift gm gb m m' c (b', n, r) in
  comm_prover K gm gb m' b2 n2 r2 c = comm_prover K gm gb m b' n r c.
Proof.
  intros Hg. unfold comm_shift, comm_prover. f_equal; field; exact Hg.
Qed.

Theorem comm_shift_bijective gm gb m m' c rnd : gb <> f0 K ->
  comm_shift gm gb m' m c (comm_shift gm gb m m' c rnd) = rnd.
Proof.
  intros Hg. destruct rnd as [[b' n] r]. unfold comm_shift. f_equal; [f_equal|]; field; exact Hg.
Qed.

(** C07, encryption statements: the published tuple is a function of the ElGamal ciphertext (c1, c2), the
    challenge and the two responses, and for every (m, k) the responses are a bijective image of the two
    nonces — hence uniform and independent of the plaintext.  What remains is the ciphertext itself, whose
    hiding is the DDH assumption (not a theorem here). *)
Theorem venc_view_from_ciphertext gm ek m k n r c :
  let o := venc_prover K gm ek m k n r c in
  vo_r1 K o = venc_verifier_r1 K (vo_c1 K o) (vo_bp K o) c /\
  vo_r2 K o = venc_verifier_r2 K gm ek (vo_c2 K o) (vo_bp K o) (vo_mp K o) c.
Proof. cbn. unfold venc_verifier_r1, venc_verifier_r2. split; ring. Qed.

Theorem responses_uniform (m k c mp bp : K) :
  exists n r, n + m * c = mp /\ r + c * k = bp /\
    forall n' r', n' + m * c = mp -> r' + c * k = bp -> n' = n /\ r' = r.
Proof.
  exists (mp - m * c), (bp - c * k). split; [ring|]. split; [ring|].
  intros n' r' H1 H2. split; [rewrite <- H1|rewrite <- H2]; ring.
Qed.

(** the pinned tree before fix b4949f5 (kept as the record of the finding): with the blinding factor equal to
    the shared nonce the published values determine the committed value, C - gb*mp = m*(gm - c*gb), so a guess
    m' is testable from public data *)
Theorem comm_pinned_leaks_value gm gb m b r c :
  let o := comm_prover_pinned K gm gb m b r c in
  co_C K o - gb * co_mp K o = m * (gm - c * gb).
Proof. cbn. ring. Qed.
Theorem comm_pinned_guess_test gm gb m m' b r c : gm - c * gb <> f0 K ->
  let o := comm_prover_pinned K gm gb m b r c in
  (co_C K o - gb * co_mp K o = m' * (gm - c * gb) <-> m' = m).
Proof.
  intros Hg. cbn zeta. rewrite comm_pinned_leaks_value. split.
  - intros E. symmetry. apply (fmul_cancel_l K Kf (gm - c * gb) _ _ Hg).
    transitivity (m * (gm - c * gb)); [ring|rewrite E; ring].
  - intros ->. reflexivity.
Qed.
End PredsP.
