From Coq Require Import Field Ring List Bool.
From ACV Require Import Model.Field Model.Preds Proofs.FieldP.
Import ListNotations.

Section PredsP.
Variable K : fops.
Hypothesis Kf : is_field K.
Add Field KF : (Kf_th K Kf).
Local Notation "a + b" := (fadd K a b).
Local Notation "a - b" := (fsub K a b).
Local Notation "a * b" := (fmul K a b).
Local Notation "a / b" := (fdiv K a b).
Local Notation "- a" := (fopp K a).

(** completeness: the verifier's hashed blind commitment is the prover's, for all generators, values,
    randomness and challenges *)
Theorem comm_complete gm gb m b r c :
  let o := comm_prover K gm gb m b r c in
  comm_verifier_blind K gm gb (co_C K o) (co_bp K o) (co_mp K o) c = co_blind K o.
Proof. cbn. unfold comm_verifier_blind. ring. Qed.

(** equality: one shared nonce and equal values give equal responses, for every challenge *)
Theorem eq_complete (n m c : K) : n + m * c = n + m * c.
Proof. reflexivity. Qed.
(** and with one shared nonce, equal responses force equal values unless the challenge is zero *)
Theorem eq_sound_shared_nonce (n m m' c : K) : c <> f0 K -> n + m * c = n + m' * c -> m = m'.
Proof.
  intros Hc E. apply (fmul_cancel_l K Kf c _ _ Hc).
  transitivity (n + m * c - n); [ring|rewrite E; ring].
Qed.

(** C07 on the pinned tree: the Pedersen blinding of a commitment statement IS the claim's Schnorr nonce,
    so the published values determine the committed value: C - gb*mp = m*(gm - c*gb).  Anyone can test a
    guess m' by comparing C - gb*mp with m'*(gm - c*gb) — a dictionary attack on low-entropy claims. *)
Theorem comm_leaks_value gm gb m b r c :
  let o := comm_prover K gm gb m b r c in
  co_C K o - gb * co_mp K o = m * (gm - c * gb).
Proof. cbn. ring. Qed.
Theorem comm_guess_test gm gb m m' b r c : gm - c * gb <> f0 K ->
  let o := comm_prover K gm gb m b r c in
  (co_C K o - gb * co_mp K o = m' * (gm - c * gb) <-> m' = m).
Proof.
  intros Hg. cbn zeta. rewrite comm_leaks_value. split.
  - intros E. symmetry. apply (fmul_cancel_l K Kf (gm - c * gb) _ _ Hg).
    transitivity (m * (gm - c * gb)); [ring|rewrite E; ring].
  - intros ->. reflexivity.
Qed.
End PredsP.
