(** The index -> response-slot walk of get_hidden_message_proofs agrees with the set semantics of
    PokSignatureProof::verify when the disclosed index list is strictly ascending:
    the k-th hidden index gets response off+k, and generator k of the hidden list is the generator of
    that same index. *)
From Coq Require Import List Bool Arith Lia.
From ACV Require Import Model.Field Model.Res Model.Pres.
Import ListNotations.

Section SlotP.
Variable K : fops.

Definition idxs (disc : list (nat * K)) : list nat := map fst disc.
Definition is_hidden (disc : list (nat * K)) (i : nat) : bool := negb (memn i (idxs disc)).
Definition hidden_idx (disc : list (nat * K)) (i fuel : nat) : list nat := filter (is_hidden disc) (seq i fuel).

Lemma memn_In x l : memn x l = true <-> In x l.
Proof.
  unfold memn. rewrite existsb_exists. split.
  - intros [y [Hy E]]. apply Nat.eqb_eq in E. subst. exact Hy.
  - intros H. exists x. split; [exact H|apply Nat.eqb_refl].
Qed.

(** strictly ascending lists: positions order the values *)
Lemma ascending_cons a l : ascending (a :: l) = true -> ascending l = true /\ forall x, In x l -> a < x.
Proof.
  revert a. induction l as [|b t IH]; intros a H; [split; [reflexivity|intros x []]|].
  cbn [ascending] in H. apply andb_true_iff in H. destruct H as [H1 H2]. apply Nat.ltb_lt in H1.
  split; [exact H2|]. intros x [<-|Hx]; [exact H1|]. destruct (IH b H2) as [_ Hb]. specialize (Hb x Hx). lia.
Qed.

Lemma ascending_nth l : ascending l = true -> forall k1 k2 a b, k1 < k2 ->
  nth_error l k1 = Some a -> nth_error l k2 = Some b -> a < b.
Proof.
  induction l as [|x t IH]; intros H k1 k2 a b Hk E1 E2; [destruct k1; discriminate|].
  destruct (ascending_cons x t H) as [Ht Hx]. destruct k1 as [|k1]; destruct k2 as [|k2]; try lia.
  - cbn in E1. injection E1 as <-. cbn in E2. apply Hx. apply nth_error_In with k2. exact E2.
  - cbn in E1, E2. apply (IH Ht k1 k2 a b); [lia|assumption|assumption].
Qed.

Lemma nth_error_idxs disc k : nth_error (idxs disc) k = option_map fst (nth_error disc k).
Proof. unfold idxs. apply nth_error_map. Qed.

(** cursor invariant: entries before j are below i, entries from j on are at least i *)
Definition cursor_ok (disc : list (nat * K)) (i j : nat) : Prop :=
  j <= i /\ (forall k a, k < j -> nth_error (idxs disc) k = Some a -> a < i) /\
  (forall k a, j <= k -> nth_error (idxs disc) k = Some a -> i <= a).

Lemma walk_combine disc off resp : ascending (idxs disc) = true ->
  forall fuel i j hid, cursor_ok disc i j ->
  hidden_walk K fuel i disc off j resp = Some hid ->
  hid = combine (hidden_idx disc i fuel) (skipn (off + (i - j)) resp) /\
  length (hidden_idx disc i fuel) <= length (skipn (off + (i - j)) resp).
Proof.
  intros Hasc. induction fuel as [|fuel IH]; intros i j hid [Hji [Hlo Hhi]] H.
  - cbn in H. injection H as <-. cbn. split; [reflexivity|lia].
  - cbn [hidden_walk] in H. unfold hidden_idx. cbn [seq filter]. fold (hidden_idx disc (S i) fuel).
    (* is i disclosed at the cursor? *)
    assert (Hcases : (exists v, nth_error disc j = Some (i, v)) \/
                     (is_hidden disc i = true /\
                      hidden_walk K (S fuel) i disc off j resp =
                      match nth_error resp (i + off - j) with
                      | Some m => option_map (cons (i, m)) (hidden_walk K fuel (S i) disc off j resp)
                      | None => None end)).
    { destruct (nth_error disc j) as [[idx v]|] eqn:E.
      - destruct (Nat.eqb_spec idx i) as [->|Hne]; [left; exists v; reflexivity|].
        right. split.
        + unfold is_hidden. apply negb_true_iff. destruct (memn i (idxs disc)) eqn:M; [|reflexivity].
          exfalso. apply memn_In in M. apply In_nth_error in M. destruct M as [k Hk].
          destruct (Nat.lt_ge_cases k j) as [Hlt|Hge].
          * specialize (Hlo k i Hlt Hk). lia.
          * assert (Ej : nth_error (idxs disc) j = Some idx) by (rewrite nth_error_idxs, E; reflexivity).
            specialize (Hhi j idx (le_n j) Ej).
            destruct (Nat.eq_dec k j) as [->|Hkj]; [rewrite Hk in Ej; injection Ej as <-; lia|].
            assert (idx < i) by (apply (ascending_nth _ Hasc j k idx i); [lia|assumption|assumption]). lia.
        + cbn [hidden_walk]. rewrite E. destruct (Nat.eqb_spec idx i); [contradiction|reflexivity].
      - right. split.
        + unfold is_hidden. apply negb_true_iff. destruct (memn i (idxs disc)) eqn:M; [|reflexivity].
          exfalso. apply memn_In in M. apply In_nth_error in M. destruct M as [k Hk].
          destruct (Nat.lt_ge_cases k j) as [Hlt|Hge].
          * specialize (Hlo k i Hlt Hk). lia.
          * assert (Hn : nth_error (idxs disc) k = None).
            { apply nth_error_None. unfold idxs. rewrite map_length. apply nth_error_None in E. lia. }
            congruence.
        + cbn [hidden_walk]. rewrite E. reflexivity. }
    destruct Hcases as [[v Ev]|[Hhid Hstep]].
    + (* i is the disclosed index at the cursor: skip, advance the cursor *)
      rewrite Ev, Nat.eqb_refl in H.
      assert (Hm : is_hidden disc i = false).
      { unfold is_hidden. apply negb_false_iff. apply memn_In. unfold idxs.
        apply in_map_iff. exists (i, v). split; [reflexivity|apply nth_error_In with j; exact Ev]. }
      rewrite Hm. replace (off + (i - j)) with (off + (S i - S j)) by lia.
      apply IH; [|exact H]. repeat split.
      * lia.
      * intros k a Hk Ea. destruct (Nat.eq_dec k j) as [->|Hne].
        -- rewrite nth_error_idxs, Ev in Ea. cbn in Ea. injection Ea as <-. lia.
        -- assert (a < i) by (apply (Hlo k a); [lia|exact Ea]). lia.
      * intros k a Hk Ea.
        assert (Ej : nth_error (idxs disc) j = Some i) by (rewrite nth_error_idxs, Ev; reflexivity).
        assert (i < a) by (apply (ascending_nth _ Hasc j k i a); [lia|assumption|assumption]). lia.
    + rewrite Hhid. cbn [hidden_walk] in Hstep.
      assert (H' : match nth_error resp (i + off - j) with
                   | Some m => option_map (cons (i, m)) (hidden_walk K fuel (S i) disc off j resp)
                   | None => None end = Some hid).
      { rewrite <- Hstep. exact H. }
      destruct (nth_error resp (i + off - j)) as [m|] eqn:Em; [|discriminate].
      destruct (hidden_walk K fuel (S i) disc off j resp) as [hid'|] eqn:Ew; [|discriminate].
      injection H' as <-.
      assert (Hc : cursor_ok disc (S i) j).
      { repeat split.
        - lia.
        - intros k a Hk Ea. specialize (Hlo k a Hk Ea). lia.
        - intros k a Hk Ea. specialize (Hhi k a Hk Ea).
          assert (a <> i).
          { intros ->. unfold is_hidden in Hhid. apply negb_true_iff in Hhid.
            assert (memn i (idxs disc) = true) by (apply memn_In; apply nth_error_In with k; exact Ea). congruence. }
          lia. }
      destruct (IH (S i) j hid' Hc Ew) as [E1 E2].
      replace (off + (S i - j)) with (S (off + (i - j))) in E1, E2 by lia.
      replace (i + off - j) with (off + (i - j)) in Em by lia.
      assert (Esk : skipn (off + (i - j)) resp = m :: skipn (S (off + (i - j))) resp).
      { clear -Em. revert resp Em. generalize (off + (i - j)) as q. induction q as [|q IHq]; intros resp Em.
        - destruct resp; [discriminate|]. cbn in Em. injection Em as ->. reflexivity.
        - destruct resp; [discriminate|]. cbn in Em. cbn [skipn]. apply IHq. exact Em. }
      rewrite Esk. cbn [combine length]. split; [rewrite E1; reflexivity|lia].
Qed.

(** the generator list the proof of knowledge multiplies with the responses, in the same terms *)
Lemma hidden_gens_from_eq (ys : list K) : forall i known,
  hidden_gens_from K i ys known =
  map snd (filter (fun p => negb (memn (fst p) known)) (combine (seq i (length ys)) ys)).
Proof.
  induction ys as [|y t IH]; intros i known; [reflexivity|].
  cbn [hidden_gens_from length seq combine filter fst]. destruct (memn i known); cbn [negb map snd]; rewrite IH; reflexivity.
Qed.

Lemma filter_combine_fst {A B} (f : A -> bool) (l : list A) : forall (l' : list B), length l = length l' ->
  map fst (filter (fun p => f (fst p)) (combine l l')) = filter f l.
Proof.
  induction l as [|a t IH]; intros [|b t'] H; try reflexivity; try discriminate.
  cbn [combine filter fst]. destruct (f a); cbn [map fst]; rewrite IH by (cbn in H; lia); reflexivity.
Qed.

(** signature proof with an ascending disclosed list: the map handed to the predicate verifiers pairs the
    k-th hidden index with response off+k ... *)
Theorem hidden_slot pk sp hid : ascending (idxs (sp_disclosed K sp)) = true ->
  hidden_message_proofs K pk sp = Some hid ->
  hid = combine (hidden_idx (sp_disclosed K sp) 0 (length (pk_y K pk)))
                (skipn (pok_off K (sp_pok K sp)) (pok_resp K (sp_pok K sp))) /\
  length (hidden_idx (sp_disclosed K sp) 0 (length (pk_y K pk)))
    <= length (skipn (pok_off K (sp_pok K sp)) (pok_resp K (sp_pok K sp))).
Proof.
  intros Hasc H. unfold hidden_message_proofs in H.
  destruct (Nat.ltb (length (pk_y K pk)) (length (sp_disclosed K sp))); [discriminate|].
  assert (C0 : cursor_ok (sp_disclosed K sp) 0 0).
  { repeat split; [lia|intros k a Hk; lia|intros k a _ _; lia]. }
  destruct (walk_combine _ _ _ Hasc _ 0 0 hid C0 H) as [E1 E2].
  replace (pok_off K (sp_pok K sp) + (0 - 0)) with (pok_off K (sp_pok K sp)) in E1, E2 by lia.
  split; assumption.
Qed.

(** ... and the proof of knowledge multiplies the k-th response (after the offset) with the generator of
    the k-th hidden index: both sides enumerate the same hidden indices in the same order *)
Theorem hidden_gens_aligned pk disc :
  hidden_gens K pk disc =
    map snd (filter (fun p => is_hidden disc (fst p)) (combine (seq 0 (length (pk_y K pk))) (pk_y K pk))) /\
  map fst (filter (fun p => is_hidden disc (fst p)) (combine (seq 0 (length (pk_y K pk))) (pk_y K pk)))
    = hidden_idx disc 0 (length (pk_y K pk)).
Proof.
  split.
  - unfold hidden_gens. apply hidden_gens_from_eq.
  - apply filter_combine_fst. apply seq_length.
Qed.
End SlotP.
