From Coq Require Import Field Ring List Bool Arith Lia.
From ACV Require Import Model.Field Model.Res Model.Pres Model.Preds Proofs.FieldP Proofs.SigsP Proofs.PresP.
Import ListNotations.

Section TamperP.
Variable K : fops.
Hypothesis Kf : is_field K.
Hypothesis Keq : feqb_ok K.
Add Field KF : (Kf_th K Kf).
Local Notation "a + b" := (fadd K a b).
Local Notation "a - b" := (fsub K a b).
Local Notation "a * b" := (fmul K a b).
Local Notation "0" := (f0 K).
Local Notation "- a" := (fopp K a).

(** one response changed, every other response and the challenge kept: the value of the (truncating)
    multi-scalar multiplication changes, provided the point paired with that response is not the identity *)
Theorem response_tamper (ppre psuf : list K) y (pre suf : list K) z z' c :
  length ppre = length pre -> y <> 0 -> z <> z' ->
  msm K (ppre ++ y :: psuf) ((pre ++ z :: suf) ++ [- c]) <> msm K (ppre ++ y :: psuf) ((pre ++ z' :: suf) ++ [- c]).
Proof.
  intros L Hy Hz. rewrite <- !app_assoc. cbn [app]. apply (msm_single_change K Kf); assumption.
Qed.

(** BBS: the supplied commitment t can match at most one of the two response vectors *)
Corollary bbs_response_tamper (ppre psuf : list K) y (pre suf : list K) z z' c t :
  length ppre = length pre -> y <> 0 -> z <> z' ->
  t = msm K (ppre ++ y :: psuf) ((pre ++ z :: suf) ++ [- c]) ->
  t <> msm K (ppre ++ y :: psuf) ((pre ++ z' :: suf) ++ [- c]).
Proof. intros L Hy Hz ->. apply response_tamper; assumption. Qed.

(** the proof-dependent transcript items determine the group elements of a proof of knowledge *)
Theorem pok_items_elements pk sid disc sid' disc' c c' a b t r a' b' t' r' :
  pok_items K pk (mkSp K sid disc (PokBBS K a b t r)) c = pok_items K pk (mkSp K sid' disc' (PokBBS K a' b' t' r')) c' ->
  a = a' /\ b = b' /\ t = t'.
Proof. cbn. intros H. injection H as -> -> ->. repeat split. Qed.
Theorem pok_items_elements_ps pk sid disc sid' disc' c c' s1 s2 j r s1' s2' j' r' :
  pok_items K pk (mkSp K sid disc (PokPS K s1 s2 j r)) c = pok_items K pk (mkSp K sid' disc' (PokPS K s1' s2' j' r')) c' ->
  s1 = s1' /\ s2 = s2' /\ j = j'.
Proof. cbn. intros H. injection H as -> -> -> _. repeat split. Qed.

(** commitment proof: a changed blinder response or a changed message response changes the hashed
    blind commitment; the commitment itself is hashed *)
Theorem comm_bp_tamper gm gb C bp bp' mp c : gb <> 0 -> bp <> bp' ->
  comm_verifier_blind K gm gb C bp mp c <> comm_verifier_blind K gm gb C bp' mp c.
Proof.
  intros Hg Hb E. unfold comm_verifier_blind in E. apply Hb. apply (fmul_cancel_l K Kf gb _ _ Hg).
  transitivity (C * - c + gm * mp + gb * bp - (C * - c + gm * mp)); [ring|rewrite E; ring].
Qed.
Theorem comm_mp_tamper gm gb C bp mp mp' c : gm <> 0 -> mp <> mp' ->
  comm_verifier_blind K gm gb C bp mp c <> comm_verifier_blind K gm gb C bp mp' c.
Proof.
  intros Hg Hb E. unfold comm_verifier_blind in E. apply Hb. apply (fmul_cancel_l K Kf gm _ _ Hg).
  transitivity (C * - c + gm * mp + gb * bp - (C * - c + gb * bp)); [ring|rewrite E; ring].
Qed.

(** presentation level: under the symbolic Fiat-Shamir reading, acceptance of a presentation relative to a
    reference presentation means identical proof-dependent items *)
Theorem accept_same_items S P0 P derived : verify_case K S P0 P derived = Accept ->
  derived = true /\ exists it, items K S P = Some it /\ items K S P0 = Some it.
Proof.
  intros H. unfold verify_case in H. destruct (accept_fs K S P _ H) as [it [E F]].
  unfold fs_symbolic in F. apply andb_true_iff in F. destruct F as [D F]. split; [exact D|].
  destruct (items K S P0) as [it0|]; [|discriminate]. rewrite E in *. apply (list_eqb_K K Keq) in F. subst it0.
  exists it. split; reflexivity.
Qed.

(** a challenge that was not derived from the transcript is rejected *)
Theorem underived_challenge_rejected S P0 P : verify_case K S P0 P false <> Accept.
Proof. intros H. destruct (accept_same_items S P0 P false H) as [D _]. discriminate. Qed.
End TamperP.
