(** No-panic of the presentation-creation skeleton (C20). *)
From Coq Require Import ZArith List Bool Arith Lia.
From ACV Require Import Model.Res Model.Skeleton Model.SkelCreate Proofs.SkeletonP.
Import ListNotations.
Local Open Scope nat_scope.

Lemma set_nth_length {A} n (a : A) l : length (set_nth n a l) = length l.
Proof. revert n. induction l as [|x t IH]; intros [|n]; cbn [set_nth length]; auto. Qed.

Lemma assoc_set_assoc {A} k k' (a : A) m :
  assoc k' (set_assoc k a m) = match assoc k' m with
                               | Some x => if Nat.eqb k k' then (if existsb (fun p => Nat.eqb (fst p) k) m then Some a else Some x) else Some x
                               | None => None end.
Proof.
  induction m as [|[k0 x0] t IH]; [reflexivity|]. cbn [set_assoc assoc existsb fst].
  destruct (Nat.eqb k k0) eqn:E0.
  - apply Nat.eqb_eq in E0. subst k0. cbn [assoc]. destruct (Nat.eqb k' k) eqn:E1.
    + apply Nat.eqb_eq in E1. subst. rewrite Nat.eqb_refl. cbn [orb]. reflexivity.
    + rewrite Nat.eqb_sym, E1. destruct (assoc k' t); reflexivity.
  - cbn [assoc]. destruct (Nat.eqb k' k0) eqn:E1.
    + apply Nat.eqb_eq in E1. subst. rewrite E0. reflexivity.
    + rewrite IH. rewrite (Nat.eqb_sym k0 k), E0. cbn [orb]. reflexivity.
Qed.

(** what matters: a replaced entry keeps being present, others are untouched *)
Lemma assoc_set_assoc_len {A} k k' (a : A) m x (len : A -> nat) :
  assoc k m = Some x -> len a = len x ->
  (exists y, assoc k' m = Some y) ->
  exists z, assoc k' (set_assoc k a m) = Some z /\ (forall y, assoc k' m = Some y -> len z = len y).
Proof.
  intros Hk Hl [y Hy]. rewrite assoc_set_assoc, Hy.
  destruct (Nat.eqb k k') eqn:E.
  - apply Nat.eqb_eq in E. subst k'. rewrite Hk in Hy. injection Hy as <-.
    destruct (existsb _ m); eexists; (split; [reflexivity|]); intros y0 E0; injection E0 as <-; congruence.
  - eexists. split; [reflexivity|]. intros y0 E0. injection E0 as <-. reflexivity.
Qed.

Lemma assoc_set_assoc_none {A} k k' (a : A) m : assoc k' m = None -> assoc k' (set_assoc k a m) = None.
Proof. intros H. rewrite assoc_set_assoc, H. reflexivity. Qed.

Lemma assoc_in_fst {A} k (m : list (nat * A)) : In k (map fst m) -> exists a, assoc k m = Some a.
Proof.
  induction m as [|[k0 x] t IH]; [intros []|]. cbn [map fst In assoc]. intros [<-|H].
  - rewrite Nat.eqb_refl. eauto.
  - destruct (Nat.eqb k k0); [eauto|apply IH; exact H].
Qed.

Lemma assoc_nodup {A} k (a : A) m : NoDup (map fst m) -> In (k, a) m -> assoc k m = Some a.
Proof.
  induction m as [|[k0 x] t IH]; [intros _ []|]. cbn [map fst assoc]. intros Hn [E|H].
  - injection E as -> ->. rewrite Nat.eqb_refl. reflexivity.
  - inversion Hn as [|? ? Hk Ht]; subst. destruct (Nat.eqb k k0) eqn:E.
    + apply Nat.eqb_eq in E. subst. exfalso. apply Hk. apply in_map_iff. exists (k0, a). split; [reflexivity|exact H].
    + apply IH; assumption.
Qed.

Lemma shared0_notin k t : ~ In k (map fst t) -> assoc k (shared0 t) = None.
Proof.
  unfold shared0. induction t as [|[k0 c0] r IH]; [reflexivity|]. cbn [map fst In flat_map snd]. intros H.
  assert (Hk : Nat.eqb k k0 = false) by (apply Nat.eqb_neq; intros ->; apply H; left; reflexivity).
  destruct c0; cbn [app assoc]; [rewrite Hk|]; apply IH; intros X; apply H; right; exact X.
Qed.

Section CreateProofs.
  Variable creds : list (nat * cred).
  Variable S0 : list cstmt.
  (** datatype invariants of the IndexMaps involved: keys are unique *)
  Hypothesis creds_unique : NoDup (map fst creds).
  Hypothesis refs_unique : forall s, In s S0 -> NoDup (map fst (c_refs s)).

  (** shared marks mirror the signature credentials *)
  Definition SH (sh : list (nat * list bool)) : Prop :=
    forall k, match assoc k creds with
              | Some (CredSig l) => exists v, assoc k sh = Some v /\ length v = length l
              | _ => assoc k sh = None
              end.

  Lemma SH0 : SH (shared0 creds).
  Proof.
    unfold SH. intros k. clear refs_unique. induction creds as [|[k0 c0] t IH]; [reflexivity|].
    cbn [map fst] in creds_unique. inversion creds_unique as [|? ? Hk Ht]; subst.
    unfold shared0. cbn [assoc flat_map fst snd]. fold (shared0 t). destruct (Nat.eqb k k0) eqn:E.
    - apply Nat.eqb_eq in E. subst k0. destruct c0 as [l|]; cbn [app assoc].
      + rewrite Nat.eqb_refl. eexists. split; [reflexivity|apply repeat_length].
      + apply shared0_notin. exact Hk.
    - specialize (IH Ht). destruct c0 as [l|]; cbn [app assoc]; [rewrite E|]; exact IH.
  Qed.

  Lemma claim_index_ok s r : In r (ref_ids s) -> exists ci, claim_index s r = Ok ci.
  Proof.
    unfold ref_ids, claim_index, map_idx. destruct (c_kind s); try (intros _; eexists; reflexivity).
    intros H. destruct (assoc_in_fst r (c_refs s) H) as [a Ha]. rewrite Ha. eexists; reflexivity.
  Qed.

  Lemma SH_set sh r v ci : SH sh -> assoc r sh = Some v -> SH (set_assoc r (set_nth ci true v) sh).
  Proof.
    intros H Hr k. specialize (H k). destruct (assoc k creds) as [[l|]|].
    - destruct H as (v0 & Hv0 & Hl0).
      destruct (assoc_set_assoc_len r k (set_nth ci true v) sh v (@length bool) Hr (set_nth_length _ _ _) (ex_intro _ v0 Hv0)) as (z & Hz & Hzl).
      exists z. split; [exact Hz|]. rewrite (Hzl v0 Hv0). exact Hl0.
    - apply assoc_set_assoc_none. exact H.
    - apply assoc_set_assoc_none. exact H.
  Qed.

  (** marking: never unwinds; on success every reference to a signature credential has an index below its length *)
  Lemma mark_refs_spec s : forall refs sh, (forall r, In r refs -> In r (ref_ids s)) -> SH sh ->
    match mark_refs S0 s refs sh with
    | Panic => False
    | Err => True
    | Ok sh' => SH sh' /\ forall r l, In r refs -> assoc r creds = Some (CredSig l) ->
                                       exists ci, claim_index s r = Ok ci /\ ci < length l
    end.
  Proof.
    induction refs as [|r t IH]; intros sh Hin Hsh; cbn [mark_refs].
    - split; [exact Hsh|]. intros r l [].
    - assert (Ht : forall r0, In r0 t -> In r0 (ref_ids s)) by (intros; apply Hin; right; assumption).
      pose proof (Hsh r) as Hr. destruct (assoc r sh) as [v|] eqn:Ev.
      + destruct (claim_index_ok s r (Hin r (or_introl eq_refl))) as [ci Hci]. rewrite Hci. cbn [rbind].
        destruct (Nat.ltb_spec ci (length v)) as [Hlt|Hge]; [|exact I].
        specialize (IH (set_assoc r (set_nth ci true v) sh) Ht (SH_set sh r v ci Hsh Ev)).
        destruct (mark_refs S0 s t _) as [sh'| |]; [|exact I|exact IH].
        destruct IH as [H1 H2]. split; [exact H1|]. intros r0 l [<-|Hr0] Hc.
        * rewrite Hc in Hr. destruct Hr as (v' & Hv' & Hl'). injection Hv' as <-.
          exists ci. split; [exact Hci|lia].
        * apply H2; assumption.
      + destruct (existsb _ (cpreds S0)); [|exact I].
        specialize (IH sh Ht Hsh). destruct (mark_refs S0 s t sh) as [sh'| |]; [|exact I|exact IH].
        destruct IH as [H1 H2]. split; [exact H1|]. intros r0 l [<-|Hr0] Hc.
        * rewrite Hc in Hr. destruct Hr as (v' & Hv' & _). discriminate.
        * apply H2; assumption.
  Qed.

  Definition REFS_OK (P : list cstmt) : Prop :=
    forall s r l, In s P -> In r (ref_ids s) -> assoc r creds = Some (CredSig l) ->
                  exists ci, claim_index s r = Ok ci /\ ci < length l.

  Lemma mark_all_spec : forall P sh, SH sh ->
    match mark_all S0 P sh with
    | Panic => False | Err => True
    | Ok sh' => SH sh' /\ REFS_OK P
    end.
  Proof.
    induction P as [|s t IH]; intros sh Hsh; cbn [mark_all].
    - split; [exact Hsh|]. intros s r l [].
    - pose proof (mark_refs_spec s (ref_ids s) sh (fun r H => H) Hsh) as H.
      destruct (mark_refs S0 s (ref_ids s) sh) as [sh1| |]; cbn [rbind]; [|exact I|exact H].
      destruct H as [H1 H2]. specialize (IH sh1 H1).
      destruct (mark_all S0 t sh1) as [sh2| |]; [|exact I|exact IH].
      destruct IH as [H3 H4]. split; [exact H3|]. intros s0 r l [<-|Hs] Hr Hc; [apply H2; assumption|apply (H4 s0); assumption].
  Qed.

  (** proof messages of one signature statement *)
  Lemma msgs_from_spec s marks : forall n i, i + n <= length marks ->
    match msgs_from s marks n i with
    | Panic => False | Err => True
    | Ok ms => length ms = n /\ forall j, i <= j < i + n -> nth_error (c_labels s) j <> None
    end.
  Proof.
    induction n as [|n IH]; intros i Hi; cbn [msgs_from].
    - split; [reflexivity|]. intros j Hj. lia.
    - destruct (nth_error (c_labels s) i) as [lab|] eqn:El; [|exact I].
      assert (Hm : exists m, (if memn lab (c_disclosed s) then Ok MRevealed
                              else do b <- idx marks i; Ok (if b then MExternal else MSpecific)) = Ok m).
      { destruct (memn lab (c_disclosed s)); [eauto|].
        destruct (idx_lt marks i ltac:(lia)) as [b Hb]. rewrite Hb. cbn [rbind]. eauto. }
      destruct Hm as [m Hm]. rewrite Hm. cbn [rbind].
      specialize (IH (S i) ltac:(lia)). destruct (msgs_from s marks n (S i)) as [r| |]; cbn [rbind]; [|exact I|exact IH].
      destruct IH as [H1 H2]. split; [cbn [length]; lia|].
      intros j Hj. destruct (Nat.eq_dec j i) as [->|Hne]; [congruence|apply H2; lia].
  Qed.

  (** the proof-message table: one entry per signature statement with a signature credential,
      as long as that credential, and the labels are total below that length *)
  Definition PM (Sg : list cstmt) (pm : list (nat * list mk)) : Prop :=
    forall s l, In s Sg -> assoc (c_key s) creds = Some (CredSig l) ->
                exists ms, assoc (c_key s) pm = Some ms /\ length ms = length l.
  Definition LABELS (Sg : list cstmt) : Prop :=
    forall s l, In s Sg -> assoc (c_key s) creds = Some (CredSig l) ->
                forall j, j < length l -> nth_error (c_labels s) j <> None.
  (** every entry of the table belongs to a signature credential and has its length *)
  Definition PMLEN (pm : list (nat * list mk)) : Prop :=
    forall k ms, assoc k pm = Some ms -> exists l, assoc k creds = Some (CredSig l) /\ length ms = length l.

  Lemma pm_build_spec sh : SH sh -> forall Sg,
    (forall s, In s Sg -> exists c, assoc (c_key s) creds = Some c) ->
    match pm_build creds Sg sh with
    | Panic => False | Err => True
    | Ok pm => PM Sg pm /\ LABELS Sg /\ PMLEN pm
    end.
  Proof.
    intros Hsh. induction Sg as [|s t IH]; intros Hc; cbn [pm_build].
    - repeat split; [intros s l []|intros s l []|intros k ms E; discriminate].
    - destruct (Hc s (or_introl eq_refl)) as [c Hcs]. unfold map_idx at 1. rewrite Hcs. cbn [rbind].
      assert (Ht : forall s0, In s0 t -> exists c0, assoc (c_key s0) creds = Some c0) by (intros; apply Hc; right; assumption).
      specialize (IH Ht). destruct c as [l|].
      + pose proof (Hsh (c_key s)) as Hk. rewrite Hcs in Hk. destruct Hk as (v & Hv & Hl).
        unfold map_idx. rewrite Hv. cbn [rbind].
        pose proof (msgs_from_spec s v (length l) 0 ltac:(lia)) as Hm.
        destruct (msgs_from s v (length l) 0) as [ms| |]; cbn [rbind]; [|exact I|exact Hm].
        destruct Hm as [Hm1 Hm2].
        destruct (pm_build creds t sh) as [r| |]; cbn [rbind]; [|exact I|exact IH].
        destruct IH as (I1 & I2 & I3). repeat split.
        * intros s0 l0 [<-|Hs0] Hc0.
          -- rewrite Hcs in Hc0. injection Hc0 as <-. exists ms. cbn [assoc]. rewrite Nat.eqb_refl. split; [reflexivity|exact Hm1].
          -- cbn [assoc]. destruct (Nat.eqb (c_key s0) (c_key s)) eqn:E.
             ++ apply Nat.eqb_eq in E. rewrite E, Hcs in Hc0. injection Hc0 as <-. exists ms. split; [reflexivity|exact Hm1].
             ++ apply I1; assumption.
        * intros s0 l0 [<-|Hs0] Hc0 j Hj.
          -- rewrite Hcs in Hc0. injection Hc0 as <-. apply Hm2. lia.
          -- apply (I2 s0 l0); assumption.
        * intros k ms0. cbn [assoc]. destruct (Nat.eqb k (c_key s)) eqn:E.
          -- apply Nat.eqb_eq in E. subst k. intros X. injection X as <-. exists l. split; [exact Hcs|exact Hm1].
          -- apply I3.
      + destruct (pm_build creds t sh) as [r| |]; [|exact I|exact IH].
        destruct IH as (I1 & I2 & I3). repeat split.
        * intros s0 l0 [<-|Hs0] Hc0; [rewrite Hcs in Hc0; discriminate|apply I1; assumption].
        * intros s0 l0 [<-|Hs0] Hc0; [rewrite Hcs in Hc0; discriminate|apply (I2 s0 l0); assumption].
        * exact I3.
  Qed.

  Lemma PM_set Sg pm k ms a ix : PM Sg pm -> PMLEN pm -> assoc k pm = Some ms ->
    PM Sg (set_assoc k (set_nth ix a ms) pm) /\ PMLEN (set_assoc k (set_nth ix a ms) pm).
  Proof.
    intros H1 H2 Hk. split.
    - intros s l Hs Hc. destruct (H1 s l Hs Hc) as (m0 & Hm0 & Hl0).
      destruct (assoc_set_assoc_len k (c_key s) (set_nth ix a ms) pm ms (@length mk) Hk (set_nth_length _ _ _) (ex_intro _ m0 Hm0)) as (z & Hz & Hzl).
      exists z. split; [exact Hz|]. rewrite (Hzl m0 Hm0). exact Hl0.
    - intros k' ms' E. rewrite assoc_set_assoc in E. destruct (assoc k' pm) as [y|] eqn:Ey; [|discriminate].
      destruct (H2 k' y Ey) as (l & Hl1 & Hl2).
      destruct (Nat.eqb k k') eqn:Ek.
      + apply Nat.eqb_eq in Ek. subst k'. rewrite Hk in Ey. injection Ey as <-.
        destruct (existsb _ pm); injection E as <-; exists l; (split; [exact Hl1|]); [rewrite set_nth_length|]; exact Hl2.
      + injection E as <-. exists l. split; assumption.
  Qed.

  Lemma same_one_spec Sg s id1 : forall rest pm, (forall r, In r (id1 :: rest) -> In r (ref_ids s)) ->
    PM Sg pm -> PMLEN pm ->
    match same_one s id1 rest pm with
    | Panic => False | Err => True
    | Ok pm' => PM Sg pm' /\ PMLEN pm'
    end.
  Proof.
    induction rest as [|id2 t IH]; intros pm Hin H1 H2; cbn [same_one]; [split; assumption|].
    destruct (claim_index_ok s id2 (Hin id2 (or_intror (or_introl eq_refl)))) as [ix2 E2]. rewrite E2. cbn [rbind].
    destruct (claim_index_ok s id1 (Hin id1 (or_introl eq_refl))) as [ix1 E1]. rewrite E1. cbn [rbind].
    destruct (assoc id1 pm) as [m1|] eqn:A1; [|exact I]. destruct (assoc id2 pm) as [m2|] eqn:A2; [|exact I].
    destruct (Nat.leb_spec (length m1) ix1) as [G1|G1]; cbn [orb]; [exact I|].
    destruct (Nat.leb_spec (length m2) ix2) as [G2|G2]; [exact I|].
    destruct (idx_lt m1 ix1 G1) as [a Ha]. rewrite Ha. cbn [rbind].
    destruct (idx_lt m2 ix2 G2) as [b Hb]. rewrite Hb. cbn [rbind].
    destruct (is_revealed a || is_revealed b); [exact I|].
    destruct (PM_set Sg pm id2 m2 a ix2 H1 H2 A2) as [H3 H4].
    apply IH; [|exact H3|exact H4]. intros r [<-|Hr]; apply Hin; [left; reflexivity|right; right; exact Hr].
  Qed.

  Lemma same_all_spec Sg : forall P pm, PM Sg pm -> PMLEN pm ->
    match same_all P pm with
    | Panic => False | Err => True
    | Ok pm' => PM Sg pm' /\ PMLEN pm'
    end.
  Proof.
    induction P as [|s t IH]; intros pm H1 H2; cbn [same_all]; [split; assumption|].
    destruct (Nat.ltb_spec 1 (length (ref_ids s))) as [Hl|Hl]; [|apply IH; assumption].
    destruct (ref_ids s) as [|id1 rest] eqn:Er; [cbn [length] in Hl; lia|].
    cbn [idx nth_error rbind tl].
    pose proof (same_one_spec Sg s id1 rest pm) as Hs. rewrite Er in Hs. specialize (Hs (fun r H => H) H1 H2).
    destruct (same_one s id1 rest pm) as [pm'| |]; cbn [rbind]; [|exact I|exact Hs].
    destruct Hs as [H3 H4]. apply IH; assumption.
  Qed.

  Lemma disclosed_from_np s msgs : forall n i, i + n <= length msgs ->
    (forall j, i <= j < i + n -> nth_error (c_labels s) j <> None) -> no_panic (disclosed_from s msgs n i).
  Proof.
    induction n as [|n IH]; intros i Hi Hl; cbn [disclosed_from]; [apply np_ok|].
    destruct (idx_lt msgs i ltac:(lia)) as [m Hm]. rewrite Hm. cbn [rbind].
    apply np_bind.
    - destruct (is_revealed m); [|apply np_ok].
      destruct (nth_error (c_labels s) i) eqn:E; [cbn [unwrap rbind]; apply np_ok|exfalso; apply (Hl i); [lia|exact E]].
    - intros _ _. apply IH; [lia|]. intros j Hj. apply Hl. lia.
  Qed.

  Lemma sig_builders_np Orc pm Sg0 : PM Sg0 pm -> LABELS Sg0 -> forall Sg, incl Sg Sg0 ->
    (forall s, In s Sg -> exists c, assoc (c_key s) creds = Some c) ->
    no_panic (sig_builders creds Orc Sg pm).
  Proof.
    intros H1 H2. induction Sg as [|s t IH]; intros Hi Hc; cbn [sig_builders]; [apply np_ok|].
    destruct (Hc s (or_introl eq_refl)) as [c Hcs]. unfold map_idx at 1. rewrite Hcs. cbn [rbind].
    assert (IHt : no_panic (sig_builders creds Orc t pm)).
    { apply IH; [intros x Hx; apply Hi; right; exact Hx|intros x Hx; apply Hc; right; exact Hx]. }
    destruct c as [l|]; [|exact IHt].
    destruct (H1 s l (Hi s (or_introl eq_refl)) Hcs) as (ms & Hms & Hlen).
    unfold map_idx. rewrite Hms. cbn [rbind]. apply np_bind.
    - apply disclosed_from_np; [lia|]. intros j Hj. apply (H2 s l (Hi s (or_introl eq_refl)) Hcs). lia.
    - intros _ _. apply np_if; [apply np_err|apply np_rmap; exact IHt].
  Qed.

  Lemma eq_commit_np s : In s S0 -> REFS_OK [s] -> c_kind s = KEq ->
    forall refs, incl refs (c_refs s) -> no_panic (eq_commit creds refs).
  Proof.
    intros Hs Hr Hk. induction refs as [|[id ci] t IH]; intros Hi; cbn [eq_commit]; [apply np_ok|].
    assert (IHt : no_panic (eq_commit creds t)) by (apply IH; intros x Hx; apply Hi; right; exact Hx).
    destruct (assoc id creds) as [[l|]|] eqn:Ec; [|exact IHt|apply np_err].
    assert (Hin : In (id, ci) (c_refs s)) by (apply Hi; left; reflexivity).
    destruct (Hr s id l (or_introl eq_refl)) as (ci' & Hci & Hlt); [|exact Ec|].
    - unfold ref_ids. rewrite Hk. apply in_map_iff. exists (id, ci). split; [reflexivity|exact Hin].
    - unfold claim_index, map_idx in Hci. rewrite Hk in Hci.
      rewrite (assoc_nodup id ci (c_refs s) (refs_unique s Hs) Hin) in Hci. injection Hci as <-.
      destruct (idx_lt l ci Hlt) as [b Hb]. rewrite Hb. cbn [rbind]. exact IHt.
  Qed.

  Lemma hidden_msg_spec s pm : match hidden_msg s pm with Panic => False | Err => True | Ok m => is_revealed m = false end.
  Proof.
    unfold hidden_msg. destruct (assoc (c_ref s) pm) as [ms|]; [|exact I].
    destruct (nth_error ms (c_claim s)) as [m|]; [|exact I]. destruct (is_revealed m) eqn:E; [exact I|exact E].
  Qed.

  Definition IX (bs : list kind) (ix : list (nat * nat)) : Prop := forall k i, assoc k ix = Some i -> i < length bs.

  Lemma IX_push bs ix key k : IX bs ix -> IX (bs ++ [k]) ((key, length bs) :: ix).
  Proof.
    intros H k0 i. cbn [assoc]. rewrite app_length. cbn [length].
    destruct (Nat.eqb k0 key); [intros E; injection E as <-; lia|intros E; specialize (H k0 i E); lia].
  Qed.

  Lemma pred_builders_spec Orc pm : REFS_OK (cpreds S0) -> forall P, incl P (cpreds S0) -> forall bs ix, IX bs ix ->
    match pred_builders creds Orc P pm bs ix with
    | Panic => False | Err => True
    | Ok r => IX (fst r) (snd r)
    end.
  Proof.
    intros Hr. induction P as [|s t IH]; intros Hi bs ix Hix; cbn [pred_builders]; [exact Hix|].
    assert (Ht : incl t (cpreds S0)) by (intros x Hx; apply Hi; right; exact Hx).
    assert (Hs : In s (cpreds S0)) by (apply Hi; left; reflexivity).
    assert (Hs0 : In s S0) by (unfold cpreds in Hs; apply filter_In in Hs; tauto).
    pose proof (hidden_msg_spec s pm) as Hh.
    destruct (c_kind s) eqn:Ek.
    - apply IH; assumption.
    - destruct (hidden_msg s pm) as [m| |]; cbn [rbind]; [|exact I|exact Hh].
      destruct (assoc (c_ref s) creds) as [[l|]|]; try (apply IH; assumption).
      destruct (oc_pred Orc (c_key s)); [|exact I]. apply IH; [exact Ht|apply IX_push; exact Hix].
    - destruct (hidden_msg s pm) as [m| |]; cbn [rbind]; [|exact I|exact Hh].
      destruct (assoc (c_id s) creds) as [[l|]|]; try (apply IH; assumption).
      destruct (oc_pred Orc (c_key s)); [|exact I]. apply IH; [exact Ht|apply IX_push; exact Hix].
    - assert (Hnp : no_panic (eq_commit creds (c_refs s))).
      { apply (eq_commit_np s Hs0); [|exact Ek|apply incl_refl].
        intros s' r l [<-|[]] Hr1 Hc1. apply (Hr s r l Hs Hr1 Hc1). }
      destruct (eq_commit creds (c_refs s)) as [[]| |]; cbn [rbind]; [|exact I|apply Hnp; reflexivity].
      destruct (oc_pred Orc (c_key s)); [|exact I]. apply IH; [exact Ht|apply IX_push; exact Hix].
    - destruct (hidden_msg s pm) as [m| |]; cbn [rbind]; [|exact I|exact Hh].
      destruct m; try discriminate; cbn [blinder unwrap rbind];
        (destruct (oc_pred Orc (c_key s)); [|exact I]); (apply IH; [exact Ht|apply IX_push; exact Hix]).
    - apply IH; assumption.
    - destruct (hidden_msg s pm) as [m| |]; cbn [rbind]; [|exact I|exact Hh].
      destruct m; try discriminate; cbn [blinder unwrap rbind];
        (destruct (oc_pred Orc (c_key s)); [|exact I]); (apply IH; [exact Ht|apply IX_push; exact Hix]).
    - destruct (hidden_msg s pm) as [m| |]; cbn [rbind]; [|exact I|exact Hh].
      destruct m; try discriminate; cbn [blinder unwrap rbind];
        (destruct (oc_pred Orc (c_key s)); [|exact I]); (apply IH; [exact Ht|apply IX_push; exact Hix]).
  Qed.

  Lemma range_builders_np Orc bs ix : IX bs ix -> forall P, no_panic (range_builders creds S0 Orc P bs ix).
  Proof.
    intros Hix. induction P as [|s t IH]; cbn [range_builders]; [apply np_ok|].
    apply np_if; [exact IH|]. destruct (assoc (c_sig s) creds) as [[l|]|]; [|exact IH|apply np_err].
    destruct (assoc (c_ref s) ix) as [bi|] eqn:E; [|apply np_err].
    destruct (idx_lt bs bi (Hix _ _ E)) as [b Hb]. rewrite Hb. cbn [rbind].
    apply np_if; [apply np_err|]. destruct (find _ (cpreds S0)) as [cs|]; [|apply np_err].
    apply np_if; [apply np_err|]. destruct (nth_error l (c_claim s)); [|apply np_err].
    apply np_if; [exact IH|apply np_err].
  Qed.

  (** what success says about the range statements: each one (on a signature credential) names the claim and
      the signature statement of the commitment statement it refers to *)
  Lemma range_builders_agree Orc bs ix : forall P, range_builders creds S0 Orc P bs ix = Ok tt ->
    forall s, In s P -> c_kind s = KRange -> forall l, assoc (c_sig s) creds = Some (CredSig l) ->
    exists cs, find (fun p => Nat.eqb (c_key p) (c_ref s)) (cpreds S0) = Some cs /\
               c_claim s = c_claim cs /\ c_sig s = c_ref cs.
  Proof.
    induction P as [|s0 t IH]; intros H s Hin Hk l Hl; [destruct Hin|].
    cbn [range_builders] in H. destruct Hin as [->|Hin].
    - rewrite Hk in H. cbn [kind_eqb negb] in H. rewrite Hl in H.
      destruct (assoc (c_ref s) ix) as [bi|]; [|discriminate].
      destruct (idx bs bi) as [b| |]; cbn [rbind] in H; try discriminate.
      destruct (negb (kind_eqb b KComm)); [discriminate|].
      destruct (find _ (cpreds S0)) as [cs|]; [|discriminate].
      destruct (Nat.eqb_spec (c_claim s) (c_claim cs)) as [E1|]; cbn [negb orb] in H; [|discriminate].
      destruct (Nat.eqb_spec (c_sig s) (c_ref cs)) as [E2|]; cbn [negb] in H; [|discriminate].
      exists cs. repeat split; assumption.
    - destruct (negb (kind_eqb (c_kind s0) KRange)); [exact (IH H s Hin Hk l Hl)|].
      destruct (assoc (c_sig s0) creds) as [[l0|]|]; [|exact (IH H s Hin Hk l Hl)|discriminate].
      destruct (assoc (c_ref s0) ix) as [bi|]; [|discriminate].
      destruct (idx bs bi) as [b| |]; cbn [rbind] in H; try discriminate.
      destruct (negb (kind_eqb b KComm)); [discriminate|].
      destruct (find _ (cpreds S0)) as [cs|]; [|discriminate].
      destruct (negb (Nat.eqb (c_claim s0) (c_claim cs)) || negb (Nat.eqb (c_sig s0) (c_ref cs))); [discriminate|].
      destruct (nth_error l0 (c_claim s0)) as [isnum|]; [|discriminate].
      destruct (isnum && oc_pred Orc (c_key s0)); [|discriminate].
      exact (IH H s Hin Hk l Hl).
  Qed.

  Theorem create_ok_ranges_agree Orc : create creds S0 Orc = Ok tt ->
    forall s, In s (cpreds S0) -> c_kind s = KRange -> forall l, assoc (c_sig s) creds = Some (CredSig l) ->
    exists cs, find (fun p => Nat.eqb (c_key p) (c_ref s)) (cpreds S0) = Some cs /\
               c_claim s = c_claim cs /\ c_sig s = c_ref cs.
  Proof.
    unfold create. destruct (length creds <? length (csigs S0)); [discriminate|].
    destruct (negb _); [discriminate|].
    destruct (message_types creds S0) as [pm| |]; cbn [rbind]; try discriminate.
    destruct (sig_builders creds Orc (csigs S0) pm) as [n| |]; cbn [rbind]; try discriminate.
    destruct (pred_builders creds Orc (cpreds S0) pm (repeat KSig n) []) as [[bs ix]| |]; cbn [rbind fst snd]; try discriminate.
    apply range_builders_agree.
  Qed.

  Theorem create_no_panic Orc : create creds S0 Orc <> Panic.
  Proof.
    change (no_panic (create creds S0 Orc)). unfold create.
    apply np_if; [apply np_err|].
    destruct (forallb _ (csigs S0)) eqn:Hf; cbn [negb]; [|apply np_err].
    assert (Hc : forall s, In s (csigs S0) -> exists c, assoc (c_key s) creds = Some c).
    { intros s Hs. rewrite forallb_forall in Hf. specialize (Hf s Hs). apply existsb_exists in Hf.
      destruct Hf as ([k c] & Hin & Hk). cbn [fst] in Hk. apply Nat.eqb_eq in Hk. subst k.
      apply assoc_in_fst. apply in_map_iff. exists (c_key s, c). split; [reflexivity|exact Hin]. }
    unfold message_types.
    pose proof (mark_all_spec (cpreds S0) (shared0 creds) SH0) as Hm.
    destruct (mark_all S0 (cpreds S0) (shared0 creds)) as [sh| |]; cbn [rbind]; [|apply np_err|destruct Hm].
    destruct Hm as [Hsh Hrefs].
    pose proof (pm_build_spec sh Hsh (csigs S0) Hc) as Hp.
    destruct (pm_build creds (csigs S0) sh) as [pm0| |]; cbn [rbind]; [|apply np_err|destruct Hp].
    destruct Hp as (P1 & P2 & P3).
    pose proof (same_all_spec (csigs S0) (cpreds S0) pm0 P1 P3) as Hs.
    destruct (same_all (cpreds S0) pm0) as [pm| |]; cbn [rbind]; [|apply np_err|destruct Hs].
    destruct Hs as [Q1 Q3].
    apply np_bind; [apply (sig_builders_np Orc pm (csigs S0) Q1 P2 (csigs S0) (incl_refl _) Hc)|]. intros n _.
    pose proof (pred_builders_spec Orc pm Hrefs (cpreds S0) (incl_refl _) (repeat KSig n) [] (fun k i E => ltac:(discriminate))) as Hb.
    destruct (pred_builders creds Orc (cpreds S0) pm (repeat KSig n) []) as [[bs ix]| |]; cbn [rbind]; [|apply np_err|destruct Hb].
    apply range_builders_np. exact Hb.
  Qed.
End CreateProofs.
