(** Generic consequences of [is_field K], shared by all algebraic lemma files. *)
From Coq Require Import Field Ring List.
From ACV Require Import Model.Field.
Import ListNotations.

Section FieldP.
Variable K : fops.
Hypothesis Kf : is_field K.
Definition Kf_th : field_theory (f0 K) (f1 K) (fadd K) (fmul K) (fsub K) (fopp K) (fdiv K) (finv K) eq := Kf.
Add Field KF : Kf_th.
Local Notation "a + b" := (fadd K a b).
Local Notation "a - b" := (fsub K a b).
Local Notation "a * b" := (fmul K a b).
Local Notation "a / b" := (fdiv K a b).
Local Notation "0" := (f0 K).
Local Notation "1" := (f1 K).

Lemma f1_nz : 1 <> 0.
Proof. exact (F_1_neq_0 Kf_th). Qed.

Lemma fmul_zero_r (a b : K) : a <> 0 -> a * b = 0 -> b = 0.
Proof.
  intros Ha E. transitivity ((a * b) / a); [field; exact Ha|]. rewrite E. field. exact Ha.
Qed.

Lemma fmul_nz (a b : K) : a <> 0 -> b <> 0 -> a * b <> 0.
Proof. intros Ha Hb E. apply Hb. apply (fmul_zero_r a b Ha E). Qed.

Lemma fmul_cancel_l (a b c : K) : a <> 0 -> a * b = a * c -> b = c.
Proof.
  intros Ha E. assert (Z : a * (b - c) = 0) by (transitivity (a * b - a * c); [ring|rewrite E; ring]).
  apply fmul_zero_r in Z; [|exact Ha]. transitivity (b - c + c); [ring|rewrite Z; ring].
Qed.

Lemma fsub_zero (a b : K) : a - b = 0 -> a = b.
Proof. intros E. transitivity (a - b + b); [ring|rewrite E; ring]. Qed.

Lemma finv_nz (a : K) : a <> 0 -> finv K a <> 0.
Proof.
  intros Ha E. apply f1_nz. transitivity (a * finv K a); [field; exact Ha|]. rewrite E. ring.
Qed.

Lemma fprod_nz (l : list K) : (forall x, In x l -> x <> 0) -> fprod K l <> 0.
Proof.
  induction l as [|x t IH]; intros H; cbn [fprod fold_right].
  - exact f1_nz.
  - apply fmul_nz; [apply H; left; reflexivity|apply IH; intros y Hy; apply H; right; exact Hy].
Qed.

Lemma fprod_app (a b : list K) : fprod K (a ++ b) = fprod K a * fprod K b.
Proof.
  induction a as [|x t IH]; cbn [fprod fold_right app].
  - fold (fprod K b). ring.
  - fold (fprod K (t ++ b)). fold (fprod K t). rewrite IH. ring.
Qed.
End FieldP.
