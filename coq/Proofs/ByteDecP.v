(** Scalar decryption from the byte decomposition (C10). *)
From Coq Require Import ZArith List Lia.
From ACV Require Import Model.Ints Model.Bytes Model.ByteDec Proofs.BytesP.
Import ListNotations.
Open Scope Z_scope.

Lemma rmod_nz : rmod <> 0.  Proof. discriminate. Qed.

Lemma step_mod acc b : (acc mod rmod * 256 + b) mod rmod = (acc * 256 + b) mod rmod.
Proof.
  rewrite (Z.add_mod (acc mod rmod * 256)), (Z.mul_mod (acc mod rmod) 256), Z.mod_mod by apply rmod_nz.
  rewrite <- Z.mul_mod, <- Z.add_mod by apply rmod_nz. reflexivity.
Qed.

Lemma horner_acc bs : forall acc,
  fold_left (fun a b => (a * 256 + b) mod rmod) bs (acc mod rmod) = of_be_acc acc bs mod rmod.
Proof.
  induction bs as [|b t IH]; intros acc; cbn [fold_left of_be_acc].
  - reflexivity.
  - rewrite step_mod. apply IH.
Qed.

Theorem reassemble_field_spec bs : reassemble_field bs = of_be bs mod rmod.
Proof. unfold reassemble_field, of_be. change 0 with (0 mod rmod) at 1. apply horner_acc. Qed.

(** whatever byte string passes the verifier's sum check decrypts to the signed claim *)
Theorem reassemble_field_sound bs m : 0 <= m < rmod -> sum_check bs m -> reassemble_field bs = m.
Proof.
  intros Hm H. rewrite reassemble_field_spec. unfold sum_check in H. rewrite H. apply Z.mod_small. exact Hm.
Qed.

(** the pinned tree: the decomposition of m + r passes the sum check and is thrown away *)
Theorem reassemble_canonical_refuted :
  exists bs m, length bs = 32%nat /\ all_bytes bs /\ 0 <= m < rmod /\ sum_check bs m /\ reassemble_canonical bs = None.
Proof.
  exists (to_be 32 (5 + rmod)), 5. split; [apply to_be_length|]. split; [apply to_be_all_bytes|].
  split; [split; [lia|reflexivity]|]. split; vm_compute; reflexivity.
Qed.

(** ... for every claim whose scalar is below 2^256 - r, in particular every number claim (< 2^64) *)
Theorem reassemble_canonical_refuted_all m : 0 <= m < 2 ^ 256 - rmod ->
  sum_check (to_be 32 (m + rmod)) m /\ reassemble_canonical (to_be 32 (m + rmod)) = None.
Proof.
  intros Hm. assert (Hr : 0 < rmod) by reflexivity.
  assert (E : of_be (to_be 32 (m + rmod)) = m + rmod).
  { apply of_be_to_be_small. change (256 ^ Z.of_nat 32) with (2 ^ 256). lia. }
  unfold sum_check, reassemble_canonical. rewrite E. split.
  - rewrite <- (Z.mul_1_l rmod) at 1. apply Z.mod_add. lia.
  - replace (m + rmod <? rmod) with false; [reflexivity|]. symmetry. apply Z.ltb_ge. lia.
Qed.
