(** No-panic of the blind-issuance skeletons (C20). *)
From Coq Require Import List Bool Arith Lia.
From ACV Require Import Model.Res Model.Skeleton Model.SkelCreate Model.SkelBlind Proofs.SkeletonP.
Import ListNotations.

Lemma idx_repeat n i : i < n -> idx (repeat tt n) i = Ok tt.
Proof.
  intros H. destruct (idx_lt (repeat tt n) i) as [[] E]; [rewrite repeat_length; exact H|exact E].
Qed.

Lemma ctx_points_np n idxs : no_panic (ctx_points n idxs).
Proof.
  induction idxs as [|i t IH]; cbn [ctx_points]; [apply np_ok|].
  destruct (Nat.leb_spec n i) as [H|H]; [apply np_err|]. rewrite idx_repeat by exact H. exact IH.
Qed.

Lemma request_indices_np sc labels : no_panic (request_indices sc labels).
Proof.
  induction labels as [|l t IH]; cbn [request_indices]; [apply np_ok|].
  apply np_if; [apply np_err|]. destruct (index_of l (b_labels sc)); [apply np_rmap; exact IH|apply np_err].
Qed.

Theorem request_new_np sc n labels orc : request_new sc n labels orc <> Panic.
Proof.
  change (no_panic (request_new sc n labels orc)). unfold request_new.
  apply np_bind; [apply request_indices_np|]. intros is _.
  apply np_bind; [apply ctx_points_np|]. intros _ _. apply np_if; [apply np_ok|apply np_err].
Qed.

Lemma ctx_verify_spec ps nkey nresp known orc :
  match ctx_verify ps nkey nresp known orc with
  | Panic => False
  | Err => True
  | Ok _ => forall i, In i known -> i < nkey
  end.
Proof.
  unfold ctx_verify. destruct (existsb (fun i => nkey <=? i) known) eqn:E; [exact I|].
  assert (H : forall i, In i known -> i < nkey).
  { intros i Hi. destruct (Nat.ltb_spec i nkey) as [L|L]; [exact L|].
    assert (existsb (fun i => nkey <=? i) known = true) by (apply existsb_exists; exists i; split; [exact Hi|apply Nat.leb_le; exact L]).
    congruence. }
  destruct (negb _); exact H.
Qed.

Lemma blind_sig_points_np nkey known : (forall i, In i known -> i < nkey) -> no_panic (blind_sig_points nkey known).
Proof.
  induction known as [|i t IH]; intros H; cbn [blind_sig_points]; [apply np_ok|].
  rewrite idx_repeat by (apply H; left; reflexivity). cbn [rbind]. apply IH. intros j Hj. apply H. right. exact Hj.
Qed.

Theorem blind_sign_np ps nkey nresp known o1 o2 : blind_sign ps nkey nresp known o1 o2 <> Panic.
Proof.
  change (no_panic (blind_sign ps nkey nresp known o1 o2)). unfold blind_sign.
  pose proof (ctx_verify_spec ps nkey nresp known o1) as H.
  destruct (ctx_verify ps nkey nresp known o1) as [ok| |]; cbn [rbind]; [|apply np_err|destruct H].
  apply np_if; [apply np_err|]. apply np_if; [apply np_err|]. apply np_if; [apply np_err|].
  apply blind_sig_points_np. exact H.
Qed.

(** the issuer's own schema: as many claim schemas as labels (CredentialSchema::new builds both from one list) *)
Lemma known_indices_np sc kl valid : b_nclaims sc = length (b_labels sc) -> no_panic (known_indices sc kl valid).
Proof.
  intros Hn. induction kl as [|l t IH]; cbn [known_indices]; [apply np_ok|].
  destruct (index_of l (b_labels sc)) as [i|] eqn:E; [|apply np_err].
  assert (Hi : i < length (b_labels sc)).
  { clear -E. revert i E. induction (b_labels sc) as [|x r IHr]; intros i E; cbn [index_of] in E; [discriminate|].
    destruct (Nat.eqb l x); [injection E as <-; cbn [length]; lia|].
    destruct (index_of l r) as [j|]; cbn [option_map] in E; [|discriminate]. injection E as <-.
    specialize (IHr j eq_refl). cbn [length]. lia. }
  rewrite idx_repeat by (rewrite Hn; exact Hi). cbn [rbind].
  apply np_if; [apply np_err|apply np_rmap; exact IH].
Qed.

Theorem blind_sign_credential_np ps sc nkey nresp rl kl valid o1 o2 o3 o4 :
  b_nclaims sc = length (b_labels sc) ->
  blind_sign_credential ps sc nkey nresp rl kl valid o1 o2 o3 o4 <> Panic.
Proof.
  intros Hn. change (no_panic (blind_sign_credential ps sc nkey nresp rl kl valid o1 o2 o3 o4)). unfold blind_sign_credential.
  apply np_if; [apply np_err|]. apply np_if; [apply np_err|].
  apply np_bind; [apply known_indices_np; exact Hn|]. intros known _.
  apply np_if; [apply np_err|]. apply np_if; [apply np_err|]. apply blind_sign_np.
Qed.

Lemma verify_indices_np sc labels : no_panic (verify_indices sc labels).
Proof.
  induction labels as [|l t IH]; cbn [verify_indices]; [apply np_ok|].
  apply np_if; [apply np_err|]. destruct (index_of l (b_labels sc)); [apply np_rmap; exact IH|apply np_err].
Qed.

Theorem request_verify_np ps sc nkey nresp labels orc : request_verify ps sc nkey nresp labels orc <> Panic.
Proof.
  change (no_panic (request_verify ps sc nkey nresp labels orc)). unfold request_verify.
  apply np_bind; [apply verify_indices_np|]. intros is _.
  pose proof (ctx_verify_spec ps nkey nresp is orc) as H.
  destruct (ctx_verify ps nkey nresp is orc) as [ok| |]; cbn [rbind]; [|apply np_err|destruct H].
  apply np_if; [apply np_ok|apply np_err].
Qed.

Lemma place_np sc labels : forall ordering, no_panic (place sc labels ordering).
Proof.
  induction labels as [|l t IH]; intros o; cbn [place]; [apply np_ok|].
  destruct (index_of l (b_labels sc)); [|apply np_err]. apply np_if; [apply IH|apply np_err].
Qed.

Theorem to_unblinded_np sc bl blind rl : to_unblinded sc bl blind rl <> Panic.
Proof.
  change (no_panic (to_unblinded sc bl blind rl)). unfold to_unblinded.
  apply np_if; [apply np_err|]. apply np_bind; [apply place_np|]. intros o _.
  apply np_if; [apply np_err|]. destruct (index_of rl (b_labels sc)); [apply np_ok|apply np_err].
Qed.

(** the bound checks are needed: an index equal to the number of generators unwinds when unguarded
    (the pinned tree compared with '>' ; repaired by 6cbaaa8) *)
Example ctx_index_unguarded : idx (repeat tt 3) 3 = Panic.  Proof. reflexivity. Qed.
