From Coq Require Import Field Ring List Bool Arith NArith Lia.
From ACV Require Import Model.Field Model.Pres Model.Sigs Model.Registry Model.Blind
     Proofs.FieldP Proofs.SigsP Proofs.SlotP Proofs.RegistryP.
Import ListNotations.

Section BlindP.
Variable K : fops.
Hypothesis Kf : is_field K.
Add Field KF : (Kf_th K Kf).
Local Notation "a + b" := (fadd K a b).
Local Notation "a - b" := (fsub K a b).
Local Notation "a * b" := (fmul K a b).
Local Notation "a / b" := (fdiv K a b).
Local Notation "0" := (f0 K).
Local Notation "1" := (f1 K).
Local Notation "- a" := (fopp K a).

(** ---- unblinded blind signatures are ordinary signatures on the union of known and hidden claims ---- *)
Theorem bbs_blind_valid x e ys hidden known : x + e <> 0 ->
  bbs_blind_sign K x e ys (holder_commitment K BBS ys hidden 0) known * (e + x)
  = 1 + (revealed_sum K ys hidden + revealed_sum K ys known).
Proof. intros H. unfold bbs_blind_sign, holder_commitment. field. exact H. Qed.

Theorem ps_blind_valid x w ys u m_tick hidden known blinding :
  let sig := ps_unblind K (ps_blind_sign K x w ys u m_tick (holder_commitment K PS ys hidden blinding) known) blinding in
  fst sig * (x + w * m_tick + (revealed_sum K ys known + revealed_sum K ys hidden)) = snd sig.
Proof. cbn. unfold holder_commitment. ring. Qed.

(** ---- special soundness of the request's proof: the commitment opens on the UNKNOWN generators only ---- *)
Theorem blind_ctx_extract_bbs ys known C T (z z' : list K) c c' :
  let UG := unknown_gens K ys known in
  length z = length UG -> length z' = length UG -> c <> c' ->
  msm K (UG ++ [C]) (z ++ [- c]) = T -> msm K (UG ++ [C]) (z' ++ [- c']) = T ->
  C = msm K UG (map (fun v => v * finv K (c - c')) (vsub K z z')).
Proof.
  cbn zeta. set (UG := unknown_gens K ys known). intros L1 L2 Hc E1 E2.
  assert (Hd : c - c' <> 0) by (intros Z; apply Hc; apply (fsub_zero K Kf); exact Z).
  rewrite (msm_app K Kf) in E1 by (symmetry; exact L1). rewrite (msm_app K Kf) in E2 by (symmetry; exact L2).
  cbn [msm] in E1, E2. rewrite (msm_scale K Kf), (msm_vsub K Kf) by lia.
  assert (T1 : c * C = msm K UG z - T) by (rewrite <- E1; ring).
  assert (T2 : c' * C = msm K UG z' - T) by (rewrite <- E2; ring).
  transitivity ((c * C - c' * C) / (c - c')); [field; exact Hd|]. rewrite T1, T2. field. exact Hd.
Qed.

Theorem blind_ctx_extract_ps ys known C T (z z' : list K) zb zb' c c' :
  let UG := unknown_gens K ys known in
  length z = length UG -> length z' = length UG -> c <> c' ->
  msm K (UG ++ [1; C]) ((z ++ [zb]) ++ [- c]) = T -> msm K (UG ++ [1; C]) ((z' ++ [zb']) ++ [- c']) = T ->
  C = msm K UG (map (fun v => v * finv K (c - c')) (vsub K z z')) + (zb - zb') / (c - c').
Proof.
  cbn zeta. set (UG := unknown_gens K ys known). intros L1 L2 Hc E1 E2.
  assert (Hd : c - c' <> 0) by (intros Z; apply Hc; apply (fsub_zero K Kf); exact Z).
  rewrite <- !app_assoc in E1, E2. cbn [app] in E1, E2.
  rewrite (msm_app K Kf) in E1 by (symmetry; exact L1). rewrite (msm_app K Kf) in E2 by (symmetry; exact L2).
  cbn [msm] in E1, E2. rewrite (msm_scale K Kf), (msm_vsub K Kf) by lia.
  assert (T1 : c * C = msm K UG z + zb - T) by (rewrite <- E1; ring).
  assert (T2 : c' * C = msm K UG z' + zb' - T) by (rewrite <- E2; ring).
  transitivity ((c * C - c' * C) / (c - c')); [field; exact Hd|]. rewrite T1, T2. field. exact Hd.
Qed.

(** ---- completeness of the request proof, for requests listing the hidden claims in index order ---- *)
Definition gen_at (ys : list K) (i : nat) : K := match nth_error ys i with Some y => y | None => 0 end.

Lemma revealed_sum_msm ys (hidden : list (nat * K)) :
  revealed_sum K ys hidden = msm K (map (gen_at ys) (map fst hidden)) (map snd hidden).
Proof.
  induction hidden as [|[i m] t IH]; cbn [revealed_sum map fst snd msm]; [reflexivity|].
  unfold gen_at at 1. destruct (nth_error ys i); rewrite IH; ring.
Qed.

Theorem blind_ctx_complete s ys known hidden nonces blinding nb c :
  map (gen_at ys) (map fst hidden) = unknown_gens K ys known -> length nonces = length hidden ->
  ctx_recompute K s ys known (holder_ctx K s ys hidden nonces blinding nb c)
  = Some (holder_random_commitment K s ys (map fst hidden) nonces nb).
Proof.
  intros Hord Hlen. unfold ctx_recompute, holder_ctx, holder_random_commitment, ctx_points. cbn [bc_proofs bc_commitment bc_challenge].
  fold (gen_at ys). rewrite Hord.
  set (UG := unknown_gens K ys known).
  assert (LUG : length UG = length hidden) by (unfold UG; rewrite <- Hord, !map_length; reflexivity).
  destruct s.
  - (* BBS *)
    rewrite !app_nil_r. rewrite (responses_length K) by (rewrite map_length; exact Hlen).
    rewrite Nat.add_0_r. replace (length nonces =? length UG)%nat with true by (symmetry; apply Nat.eqb_eq; lia).
    f_equal. cbn [app]. rewrite (msm_app K Kf) by (rewrite (responses_length K) by (rewrite map_length; exact Hlen); lia).
    rewrite (msm_responses K Kf) by (rewrite map_length; exact Hlen). cbn [msm].
    unfold holder_commitment. rewrite revealed_sum_msm, Hord. fold UG. ring.
  - (* PS *)
    assert (L2 : length (nonces ++ [nb]) = length (map snd hidden ++ [blinding])) by (rewrite !app_length, map_length; cbn; lia).
    rewrite (responses_length K) by exact L2. rewrite app_length. cbn [length].
    replace (length nonces + 1 =? length UG + 1)%nat with true by (symmetry; apply Nat.eqb_eq; lia).
    f_equal. rewrite app_assoc. rewrite (msm_app K Kf) by (rewrite (responses_length K) by exact L2; rewrite !app_length; cbn; lia).
    rewrite (msm_responses K Kf) by exact L2. cbn [msm].
    rewrite (msm_app K Kf UG [1] (map snd hidden) [blinding]) by (rewrite map_length; exact LUG). cbn [msm].
    unfold holder_commitment. rewrite revealed_sum_msm, Hord. fold UG. ring.
Qed.

(** the response vector length is forced, so the challenge term can never be dropped *)
Theorem ctx_recompute_length s ys known c v : ctx_recompute K s ys known c = Some v ->
  length (bc_proofs K c) = Nat.add (length (unknown_gens K ys known)) (match s with PS => 1%nat | BBS => 0%nat end).
Proof.
  unfold ctx_recompute. destruct (Nat.eqb_spec (length (bc_proofs K c)) (Nat.add (length (unknown_gens K ys known)) (match s with PS => 1%nat | BBS => 0%nat end)));
    [intros _; assumption|discriminate].
Qed.

(** ---- hiding ---- *)
(** PS: for any two hidden vectors there is a bijection on the blinding factor giving the same commitment *)
Theorem ps_request_hiding ys hidden hidden' blinding :
  let b' := blinding + revealed_sum K ys hidden - revealed_sum K ys hidden' in
  holder_commitment K PS ys hidden' b' = holder_commitment K PS ys hidden blinding.
Proof. cbn. unfold holder_commitment. ring. Qed.
(** BBS: the blinding factor is the constant zero; the commitment is a deterministic function of the hidden
    values, so a guess of a low-entropy hidden claim can be tested (finding bbs-blind-request-not-hiding) *)
Theorem bbs_request_not_hiding ys hidden b : holder_commitment K BBS ys hidden b = revealed_sum K ys hidden.
Proof. unfold holder_commitment. ring. Qed.

(** ---- issuer policy ---- *)
Theorem blind_policy_spec n blindable req known : blind_policy_ok n blindable req known = true ->
  Nat.add (length req) (length known) = n /\
  (forall l, In l req -> In l blindable /\ ~ In l known) /\ NoDup req.
Proof.
  unfold blind_policy_ok. intros H. apply andb_true_iff in H. destruct H as [H H3]. apply andb_true_iff in H. destruct H as [H1 H2].
  apply Nat.eqb_eq in H1. split; [exact H1|]. split.
  - intros l Hl. rewrite forallb_forall in H2. specialize (H2 l Hl). apply andb_true_iff in H2. destruct H2 as [A B].
    apply memn_In in A. apply negb_true_iff in B. split; [exact A|]. intros Hk. apply memn_In in Hk. congruence.
  - apply nodupb_NoDup in H3. apply (NoDup_map_inv N.of_nat). exact H3.
Qed.
End BlindP.
