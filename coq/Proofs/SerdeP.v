(** Round trips of the serde data-model layer (C19): decoding by name what the Serialize impl
    produced gives the object back, for both kinds of serializer; positional decoding does so
    exactly when no optional field was skipped. *)
From Coq Require Import ZArith List Bool String Lia.
From ACV Require Import Model.Ints Model.Bytes Model.ClaimCodec Model.SerdeTree Proofs.BytesP.
Import ListNotations.
Local Open Scope nat_scope.

Lemma u8s_map v : u8s (map TU8 v) = Some v.
Proof. induction v as [|b t IH]; [reflexivity|]. cbn [map u8s]. rewrite IH. reflexivity. Qed.

Lemma strs_map l : strs (map TStr l) = Some l.
Proof. induction l as [|b t IH]; [reflexivity|]. cbn [map strs]. rewrite IH. reflexivity. Qed.

Lemma opt_all_rt {A B} (f : A -> option B) (g : B -> option A) (P : A -> Prop) :
  (forall a b, P a -> f a = Some b -> g b = Some a) ->
  forall l ts, Forall P l -> opt_all (map f l) = Some ts -> opt_all (map g ts) = Some l.
Proof.
  intros H. induction l as [|a r IH]; intros ts HP E; cbn [map opt_all] in E.
  - injection E as <-. reflexivity.
  - inversion HP as [|? ? Ha Hr]; subst. destruct (f a) as [b|] eqn:Fa; [|discriminate].
    destruct (opt_all (map f r)) as [rs|] eqn:Er; [|discriminate]. injection E as <-.
    cbn [map opt_all]. rewrite (H a b Ha Fa), (IH rs Hr eq_refl). reflexivity.
Qed.

Definition claim_ok (c : claim) : Prop :=
  match c with
  | CHashed v _ => all_bytes v
  | CScalar s => (0 <= s < rmod)%Z
  | _ => True
  end.

Lemma scalar_of_be_to_be s : (0 <= s < rmod)%Z -> scalar_of_be (to_be 32 s) = Some s.
Proof.
  intros H. unfold scalar_of_be. rewrite of_be_to_be_small.
  - replace (s <? rmod)%Z with true by (symmetry; apply Z.ltb_lt; lia). reflexivity.
  - assert (rmod < 256 ^ Z.of_nat 32)%Z by reflexivity. lia.
Qed.

Local Opaque hex_decode hex_encode scalar_of_be to_be.

Section SerdeProofs.
  Variable is_utf8 : bytes -> bool.

  Theorem ctype_rt hr t tr : ser_ctype hr t = Some tr -> de_ctype hr tr = Some t.
  Proof.
    destruct hr, t; cbn; intros E; try discriminate; injection E as <-; vm_compute; reflexivity.
  Qed.

  Theorem claim_rt hr c tr : claim_ok c -> ser_claim is_utf8 hr c = Some tr -> de_claim hr tr = Some c.
  Proof.
    intros Hc. destruct c as [v pf|v|s|id|dst v total]; cbn [ser_claim claim_ok] in *.
    - destruct hr.
      + destruct pf.
        * destruct (is_utf8 v); [|discriminate]. intros E. injection E as <-. reflexivity.
        * intros E. injection E as <-. cbn. rewrite hex_roundtrip by exact Hc. reflexivity.
      + intros E. injection E as <-. cbn. rewrite u8s_map. reflexivity.
    - intros E. injection E as <-. reflexivity.
    - intros E. injection E as <-. destruct hr; cbn.
      + rewrite hex_roundtrip by apply to_be_all_bytes. rewrite scalar_of_be_to_be by exact Hc. reflexivity.
      + rewrite u8s_map. rewrite scalar_of_be_to_be by exact Hc. reflexivity.
    - intros E. injection E as <-. reflexivity.
    - intros E. injection E as <-. reflexivity.
  Qed.

  Definition validator_ok (v : validator) : Prop :=
    match v with VAnyOne l => Forall claim_ok l | _ => True end.

  Theorem validator_rt hr v tr : validator_ok v -> ser_validator is_utf8 hr v = Some tr -> de_validator hr tr = Some v.
  Proof.
    intros Hv. destruct v as [mn mx|mn mx|src|l]; cbn [ser_validator].
    - intros E. injection E as <-. destruct mn, mx; reflexivity.
    - intros E. injection E as <-. destruct mn, mx; reflexivity.
    - intros E. injection E as <-. reflexivity.
    - destruct (opt_all (map (ser_claim is_utf8 hr) l)) as [ts|] eqn:E; cbn [option_map]; [|discriminate].
      intros X. injection X as <-. cbn [de_validator].
      rewrite (opt_all_rt (ser_claim is_utf8 hr) (de_claim hr) claim_ok (fun a b => claim_rt hr a b) l ts Hv E).
      reflexivity.
  Qed.

  Definition claim_schema_ok (c : claim_schema) : Prop := Forall validator_ok (cs_validators c).

  Theorem claim_schema_rt hr c tr : claim_schema_ok c ->
    ser_claim_schema is_utf8 hr c = Some tr -> de_claim_schema hr tr = Some c.
  Proof.
    intros Hc. destruct c as [ty lab pf vs]. unfold ser_claim_schema, claim_schema_ok in *. cbn [cs_type cs_label cs_pf cs_validators] in *.
    destruct (ser_ctype hr ty) as [tt|] eqn:Et; [|discriminate].
    destruct (opt_all (map (ser_validator is_utf8 hr) vs)) as [ts|] eqn:Ev; [|discriminate].
    intros X. injection X as <-.
    pose proof (opt_all_rt (ser_validator is_utf8 hr) (de_validator hr) validator_ok (fun a b => validator_rt hr a b) vs ts Hc Ev) as Hd.
    destruct ts as [|t0 tr0].
    - (* the list was skipped: the default is the empty list *)
      destruct vs as [|v0 vr]; [|cbn [map opt_all] in Ev; destruct (ser_validator is_utf8 hr v0); [destruct (opt_all _); discriminate|discriminate]].
      cbn. rewrite (ctype_rt hr ty tt Et). reflexivity.
    - cbn [app]. cbn [de_claim_schema field String.eqb Ascii.eqb Bool.eqb].
      cbn. rewrite (ctype_rt hr ty tt Et). cbn in Hd. rewrite Hd. reflexivity.
  Qed.

  Lemma dedup_nodup : forall l seen, NoDup l -> (forall x, In x l -> existsb (list_eqb x) seen = false) -> dedup seen l = l.
  Proof.
    induction l as [|x r IH]; intros seen Hn Hs; [reflexivity|]. cbn [dedup].
    rewrite (Hs x (or_introl eq_refl)). f_equal. inversion Hn as [|? ? Hx Hr]; subst. apply IH; [exact Hr|].
    intros y Hy. cbn [existsb]. rewrite (Hs y (or_intror Hy)), orb_false_r.
    destruct (list_eqb y x) eqn:E; [|reflexivity]. apply list_eqb_eq in E. subst. contradiction.
  Qed.

  Definition cred_schema_ok (s : cred_schema) : Prop :=
    NoDup (sch_blind s) /\ NoDup (sch_indices s) /\ Forall claim_schema_ok (sch_claims s).

  Theorem cred_schema_rt hr s tr : cred_schema_ok s ->
    ser_cred_schema is_utf8 hr s = Some tr -> de_cred_schema hr tr = Some s.
  Proof.
    intros (Hb & Hi & Hc). destruct s as [id lab desc bl ix cl]. unfold ser_cred_schema. cbn [sch_id sch_label sch_desc sch_blind sch_indices sch_claims] in *.
    destruct (opt_all (map (ser_claim_schema is_utf8 hr) cl)) as [ts|] eqn:E; [|discriminate].
    intros X. injection X as <-.
    pose proof (opt_all_rt (ser_claim_schema is_utf8 hr) (de_claim_schema hr) claim_schema_ok (fun a b => claim_schema_rt hr a b) cl ts Hc E) as Hd.
    destruct lab, desc; cbn; rewrite !strs_map, Hd, !dedup_nodup by (assumption || (intros; reflexivity)); reflexivity.
  Qed.

  (** ---- positional decoding (BARE) ---- *)
  Theorem pos_bounds_rt hr v tr r :
    match v with VLength _ _ | VRange _ _ => True | _ => False end ->
    validator_skips v = false -> ser_validator is_utf8 hr v = Some tr ->
    pos_bounds (flat tr ++ r) = Some (v, r).
  Proof.
    destruct v as [mn mx|mn mx|?|?]; try contradiction; intros _ Hs E; cbn in E; injection E as <-;
      destruct mn, mx; try discriminate; reflexivity.
  Qed.

  (** a skipped bound: nothing is written for it, and the positional reader cannot know *)
  Theorem pos_bounds_skipped_refuted :
    exists v tr, validator_skips v = true /\ ser_validator is_utf8 false v = Some tr
                 /\ pos_bounds (flat tr) <> Some (v, []).
  Proof.
    exists (VLength (Some 2%Z) None). eexists. split; [reflexivity|]. split; [reflexivity|]. cbn. discriminate.
  Qed.

  (** ... and with trailing data the reader takes the next value for the missing one: here the
      maximum of a length validator is read from the following validator's variant tag *)
  Example pos_bounds_misreads :
    exists tr, ser_validator is_utf8 false (VRange None (Some 7%Z)) = Some tr /\
               pos_bounds (flat tr ++ [KOpt false]) = Some (VRange (Some 7%Z) None, []).
  Proof. eexists. split; reflexivity. Qed.
  (** a claim schema read positionally: fine when nothing was skipped ... *)
  Definition simple_validator (v : validator) : Prop :=
    match v with VLength (Some _) (Some _) | VRange (Some _) (Some _) | VRegex _ => True | _ => False end.

  Lemma pos_validators_rt vs : Forall simple_validator vs -> forall ts r,
    opt_all (map (ser_validator is_utf8 false) vs) = Some ts ->
    pos_validators (List.length vs) (flat_map flat ts ++ r)%list = Some (vs, r).
  Proof.
    induction 1 as [|v t Hv Ht IH]; intros ts r E; cbn [map opt_all] in E.
    - injection E as <-. reflexivity.
    - destruct (ser_validator is_utf8 false v) as [tv|] eqn:Ev; [|discriminate].
      destruct (opt_all (map (ser_validator is_utf8 false) t)) as [tt|] eqn:Et; [|discriminate]. injection E as <-.
      cbn [Datatypes.length pos_validators flat_map]. rewrite <- app_assoc.
      assert (Hone : pos_validator (flat tv ++ (flat_map flat tt ++ r))%list = Some (v, (flat_map flat tt ++ r)%list)).
      { destruct v as [[a|] [b|]|[a|] [b|]|src|l]; try contradiction; cbn in Ev; injection Ev as <-; reflexivity. }
      rewrite Hone, (IH tt r eq_refl). reflexivity.
  Qed.

  Theorem pos_claim_schema_rt c tr r :
    cs_validators c <> [] -> Forall simple_validator (cs_validators c) -> ctype_of_tag (ctype_tag (cs_type c)) = cs_type c ->
    ser_claim_schema is_utf8 false c = Some tr -> pos_claim_schema (flat tr ++ r)%list = Some (c, r).
  Proof.
    intros Hne Hs Ht. destruct c as [ty lab pf vs]. unfold ser_claim_schema. cbn [cs_type cs_label cs_pf cs_validators ser_ctype] in *.
    destruct (opt_all (map (ser_validator is_utf8 false) vs)) as [ts|] eqn:Ev; [|discriminate].
    intros X. injection X as <-.
    destruct ts as [|t0 tr0]; [destruct vs; [congruence|cbn [map opt_all] in Ev; destruct (ser_validator is_utf8 false v); [destruct (opt_all _); discriminate|discriminate]]|].
    pose proof (pos_validators_rt vs Hs (t0 :: tr0) r Ev) as Hp.
    assert (Hl : List.length (t0 :: tr0) = List.length vs).
    { clear -Ev. revert Ev. generalize (t0 :: tr0). induction vs as [|v t IH]; intros ts E; cbn [map opt_all] in E.
      - injection E as <-. reflexivity.
      - destruct (ser_validator is_utf8 false v); [|discriminate]. destruct (opt_all _) as [tt|] eqn:Et; [|discriminate].
        injection E as <-. cbn [Datatypes.length]. rewrite (IH tt eq_refl). reflexivity. }
    cbn [app flat flat_map snd pos_claim_schema]. rewrite Hl, app_nil_r. cbn [flat_map] in Hp.
    rewrite Hp, Ht. reflexivity.
  Qed.

  (** ... and not when the (empty) validator list was skipped: the known finding's own example *)
  Theorem pos_claim_schema_skipped_refuted :
    exists c tr, claim_schema_skips c = true /\ ser_claim_schema is_utf8 false c = Some tr /\ pos_claim_schema (flat tr) = None.
  Proof.
    exists {| cs_type := THashed; cs_label := [110%Z; 97%Z; 109%Z; 101%Z]; cs_pf := true; cs_validators := [] |}.
    eexists. split; [reflexivity|]. split; reflexivity.
  Qed.
End SerdeProofs.
