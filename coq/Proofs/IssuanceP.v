From Coq Require Import ZArith List Bool NArith Lia.
From ACV Require Import Model.Res Model.Ints Model.Bytes Model.ClaimCodec Model.Registry Model.Issuance Proofs.RegistryP.
Import ListNotations.
Open Scope Z_scope.

Section IssuanceP.
  Variable rx_match : nat -> bytes -> bool.
  Variable is_utf8 : bytes -> bool.
  Variable idn : bytes -> id.

  (** specification: what "schema-conformant" means *)
  Definition passes (t : claim_schema) (c : claim) : Prop :=
    is_type c (cs_type t) = true /\ forall v, In v (cs_validators t) -> is_valid rx_match is_utf8 v c = Some true.
  Definition conformant (sch : list claim_schema) (claims : list claim) : Prop := Forall2 (fun c t => passes t c) claims sch.
  Definition rev_claims (claims : list claim) : list bytes :=
    flat_map (fun c => match c with CRevocation i => [i] | _ => [] end) claims.

  Lemma schema_valid_true vs c : forall acc,
    schema_valid rx_match is_utf8 vs c acc = Some true <->
    acc = true /\ forall v, In v vs -> is_valid rx_match is_utf8 v c = Some true.
  Proof.
    induction vs as [|v t IH]; intros acc; cbn [schema_valid].
    - split; [intros H; injection H as ->; split; [reflexivity|intros v []]|intros [-> _]; reflexivity].
    - destruct (is_valid rx_match is_utf8 v c) as [b|] eqn:E.
      + rewrite IH. split.
        * intros [H1 H2]. apply andb_true_iff in H1. destruct H1 as [-> ->]. split; [reflexivity|].
          intros v' [<-|Hv']; [exact E|apply H2; exact Hv'].
        * intros [-> H]. assert (Eb : Some b = Some true) by (rewrite <- E; apply H; left; reflexivity).
          injection Eb as ->. split; [reflexivity|intros v' Hv'; apply H; right; exact Hv'].
      + split; [discriminate|]. intros [_ H]. specialize (H v (or_introl eq_refl)). congruence.
  Qed.

  Lemma check_claims_ok cs : forall ts found r, length cs = length ts ->
    check_claims rx_match is_utf8 cs ts found = Ok r <->
    conformant ts cs /\
    match found, rev_claims cs with
    | None, [] => r = None
    | None, [i] => r = Some i
    | Some f, [] => r = Some f
    | _, _ => False
    end.
  Proof.
    induction cs as [|c ct IH]; intros ts found r Hl.
    - destruct ts; [|discriminate]. cbn. split.
      + intros H. injection H as <-. split; [constructor|]. destruct found; reflexivity.
      + intros [_ H]. destruct found; subst; reflexivity.
    - destruct ts as [|t ts1]; [discriminate|]. cbn [check_claims]. cbn in Hl.
      destruct (is_type c (cs_type t)) eqn:Et; cbn [negb].
      2:{ split; [discriminate|]. intros [H _]. inversion H as [|? ? ? ? [P _] _]; subst. congruence. }
      destruct (schema_valid rx_match is_utf8 (cs_validators t) c true) as [[|]|] eqn:Ev.
      2:{ split; [discriminate|]. intros [H _]. inversion H as [|? ? ? ? [_ P] _]; subst.
          assert (X : schema_valid rx_match is_utf8 (cs_validators t) c true = Some true) by (apply schema_valid_true; split; [reflexivity|exact P]).
          congruence. }
      2:{ split; [discriminate|]. intros [H _]. inversion H as [|? ? ? ? [_ P] _]; subst.
          assert (X : schema_valid rx_match is_utf8 (cs_validators t) c true = Some true) by (apply schema_valid_true; split; [reflexivity|exact P]).
          congruence. }
      apply schema_valid_true in Ev. destruct Ev as [_ Ev].
      assert (Pc : passes t c) by (split; assumption).
      assert (Hconf : forall X, (conformant (t :: ts1) (c :: ct) /\ X) <-> (conformant ts1 ct /\ X)).
      { intros X. split; intros [A B]; (split; [|exact B]); [inversion A; subst; assumption|constructor; assumption]. }
      destruct c as [v p|n|s|i|d v tot]; cbn [rev_claims flat_map app];
        try (rewrite Hconf; fold (rev_claims ct); apply IH; lia).
      destruct found as [f|].
      + split; [discriminate|]. intros [_ H]. exfalso. fold (rev_claims ct) in H. destruct (rev_claims ct); exact H.
      + rewrite Hconf. fold (rev_claims ct). rewrite (IH ts1 (Some i) r) by lia.
        destruct (rev_claims ct) as [|j l]; [reflexivity|]. split; intros [A B]; (split; [exact A|]); [destruct B|destruct l; exact B || destruct B].
  Qed.

  (** the issuer signs exactly the conformant vectors with exactly one revocation claim whose identifier
      has not been revoked; then it records that identifier and nothing else changes *)
  Theorem sign_decision sch s claims s' i :
    sign_credential rx_match is_utf8 idn sch s claims = Ok (s', i) <->
    length claims = length sch /\ conformant sch claims /\ rev_claims claims = [i] /\
    already_revoked s (idn i) = false /\ s' = record s (idn i).
  Proof.
    unfold sign_credential. destruct (Nat.eqb_spec (length claims) (length sch)) as [Hl|Hl]; cbn [negb].
    2:{ split; [discriminate|]. intros [H _]. contradiction. }
    destruct (check_claims rx_match is_utf8 claims sch None) as [[j|]| |] eqn:E.
    - apply (check_claims_ok claims sch None (Some j) Hl) in E. destruct E as [Hc Hr].
      destruct (rev_claims claims) as [|k [|k2 l]] eqn:Er; try contradiction; [discriminate|]. injection Hr as <-.
      destruct (already_revoked s (idn j)) eqn:A.
      + split; [discriminate|]. intros [_ [_ [Hi [Ha _]]]]. injection Hi as <-. congruence.
      + split.
        * intros H. injection H as <- <-. repeat split; assumption.
        * intros [_ [_ [Hi [_ ->]]]]. injection Hi as <-. reflexivity.
    - apply (check_claims_ok claims sch None None Hl) in E. destruct E as [Hc Hr].
      split; [discriminate|]. intros [_ [_ [Hi _]]]. rewrite Hi in Hr. discriminate.
    - split; [discriminate|]. intros [_ [Hc [Hi _]]].
      assert (X : check_claims rx_match is_utf8 claims sch None = Ok (Some i)).
      { apply (check_claims_ok claims sch None (Some i) Hl). split; [exact Hc|]. rewrite Hi. reflexivity. }
      congruence.
    - split; [discriminate|]. intros [_ [Hc [Hi _]]].
      assert (X : check_claims rx_match is_utf8 claims sch None = Ok (Some i)).
      { apply (check_claims_ok claims sch None (Some i) Hl). split; [exact Hc|]. rewrite Hi. reflexivity. }
      congruence.
  Qed.

  (** the modelled entry point never panics *)
  Theorem sign_no_panic sch s claims : sign_credential rx_match is_utf8 idn sch s claims <> Panic.
  Proof.
    unfold sign_credential. destruct (negb (Nat.eqb (length claims) (length sch))); [discriminate|].
    assert (H : forall cs ts f, check_claims rx_match is_utf8 cs ts f <> Panic).
    { induction cs as [|c ct IH]; intros ts f; cbn [check_claims]; [discriminate|]. destruct ts as [|t ts1]; [discriminate|].
      destruct (negb (is_type c (cs_type t))); [discriminate|].
      destruct (schema_valid rx_match is_utf8 (cs_validators t) c true) as [[|]|]; try discriminate.
      destruct c; try apply IH. destruct f; [discriminate|apply IH]. }
    destruct (check_claims rx_match is_utf8 claims sch None) as [[j|]| |] eqn:E; try discriminate.
    - destruct (already_revoked s (idn j)); discriminate.
    - exfalso. exact (H _ _ _ E).
  Qed.
  (** ---- blind issuance: the issuer's own claims ---- *)
  Definition known_passes (sch : list claim_schema) (jc : nat * claim) : Prop :=
    exists t, nth_error sch (fst jc) = Some t /\ passes t (snd jc).
  Lemma check_known_ok sch known : forall found r,
    check_known rx_match is_utf8 known sch found = Ok r <->
    Forall (known_passes sch) known /\
    match found, rev_claims (map snd known) with
    | None, [] => r = None
    | None, [i] => r = Some i
    | Some f, [] => r = Some f
    | _, _ => False
    end.
  Proof.
    induction known as [|[j c] t IH]; intros found r; cbn [check_known map snd].
    - cbn. split.
      + intros H. injection H as <-. split; [constructor|]. destruct found; reflexivity.
      + intros [_ H]. destruct found; subst; reflexivity.
    - destruct (nth_error sch j) as [ts|] eqn:En.
      2:{ split; [discriminate|]. intros [H _]. inversion H as [|? ? [t0 [P _]] _]; subst. cbn in P. congruence. }
      destruct (is_type c (cs_type ts)) eqn:Et; cbn [negb].
      2:{ split; [discriminate|]. intros [H _]. inversion H as [|? ? [t0 [P [Q _]]] _]; subst. cbn in P, Q. congruence. }
      destruct (schema_valid rx_match is_utf8 (cs_validators ts) c true) as [[|]|] eqn:Ev.
      2,3: split; [discriminate|]; intros [H _]; inversion H as [|? ? [t0 [P [_ Q]]] _]; subst; cbn in P, Q;
           assert (t0 = ts) by congruence; subst t0;
           assert (X : schema_valid rx_match is_utf8 (cs_validators ts) c true = Some true) by (apply schema_valid_true; split; [reflexivity|exact Q]);
           congruence.
      apply schema_valid_true in Ev. destruct Ev as [_ Ev].
      assert (Pc : known_passes sch (j, c)) by (exists ts; cbn; split; [exact En|split; assumption]).
      assert (Hconf : forall X, (Forall (known_passes sch) ((j, c) :: t) /\ X) <-> (Forall (known_passes sch) t /\ X)).
      { intros X. split; intros [A B]; (split; [|exact B]); [inversion A; subst; assumption|constructor; assumption]. }
      destruct c as [v p|n|sc|i|d v tot]; cbn [rev_claims flat_map app];
        try (rewrite Hconf; fold (rev_claims (map snd t)); apply IH).
      destruct found as [f|].
      + split; [discriminate|]. intros [_ H]. exfalso. fold (rev_claims (map snd t)) in H. destruct (rev_claims (map snd t)); exact H.
      + rewrite Hconf. fold (rev_claims (map snd t)). rewrite (IH (Some i) r).
        destruct (rev_claims (map snd t)) as [|k l]; [reflexivity|]. split; intros [A B]; (split; [exact A|]); [destruct B|destruct l; exact B || destruct B].
  Qed.

  (** the decision of blind issuance, for every schema, label policy, request and map of issuer-supplied
      claims: signed exactly when the counts add up, the label policy holds, every issuer-supplied claim
      passes the type check and all validators at its own position, exactly one of them is a revocation
      claim, its identifier has not been revoked and the suite accepts the request's context *)
  Theorem blind_sign_decision sch blindable s req known ctx_ok s' i :
    blind_sign_credential rx_match is_utf8 idn sch blindable s req known ctx_ok = Ok (s', i) <->
    (length req + length known = length sch)%nat /\ labels_ok blindable req (map fst known) [] = true /\
    Forall (known_passes sch) known /\ rev_claims (map snd known) = [i] /\
    already_revoked s (idn i) = false /\ ctx_ok = true /\ s' = record s (idn i).
  Proof.
    unfold blind_sign_credential.
    destruct (Nat.eqb_spec (length req + length known) (length sch)) as [Hl|Hl]; cbn [negb].
    2:{ split; [discriminate|]. intros [H _]. contradiction. }
    destruct (labels_ok blindable req (map fst known) []) eqn:Lp; cbn [negb].
    2:{ split; [discriminate|]. intros [_ [H _]]. discriminate. }
    destruct (check_known rx_match is_utf8 known sch None) as [[j|]| |] eqn:E.
    - apply check_known_ok in E. destruct E as [Hc Hr].
      destruct (rev_claims (map snd known)) as [|k [|k2 l]] eqn:Er; try contradiction; [discriminate|]. injection Hr as <-.
      destruct (already_revoked s (idn j)) eqn:A.
      + split; [discriminate|]. intros [_ [_ [_ [Hi [Ha _]]]]]. injection Hi as <-. congruence.
      + destruct ctx_ok.
        * split.
          -- intros H. injection H as <- <-. repeat split; try assumption; reflexivity.
          -- intros [_ [_ [_ [Hi [_ [_ ->]]]]]]. injection Hi as <-. reflexivity.
        * split; [discriminate|]. intros [_ [_ [_ [_ [_ [H _]]]]]]. discriminate.
    - apply check_known_ok in E. destruct E as [Hc Hr].
      split; [discriminate|]. intros [_ [_ [_ [Hi _]]]]. rewrite Hi in Hr. discriminate.
    - split; [discriminate|]. intros [_ [_ [Hc [Hi _]]]].
      assert (X : check_known rx_match is_utf8 known sch None = Ok (Some i)) by (apply check_known_ok; split; [exact Hc|rewrite Hi; reflexivity]).
      congruence.
    - split; [discriminate|]. intros [_ [_ [Hc [Hi _]]]].
      assert (X : check_known rx_match is_utf8 known sch None = Ok (Some i)) by (apply check_known_ok; split; [exact Hc|rewrite Hi; reflexivity]).
      congruence.
  Qed.

  Theorem blind_sign_no_panic sch blindable s req known ctx_ok :
    blind_sign_credential rx_match is_utf8 idn sch blindable s req known ctx_ok <> Panic.
  Proof.
    unfold blind_sign_credential. destruct (negb _); [discriminate|]. destruct (negb _); [discriminate|].
    assert (H : forall k f, check_known rx_match is_utf8 k sch f <> Panic).
    { induction k as [|[j c] t IH]; intros f; cbn [check_known]; [discriminate|].
      destruct (nth_error sch j) as [ts|]; [|discriminate]. destruct (negb _); [discriminate|].
      destruct (schema_valid rx_match is_utf8 (cs_validators ts) c true) as [[|]|]; try discriminate.
      destruct c; try apply IH. destruct f; [discriminate|apply IH]. }
    destruct (check_known rx_match is_utf8 known sch None) as [[j|]| |] eqn:E; try discriminate.
    - destruct (already_revoked s (idn j)); [discriminate|]. destruct ctx_ok; discriminate.
    - exfalso. exact (H _ _ E).
  Qed.

  (** the holder never gets to choose a value the issuer policy withholds: an accepted request names only
      blindable labels, none of them supplied by the issuer, none twice *)
  Lemma labels_ok_spec blindable known_labels req : forall seen,
    labels_ok blindable req known_labels seen = true ->
    (forall l, In l req -> In l blindable /\ ~ In l known_labels /\ ~ In l seen) /\ NoDup req.
  Proof.
    induction req as [|l t IH]; intros seen H; cbn [labels_ok] in H.
    - split; [intros l []|constructor].
    - repeat (apply andb_true_iff in H; destruct H as [H ?]).
      match goal with X : labels_ok _ _ _ _ = true |- _ => destruct (IH _ X) as [I1 I2] end.
      assert (Hin : forall (x : nat) L, existsb (Nat.eqb x) L = true <-> In x L).
      { intros x L. rewrite existsb_exists. split; [intros [y [Hy E]]; apply Nat.eqb_eq in E; subst; exact Hy|intros Hx; exists x; split; [exact Hx|apply Nat.eqb_refl]]. }
      split.
      + intros x [<-|Hx].
        * repeat split; [apply Hin; assumption| |]; intros C; apply Hin in C;
            match goal with X : negb _ = true |- _ => rewrite C in X; discriminate X end.
        * destruct (I1 x Hx) as [A [B C0]]. repeat split; [exact A|exact B|]. intros Hs. apply C0. right. exact Hs.
      + constructor; [|exact I2]. intros Hx. destruct (I1 l Hx) as [_ [_ C0]]. apply C0. left. reflexivity.
  Qed.
End IssuanceP.

(** CredentialSchema::new succeeds exactly for a non-empty duplicate-free label list containing every
    blindable label *)
Theorem schema_new_spec labels blind : schema_new labels blind = true <->
  labels <> [] /\ NoDup labels /\ incl blind labels.
Proof.
  unfold schema_new. rewrite !andb_true_iff, negb_true_iff, nodupb_NoDup, forallb_forall. split.
  - intros [[H1 H2] H3]. repeat split; [intros ->; discriminate|exact H2|]. intros b Hb. apply mem_In. apply H3. exact Hb.
  - intros [H1 [H2 H3]]. repeat split; [destruct labels; [contradiction|reflexivity]|exact H2|].
    intros b Hb. apply mem_In. apply H3. exact Hb.
Qed.
