From Coq Require Import List Bool Arith Lia.
From ACV Require Import Model.Field Model.Res Model.Pres.
Import ListNotations.

Section PresP.
Variable K : fops.
Hypothesis Keq : feqb_ok K.

Lemma list_eqb_nat (l l' : list nat) : list_eqb Nat.eqb l l' = true <-> l = l'.
Proof.
  revert l'. induction l as [|a t IH]; intros [|b t']; cbn [list_eqb]; split; intros H; try reflexivity; try discriminate.
  - apply andb_true_iff in H. destruct H as [H1 H2]. apply Nat.eqb_eq in H1. apply IH in H2. congruence.
  - injection H as -> ->. rewrite Nat.eqb_refl. apply IH. reflexivity.
Qed.

Lemma list_eqb_K (l l' : list K) : list_eqb (feqb K) l l' = true <-> l = l'.
Proof.
  revert l'. induction l as [|a t IH]; intros [|b t']; cbn [list_eqb]; split; intros H; try reflexivity; try discriminate.
  - apply andb_true_iff in H. destruct H as [H1 H2]. apply Keq in H1. apply IH in H2. congruence.
  - injection H as -> ->. apply andb_true_iff. split; [apply Keq; reflexivity|apply IH; reflexivity].
Qed.

(** ---- what acceptance implies, statement by statement ---------------------------------- *)
Lemma sig_pass_sound S P it : sig_pass K S P = Some it ->
  forall sid pk req, In (SSig K sid pk req) S ->
  exists sp rep, lookup sid (proofs K P) = Some (PSig K sp) /\ lookup sid (reported K P) = Some rep /\
                 disclosed_consistent K pk req rep (sp_disclosed K sp) = true.
Proof.
  revert it. induction S as [|s t IH]; intros it H sid pk req Hin; [destruct Hin|].
  destruct Hin as [->|Hin].
  - cbn [sig_pass] in H. destruct (lookup sid (proofs K P)) as [[sp| | | | |]|] eqn:E1; try discriminate.
    destruct (lookup sid (reported K P)) as [rep|] eqn:E2; try discriminate.
    destruct (disclosed_consistent K pk req rep (sp_disclosed K sp)) eqn:E3; try discriminate.
    exists sp, rep. repeat split; assumption.
  - destruct s as [sid' pk' req'| | | |]; cbn [sig_pass] in H.
    + destruct (lookup sid' (proofs K P)) as [[sp'| | | | |]|]; try discriminate.
      destruct (lookup sid' (reported K P)) as [rep'|]; try discriminate.
      destruct (disclosed_consistent K pk' req' rep' (sp_disclosed K sp')); try discriminate.
      destruct (sig_pass K t P) as [it'|] eqn:E; [|discriminate]. apply (IH it' eq_refl sid pk req Hin).
    + apply (IH it H sid pk req Hin).
    + apply (IH it H sid pk req Hin).
    + apply (IH it H sid pk req Hin).
    + apply (IH it H sid pk req Hin).
Qed.

(** one step of pred_pass, whatever the head statement is: it either fails or prepends some items *)
Lemma pred_pass_step S0 s t P it : pred_pass K S0 (s :: t) P = Some it ->
  exists pre it', pred_pass K S0 t P = Some it' /\ it = pre ++ it'.
Proof.
  destruct s as [sid pk req|sid refs|sid ref claim gm gb|sid ref claim gm ek al|sid ref claim]; cbn [pred_pass]; intros H.
  - exists [], it. split; [exact H|reflexivity].
  - destruct (lookup sid (proofs K P)) as [p|]; [destruct p|]; try discriminate. exists [], it. split; [exact H|reflexivity].
  - destruct (lookup sid (proofs K P)) as [p|]; [destruct p as [| |pid cm bp| | |]|]; try discriminate.
    destruct (sig_hidden K S0 P ref) as [hid|]; try discriminate.
    destruct (lookup claim hid) as [mp|]; try discriminate.
    destruct (pred_pass K S0 t P) as [it'|]; [|discriminate]. injection H as <-.
    exists [cm; fadd K (fadd K (fmul K cm (fopp K (challenge K P))) (fmul K gm mp)) (fmul K gb bp)], it'. split; reflexivity.
  - destruct (lookup sid (proofs K P)) as [p|]; [destruct p as [| | |pid c1 c2 bp hp| |]|]; try discriminate.
    destruct (sig_hidden K S0 P ref) as [hid|]; try discriminate.
    destruct (lookup claim hid) as [mp|]; try discriminate.
    destruct (pred_pass K S0 t P) as [it'|]; [|discriminate]. injection H as <-.
    exists [c1; c2; fadd K (fmul K c1 (fopp K (challenge K P))) bp; fadd K (fadd K (fmul K c2 (fopp K (challenge K P))) (fmul K gm mp)) (fmul K ek bp)], it'.
    split; reflexivity.
  - destruct (lookup sid (proofs K P)) as [p|]; [destruct p as [| | | | |pid sy fin]|]; try discriminate.
    destruct (sig_hidden K S0 P ref) as [hid|]; try discriminate.
    destruct (lookup claim hid) as [mp|]; try discriminate.
    destruct (pred_pass K S0 t P) as [it'|]; [|discriminate]. injection H as <-.
    exists [fin], it'. split; reflexivity.
Qed.

Lemma pred_pass_rev S0 S P it : pred_pass K S0 S P = Some it ->
  forall sid ref claim, In (SRev K sid ref claim) S ->
  exists pid sy fin hid mp, lookup sid (proofs K P) = Some (PRev K pid sy fin) /\
    sig_hidden K S0 P ref = Some hid /\ lookup claim hid = Some mp /\ In fin it.
Proof.
  revert it. induction S as [|s t IH]; intros it H sid ref claim Hin; [destruct Hin|].
  destruct Hin as [->|Hin].
  - cbn [pred_pass] in H. destruct (lookup sid (proofs K P)) as [p|] eqn:E1; [destruct p as [| | | | |pid sy fin]|]; try discriminate.
    destruct (sig_hidden K S0 P ref) as [hid|] eqn:E2; try discriminate.
    destruct (lookup claim hid) as [mp|] eqn:E3; try discriminate.
    destruct (pred_pass K S0 t P) as [it'|]; [|discriminate]. injection H as <-.
    exists pid, sy, fin, hid, mp. repeat split; try assumption; cbn; auto.
  - destruct (pred_pass_step S0 s t P it H) as [pre [it' [Ht ->]]].
    destruct (IH it' Ht _ _ _ Hin) as [pid [sy [fin [hid [mp [A [B [C D]]]]]]]].
    exists pid, sy, fin, hid, mp. repeat split; try assumption; apply in_or_app; right; assumption.
Qed.

Lemma pred_pass_comm S0 S P it : pred_pass K S0 S P = Some it ->
  forall sid ref claim gm gb, In (SComm K sid ref claim gm gb) S ->
  exists pid cm bp hid mp, lookup sid (proofs K P) = Some (PComm K pid cm bp) /\
    sig_hidden K S0 P ref = Some hid /\ lookup claim hid = Some mp /\
    In (fadd K (fadd K (fmul K cm (fopp K (challenge K P))) (fmul K gm mp)) (fmul K gb bp)) it /\ In cm it.
Proof.
  revert it. induction S as [|s t IH]; intros it H sid ref claim gm gb Hin; [destruct Hin|].
  destruct Hin as [->|Hin].
  - cbn [pred_pass] in H. destruct (lookup sid (proofs K P)) as [p|] eqn:E1; [destruct p as [| |pid cm bp| | |]|]; try discriminate.
    destruct (sig_hidden K S0 P ref) as [hid|] eqn:E2; try discriminate.
    destruct (lookup claim hid) as [mp|] eqn:E3; try discriminate.
    destruct (pred_pass K S0 t P) as [it'|]; [|discriminate]. injection H as <-.
    exists pid, cm, bp, hid, mp. repeat split; try assumption; cbn; auto.
  - destruct (pred_pass_step S0 s t P it H) as [pre [it' [Ht ->]]].
    destruct (IH it' Ht _ _ _ _ _ Hin) as [pid [cm [bp [hid [mp [A [B [C [D E']]]]]]]]].
    exists pid, cm, bp, hid, mp. repeat split; try assumption; apply in_or_app; right; assumption.
Qed.

Lemma pred_pass_venc S0 S P it : pred_pass K S0 S P = Some it ->
  forall sid ref claim gm ek al, In (SVenc K sid ref claim gm ek al) S ->
  exists pid c1 c2 bp hp hid mp, lookup sid (proofs K P) = Some (PVenc K pid c1 c2 bp hp) /\
    sig_hidden K S0 P ref = Some hid /\ lookup claim hid = Some mp /\
    In c1 it /\ In c2 it /\
    In (fadd K (fmul K c1 (fopp K (challenge K P))) bp) it /\
    In (fadd K (fadd K (fmul K c2 (fopp K (challenge K P))) (fmul K gm mp)) (fmul K ek bp)) it.
Proof.
  revert it. induction S as [|s t IH]; intros it H sid ref claim gm ek al Hin; [destruct Hin|].
  destruct Hin as [->|Hin].
  - cbn [pred_pass] in H. destruct (lookup sid (proofs K P)) as [p|] eqn:E1; [destruct p as [| | |pid c1 c2 bp hp| |]|]; try discriminate.
    destruct (sig_hidden K S0 P ref) as [hid|] eqn:E2; try discriminate.
    destruct (lookup claim hid) as [mp|] eqn:E3; try discriminate.
    destruct (pred_pass K S0 t P) as [it'|]; [|discriminate]. injection H as <-.
    exists pid, c1, c2, bp, hp, hid, mp. repeat split; try assumption; cbn; auto.
  - destruct (pred_pass_step S0 s t P it H) as [pre [it' [Ht ->]]].
    destruct (IH it' Ht _ _ _ _ _ _ Hin) as [pid [c1 [c2 [bp [hp [hid [mp [A [B [C [D1 [D2 [D3 D4]]]]]]]]]]]]].
    exists pid, c1, c2, bp, hp, hid, mp. repeat split; try assumption; apply in_or_app; right; assumption.
Qed.

Lemma pred_pass_eq S0 S P it : pred_pass K S0 S P = Some it ->
  forall sid refs, In (SEq K sid refs) S -> exists pid, lookup sid (proofs K P) = Some (PEq K pid).
Proof.
  revert it. induction S as [|s t IH]; intros it H sid refs Hin; [destruct Hin|].
  destruct Hin as [->|Hin].
  - cbn [pred_pass] in H. destruct (lookup sid (proofs K P)) as [p|] eqn:E1; [destruct p as [|pid| | | |]|]; try discriminate. exists pid. reflexivity.
  - destruct (pred_pass_step S0 s t P it H) as [pre [it' [Ht ->]]]. apply (IH it' Ht _ _ Hin).
Qed.

Lemma accept_ids S P fs : verify_with K S P fs = Accept -> ids_ok K P = true.
Proof. unfold verify_with, items. destruct (ids_ok K P); [reflexivity|discriminate]. Qed.

Lemma accept_inv S P fs : verify_with K S P fs = Accept ->
  exists a b, sig_pass K S P = Some a /\ pred_pass K S S P = Some b /\ fs (Some (a ++ b)) = true /\ post K S P = true.
Proof.
  unfold verify_with, items. destruct (ids_ok K P); [|discriminate]. destruct (sig_pass K S P) as [a|]; [|discriminate].
  destruct (pred_pass K S S P) as [b|]; [|discriminate].
  destruct (fs (Some (a ++ b))) eqn:F; [|discriminate]. destruct (post K S P) eqn:Po; [|discriminate].
  intros _. exists a, b. repeat split; assumption.
Qed.

(** C01: every signature statement is matched with a signature proof that passes the proof-of-knowledge
    checks (so a proof of another variant, or none, under a signature id is never accepted) *)
Theorem accept_dispatch S P fs : verify_with K S P fs = Accept ->
  forall sid pk req, In (SSig K sid pk req) S ->
  exists sp rep, lookup sid (proofs K P) = Some (PSig K sp) /\ lookup sid (reported K P) = Some rep /\
    disclosed_consistent K pk req rep (sp_disclosed K sp) = true /\
    pok_verify K pk sp (challenge K P) = true.
Proof.
  intros H sid pk req Hin. destruct (accept_inv S P fs H) as [a [b [Ha [Hb [_ Hp]]]]].
  destruct (sig_pass_sound S P a Ha sid pk req Hin) as [sp [rep [E1 [E2 E3]]]].
  exists sp, rep. repeat split; try assumption.
  unfold post in Hp. rewrite forallb_forall in Hp. specialize (Hp _ Hin). cbn [post_one] in Hp. rewrite E1 in Hp. exact Hp.
Qed.

(** the challenge comparison has passed on exactly the recomputed item list *)
Theorem accept_fs S P fs : verify_with K S P fs = Accept ->
  exists it, items K S P = Some it /\ fs (Some it) = true.
Proof.
  intros H. destruct (accept_inv S P fs H) as [a [b [Ha [Hb [Hf _]]]]]. exists (a ++ b).
  unfold items. rewrite (accept_ids S P fs H), Ha, Hb. split; [reflexivity|exact Hf].
Qed.

(** response-vector length is forced *)
Theorem pok_verify_length pk sp c : pok_verify K pk sp c = true ->
  length (pok_resp K (sp_pok K sp)) = hidden_count K pk (sp_disclosed K sp) + 2.
Proof.
  unfold pok_verify. destruct (sp_pok K sp) as [a b t resp|s1 s2 cm resp]; cbn [pok_resp]; intros H;
    repeat (apply andb_true_iff in H; destruct H as [H ?]);
    match goal with Hl : Nat.eqb _ _ = true |- _ => apply Nat.eqb_eq in Hl; exact Hl end.
Qed.

(** C02: the reported claims are exactly the requested ones, with the scalars the proof of knowledge
    is checked against *)
Lemma ascending_lookup_len (req : list nat) (rep : list (nat * K)) : True.
Proof. exact I. Qed.

Theorem consistent_inv pk req rep disc : disclosed_consistent K pk req rep disc = true ->
  map fst disc = req /\ length rep = length req /\ ascending req = true /\
  forall i, In i req -> exists v, lookup i rep = Some v /\ lookup i disc = Some v.
Proof.
  unfold disclosed_consistent. intros H.
  apply andb_true_iff in H. destruct H as [H H4]. apply andb_true_iff in H. destruct H as [H H3].
  apply andb_true_iff in H. destruct H as [H1 H2].
  apply list_eqb_nat in H2. apply Nat.eqb_eq in H3. repeat split; try assumption.
  intros i Hi. rewrite forallb_forall in H4. specialize (H4 i Hi).
  destruct (lookup i rep) as [v|]; [|discriminate]. destruct (lookup i disc) as [v'|]; [|discriminate].
  apply Keq in H4. subst v'. exists v. split; reflexivity.
Qed.

Theorem accept_disclosed S P fs : verify_with K S P fs = Accept ->
  forall sid pk req, In (SSig K sid pk req) S ->
  exists sp rep, lookup sid (proofs K P) = Some (PSig K sp) /\ lookup sid (reported K P) = Some rep /\
    map fst (sp_disclosed K sp) = req /\ length rep = length req /\
    (forall i, In i req -> exists v, lookup i rep = Some v /\ lookup i (sp_disclosed K sp) = Some v) /\
    pok_verify K pk sp (challenge K P) = true.
Proof.
  intros H sid pk req Hin. destruct (accept_dispatch S P fs H sid pk req Hin) as [sp [rep [E1 [E2 [E3 E4]]]]].
  destruct (consistent_inv pk req rep _ E3) as [A [B [_ C]]].
  exists sp, rep. repeat split; assumption.
Qed.

(** C09: all referenced hidden-claim responses are one and the same scalar *)
Theorem accept_equality S P fs : verify_with K S P fs = Accept ->
  forall sid refs, In (SEq K sid refs) S ->
  refs <> [] /\ exists v, forall r c, In (r, c) refs ->
    exists hid, sig_hidden K S P r = Some hid /\ lookup c hid = Some v.
Proof.
  intros H sid refs Hin. destruct (accept_inv S P fs H) as [a [b [_ [_ [_ Hp]]]]].
  unfold post in Hp. rewrite forallb_forall in Hp. specialize (Hp _ Hin). cbn [post_one] in Hp.
  unfold eq_verify in Hp. destruct refs as [|[r0 c0] rest]; [discriminate|]. split; [congruence|].
  cbn [map fst snd] in Hp. destruct (sig_hidden K S P r0) as [hid0|] eqn:E0; [|discriminate].
  destruct (lookup c0 hid0) as [v|] eqn:L0; [|discriminate]. exists v.
  intros r c [E|Hrc].
  - injection E as <- <-. exists hid0. split; assumption.
  - rewrite forallb_forall in Hp.
    specialize (Hp _ (in_map (fun rc => match sig_hidden K S P (fst rc) with Some hid => lookup (snd rc) hid | None => None end) rest (r, c) Hrc)).
    cbn [fst snd] in Hp. destruct (sig_hidden K S P r) as [hid|]; [|discriminate].
    destruct (lookup c hid) as [v'|] eqn:L; [|discriminate]. apply Keq in Hp. subst v'. exists hid. split; [reflexivity|exact L].
Qed.

(** C05: a commitment statement's recomputed Schnorr commitment uses the response that the referenced
    signature proof carries for the referenced claim index *)
Theorem accept_commitment_link S P fs : verify_with K S P fs = Accept ->
  forall sid ref claim gm gb, In (SComm K sid ref claim gm gb) S ->
  exists pid cm bp hid mp it, lookup sid (proofs K P) = Some (PComm K pid cm bp) /\
    sig_hidden K S P ref = Some hid /\ lookup claim hid = Some mp /\
    items K S P = Some it /\ fs (Some it) = true /\
    In (fadd K (fadd K (fmul K cm (fopp K (challenge K P))) (fmul K gm mp)) (fmul K gb bp)) it /\ In cm it.
Proof.
  intros H sid ref claim gm gb Hin. destruct (accept_inv S P fs H) as [a [b [Ha [Hb [Hf _]]]]].
  destruct (pred_pass_comm S S P b Hb _ _ _ _ _ Hin) as [pid [cm [bp [hid [mp [A [B [C [D E]]]]]]]]].
  exists pid, cm, bp, hid, mp, (a ++ b). unfold items. rewrite (accept_ids S P fs H), Ha, Hb.
  repeat split; try assumption; apply in_or_app; right; assumption.
Qed.

(** C10 / C05: an encryption statement's hashed Schnorr commitments are computed with the referenced claim's
    response, and a statement that requests scalar decryption is only satisfied by a proof carrying the
    decryptable part *)
Theorem accept_venc_link S P fs : verify_with K S P fs = Accept ->
  forall sid ref claim gm ek al, In (SVenc K sid ref claim gm ek al) S ->
  exists pid c1 c2 bp hp hid mp it, lookup sid (proofs K P) = Some (PVenc K pid c1 c2 bp hp) /\
    sig_hidden K S P ref = Some hid /\ lookup claim hid = Some mp /\
    items K S P = Some it /\ fs (Some it) = true /\ In c1 it /\ In c2 it /\
    In (fadd K (fmul K c1 (fopp K (challenge K P))) bp) it /\
    In (fadd K (fadd K (fmul K c2 (fopp K (challenge K P))) (fmul K gm mp)) (fmul K ek bp)) it /\
    (al = true -> hp = true).
Proof.
  intros H sid ref claim gm ek al Hin. destruct (accept_inv S P fs H) as [a [b [Ha [Hb [Hf Hp]]]]].
  destruct (pred_pass_venc S S P b Hb _ _ _ _ _ _ Hin) as [pid [c1 [c2 [bp [hp [hid [mp [A [B [C [D1 [D2 [D3 D4]]]]]]]]]]]]].
  exists pid, c1, c2, bp, hp, hid, mp, (a ++ b). unfold items. rewrite (accept_ids S P fs H), Ha, Hb.
  repeat split; try assumption; try (apply in_or_app; right; assumption).
  intros ->. unfold post in Hp. rewrite forallb_forall in Hp. specialize (Hp _ Hin). cbn [post_one] in Hp. rewrite A in Hp.
  destruct hp; [reflexivity|discriminate].
Qed.
(** C05 / C06: a revocation (or set-membership) statement is only satisfied by an accumulator proof whose element
    response IS the response the referenced signature proof carries for the referenced claim, and whose recomputed
    commitments went into the challenge *)
Theorem accept_revocation_link S P fs : verify_with K S P fs = Accept ->
  forall sid ref claim, In (SRev K sid ref claim) S ->
  exists pid fin hid mp it, lookup sid (proofs K P) = Some (PRev K pid mp fin) /\
    sig_hidden K S P ref = Some hid /\ lookup claim hid = Some mp /\
    items K S P = Some it /\ fs (Some it) = true /\ In fin it.
Proof.
  intros H sid ref claim Hin. destruct (accept_inv S P fs H) as [a [b [Ha [Hb [Hf Hp]]]]].
  destruct (pred_pass_rev S S P b Hb _ _ _ Hin) as [pid [sy [fin [hid [mp [A [B [C D]]]]]]]].
  unfold post in Hp. rewrite forallb_forall in Hp. specialize (Hp _ Hin). cbn [post_one] in Hp. rewrite A, B, C in Hp.
  apply Keq in Hp. subst sy.
  exists pid, fin, hid, mp, (a ++ b). unfold items. rewrite (accept_ids S P fs H), Ha, Hb.
  repeat split; try assumption. apply in_or_app; right; assumption.
Qed.

(** ... and never by a proof of another kind, or by one whose element response differs *)
Theorem revocation_response_mismatch_rejected S P fs sid ref claim pid sy fin hid mp :
  In (SRev K sid ref claim) S -> lookup sid (proofs K P) = Some (PRev K pid sy fin) ->
  sig_hidden K S P ref = Some hid -> lookup claim hid = Some mp -> sy <> mp ->
  verify_with K S P fs <> Accept.
Proof.
  intros Hin A B C Hne H. destruct (accept_revocation_link S P fs H _ _ _ Hin) as [pid' [fin' [hid' [mp' [it [A' [B' [C' _]]]]]]]].
  rewrite A in A'. rewrite B in B'. injection B' as <-. rewrite C in C'. injection C' as <-. injection A' as _ E _. contradiction.
Qed.
End PresP.
