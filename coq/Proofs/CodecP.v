(** Round-trip theorems for the hand-written byte codecs (C19). *)
From Coq Require Import ZArith List Bool Arith Lia.
From ACV Require Import Model.Ints Model.Bytes Model.ClaimCodec Model.Codec Proofs.BytesP.
Import ListNotations.
Local Open Scope nat_scope.

(** what is assumed of a leaf codec: fixed width, decode after encode, canonical encodings *)
Record leaf_ok {A} (L : leaf A) (wf : A -> Prop) : Prop := {
  lo_pos : 0 < l_w L;
  lo_len : forall a, length (l_enc L a) = l_w L;
  lo_dec : forall a, wf a -> l_dec L (l_enc L a) = Some a;
  lo_can : forall b a, length b = l_w L -> l_dec L b = Some a -> l_enc L a = b /\ wf a
}.

Lemma take_app n a b : length a = n -> take n (a ++ b) = Some (a, b).
Proof.
  intros <-. unfold take. rewrite app_length.
  replace (length a <=? length a + length b) with true by (symmetry; apply Nat.leb_le; lia).
  rewrite firstn_app, Nat.sub_diag, firstn_all, firstn_O, app_nil_r.
  rewrite skipn_app, Nat.sub_diag, skipn_all, skipn_O. reflexivity.
Qed.

Lemma take_inv n l h t : take n l = Some (h, t) -> l = h ++ t /\ length h = n.
Proof.
  unfold take. destruct (Nat.leb_spec n (length l)) as [H|H]; [|discriminate].
  intros E. injection E as <- <-. split; [symmetry; apply firstn_skipn|apply firstn_length_le; exact H].
Qed.

Section Leaf.
  Context {A : Type} (L : leaf A) (wf : A -> Prop) (HL : leaf_ok L wf).

  Lemma rd_enc a t : wf a -> rd L (l_enc L a ++ t) = Some (a, t).
  Proof. intros H. unfold rd. rewrite take_app by apply (lo_len L wf HL). rewrite (lo_dec L wf HL) by exact H. reflexivity. Qed.

  Lemma rd_inv l a t : rd L l = Some (a, t) -> l = l_enc L a ++ t /\ wf a.
  Proof.
    unfold rd. destruct (take (l_w L) l) as [[h t']|] eqn:E; [|discriminate].
    destruct (l_dec L h) as [a'|] eqn:D; [|discriminate]. intros X. injection X as <- <-.
    apply take_inv in E. destruct E as [-> Hh].
    destruct (lo_can L wf HL h a' Hh D) as [<- Hw]. split; [reflexivity|exact Hw].
  Qed.

  Lemma wr_n_length xs : length (wr_n L xs) = l_w L * length xs.
  Proof.
    induction xs as [|x t IH]; cbn [wr_n map concat length]; [lia|].
    rewrite app_length, (lo_len L wf HL). fold (wr_n L t). rewrite IH. lia.
  Qed.

  Lemma rd_n_enc xs : forall t, Forall wf xs -> rd_n L (length xs) (wr_n L xs ++ t) = Some (xs, t).
  Proof.
    induction xs as [|x r IH]; intros t H; [reflexivity|].
    inversion H as [|? ? Hx Hr]; subst. cbn [length rd_n wr_n map concat]. rewrite <- app_assoc.
    rewrite rd_enc by exact Hx. fold (wr_n L r). rewrite IH by exact Hr. reflexivity.
  Qed.

  Lemma rd_n_inv n : forall l xs t, rd_n L n l = Some (xs, t) -> l = wr_n L xs ++ t /\ length xs = n /\ Forall wf xs.
  Proof.
    induction n as [|n IH]; intros l xs t; cbn [rd_n].
    - intros E. injection E as <- <-. repeat split. constructor.
    - destruct (rd L l) as [[a t1]|] eqn:E1; [|discriminate].
      destruct (rd_n L n t1) as [[r t2]|] eqn:E2; [|discriminate].
      intros X. injection X as <- <-. apply rd_inv in E1. destruct E1 as [-> Ha].
      destruct (IH _ _ _ E2) as (-> & Hl & Hr). cbn [wr_n map concat length]. rewrite <- app_assoc.
      repeat split; [lia|constructor; assumption].
  Qed.

  Lemma tail_enc xs : Forall wf xs -> tail_dec L (wr_n L xs) = Some xs.
  Proof.
    intros H. unfold tail_dec. rewrite wr_n_length.
    pose proof (lo_pos L wf HL) as Hp.
    rewrite Nat.mul_comm, Nat.mod_mul by lia. cbn [Nat.eqb negb].
    rewrite Nat.div_mul by lia.
    rewrite <- (app_nil_r (wr_n L xs)). rewrite rd_n_enc by exact H. reflexivity.
  Qed.

  Lemma tail_inv l xs : tail_dec L l = Some xs -> l = wr_n L xs /\ Forall wf xs.
  Proof.
    unfold tail_dec. pose proof (lo_pos L wf HL) as Hp.
    destruct (Nat.eqb (length l mod l_w L) 0) eqn:M; cbn [negb]; [|discriminate].
    apply Nat.eqb_eq in M.
    destruct (rd_n L (length l / l_w L) l) as [[ys t]|] eqn:E; [|discriminate].
    intros X. injection X as <-. destruct (rd_n_inv _ _ _ _ E) as (Hl & Hn & Hw).
    split; [|exact Hw].
    (* nothing is left over: the lengths add up *)
    assert (Ht : length t = 0).
    { assert (Hlen : length l = l_w L * length ys + length t) by (rewrite Hl at 1; rewrite app_length, wr_n_length; reflexivity).
      pose proof (Nat.div_mod (length l) (l_w L) ltac:(lia)) as Hdm. rewrite M in Hdm. rewrite <- Hn in Hdm. lia. }
    destruct t; [|discriminate]. rewrite app_nil_r in Hl. exact Hl.
  Qed.
End Leaf.

(** the encode-then-decode half alone (for a leaf whose decoder also accepts other encodings) *)
Record leaf_rt {A} (L : leaf A) (wf : A -> Prop) : Prop := {
  lr_pos : 0 < l_w L;
  lr_len : forall a, length (l_enc L a) = l_w L;
  lr_dec : forall a, wf a -> l_dec L (l_enc L a) = Some a
}.

Section LeafRt.
  Context {A : Type} (L : leaf A) (wf : A -> Prop) (HL : leaf_rt L wf).

  Lemma rd_enc' a t : wf a -> rd L (l_enc L a ++ t) = Some (a, t).
  Proof. intros H. unfold rd. rewrite take_app by apply (lr_len L wf HL). rewrite (lr_dec L wf HL) by exact H. reflexivity. Qed.

  Lemma wr_n_length' xs : length (wr_n L xs) = l_w L * length xs.
  Proof.
    induction xs as [|x t IH]; cbn [wr_n map concat length]; [lia|].
    rewrite app_length, (lr_len L wf HL). fold (wr_n L t). rewrite IH. lia.
  Qed.

  Lemma rd_n_enc' xs : forall t, Forall wf xs -> rd_n L (length xs) (wr_n L xs ++ t) = Some (xs, t).
  Proof.
    induction xs as [|x r IH]; intros t H; [reflexivity|].
    inversion H as [|? ? Hx Hr]; subst. cbn [length rd_n wr_n map concat]. rewrite <- app_assoc.
    rewrite rd_enc' by exact Hx. fold (wr_n L r). rewrite IH by exact Hr. reflexivity.
  Qed.

  Lemma tail_enc' xs : Forall wf xs -> tail_dec L (wr_n L xs) = Some xs.
  Proof.
    intros H. unfold tail_dec. rewrite wr_n_length'.
    pose proof (lr_pos L wf HL) as Hp.
    rewrite Nat.mul_comm, Nat.mod_mul by lia. cbn [Nat.eqb negb].
    rewrite Nat.div_mul by lia.
    rewrite <- (app_nil_r (wr_n L xs)). rewrite rd_n_enc' by exact H. reflexivity.
  Qed.
End LeafRt.

(** ---- the scalar leaves are leaf codecs for canonical scalars ---- *)
Definition canonical (s : Z) : Prop := (0 <= s < rmod)%Z.

Lemma rmod_lt_256_32 : (rmod < 256 ^ 32)%Z.  Proof. reflexivity. Qed.

Lemma all_bytesb_spec b : all_bytesb b = true <-> all_bytes b.
Proof.
  unfold all_bytesb, all_bytes. rewrite forallb_forall, Forall_forall. split; intros H x Hx; specialize (H x Hx).
  - unfold is_byteb in H. apply andb_true_iff in H. destruct H as [A B]. apply Z.leb_le in A. apply Z.ltb_lt in B. split; assumption.
  - unfold is_byte in H. unfold is_byteb. apply andb_true_iff. split; [apply Z.leb_le|apply Z.ltb_lt]; lia.
Qed.

Lemma scalar_of_be_spec b s : scalar32_of_be b = Some s <-> (length b = 32 /\ all_bytes b /\ of_be b = s /\ canonical s).
Proof.
  unfold scalar32_of_be, scalar_of_be, canonical. split.
  - destruct (Nat.eqb (length b) 32) eqn:E1; cbn [andb]; [|discriminate].
    destruct (all_bytesb b) eqn:E2; [|discriminate].
    destruct (of_be b <? rmod)%Z eqn:E3; [|discriminate]. intros X. injection X as <-.
    apply Nat.eqb_eq in E1. apply Z.ltb_lt in E3. apply all_bytesb_spec in E2.
    pose proof (of_be_bounds b E2). repeat split; try assumption; lia.
  - intros (Hl & Hb & <- & Hc). rewrite Hl. cbn [Nat.eqb andb].
    apply all_bytesb_spec in Hb. rewrite Hb.
    replace (of_be b <? rmod)%Z with true by (symmetry; apply Z.ltb_lt; lia). reflexivity.
Qed.

Lemma sc_be_ok : leaf_ok sc_be canonical.
Proof.
  constructor; cbn [sc_be l_w l_enc l_dec].
  - lia.
  - intros a. apply to_be_length.
  - intros a Ha. apply scalar_of_be_spec. pose proof rmod_lt_256_32 as Hr. unfold canonical in *.
    split; [apply to_be_length|]. split; [apply to_be_all_bytes|]. split; [|exact Ha].
    apply of_be_to_be_small. change (256 ^ Z.of_nat 32)%Z with (256 ^ 32)%Z. lia.
  - intros b a Hl H. apply scalar_of_be_spec in H. destruct H as (_ & Hb & <- & Hc).
    split; [|exact Hc]. rewrite <- Hl. apply to_be_of_be. exact Hb.
Qed.

Lemma sc_le_ok : leaf_ok sc_le canonical.
Proof.
  constructor; cbn [sc_le l_w l_enc l_dec].
  - lia.
  - intros a. apply to_le_length.
  - intros a Ha. unfold scalar_of_le, to_le. rewrite rev_involutive. apply (lo_dec sc_be canonical sc_be_ok a Ha).
  - intros b a Hl H. unfold scalar_of_le in H.
    destruct (lo_can sc_be canonical sc_be_ok (rev b) a) as [E Hc]; [rewrite rev_length; exact Hl|exact H|].
    split; [|exact Hc]. cbn [sc_be l_enc] in E. unfold to_le. rewrite E. apply rev_involutive.
Qed.

Lemma sc_repr_rt : leaf_rt sc_repr canonical.
Proof.
  constructor; cbn [sc_repr l_w l_enc l_dec].
  - lia.
  - intros a. apply to_le_length.
  - intros a Ha. unfold scalar_from_repr.
    pose proof (lo_dec sc_le canonical sc_le_ok a Ha) as E. cbn [sc_le l_enc l_dec] in E. rewrite E. reflexivity.
Qed.

(** ... and it is not canonical: the all-ones string decodes, to a scalar that encodes differently *)
Lemma sc_repr_not_canonical : exists b s, length b = 32 /\ scalar_from_repr b = Some s /\ to_le 32 s <> b.
Proof. exists (repeat 255%Z 32). eexists. split; [reflexivity|]. split; [vm_compute; reflexivity|]. vm_compute. discriminate. Qed.

Lemma u32_roundtrip n : (Z.of_nat n < 2 ^ 32)%Z -> of_u32_be (u32_be n) = n.
Proof.
  intros H. unfold of_u32_be, u32_be. rewrite of_be_to_be_small; [apply Nat2Z.id|].
  change (256 ^ Z.of_nat 4)%Z with (2 ^ 32)%Z. lia.
Qed.

Lemma u32_can c : length c = 4 -> all_bytes c -> u32_be (of_u32_be c) = c.
Proof.
  intros Hl Hb. unfold u32_be, of_u32_be. pose proof (of_be_bounds c Hb).
  rewrite Z2Nat.id by lia. rewrite <- Hl. apply to_be_of_be. exact Hb.
Qed.

Lemma rd_count_enc size n rest :
  0 < size -> (Z.of_nat n < 2 ^ 32)%Z -> size * n <= length rest ->
  rd_count size (u32_be n ++ rest) = Some (n, rest).
Proof.
  intros Hs Hn Hr. unfold rd_count. rewrite take_app by (unfold u32_be; apply to_be_length).
  rewrite u32_roundtrip by exact Hn.
  assert (E : of_be (u32_be n) = Z.of_nat n).
  { unfold u32_be. rewrite of_be_to_be_small; [reflexivity|]. change (256 ^ Z.of_nat 4)%Z with (2 ^ 32)%Z. lia. }
  rewrite E.
  replace (Z.of_nat (length rest / size) <? Z.of_nat n)%Z with false; [reflexivity|].
  symmetry. apply Z.ltb_ge. apply Nat2Z.inj_le. apply Nat.div_le_lower_bound; lia.
Qed.


Lemma rd_count_inv size l n t : rd_count size l = Some (n, t) ->
  exists c, l = c ++ t /\ length c = 4 /\ n = of_u32_be c.
Proof.
  unfold rd_count. destruct (take 4 l) as [[c t']|] eqn:E; [|discriminate].
  destruct (Z.of_nat (length t' / size) <? of_be c)%Z; [discriminate|]. intros X. injection X as <- <-.
  apply take_inv in E. destruct E as [-> Hc]. eauto.
Qed.


Section CodecTheorems.
  Context {G1 G2 : Type} (g1 : leaf G1) (g2 : leaf G2).
  Hypothesis H1 : leaf_ok g1 (fun _ => True).
  Hypothesis H2 : leaf_ok g2 (fun _ => True).
  Hypothesis W1 : l_w g1 = 48.
  Hypothesis W2 : l_w g2 = 96.

  Let T1 : forall l : list G1, Forall (fun _ => True) l.
  Proof. intros l. apply Forall_forall. intros; exact I. Qed.
  Let T2 : forall l : list G2, Forall (fun _ => True) l.
  Proof. intros l. apply Forall_forall. intros; exact I. Qed.

  (** ---------------- PS public key ---------------- *)
  Theorem ps_pk_roundtrip k :
    (Z.of_nat (length (pk_y k)) < 2 ^ 32)%Z -> (Z.of_nat (length (pk_yb k)) < 2 ^ 32)%Z ->
    ps_pk_dec g1 g2 (ps_pk_enc g1 g2 k) = Some k.
  Proof using H1 H2.
    clear W1 W2.
    intros Hy Hb. destruct k as [w x y yb]. cbn [pk_y pk_yb] in *. unfold ps_pk_enc, ps_pk_dec. cbn [pk_w pk_x pk_y pk_yb].
    rewrite (rd_enc g2 _ H2) by exact I. rewrite (rd_enc g2 _ H2) by exact I.
    rewrite rd_count_enc; [|apply (lo_pos g2 _ H2)|exact Hy|].
    2:{ rewrite app_length, (wr_n_length g2 _ H2). lia. }
    rewrite (rd_n_enc g2 _ H2) by apply T2.
    rewrite <- (app_nil_r (wr_n g1 yb)).
    rewrite rd_count_enc; [|apply (lo_pos g1 _ H1)|exact Hb|].
    2:{ rewrite app_length, (wr_n_length g1 _ H1). lia. }
    rewrite (rd_n_enc g1 _ H1) by apply T1. reflexivity.
  Qed.

  (** decoded keys re-encode to the bytes they came from (all input bytes being bytes) *)
  Theorem ps_pk_canonical l k : all_bytes l -> ps_pk_dec g1 g2 l = Some k -> ps_pk_enc g1 g2 k = l.
  Proof using H1 H2.
    clear W1 W2.
    intros Hb. unfold ps_pk_dec.
    destruct (rd g2 l) as [[w l1]|] eqn:E1; [|discriminate].
    destruct (rd g2 l1) as [[x l2]|] eqn:E2; [|discriminate].
    destruct (rd_count (l_w g2) l2) as [[n l3]|] eqn:E3; [|discriminate].
    destruct (rd_n g2 n l3) as [[y l4]|] eqn:E4; [|discriminate].
    destruct (rd_count (l_w g1) l4) as [[m l5]|] eqn:E5; [|discriminate].
    destruct (rd_n g1 m l5) as [[yb l6]|] eqn:E6; [|discriminate].
    destruct l6; [|discriminate]. intros X. injection X as <-.
    apply (rd_inv g2 _ H2) in E1. destruct E1 as [-> _].
    apply (rd_inv g2 _ H2) in E2. destruct E2 as [-> _].
    apply rd_count_inv in E3. destruct E3 as (c1 & -> & Hc1 & ->).
    apply (rd_n_inv g2 _ H2) in E4. destruct E4 as (-> & Hn & _).
    apply rd_count_inv in E5. destruct E5 as (c2 & -> & Hc2 & ->).
    apply (rd_n_inv g1 _ H1) in E6. destruct E6 as (-> & Hm & _).
    unfold ps_pk_enc. cbn [pk_w pk_x pk_y pk_yb]. rewrite Hn, Hm, app_nil_r.
    assert (B1 : all_bytes c1) by (repeat (apply Forall_app in Hb; destruct Hb as [? Hb]); assumption).
    assert (B2 : all_bytes c2) by (repeat (apply Forall_app in Hb; destruct Hb as [? Hb]); assumption).
    rewrite !u32_can by assumption. reflexivity.
  Qed.

  (** ---------------- PS signature ---------------- *)
  Theorem ps_sig_roundtrip s : canonical (sg_m s) -> ps_sig_dec g1 (ps_sig_enc g1 s) = Some s.
  Proof using H1.
    clear W1 W2.
    intros Hm. destruct s as [a b m]. cbn [sg_m] in Hm. unfold ps_sig_dec, ps_sig_enc. cbn [sg_1 sg_2 sg_m].
    rewrite !app_length, !(lo_len g1 _ H1), to_be_length, Nat.add_assoc, Nat.eqb_refl. cbn [negb].
    rewrite (rd_enc g1 _ H1) by exact I. rewrite (rd_enc g1 _ H1) by exact I.
    rewrite <- (app_nil_r (to_be 32 m)). change (to_be 32 m) with (l_enc sc_be m).
    rewrite (rd_enc sc_be _ sc_be_ok) by exact Hm. reflexivity.
  Qed.

  Theorem ps_sig_canonical l s : ps_sig_dec g1 l = Some s -> ps_sig_enc g1 s = l.
  Proof using H1.
    clear W1 W2.
    unfold ps_sig_dec. destruct (Nat.eqb (length l) (l_w g1 + l_w g1 + 32)) eqn:EL; cbn [negb]; [|discriminate].
    apply Nat.eqb_eq in EL.
    destruct (rd g1 l) as [[a l1]|] eqn:E1; [|discriminate].
    destruct (rd g1 l1) as [[b l2]|] eqn:E2; [|discriminate].
    destruct (rd sc_be l2) as [[m l3]|] eqn:E3; [|discriminate].
    intros X. injection X as <-.
    apply (rd_inv g1 _ H1) in E1. destruct E1 as [-> _].
    apply (rd_inv g1 _ H1) in E2. destruct E2 as [-> _].
    apply (rd_inv sc_be _ sc_be_ok) in E3. destruct E3 as [-> _].
    unfold ps_sig_enc. cbn [sg_1 sg_2 sg_m sc_be l_enc] in *.
    rewrite !app_length, !(lo_len g1 _ H1), to_be_length in EL.
    assert (length l3 = 0) by lia. destruct l3; [|discriminate]. rewrite app_nil_r. reflexivity.
  Qed.

  (** ---------------- proofs of knowledge and the blind-signature context ---------------- *)
  Theorem ps_pok_roundtrip mn p : Forall canonical (pp_resp p) -> mn <= length (pp_resp p) ->
    ps_pok_dec g1 g2 mn (ps_pok_enc g1 g2 p) = Some p.
  Proof using H1 H2 W1 W2.
    intros Hr Hn. destruct p as [a b c r]. cbn [pp_resp] in *. unfold ps_pok_dec, ps_pok_enc. cbn [pp_1 pp_2 pp_c pp_resp].
    rewrite !app_length, !(lo_len g1 _ H1), (lo_len g2 _ H2), (wr_n_length sc_be _ sc_be_ok), W1, W2. cbn [sc_be l_w].
    replace (48 + (48 + (96 + 32 * length r)) <? 32 * mn + 48 * 4) with false by (symmetry; apply Nat.ltb_ge; lia).
    replace (48 + (48 + (96 + 32 * length r))) with ((6 + length r) * 32) by lia.
    rewrite Nat.mod_mul by lia. cbn [Nat.eqb negb].
    rewrite (rd_enc g1 _ H1) by exact I. rewrite (rd_enc g1 _ H1) by exact I. rewrite (rd_enc g2 _ H2) by exact I.
    rewrite (tail_enc sc_be _ sc_be_ok) by exact Hr. reflexivity.
  Qed.

  Theorem ps_pok_canonical mn l p : ps_pok_dec g1 g2 mn l = Some p -> ps_pok_enc g1 g2 p = l.
  Proof using H1 H2.
    clear W1 W2.
    unfold ps_pok_dec. destruct (length l <? 32 * mn + 48 * 4); [discriminate|].
    destruct (negb (Nat.eqb (length l mod 32) 0)); [discriminate|].
    destruct (rd g1 l) as [[a l1]|] eqn:E1; [|discriminate].
    destruct (rd g1 l1) as [[b l2]|] eqn:E2; [|discriminate].
    destruct (rd g2 l2) as [[c l3]|] eqn:E3; [|discriminate].
    destruct (tail_dec sc_be l3) as [r|] eqn:E4; [|discriminate].
    intros X. injection X as <-.
    apply (rd_inv g1 _ H1) in E1. destruct E1 as [-> _].
    apply (rd_inv g1 _ H1) in E2. destruct E2 as [-> _].
    apply (rd_inv g2 _ H2) in E3. destruct E3 as [-> _].
    apply (tail_inv sc_be _ sc_be_ok) in E4. destruct E4 as [-> _]. reflexivity.
  Qed.

  Theorem ps_ctx_roundtrip c : canonical (cx_ch c) -> Forall canonical (cx_p c) -> cx_p c <> [] ->
    ps_ctx_dec g1 (ps_ctx_enc g1 c) = Some c.
  Proof using H1 W1.
    clear W2.
    intros Hc Hp Hne. destruct c as [cm ch p]. cbn [cx_ch cx_p] in *. unfold ps_ctx_dec, ps_ctx_enc. cbn [cx_c cx_ch cx_p].
    rewrite !app_length, (lo_len g1 _ H1), to_be_length, (wr_n_length sc_be _ sc_be_ok), W1. cbn [sc_be l_w].
    destruct p as [|p0 pr]; [congruence|]. cbn [length].
    replace (48 + (32 + 32 * S (length pr)) <? 32 * 2 + 48) with false by (symmetry; apply Nat.ltb_ge; lia).
    replace (48 + (32 + 32 * S (length pr)) - 48) with ((2 + length pr) * 32) by lia.
    rewrite Nat.mod_mul by lia. cbn [Nat.eqb negb].
    rewrite (rd_enc g1 _ H1) by exact I.
    change (to_be 32 ch) with (l_enc sc_be ch). rewrite (rd_enc sc_be _ sc_be_ok) by exact Hc.
    rewrite (tail_enc sc_be _ sc_be_ok) by exact Hp. reflexivity.
  Qed.

  Theorem ps_ctx_canonical l c : ps_ctx_dec g1 l = Some c -> ps_ctx_enc g1 c = l.
  Proof using H1.
    clear W1 W2.
    unfold ps_ctx_dec. destruct (length l <? 32 * 2 + 48); [discriminate|].
    destruct (negb (Nat.eqb ((length l - 48) mod 32) 0)); [discriminate|].
    destruct (rd g1 l) as [[cm l1]|] eqn:E1; [|discriminate].
    destruct (rd sc_be l1) as [[ch l2]|] eqn:E2; [|discriminate].
    destruct (tail_dec sc_be l2) as [p|] eqn:E3; [|discriminate].
    intros X. injection X as <-.
    apply (rd_inv g1 _ H1) in E1. destruct E1 as [-> _].
    apply (rd_inv sc_be _ sc_be_ok) in E2. destruct E2 as [-> _].
    apply (tail_inv sc_be _ sc_be_ok) in E3. destruct E3 as [-> _]. reflexivity.
  Qed.

  Theorem bbs_pok_roundtrip p : Forall canonical (bp_resp p) -> 2 <= length (bp_resp p) ->
    bbs_pok_dec g1 (bbs_pok_enc g1 p) = Some p.
  Proof using H1 W1.
    clear W2.
    intros Hr Hn. destruct p as [a b t r]. cbn [bp_resp] in *. unfold bbs_pok_dec, bbs_pok_enc. cbn [bp_a bp_b bp_t bp_resp].
    rewrite !app_length, !(lo_len g1 _ H1), (wr_n_length sc_le _ sc_le_ok), W1. cbn [sc_le l_w].
    replace (48 + (48 + (48 + 32 * length r)) <? 32 * 2 + 48 * 3) with false by (symmetry; apply Nat.ltb_ge; lia).
    replace (48 + (48 + (48 + 32 * length r)) - 48 * 3) with (length r * 32) by lia.
    rewrite Nat.mod_mul by lia. cbn [Nat.eqb negb].
    rewrite (rd_enc g1 _ H1) by exact I. rewrite (rd_enc g1 _ H1) by exact I. rewrite (rd_enc g1 _ H1) by exact I.
    rewrite (tail_enc sc_le _ sc_le_ok) by exact Hr. reflexivity.
  Qed.

  Theorem bbs_pok_canonical l p : bbs_pok_dec g1 l = Some p -> bbs_pok_enc g1 p = l.
  Proof using H1.
    clear W1 W2.
    unfold bbs_pok_dec. destruct (length l <? 32 * 2 + 48 * 3); [discriminate|].
    destruct (negb (Nat.eqb ((length l - 48 * 3) mod 32) 0)); [discriminate|].
    destruct (rd g1 l) as [[a l1]|] eqn:E1; [|discriminate].
    destruct (rd g1 l1) as [[b l2]|] eqn:E2; [|discriminate].
    destruct (rd g1 l2) as [[t l3]|] eqn:E3; [|discriminate].
    destruct (tail_dec sc_le l3) as [r|] eqn:E4; [|discriminate].
    intros X. injection X as <-.
    apply (rd_inv g1 _ H1) in E1. destruct E1 as [-> _].
    apply (rd_inv g1 _ H1) in E2. destruct E2 as [-> _].
    apply (rd_inv g1 _ H1) in E3. destruct E3 as [-> _].
    apply (tail_inv sc_le _ sc_le_ok) in E4. destruct E4 as [-> _]. reflexivity.
  Qed.
End CodecTheorems.

(** ---------------- PS secret key ---------------- *)
Theorem ps_sk_roundtrip k : canonical (sk_w k) -> canonical (sk_x k) -> Forall canonical (sk_y k) ->
  sk_y k <> [] -> ps_sk_dec (ps_sk_enc k) = Some k.
Proof.
  intros Hw Hx Hy Hne. destruct k as [w x y]. cbn [sk_w sk_x sk_y] in *. unfold ps_sk_dec, ps_sk_enc. cbn [sk_w sk_x sk_y].
  rewrite (wr_n_length' sc_repr _ sc_repr_rt). cbn [sc_repr l_w length].
  rewrite Nat.mul_comm, Nat.mod_mul by lia. cbn [Nat.eqb negb].
  destruct y as [|y0 yr]; [congruence|]. cbn [length].
  replace ((S (S (S (length yr)))) * 32 <? 96) with false by (symmetry; apply Nat.ltb_ge; lia).
  rewrite (tail_enc' sc_repr _ sc_repr_rt) by (constructor; [exact Hw|constructor; [exact Hx|exact Hy]]). reflexivity.
Qed.

(** the secret-key decoder accepts encodings that are not canonical (the scalar library's from_repr
    reduces them): a decoded key need not re-encode to the bytes it came from *)
Theorem ps_sk_canonical_refuted : exists l k, ps_sk_dec l = Some k /\ ps_sk_enc k <> l.
Proof.
  exists (repeat 255%Z 96). eexists. split; [vm_compute; reflexivity|]. vm_compute. discriminate.
Qed.



(** the pinned tree's decoders, for the record: the length tests could never be met *)
Definition bbs_pok_len_ok_pinned (n : nat) : bool := (32 * 3 + 48 * 3 <=? n) && Nat.eqb (n mod 32) 0.
Lemma bbs_pok_pinned_rejects_every_encoding k : bbs_pok_len_ok_pinned (48 * 3 + 32 * k) = false.
Proof.
  unfold bbs_pok_len_ok_pinned. replace (48 * 3 + 32 * k) with (16 + (4 + k) * 32) by lia.
  rewrite Nat.mod_add by lia. cbn [Nat.modulo]. apply andb_false_r.
Qed.
Definition ps_ctx_len_ok_pinned (n : nat) : bool := (32 * 2 + 48 <=? n) && Nat.eqb (n - 48 mod 32) 0.
Lemma ps_ctx_pinned_rejects_every_encoding n : ps_ctx_len_ok_pinned n = false.
Proof.
  unfold ps_ctx_len_ok_pinned. change (48 mod 32) with 16.
  destruct (Nat.leb_spec (32 * 2 + 48) n) as [H|H]; [|reflexivity].
  cbn [andb]. apply Nat.eqb_neq. lia.
Qed.
