From Coq Require Import Field Ring List Bool Arith Lia.
From ACV Require Import Model.Field Model.Pres Model.Sigs Proofs.FieldP Proofs.SlotP.
Import ListNotations.

Section SigsP.
Variable K : fops.
Hypothesis Kf : is_field K.
Hypothesis Keq : feqb_ok K.
Add Field KF : (Kf_th K Kf).
Local Notation "a + b" := (fadd K a b).
Local Notation "a - b" := (fsub K a b).
Local Notation "a * b" := (fmul K a b).
Local Notation "a / b" := (fdiv K a b).
Local Notation "0" := (f0 K).
Local Notation "1" := (f1 K).
Local Notation "- a" := (fopp K a).

(** ---- truncating multi-scalar multiplication ---------------------------------------------- *)
Lemma msm_nil_r (ps : list K) : msm K ps [] = 0.
Proof. destruct ps; reflexivity. Qed.

Lemma msm_app (ps ps' ss ss' : list K) : length ps = length ss ->
  msm K (ps ++ ps') (ss ++ ss') = msm K ps ss + msm K ps' ss'.
Proof.
  revert ss. induction ps as [|p t IH]; intros [|s st] H; try discriminate; cbn [app msm].
  - ring.
  - rewrite IH by (cbn in H; lia). ring.
Qed.

Lemma msm_responses (ps ns ss : list K) c : length ns = length ss ->
  msm K ps (responses K ns ss c) = msm K ps ns + c * msm K ps ss.
Proof.
  revert ns ss. induction ps as [|p t IH]; intros ns ss H.
  - cbn. ring.
  - destruct ns as [|n nt], ss as [|s st]; try discriminate; cbn [responses msm]; [ring|].
    rewrite IH by (cbn in H; lia). ring.
Qed.

Lemma responses_length (ns ss : list K) c : length ns = length ss -> length (responses K ns ss c) = length ns.
Proof.
  revert ss. induction ns as [|n nt IH]; intros [|s st] H; try discriminate; cbn; [reflexivity|].
  rewrite IH by (cbn in H; lia). reflexivity.
Qed.

Fixpoint vsub (a b : list K) : list K :=
  match a, b with x :: at_, y :: bt => (x - y) :: vsub at_ bt | _, _ => [] end.
Lemma msm_vsub (ps a b : list K) : length a = length b ->
  msm K ps (vsub a b) = msm K ps a - msm K ps b.
Proof.
  revert a b. induction ps as [|p t IH]; intros a b H; [cbn; ring|].
  destruct a as [|x at_], b as [|y bt]; try discriminate; cbn [vsub msm]; [ring|].
  rewrite IH by (cbn in H; lia). ring.
Qed.
Lemma msm_scale (ps l : list K) k : msm K ps (map (fun z => z * k) l) = msm K ps l * k.
Proof.
  revert l. induction ps as [|p t IH]; intros [|z zt]; cbn [map msm]; try ring.
  rewrite IH. ring.
Qed.
Lemma vsub_length (a b : list K) : length a = length b -> length (vsub a b) = length a.
Proof.
  revert b. induction a as [|x t IH]; intros [|y bt] H; try discriminate; cbn; [reflexivity|].
  rewrite IH by (cbn in H; lia). reflexivity.
Qed.

(** ---- partition: revealed sum + hidden part = whole ------------------------------------- *)
Lemma split_rev_ge i reveal msgs : forall p, In p (split_rev K i reveal msgs) -> i <= fst p.
Proof.
  revert i msgs. induction reveal as [|b rt IH]; intros i [|m mt] p H; cbn [split_rev] in H; try contradiction.
  destruct b.
  - destruct H as [<-|H]; [cbn; lia|]. specialize (IH (S i) mt p H). lia.
  - specialize (IH (S i) mt p H). lia.
Qed.

Lemma memn_split_rev_lt i j reveal msgs : i < j -> memn i (map fst (split_rev K j reveal msgs)) = false.
Proof.
  intros Hlt. destruct (memn i (map fst (split_rev K j reveal msgs))) eqn:M; [|reflexivity].
  apply (memn_In) in M. apply in_map_iff in M. destruct M as [p [<- Hp]].
  pose proof (split_rev_ge j reveal msgs p Hp). lia.
Qed.

Lemma hidden_gens_from_skip j (ys : list K) k known : k < j ->
  hidden_gens_from K j ys (k :: known) = hidden_gens_from K j ys known.
Proof.
  revert j. induction ys as [|y t IH]; intros j H; [reflexivity|].
  cbn [hidden_gens_from memn existsb]. destruct (Nat.eqb_spec j k) as [->|_]; [lia|]. cbn [orb].
  fold (memn j known). rewrite IH by lia. reflexivity.
Qed.

Lemma revealed_sum_app_r (pre ys : list K) disc :
  (forall p, In p disc -> fst p < length pre) ->
  revealed_sum K (pre ++ ys) disc = revealed_sum K pre disc.
Proof.
  induction disc as [|[idx m] t IH]; intros H; [reflexivity|]. cbn [revealed_sum].
  assert (Hi : idx < length pre) by (apply (H (idx, m)); left; reflexivity).
  rewrite nth_error_app1 by exact Hi. rewrite IH by (intros p Hp; apply H; right; exact Hp). reflexivity.
Qed.

Lemma partition_sum (pre ys : list K) reveal msgs :
  length reveal = length ys -> length msgs = length ys ->
  msm K ys msgs =
  revealed_sum K (pre ++ ys) (split_rev K (length pre) reveal msgs)
  + msm K (hidden_gens_from K (length pre) ys (map fst (split_rev K (length pre) reveal msgs))) (split_hid K reveal msgs).
Proof.
  revert pre reveal msgs. induction ys as [|y t IH]; intros pre reveal msgs Hr Hm.
  - destruct reveal; [|discriminate]. cbn. ring.
  - destruct reveal as [|b rt]; [discriminate|]. destruct msgs as [|m mt]; [discriminate|].
    cbn [split_rev split_hid msm].
    assert (E : pre ++ y :: t = (pre ++ [y]) ++ t) by (rewrite <- app_assoc; reflexivity).
    assert (L : length (pre ++ [y]) = S (length pre)) by (rewrite app_length; cbn; lia).
    specialize (IH (pre ++ [y]) rt mt ltac:(cbn in Hr; lia) ltac:(cbn in Hm; lia)). rewrite L, <- E in IH.
    destruct b.
    + cbn [revealed_sum map fst hidden_gens_from memn existsb]. rewrite Nat.eqb_refl. cbn [orb].
      rewrite nth_error_app2 by lia. rewrite Nat.sub_diag. cbn [nth_error].
      rewrite hidden_gens_from_skip by lia. rewrite IH. ring.
    + cbn [hidden_gens_from]. rewrite memn_split_rev_lt by lia. cbn [msm]. rewrite IH. ring.
Qed.

Lemma partition_sum0 (ys : list K) reveal msgs :
  length reveal = length ys -> length msgs = length ys ->
  msm K ys msgs = revealed_sum K ys (split_rev K 0 reveal msgs)
                  + msm K (hidden_gens K (mkPk K BBS 0 0 ys) (split_rev K 0 reveal msgs)) (split_hid K reveal msgs).
Proof. intros Hr Hm. exact (partition_sum [] ys reveal msgs Hr Hm). Qed.

Lemma hidden_len_from (ys : list K) : forall i reveal msgs, length reveal = length ys -> length msgs = length ys ->
  length (hidden_gens_from K i ys (map fst (split_rev K i reveal msgs))) = length (split_hid K reveal msgs).
Proof.
  induction ys as [|y t IH]; intros i reveal msgs Hr Hm.
  - destruct reveal; [|discriminate]. reflexivity.
  - destruct reveal as [|b rt]; [discriminate|]. destruct msgs as [|m mt]; [discriminate|].
    cbn [split_rev split_hid]. destruct b.
    + cbn [map fst hidden_gens_from memn existsb]. rewrite Nat.eqb_refl. cbn [orb].
      rewrite hidden_gens_from_skip by lia. apply IH; cbn in *; lia.
    + cbn [hidden_gens_from]. rewrite memn_split_rev_lt by lia. cbn [length]. f_equal. apply IH; cbn in *; lia.
Qed.

(** ---- BBS: sign / verify ---------------------------------------------------------------- *)
Theorem bbs_sign_verify x e ys msgs : x + e <> 0 ->
  bbs_sign K x e ys msgs * (e + x) = bbs_B K ys msgs.
Proof. intros H. unfold bbs_sign. field. exact H. Qed.

Theorem bbs_verify_iff x ys A e msgs : bbs_verify K x ys A e msgs = true <->
  A <> 0 /\ e <> 0 /\ msgs <> [] /\ length msgs <= length ys /\ A * (e + x) = bbs_B K ys msgs.
Proof.
  unfold bbs_verify. rewrite !andb_true_iff, !negb_true_iff, Nat.leb_le.
  split.
  - intros [[[[H1 H2] H3] H4] H5]. repeat split; try assumption.
    + intros ->. assert (feqb K 0 0 = true) by (apply Keq; reflexivity). congruence.
    + intros ->. assert (feqb K 0 0 = true) by (apply Keq; reflexivity). congruence.
    + intros ->. cbn in H3. discriminate.
    + apply Keq. exact H5.
  - intros [H1 [H2 [H3 [H4 H5]]]]. repeat split; try assumption.
    + destruct (feqb K A 0) eqn:E; [apply Keq in E; contradiction|reflexivity].
    + destruct (feqb K e 0) eqn:E; [apply Keq in E; contradiction|reflexivity].
    + destruct msgs; [contradiction|reflexivity].
    + apply Keq. exact H5.
Qed.

(** a valid signature does not verify for a message vector with another weighted sum, in particular
    after a change of one message under a non-zero generator *)
Theorem bbs_other_messages_fail x ys A e msgs msgs' :
  A * (e + x) = bbs_B K ys msgs -> msm K ys msgs <> msm K ys msgs' -> A * (e + x) <> bbs_B K ys msgs'.
Proof.
  intros H Hne E. apply Hne. unfold bbs_B in *. rewrite H in E.
  transitivity (1 + msm K ys msgs - 1); [ring|rewrite E; ring].
Qed.

Lemma msm_single_change (pre suf : list K) y m m' (mpre msuf : list K) : length pre = length mpre ->
  y <> 0 -> m <> m' ->
  msm K (pre ++ y :: suf) (mpre ++ m :: msuf) <> msm K (pre ++ y :: suf) (mpre ++ m' :: msuf).
Proof.
  intros L Hy Hm E. rewrite !msm_app in E by exact L. cbn [msm] in E.
  apply Hm. apply (fmul_cancel_l K Kf y _ _ Hy).
  transitivity (msm K pre mpre + (y * m + msm K suf msuf) - msm K pre mpre - msm K suf msuf); [ring|].
  rewrite E. ring.
Qed.

Theorem bbs_other_component_fails x ys A A' e msgs : e + x <> 0 ->
  A * (e + x) = bbs_B K ys msgs -> A' <> A -> A' * (e + x) <> bbs_B K ys msgs.
Proof.
  intros Hx H Hne E. apply Hne. rewrite <- H in E.
  transitivity (A' * (e + x) / (e + x)); [field; exact Hx|rewrite E; field; exact Hx].
Qed.

Theorem bbs_other_e_fails x ys A e e' msgs : A <> 0 ->
  A * (e + x) = bbs_B K ys msgs -> e' <> e -> A * (e' + x) <> bbs_B K ys msgs.
Proof.
  intros HA H Hne E. apply Hne. rewrite <- H in E.
  apply (fmul_cancel_l K Kf A _ _ HA) in E.
  transitivity (e' + x - x); [ring|rewrite E; ring].
Qed.

Theorem bbs_other_key_fails x x' ys A e msgs : A <> 0 ->
  A * (e + x) = bbs_B K ys msgs -> x' <> x -> A * (e + x') <> bbs_B K ys msgs.
Proof.
  intros HA H Hne E. apply Hne. rewrite <- H in E.
  apply (fmul_cancel_l K Kf A _ _ HA) in E.
  transitivity (e + x' - e); [ring|rewrite E; ring].
Qed.

(** ---- BBS proof of knowledge: completeness for every reveal/hide partition ---------------- *)
Definition bbs_lhs (ys : list K) (disc : list (nat * K)) : K := - (revealed_sum K ys disc) - 1.

Theorem bbs_pok_complete x ys A e msgs reveal r nh na nb c :
  length reveal = length ys -> length msgs = length ys ->
  A * (e + x) = bbs_B K ys msgs -> r <> 0 -> length nh = length (split_hid K reveal msgs) ->
  let sp := bbs_pok K ys A e msgs reveal r nh na nb c in
  let pk := mkPk K BBS x 0 ys in
  match sp_pok K sp with
  | PokBBS _ a_bar b_bar t resp =>
      msm K (hidden_gens K pk (sp_disclosed K sp) ++ [a_bar; b_bar; bbs_lhs ys (sp_disclosed K sp)]) (resp ++ [- c]) = t /\
      a_bar * x = b_bar /\
      length resp = S (S (hidden_count K pk (sp_disclosed K sp)))
  | _ => False
  end.
Proof.
  intros Hr Hm Hsig Hrn Hnh. cbn zeta. unfold bbs_pok. cbn [sp_pok sp_disclosed].
  set (disc := split_rev K 0 reveal msgs). set (hid := split_hid K reveal msgs). fold hid in Hnh.
  set (HG := hidden_gens K (mkPk K BBS 0 0 ys) disc).
  assert (EHG : hidden_gens K (mkPk K BBS x 0 ys) disc = HG) by reflexivity. rewrite EHG.
  assert (LHG : length HG = length hid) by (apply (hidden_len_from ys 0 reveal msgs Hr Hm)).
  set (a_bar := A * r). set (b_bar := bbs_B K ys msgs * r - a_bar * e).
  set (ns := nh ++ [na; nb]). set (ss := hid ++ [finv K (- r) * e; finv K (- r)]).
  assert (Lns : length ns = length ss) by (unfold ns, ss; rewrite !app_length; cbn [length]; lia).
  assert (Lresp : length (responses K ns ss c) = S (S (length HG))).
  { rewrite responses_length by exact Lns. unfold ns. rewrite app_length. cbn [length]. lia. }
  split; [|split].
  - replace (HG ++ [a_bar; b_bar; bbs_lhs ys disc]) with ((HG ++ [a_bar; b_bar]) ++ [bbs_lhs ys disc])
      by (rewrite <- app_assoc; reflexivity).
    rewrite msm_app by (rewrite Lresp, app_length; cbn; lia).
    rewrite msm_responses by exact Lns. cbn [msm].
    assert (Esec : msm K (HG ++ [a_bar; b_bar]) ss = bbs_lhs ys disc).
    { unfold ss. rewrite msm_app by exact LHG. cbn [msm]. unfold bbs_lhs.
      pose proof (partition_sum0 ys reveal msgs Hr Hm) as PS0. fold disc hid HG in PS0.
      unfold a_bar, b_bar, bbs_B. rewrite PS0.
      assert (Hnr : - r <> 0). { intros Z. apply Hrn. transitivity (- (- r)); [ring|rewrite Z; ring]. }
      unfold a_bar. field. exact Hnr. }
    rewrite Esec. ring.
  - unfold b_bar, a_bar. rewrite <- Hsig. ring.
  - unfold hidden_count. rewrite EHG. exact Lresp.
Qed.

(** ---- BBS special soundness: two accepting transcripts with the same commitment -------------- *)
Theorem bbs_extract x ys disc a_bar b_bar t (zh zh' : list K) za zb za' zb' c c' :
  let HG := hidden_gens K (mkPk K BBS x 0 ys) disc in
  length zh = length HG -> length zh' = length HG -> c <> c' ->
  msm K (HG ++ [a_bar; b_bar; bbs_lhs ys disc]) ((zh ++ [za; zb]) ++ [- c]) = t ->
  msm K (HG ++ [a_bar; b_bar; bbs_lhs ys disc]) ((zh' ++ [za'; zb']) ++ [- c']) = t ->
  a_bar * x = b_bar ->
  let d := finv K (c - c') in
  let mh := map (fun z => z * d) (vsub zh zh') in
  let u := (za - za') * d in
  let v := (zb - zb') * d in
  length mh = length HG /\
  (* the extracted values open the public term ... *)
  1 + revealed_sum K ys disc + msm K HG mh = - (a_bar * (u + v * x)) /\
  (* ... hence (A', e') := (-v*a_bar, u/v) is a valid signature on the complete vector *)
  (v <> 0 -> (- (v * a_bar)) * (u / v + x) = 1 + revealed_sum K ys disc + msm K HG mh).
Proof.
  cbn zeta. set (HG := hidden_gens K (mkPk K BBS x 0 ys) disc).
  intros L1 L2 Hc E1 E2 Hp.
  assert (Hd : c - c' <> 0) by (intros Z; apply Hc; apply (fsub_zero K Kf); exact Z).
  assert (S1 : msm K HG zh + a_bar * za + b_bar * zb - c * bbs_lhs ys disc = t).
  { rewrite <- E1. replace (HG ++ [a_bar; b_bar; bbs_lhs ys disc]) with (HG ++ ([a_bar; b_bar] ++ [bbs_lhs ys disc])) by reflexivity.
    rewrite <- app_assoc. rewrite msm_app by (symmetry; exact L1). cbn [app msm]. ring. }
  assert (S2 : msm K HG zh' + a_bar * za' + b_bar * zb' - c' * bbs_lhs ys disc = t).
  { rewrite <- E2. replace (HG ++ [a_bar; b_bar; bbs_lhs ys disc]) with (HG ++ ([a_bar; b_bar] ++ [bbs_lhs ys disc])) by reflexivity.
    rewrite <- app_assoc. rewrite msm_app by (symmetry; exact L2). cbn [app msm]. ring. }
  assert (Lv : length zh = length zh') by lia.
  assert (Core : bbs_lhs ys disc = msm K HG (map (fun z => z * finv K (c - c')) (vsub zh zh'))
                                   + a_bar * ((za - za') * finv K (c - c')) + b_bar * ((zb - zb') * finv K (c - c'))).
  { rewrite msm_scale, msm_vsub by exact Lv.
    transitivity (((msm K HG zh + a_bar * za + b_bar * zb) - (msm K HG zh' + a_bar * za' + b_bar * zb')) / (c - c')).
    - transitivity ((c * bbs_lhs ys disc - c' * bbs_lhs ys disc) / (c - c')); [field; exact Hd|].
      f_equal.
      assert (T1 : c * bbs_lhs ys disc = msm K HG zh + a_bar * za + b_bar * zb - t) by (rewrite <- S1; ring).
      assert (T2 : c' * bbs_lhs ys disc = msm K HG zh' + a_bar * za' + b_bar * zb' - t) by (rewrite <- S2; ring).
      rewrite T1, T2. ring.
    - field. exact Hd. }
  split; [rewrite map_length, vsub_length by exact Lv; exact L1|].
  split.
  - unfold bbs_lhs in Core. rewrite <- Hp in Core.
    transitivity (- (- revealed_sum K ys disc - 1) + msm K HG (map (fun z => z * finv K (c - c')) (vsub zh zh'))); [ring|].
    rewrite Core. ring.
  - intros Hv. unfold bbs_lhs in Core. rewrite <- Hp in Core.
    transitivity (- (a_bar * ((za - za') * finv K (c - c') + (zb - zb') * finv K (c - c') * x)));
      [field; split; [exact Hd|intros Z; apply Hv; rewrite Z; ring]|].
    transitivity (- (- revealed_sum K ys disc - 1) + msm K HG (map (fun z => z * finv K (c - c')) (vsub zh zh'))); [|ring].
    rewrite Core. ring.
Qed.

(** ---- PS: sign / verify ------------------------------------------------------------------- *)
Theorem ps_sign_verify x w ys h m_tick msgs :
  fst (ps_sign K x w ys h m_tick msgs) * ps_exp K x w ys m_tick msgs = snd (ps_sign K x w ys h m_tick msgs).
Proof. reflexivity. Qed.

Theorem ps_verify_iff x w ys s1 s2 m_tick msgs : ps_verify K x w ys s1 s2 m_tick msgs = true <->
  length msgs <= length ys /\ s1 <> 0 /\ s2 <> 0 /\ s1 * ps_exp K x w ys m_tick msgs = s2.
Proof.
  unfold ps_verify. rewrite !andb_true_iff, !negb_true_iff, Nat.leb_le. split.
  - intros [[[H1 H2] H3] H4]. repeat split; try assumption.
    + intros ->. assert (feqb K 0 0 = true) by (apply Keq; reflexivity). congruence.
    + intros ->. assert (feqb K 0 0 = true) by (apply Keq; reflexivity). congruence.
    + apply Keq. exact H4.
  - intros [H1 [H2 [H3 H4]]]. repeat split; try assumption.
    + destruct (feqb K s1 0) eqn:E; [apply Keq in E; contradiction|reflexivity].
    + destruct (feqb K s2 0) eqn:E; [apply Keq in E; contradiction|reflexivity].
    + apply Keq. exact H4.
Qed.

Theorem ps_other_messages_fail x w ys s1 s2 m_tick msgs msgs' : s1 <> 0 ->
  s1 * ps_exp K x w ys m_tick msgs = s2 -> msm K ys msgs <> msm K ys msgs' ->
  s1 * ps_exp K x w ys m_tick msgs' <> s2.
Proof.
  intros H1 H Hne E. apply Hne. rewrite <- H in E. apply (fmul_cancel_l K Kf s1 _ _ H1) in E.
  unfold ps_exp in E. transitivity (x + w * m_tick + msm K ys msgs - (x + w * m_tick)); [ring|rewrite <- E; ring].
Qed.

Theorem ps_other_key_fails x x' w ys s1 s2 m_tick msgs : s1 <> 0 ->
  s1 * ps_exp K x w ys m_tick msgs = s2 -> x' <> x -> s1 * ps_exp K x' w ys m_tick msgs <> s2.
Proof.
  intros H1 H Hne E. apply Hne. rewrite <- H in E. apply (fmul_cancel_l K Kf s1 _ _ H1) in E.
  unfold ps_exp in E. transitivity (x' + w * m_tick + msm K ys msgs - (w * m_tick + msm K ys msgs)); [ring|rewrite E; ring].
Qed.

Theorem ps_other_component_fails x w ys s1 s2 s2' m_tick msgs :
  s1 * ps_exp K x w ys m_tick msgs = s2 -> s2' <> s2 -> s1 * ps_exp K x w ys m_tick msgs <> s2'.
Proof. intros H Hne E. apply Hne. rewrite <- E, H. reflexivity. Qed.

(** ---- PS proof of knowledge: completeness for every partition ------------------------------- *)
Theorem ps_pok_complete x w ys s1 s2 m_tick msgs reveal r t nt nm nh c :
  length reveal = length ys -> length msgs = length ys ->
  s1 * ps_exp K x w ys m_tick msgs = s2 -> length nh = length (split_hid K reveal msgs) ->
  let sp := ps_pok K w ys s1 s2 m_tick msgs reveal r t nt nm nh c in
  let pk := mkPk K PS x w ys in
  match sp_pok K sp with
  | PokPS _ s1' s2' J resp =>
      msm K ([1; w] ++ hidden_gens K pk (sp_disclosed K sp) ++ [J]) (resp ++ [- c])
        = ps_prover_commitment K w ys msgs reveal nt nm nh /\
      s1' * (revealed_sum K ys (sp_disclosed K sp) + x + J) = s2' /\
      length resp = S (S (hidden_count K pk (sp_disclosed K sp)))
  | _ => False
  end.
Proof.
  intros Hr Hm Hsig Hnh. cbn zeta. unfold ps_pok, ps_prover_commitment. cbn [sp_pok sp_disclosed].
  set (disc := split_rev K 0 reveal msgs). set (hid := split_hid K reveal msgs). fold hid in Hnh.
  set (HG := hidden_gens K (mkPk K PS 0 w ys) disc).
  assert (EHG : hidden_gens K (mkPk K PS x w ys) disc = HG) by reflexivity. rewrite EHG.
  assert (LHG : length HG = length hid) by (apply (hidden_len_from ys 0 reveal msgs Hr Hm)).
  set (ns := [nt; nm] ++ nh). set (ss := [t; m_tick] ++ hid).
  assert (Lns : length ns = length ss) by (unfold ns, ss; rewrite !app_length; cbn [length]; lia).
  assert (Lresp : length (responses K ns ss c) = S (S (length HG))).
  { rewrite responses_length by exact Lns. unfold ns. rewrite app_length. cbn [length]. lia. }
  set (J := msm K ([1; w] ++ HG) ss).
  split; [|split].
  - replace ([1; w] ++ HG ++ [J]) with (([1; w] ++ HG) ++ [J]) by (rewrite <- app_assoc; reflexivity).
    rewrite msm_app by (rewrite Lresp, app_length; cbn [length]; lia).
    rewrite msm_responses by exact Lns. cbn [msm]. fold J. ring.
  - pose proof (partition_sum0 ys reveal msgs Hr Hm) as PS0. fold disc hid in PS0.
    change (hidden_gens K (mkPk K BBS 0 0 ys) disc) with HG in PS0.
    rewrite <- Hsig. unfold ps_exp. rewrite PS0. unfold J, ss. cbn [app msm].
    assert (EJ : msm K HG hid = msm K HG hid) by reflexivity. ring.
  - unfold hidden_count. rewrite EHG. exact Lresp.
Qed.

(** ---- PS special soundness ---------------------------------------------------------------- *)
Theorem ps_extract x w ys disc s1 s2 J T (zt zm zt' zm' : K) (zh zh' : list K) c c' :
  let HG := hidden_gens K (mkPk K PS x w ys) disc in
  length zh = length HG -> length zh' = length HG -> c <> c' ->
  msm K ([1; w] ++ HG ++ [J]) (([zt; zm] ++ zh) ++ [- c]) = T ->
  msm K ([1; w] ++ HG ++ [J]) (([zt'; zm'] ++ zh') ++ [- c']) = T ->
  s1 * (revealed_sum K ys disc + x + J) = s2 ->
  let d := finv K (c - c') in
  let mh := map (fun z => z * d) (vsub zh zh') in
  let te := (zt - zt') * d in
  let me := (zm - zm') * d in
  length mh = length HG /\
  J = te + w * me + msm K HG mh /\
  (* (s1, s2 - te*s1) is a valid PS signature with m' = me on the complete vector *)
  s1 * (x + w * me + (revealed_sum K ys disc + msm K HG mh)) = s2 - te * s1.
Proof.
  cbn zeta. set (HG := hidden_gens K (mkPk K PS x w ys) disc).
  intros L1 L2 Hc E1 E2 Hp.
  assert (Hd : c - c' <> 0) by (intros Z; apply Hc; apply (fsub_zero K Kf); exact Z).
  assert (S1 : zt + w * zm + msm K HG zh - c * J = T).
  { rewrite <- E1. cbn [app msm]. rewrite msm_app by (symmetry; exact L1). cbn [msm]. ring. }
  assert (S2 : zt' + w * zm' + msm K HG zh' - c' * J = T).
  { rewrite <- E2. cbn [app msm]. rewrite msm_app by (symmetry; exact L2). cbn [msm]. ring. }
  assert (Lv : length zh = length zh') by lia.
  assert (Core : J = (zt - zt') * finv K (c - c') + w * ((zm - zm') * finv K (c - c'))
                     + msm K HG (map (fun z => z * finv K (c - c')) (vsub zh zh'))).
  { rewrite msm_scale, msm_vsub by exact Lv.
    assert (T1 : c * J = zt + w * zm + msm K HG zh - T) by (rewrite <- S1; ring).
    assert (T2 : c' * J = zt' + w * zm' + msm K HG zh' - T) by (rewrite <- S2; ring).
    transitivity ((c * J - c' * J) / (c - c')); [field; exact Hd|]. rewrite T1, T2. field. exact Hd. }
  split; [rewrite map_length, vsub_length by exact Lv; exact L1|]. split; [exact Core|].
  rewrite <- Hp. rewrite Core at 1. ring.
Qed.

(** ---- commitment sub-protocol: special soundness, and its link to the signature proof ---------- *)
Theorem commitment_extract gm gb C T zm zb zm' zb' c c' : c <> c' ->
  C * (- c) + gm * zm + gb * zb = T -> C * (- c') + gm * zm' + gb * zb' = T ->
  C = gm * ((zm - zm') / (c - c')) + gb * ((zb - zb') / (c - c')).
Proof.
  intros Hc E1 E2. assert (Hd : c - c' <> 0) by (intros Z; apply Hc; apply (fsub_zero K Kf); exact Z).
  assert (T1 : c * C = gm * zm + gb * zb - T) by (rewrite <- E1; ring).
  assert (T2 : c' * C = gm * zm' + gb * zb' - T) by (rewrite <- E2; ring).
  transitivity ((c * C - c' * C) / (c - c')); [field; exact Hd|]. rewrite T1, T2. field. exact Hd.
Qed.
End SigsP.
