From Coq Require Import ZArith List Bool Lia.
From ACV Require Import Model.Bytes Model.Transcript Proofs.BytesP.
Import ListNotations.
Open Scope Z_scope.
Ltac Zify.zify_post_hook ::= Z.div_mod_to_equations.

(** ---- LEB128 ---- *)
Lemma uvar_fuel_roundtrip fuel : forall n, 0 <= n < 128 ^ Z.of_nat fuel -> (fuel > 0)%nat ->
  uvar_dec_fuel fuel (uvar_fuel fuel n) = Some n.
Proof.
  induction fuel as [|f IH]; intros n Hn Hf; [lia|].
  cbn [uvar_fuel]. destruct (n <? 128) eqn:E.
  - cbn [uvar_dec_fuel]. rewrite E. reflexivity.
  - apply Z.ltb_ge in E. cbn [uvar_dec_fuel].
    assert (Hb : (n mod 128 + 128 <? 128) = false) by (apply Z.ltb_ge; lia). rewrite Hb.
    assert (Hf' : (f > 0)%nat).
    { destruct f; [|lia]. cbn in Hn. lia. }
    rewrite IH; [|rewrite Nat2Z.inj_succ, Z.pow_succ_r in Hn by lia; lia|exact Hf'].
    f_equal. lia.
Qed.

Lemma uvar_roundtrip n : 0 <= n < 2 ^ 128 -> uvar_dec (uvar n) = Some n.
Proof.
  intros H. unfold uvar_dec, uvar. apply uvar_fuel_roundtrip; [|lia].
  assert (2 ^ 128 <= 128 ^ Z.of_nat 19) by (vm_compute; discriminate). lia.
Qed.

Lemma len_ok {A} (l : list A) : (Z.of_nat (length l) < 2 ^ 64) -> uvar_dec (uvar (Z.of_nat (length l))) = Some (Z.of_nat (length l)).
Proof. intros H. apply uvar_roundtrip. assert (2 ^ 64 < 2 ^ 128) by (vm_compute; reflexivity). lia. Qed.

(** ---- generic counted lists ---- *)
Lemma take_n_roundtrip {A} (f : list item -> pres A) (enc : A -> list item) (l : list A) rest :
  (forall a r, In a l -> f (enc a ++ r) = Some (a, r)) ->
  take_n f (length l) (flat_map enc l ++ rest) = Some (l, rest).
Proof.
  induction l as [|a t IH]; intros H; [reflexivity|].
  cbn [length take_n flat_map]. rewrite <- app_assoc. rewrite H by (left; reflexivity).
  rewrite IH by (intros b r Hb; apply H; right; exact Hb). reflexivity.
Qed.

Lemma take_n_enum {A} (f : list item -> pres A) (enc : Z * A -> list item) (l : list A) : forall i rest,
  (forall j a r, f (enc (j, a) ++ r) = Some (a, r)) ->
  take_n f (length l) (flat_map enc (enum_from i l) ++ rest) = Some (l, rest).
Proof.
  induction l as [|a t IH]; intros i rest H; [reflexivity|].
  cbn [length take_n enum_from flat_map]. rewrite <- app_assoc, H, IH by exact H. reflexivity.
Qed.

Lemma take1_list (l : list item) r : take_n take1 (length l) (l ++ r) = Some (l, r).
Proof. induction l as [|a t IH]; [reflexivity|]. cbn [length take_n app take1]. rewrite IH. reflexivity. Qed.

Definition small {A} (l : list A) : Prop := Z.of_nat (length l) < 2 ^ 64.
Definition u64 (n : Z) : Prop := 0 <= n < 2 ^ 64.
Definition isz (n : Z) : Prop := - 2 ^ 63 <= n < 2 ^ 63.

Lemma u64_ok n : u64 n -> uvar_dec (uvar n) = Some n.
Proof. intros [H1 H2]. apply uvar_roundtrip. assert (2 ^ 64 < 2 ^ 128) by (vm_compute; reflexivity). lia. Qed.

(** ---- credential schema, issuer ---- *)
Definition cs_wf (c : cred_schema) : Prop := small (cs_blind c) /\ small (cs_indices c) /\ u64 (cs_nclaims c).

Lemma dec_cred_schema_ok c rest : cs_wf c -> dec_cred_schema (enc_cred_schema c ++ rest) = Some (c, rest).
Proof.
  intros [Hb [Hi Hn]]. destruct c as [id lab desc blind idx n]. cbn [cs_blind cs_indices cs_nclaims] in *.
  unfold enc_cred_schema. cbn [cs_id cs_label cs_desc cs_blind cs_indices cs_nclaims app].
  unfold dec_cred_schema.
  unfold dec_counted at 1. cbn [take_uvar]. rewrite (len_ok blind Hb), Nat2Z.id.
  rewrite <- app_assoc. rewrite take1_list. cbn [app].
  unfold dec_counted. cbn [take_uvar]. rewrite (len_ok idx Hi), Nat2Z.id.
  rewrite <- app_assoc.
  rewrite (take_n_enum dec_index_entry (fun p => [len_item (snd p); snd p; uvar (fst p)])) by (intros; reflexivity).
  cbn [app take_uvar]. rewrite (u64_ok n Hn). reflexivity.
Qed.

Definition ip_wf (i : issuer_pub) : Prop := cs_wf (ip_schema i).
Lemma dec_issuer_ok i rest : ip_wf i -> dec_issuer (enc_issuer i ++ rest) = Some (i, rest).
Proof.
  intros H. destruct i as [id vk rvk reg ek c]. unfold enc_issuer, dec_issuer. cbn [ip_id ip_vk ip_rvk ip_reg ip_ek ip_schema app].
  rewrite (dec_cred_schema_ok c rest H). reflexivity.
Qed.

(** ---- optional bounds ---- *)
Lemma of_u128_ok v : isz v -> of_u128 (isize_u128 v) = v.
Proof.
  intros [H1 H2]. unfold of_u128, isize_u128.
  assert (E63 : 2 ^ 63 < 2 ^ 127) by (vm_compute; reflexivity).
  assert (E127 : 2 ^ 128 = 2 * 2 ^ 127) by (vm_compute; reflexivity).
  destruct (Z_lt_le_dec v 0).
  - replace (v mod 2 ^ 128) with (v + 2 ^ 128).
    + destruct (v + 2 ^ 128 <? 2 ^ 127) eqn:E; [apply Z.ltb_lt in E; lia|lia].
    + symmetry. rewrite <- (Z.mod_add v 1 (2 ^ 128)) by lia. apply Z.mod_small. lia.
  - rewrite Z.mod_small by lia. destruct (v <? 2 ^ 127) eqn:E; [reflexivity|apply Z.ltb_ge in E; lia].
Qed.

Lemma dec_opt_ok o rest : (match o with Some v => isz v | None => True end) -> dec_opt (enc_opt o ++ rest) = Some (o, rest).
Proof.
  destruct o as [v|]; intros H; cbn [enc_opt app dec_opt]; [|reflexivity].
  rewrite uvar_roundtrip; [rewrite (of_u128_ok v H); reflexivity|].
  unfold isize_u128. apply Z.mod_pos_bound. vm_compute. reflexivity.
Qed.

(** ---- statements ---- *)
Definition stmt_wf (s : tstmt) : Prop :=
  match s with
  | TSig _ d i => small d /\ ip_wf i
  | TRev _ _ c _ _ | TMem _ _ c _ _ | TComm _ _ c _ _ | TVenc _ _ _ c _ _ | TVdec _ _ c _ _ => u64 c
  | TEq _ refs => small refs /\ Forall (fun p => u64 (snd p)) refs
  | TRange _ _ _ c lo hi => u64 c /\ (match lo with Some v => isz v | None => True end) /\ (match hi with Some v => isz v | None => True end)
  end.

Lemma tags_distinct :
  list_eqb tag_rev tag_sig = false /\ list_eqb tag_mem tag_sig = false /\ list_eqb tag_mem tag_rev = false /\
  list_eqb tag_eq tag_sig = false /\ list_eqb tag_eq tag_rev = false /\ list_eqb tag_eq tag_mem = false /\
  list_eqb tag_comm tag_sig = false /\ list_eqb tag_comm tag_rev = false /\ list_eqb tag_comm tag_mem = false /\ list_eqb tag_comm tag_eq = false /\
  list_eqb tag_range tag_sig = false /\ list_eqb tag_range tag_rev = false /\ list_eqb tag_range tag_mem = false /\ list_eqb tag_range tag_eq = false /\ list_eqb tag_range tag_comm = false /\
  list_eqb tag_venc tag_sig = false /\ list_eqb tag_venc tag_rev = false /\ list_eqb tag_venc tag_mem = false /\ list_eqb tag_venc tag_eq = false /\ list_eqb tag_venc tag_comm = false /\ list_eqb tag_venc tag_range = false /\
  list_eqb tag_vdec tag_sig = false /\ list_eqb tag_vdec tag_rev = false /\ list_eqb tag_vdec tag_mem = false /\ list_eqb tag_vdec tag_eq = false /\ list_eqb tag_vdec tag_comm = false /\ list_eqb tag_vdec tag_range = false /\ list_eqb tag_vdec tag_venc = false.
Proof. vm_compute. repeat split. Qed.

Ltac use_tags := repeat match goal with H : list_eqb _ _ = false |- _ => rewrite ?H; clear H end; rewrite list_eqb_refl.

Lemma dec_stmt_ok s rest : stmt_wf s -> dec_stmt (enc_stmt s ++ rest) = Some (s, rest).
Proof.
  pose proof tags_distinct as T. repeat (destruct T as [? T]).
  destruct s as [id d i|id ref c vk acc|id ref c vk acc|id refs|id ref c gm gb|id ref sg c lo hi|id fl ref c gm ek|id ref c gm ek];
    intros W; cbn [enc_stmt stmt_wf] in *.
  - destruct W as [Wd Wi]. cbn [app dec_stmt]. use_tags. unfold dec_counted. cbn [take_uvar]. rewrite (len_ok d Wd), Nat2Z.id.
    rewrite <- app_assoc.
    rewrite (take_n_enum dec_disclosed_entry (fun p => [uvar (fst p); snd p])) by (intros; reflexivity).
    match goal with |- context [dec_issuer ?x] => replace (dec_issuer x) with (Some (i, rest)) by (symmetry; apply (dec_issuer_ok i rest Wi)) end.
    reflexivity.
  - cbn [app dec_stmt]. use_tags. rewrite (u64_ok c W). reflexivity.
  - cbn [app dec_stmt]. use_tags. rewrite (u64_ok c W). reflexivity.
  - destruct W as [Ws Wf]. cbn [app dec_stmt]. use_tags. unfold dec_counted. cbn [take_uvar]. rewrite (len_ok refs Ws), Nat2Z.id.
    rewrite (take_n_roundtrip dec_ref_entry (fun p => [fst p; uvar (snd p)])); [reflexivity|].
    intros [rid rc] r Hin. cbn [fst snd app dec_ref_entry]. rewrite Forall_forall in Wf. rewrite (u64_ok rc (Wf _ Hin)). reflexivity.
  - cbn [app dec_stmt]. use_tags. rewrite (u64_ok c W). reflexivity.
  - destruct W as [Wc [Wlo Whi]]. cbn [app dec_stmt]. use_tags. rewrite (u64_ok c Wc).
    rewrite <- app_assoc, (dec_opt_ok lo _ Wlo), (dec_opt_ok hi _ Whi). reflexivity.
  - cbn [app dec_stmt]. use_tags. rewrite (u64_ok c W). destruct fl; reflexivity.
  - cbn [app dec_stmt]. use_tags. rewrite (u64_ok c W). reflexivity.
Qed.

(** ---- the whole context ---- *)
Definition ts_wf (s : tschema) : Prop := small (ts_stmts s) /\ Forall (fun p => stmt_wf (snd p)) (ts_stmts s).

Theorem dec_context_ok nonce s : ts_wf s -> dec_context (enc_context nonce s) = Some (nonce, s).
Proof.
  intros [Ws Wf]. destruct s as [id stmts]. cbn [ts_id ts_stmts] in *. unfold enc_context, dec_context. cbn [ts_id ts_stmts app].
  unfold dec_counted. cbn [take_uvar]. rewrite (len_ok stmts Ws), Nat2Z.id.
  rewrite <- (app_nil_r (flat_map (fun p => fst p :: enc_stmt (snd p)) stmts)).
  rewrite (take_n_roundtrip dec_keyed_stmt (fun p => fst p :: enc_stmt (snd p))); [reflexivity|].
  intros [k st] r Hin. cbn [fst snd app dec_keyed_stmt]. rewrite Forall_forall in Wf.
  rewrite (dec_stmt_ok st r (Wf _ Hin)). reflexivity.
Qed.

(** injectivity: equal transcripts come from equal nonces and equal schemas — every field of every
    statement, the statement keys, order and count, the schema id *)
Theorem context_binding nonce s nonce' s' : ts_wf s -> ts_wf s' ->
  enc_context nonce s = enc_context nonce' s' -> nonce = nonce' /\ s = s'.
Proof.
  intros W W' E. pose proof (dec_context_ok nonce s W) as D. rewrite E, (dec_context_ok nonce' s' W') in D.
  injection D as -> ->. split; reflexivity.
Qed.
