(** Lemmas about the claim codecs (C18). *)
From Coq Require Import ZArith Lia Bool List Decimal DecimalPos DecimalN.
From ACV Require Import Model.Res Model.Ints Model.Bytes Model.ClaimCodec Proofs.IntsP Proofs.BytesP.
Import ListNotations.
Open Scope Z_scope.

(** ---------------- scalar packing ---------------- *)

Lemma pack_length v : (length v <= 31)%nat -> length (pack_bytes v) = 32%nat.
Proof.
  intros H. destruct v as [|b t]; [apply zeros_length|].
  unfold pack_bytes. rewrite !app_length, zeros_length. cbn [length] in *. lia.
Qed.

Lemma len_byte v : (length v <= 31)%nat -> is_byte (len v).
Proof. unfold is_byte, len. lia. Qed.

Lemma pack_all_bytes v : (length v <= 31)%nat -> all_bytes v -> all_bytes (pack_bytes v).
Proof.
  intros Hl Hv. destruct v as [|b t]; [apply zeros_all_bytes|].
  unfold pack_bytes. apply Forall_app. split; [constructor; [apply len_byte; exact Hl|constructor]|].
  apply Forall_app. split; [apply zeros_all_bytes|exact Hv].
Qed.

Lemma two253_lt_rmod : 32 * 256 ^ 31 < rmod. Proof. reflexivity. Qed.

Lemma pack_value_bound v :
  (length v <= 31)%nat -> all_bytes v -> 0 <= of_be (pack_bytes v) < 32 * 256 ^ 31.
Proof.
  intros Hl Hv. destruct v as [|b t].
  - unfold pack_bytes. rewrite of_be_zeros. lia.
  - unfold pack_bytes. set (v := b :: t) in *.
    rewrite of_be_app.
    assert (Hrest : all_bytes (zeros (31 - length v) ++ v))
      by (apply Forall_app; split; [apply zeros_all_bytes|exact Hv]).
    pose proof (of_be_bounds _ Hrest) as Hb.
    assert (Hlen : length (zeros (31 - length v) ++ v) = 31%nat)
      by (rewrite app_length, zeros_length; lia).
    rewrite Hlen in *. change (Z.of_nat 31) with 31 in *.
    rewrite of_be_cons, of_be_nil. cbn [length]. change (256 ^ Z.of_nat 0) with 1.
    assert (0 <= len v <= 31) by (unfold len; lia). nia.
Qed.

Lemma encode_packed_ok v :
  (length v <= 31)%nat -> all_bytes v -> encode_packed v = Ok (of_be (pack_bytes v)).
Proof.
  intros Hl Hv. unfold encode_packed.
  replace (31 <? len v) with false by (symmetry; apply Z.ltb_ge; unfold len; lia).
  unfold scalar_of_be. pose proof (pack_value_bound v Hl Hv). pose proof two253_lt_rmod.
  replace (of_be (pack_bytes v) <? rmod) with true by (symmetry; apply Z.ltb_lt; lia).
  reflexivity.
Qed.

Lemma encode_packed_long v : (31 < length v)%nat -> encode_packed v = Err.
Proof.
  intros H. unfold encode_packed.
  replace (31 <? len v) with true by (symmetry; apply Z.ltb_lt; unfold len; lia). reflexivity.
Qed.

Lemma encode_packed_canonical v s : all_bytes v -> encode_packed v = Ok s -> 0 <= s < rmod.
Proof.
  intros Hv H. destruct (le_lt_dec (length v) 31) as [Hl|Hl].
  - rewrite encode_packed_ok in H by assumption. inversion H; subst.
    pose proof (pack_value_bound v Hl Hv). pose proof two253_lt_rmod. lia.
  - rewrite encode_packed_long in H by exact Hl. discriminate.
Qed.

Lemma skipn_app_exact {A} (a b : list A) n : n = length a -> skipn n (a ++ b) = b.
Proof. intros ->. rewrite skipn_app, skipn_all, Nat.sub_diag. reflexivity. Qed.

Lemma unpack_pack v :
  (length v <= 31)%nat -> all_bytes v -> unpack 0 (of_be (pack_bytes v)) = Ok v.
Proof.
  intros Hl Hv. unfold unpack.
  pose proof (pack_length v Hl) as HL.
  assert (HB : to_be 32 (of_be (pack_bytes v)) = pack_bytes v)
    by (rewrite <- HL; apply to_be_of_be; apply pack_all_bytes; assumption).
  rewrite HB. clear HB HL.
  destruct v as [|b t].
  - unfold pack_bytes. cbn [zeros repeat nth_error]. reflexivity.
  - unfold pack_bytes. set (v := b :: t) in *.
    assert (Hn : nth_error ([len v] ++ zeros (31 - length v) ++ v) 0 = Some (len v)) by reflexivity.
    rewrite Hn.
    assert (0 <= len v <= 31) by (unfold len; lia).
    replace (32 <? len v) with false by (symmetry; apply Z.ltb_ge; lia).
    unfold slice_from.
    assert (HL : len ([len v] ++ zeros (31 - length v) ++ v) = 32)
      by (unfold len; rewrite !app_length, zeros_length; cbn [length]; lia).
    rewrite HL.
    replace ((0 <=? 32 - len v) && (32 - len v <=? 32)) with true
      by (symmetry; apply andb_true_iff; split; apply Z.leb_le; lia).
    f_equal. rewrite app_assoc. apply skipn_app_exact.
    rewrite app_length, zeros_length. cbn [length]. unfold len. lia.
Qed.

Lemma encode_decode_packed v s :
  all_bytes v -> encode_packed v = Ok s -> unpack 0 s = Ok v.
Proof.
  intros Hv H. destruct (le_lt_dec (length v) 31) as [Hl|Hl].
  - rewrite encode_packed_ok in H by assumption. inversion H; subst. apply unpack_pack; assumption.
  - rewrite encode_packed_long in H by exact Hl. discriminate.
Qed.

Lemma encode_packed_inj a b s :
  all_bytes a -> all_bytes b -> encode_packed a = Ok s -> encode_packed b = Ok s -> a = b.
Proof.
  intros Ha Hb Ea Eb. apply encode_decode_packed in Ea; [|exact Ha].
  apply encode_decode_packed in Eb; [|exact Hb]. congruence.
Qed.

(** ---------------- pre-images ---------------- *)

Lemma app_inv_len {A} (a a' b b' : list A) :
  length a = length a' -> a ++ b = a' ++ b' -> a = a' /\ b = b'.
Proof.
  revert a'. induction a as [|x a IH]; intros [|y a'] Hl E; cbn in *; try discriminate.
  - split; [reflexivity|exact E].
  - inversion E; subst. destruct (IH a') as [-> ->]; [lia|assumption|]. split; reflexivity.
Qed.

Lemma revocation_pre_inj a b : acc_salt ++ a = acc_salt ++ b -> a = b.
Proof. apply app_inv_head. Qed.

Lemma enum_pre_explicit d v t :
  preimage (CEnum d v t) =
  Some (d ++ [len d mod 256; (t mod 65536) mod 256; (t mod 65536 / 256) mod 256; v]).
Proof. reflexivity. Qed.

Lemma some_inj {A} (a b : A) : Some a = Some b -> a = b.
Proof. intros H. injection H as H. exact H. Qed.

Lemma enum_pre_inj d1 v1 t1 d2 v2 t2 :
  0 <= t1 < 65536 -> 0 <= t2 < 65536 ->
  preimage (CEnum d1 v1 t1) = preimage (CEnum d2 v2 t2) -> d1 = d2 /\ v1 = v2 /\ t1 = t2.
Proof.
  intros H1 H2 E. rewrite !enum_pre_explicit in E. apply some_inj in E.
  assert (Hl : length d1 = length d2).
  { apply (f_equal (@length Z)) in E. rewrite !app_length in E. cbn [length] in E. lia. }
  destruct (app_inv_len _ _ _ _ Hl E) as [-> E2].
  injection E2 as Ea Eb Ec.
  rewrite !(Z.mod_small _ 65536) in Ea, Eb by lia.
  repeat split; [exact Ec|].
  rewrite (Z.div_mod t1 256), (Z.div_mod t2 256) by lia.
  rewrite (Z.mod_small (t1 / 256) 256) in Eb by (split; [apply Z.div_pos; lia|apply Z.div_lt_upper_bound; lia]).
  rewrite (Z.mod_small (t2 / 256) 256) in Eb by (split; [apply Z.div_pos; lia|apply Z.div_lt_upper_bound; lia]).
  congruence.
Qed.

(** Truncation of total_values to u16 collides (the finding). *)
Lemma enum_pre_collision :
  preimage (CEnum [97] 3 1) = preimage (CEnum [97] 3 65537).
Proof. reflexivity. Qed.

(** ---------------- byte and text codecs ---------------- *)

Lemma uint_bytes_roundtrip u : bytes_uint (uint_bytes u) = Some u.
Proof. induction u as [|u IH|u IH|u IH|u IH|u IH|u IH|u IH|u IH|u IH|u IH]; cbn [uint_bytes bytes_uint]; [reflexivity|rewrite IH; reflexivity ..]. Qed.

Lemma uint_bytes_head u b t : uint_bytes u = b :: t -> 48 <= b <= 57.
Proof. destruct u; cbn [uint_bytes]; intros H; inversion H; lia. Qed.

Lemma uint_bytes_nonnil u : u <> Nil -> uint_bytes u <> [].
Proof. destruct u; cbn [uint_bytes]; congruence. Qed.

Lemma parse_digits p :
  exists b t, uint_bytes (Pos.to_uint p) = b :: t /\ 48 <= b <= 57.
Proof.
  destruct (uint_bytes (Pos.to_uint p)) as [|b t] eqn:E.
  - exfalso. apply (uint_bytes_nonnil (Pos.to_uint p)); [apply DecimalPos.Unsigned.to_uint_nonnil|exact E].
  - exists b, t. split; [reflexivity|]. eapply uint_bytes_head; exact E.
Qed.

Lemma parse_dec_string v : in_i64 v -> parse_isize (dec_string v) = Some v.
Proof.
  intros Hv. destruct v as [|p|p]; [reflexivity| |].
  - cbn [dec_string]. destruct (parse_digits p) as (b & t & E & Hb).
    unfold parse_isize. rewrite E.
    replace (b =? 45) with false by (symmetry; apply Z.eqb_neq; lia).
    replace (b =? 43) with false by (symmetry; apply Z.eqb_neq; lia).
    rewrite <- E, uint_bytes_roundtrip.
    change (N.of_uint (Pos.to_uint p)) with (Pos.of_uint (Pos.to_uint p)).
    rewrite DecimalPos.Unsigned.of_to. cbn [Z.of_N].
    replace (in_i64b (Z.pos p)) with true; [reflexivity|].
    symmetry. unfold in_i64b, in_i64 in *. apply andb_true_intro. split; [apply Z.leb_le|apply Z.ltb_lt]; lia.
  - cbn [dec_string]. destruct (parse_digits p) as (b & t & E & Hb).
    unfold parse_isize. rewrite Z.eqb_refl. rewrite E. rewrite <- E, uint_bytes_roundtrip.
    change (N.of_uint (Pos.to_uint p)) with (Pos.of_uint (Pos.to_uint p)).
    rewrite DecimalPos.Unsigned.of_to. cbn [Z.of_N Z.opp].
    replace (in_i64b (Z.neg p)) with true; [reflexivity|].
    symmetry. unfold in_i64b, in_i64 in *. apply andb_true_intro. split; [apply Z.leb_le|apply Z.ltb_lt]; lia.
Qed.

(** LEB128 round trip for values below 128^8 (string lengths) *)
Lemma uvarint_fuel_S fe n :
  uvarint_fuel (S fe) n = if n <? 128 then [n] else (n mod 128 + 128) :: uvarint_fuel fe (n / 128).
Proof. reflexivity. Qed.

Lemma uvarint_dec_cons fd i shift acc b t :
  uvarint_dec (S fd) i shift acc (b :: t) =
  if (9 <? i) || ((i =? 9) && (1 <? b)) then None
  else if b <? 128 then Some (acc + b * 2 ^ shift, t)
  else uvarint_dec fd (i + 1) (shift + 7) (acc + (b - 128) * 2 ^ shift) t.
Proof. reflexivity. Qed.

Lemma uvarint_roundtrip_gen k :
  forall n i shift acc fe fd rest,
    0 <= n < 128 ^ Z.of_nat (S k) -> 0 <= i -> i + Z.of_nat k <= 8 -> 0 <= shift ->
    (S k <= fe)%nat -> (S k <= fd)%nat ->
    uvarint_dec fd i shift acc (uvarint_fuel fe n ++ rest) = Some (acc + n * 2 ^ shift, rest).
Proof.
  induction k as [|k IH]; intros n i shift acc fe fd rest Hn Hi Hik Hs Hfe Hfd;
    (destruct fe as [|fe]; [lia|]); (destruct fd as [|fd]; [lia|]);
    rewrite uvarint_fuel_S.
  - change (128 ^ Z.of_nat 1) with 128 in Hn.
    replace (n <? 128) with true by (symmetry; apply Z.ltb_lt; lia).
    change ([n] ++ rest) with (n :: rest). rewrite uvarint_dec_cons.
    replace (9 <? i) with false by (symmetry; apply Z.ltb_ge; lia).
    replace (i =? 9) with false by (symmetry; apply Z.eqb_neq; lia).
    replace (n <? 128) with true by (symmetry; apply Z.ltb_lt; lia). reflexivity.
  - destruct (Z.ltb_spec n 128) as [Hlt|Hge].
    + change ([n] ++ rest) with (n :: rest). rewrite uvarint_dec_cons.
      replace (9 <? i) with false by (symmetry; apply Z.ltb_ge; lia).
      replace (i =? 9) with false by (symmetry; apply Z.eqb_neq; lia).
      replace (n <? 128) with true by (symmetry; apply Z.ltb_lt; lia). reflexivity.
    + rewrite <- app_comm_cons, uvarint_dec_cons.
      replace (9 <? i) with false by (symmetry; apply Z.ltb_ge; lia).
      replace (i =? 9) with false by (symmetry; apply Z.eqb_neq; lia).
      assert (Hm : 0 <= n mod 128 < 128) by (apply Z.mod_pos_bound; lia).
      replace (n mod 128 + 128 <? 128) with false by (symmetry; apply Z.ltb_ge; lia).
      cbn [orb andb].
      rewrite IH.
      * f_equal. f_equal.
        replace (n mod 128 + 128 - 128) with (n mod 128) by lia.
        rewrite Z.pow_add_r by lia. change (2 ^ 7) with 128.
        rewrite (Z.div_mod n 128) at 3 by lia. ring.
      * rewrite Nat2Z.inj_succ, Z.pow_succ_r in Hn by lia.
        split; [apply Z.div_pos; lia|apply Z.div_lt_upper_bound; lia].
      * lia.
      * rewrite Nat2Z.inj_succ in Hik. lia.
      * lia.
      * lia.
      * lia.
Qed.

Lemma uvarint_roundtrip n rest :
  0 <= n < 128 ^ 8 -> uvarint_dec 11 0 0 0 (uvarint n ++ rest) = Some (n, rest).
Proof.
  intros H. unfold uvarint.
  rewrite (uvarint_roundtrip_gen 7 n 0 0 0 11 11 rest);
    [f_equal; f_equal; change (2 ^ 0) with 1; lia|exact H|lia ..].
Qed.

Lemma len_ge4 a b c d (t : bytes) : (len (a :: b :: c :: d :: t) <? 4) = false.
Proof. apply Z.ltb_ge. unfold len. cbn [length]. lia. Qed.

Lemma uvarint_fuel_all_bytes f : forall n, 0 <= n -> all_bytes (uvarint_fuel f n).
Proof.
  induction f as [|f IH]; intros n Hn; cbn [uvarint_fuel]; [constructor|].
  destruct (Z.ltb_spec n 128).
  - constructor; [unfold is_byte; lia|constructor].
  - constructor.
    + unfold is_byte. assert (0 <= n mod 128 < 128) by (apply Z.mod_pos_bound; lia). lia.
    + apply IH. apply Z.div_pos; lia.
Qed.

Lemma bare_enum_all_bytes dst value total :
  all_bytes dst -> is_byte value -> all_bytes (bare_enum dst value total).
Proof.
  intros Hd Hv. unfold bare_enum. apply Forall_app. split.
  - apply uvarint_fuel_all_bytes. unfold len. lia.
  - apply Forall_app. split; [exact Hd|]. apply Forall_app. split; [constructor; [exact Hv|constructor]|].
    apply to_le_all_bytes.
Qed.

Lemma firstn_app_exact {A} (a b : list A) n : n = length a -> firstn n (a ++ b) = a.
Proof. intros ->. rewrite firstn_app, Nat.sub_diag, firstn_all. cbn [firstn]. apply app_nil_r. Qed.

Section CodecProofs.
  Variable is_utf8 : bytes -> bool.
  (** a valid UTF-8 string does not start with a continuation byte *)
  Hypothesis utf8_head : forall b t, is_utf8 (b :: t) = true -> (128 <=? b) && (b <? 192) = false.

  Lemma boundary_pfx a b c d (v : bytes) :
    is_utf8 v = true -> char_boundary_at4 (a :: b :: c :: d :: v) = true.
  Proof.
    intros H. unfold char_boundary_at4. cbn [nth_error]. destruct v as [|x t]; [reflexivity|].
    rewrite (utf8_head x t H). reflexivity.
  Qed.

  Lemma boundary_ascii a b c d (v : bytes) :
    (forall x t, v = x :: t -> x < 128) -> char_boundary_at4 (a :: b :: c :: d :: v) = true.
  Proof.
    intros H. unfold char_boundary_at4. cbn [nth_error]. destruct v as [|x t]; [reflexivity|].
    specialize (H x t eq_refl).
    replace (128 <=? x) with false by (symmetry; apply Z.leb_gt; lia). reflexivity.
  Qed.

  Lemma hex_digit_ascii d : 0 <= d < 16 -> hex_digit d < 128.
  Proof. intros H. unfold hex_digit. destruct (d <? 10); lia. Qed.

  Lemma hex_digit_is_hex d : 0 <= d < 16 -> is_hexb (hex_digit d) = true.
  Proof.
    intros H. assert (E : d = 0 \/ d = 1 \/ d = 2 \/ d = 3 \/ d = 4 \/ d = 5 \/ d = 6 \/ d = 7 \/ d = 8 \/ d = 9
      \/ d = 10 \/ d = 11 \/ d = 12 \/ d = 13 \/ d = 14 \/ d = 15) by lia.
    repeat (destruct E as [->|E]; [reflexivity|]). subst. reflexivity.
  Qed.
  Lemma hex_encode_all_hex l : all_bytes l -> forallb is_hexb (hex_encode l) = true.
  Proof.
    induction 1 as [|b t Hb Ht IH]; [reflexivity|]. cbn [hex_encode forallb]. unfold is_byte in Hb.
    rewrite !hex_digit_is_hex, IH; [reflexivity| |].
    - pose proof (Z.mod_pos_bound b 16). lia.
    - split; [apply Z.div_pos; lia | apply Z.div_lt_upper_bound; lia].
  Qed.

  Lemma hex_encode_ascii l : all_bytes l -> forall x t, hex_encode l = x :: t -> x < 128.
  Proof.
    intros Hl x t E. destruct l as [|b l']; [discriminate|]. cbn [hex_encode] in E. injection E as <- _.
    apply hex_digit_ascii. pose proof (Forall_inv Hl) as Hb. unfold is_byte in Hb.
    split; [apply Z.div_pos; lia|apply Z.div_lt_upper_bound; lia].
  Qed.

  Theorem claim_bytes_roundtrip c :
    wf_claim is_utf8 c -> ~ bytes_codec_lossy c ->
    from_bytes is_utf8 (claim_type c) (to_bytes c) = Ok c.
  Proof.
    intros Hwf Hk. destruct c as [v pf|v|s|id|dst value total]; cbn [wf_claim bytes_codec_lossy claim_type to_bytes] in *.
    - destruct pf; [exfalso; apply Hk; exact I|reflexivity].
    - unfold from_bytes. rewrite to_be_length.
      rewrite of_be_to_be_small.
      + rewrite as_i64_as_u64 by exact Hwf. reflexivity.
      + change (256 ^ Z.of_nat 8) with two64. unfold as_u64. apply Z.mod_pos_bound. reflexivity.
    - unfold from_bytes. rewrite to_be_length. cbn [Nat.eqb negb].
      unfold scalar_of_be. rewrite of_be_to_be_small.
      + replace (s <? rmod) with true by (symmetry; apply Z.ltb_lt; lia). reflexivity.
      + assert (rmod < 256 ^ Z.of_nat 32) by reflexivity. lia.
    - destruct Hwf as [Hb Hu]. unfold from_bytes.
      destruct (Nat.eqb_spec (length id) 16) as [E|E]; [|exfalso; apply Hk; exact E].
      cbn [negb]. rewrite Hu. reflexivity.
    - exfalso. apply Hk. exact I.
  Qed.

  (** the lossy classes really are lossy (witnesses of the known findings) *)
  Lemma bytes_codec_hashed_flag_lost v :
    from_bytes is_utf8 THashed (to_bytes (CHashed v true)) = Ok (CHashed v false).
  Proof. reflexivity. Qed.
  Lemma bytes_codec_revocation_len id :
    length id <> 16%nat -> from_bytes is_utf8 TRevocation (to_bytes (CRevocation id)) = Err.
  Proof.
    intros H. cbn [to_bytes from_bytes]. destruct (Nat.eqb_spec (length id) 16); [contradiction|reflexivity].
  Qed.
  Lemma bytes_codec_enum d v t : from_bytes is_utf8 TEnumeration (to_bytes (CEnum d v t)) = Err.
  Proof. reflexivity. Qed.

  (** dispatch of from_text on each of the six prefixes *)
  Ltac ft_dispatch H :=
    unfold from_text; cbn [List.app]; rewrite len_ge4, H; reflexivity.

  Lemma from_text_hex rest : char_boundary_at4 (pfx_hex ++ rest) = true ->
    from_text is_utf8 (pfx_hex ++ rest) =
    match hex_decode rest with Some v => Ok (CHashed v false) | None => Err end.
  Proof. intros H. unfold pfx_hex in *. cbn [List.app] in H. ft_dispatch H. Qed.
  Lemma from_text_ut8 rest : char_boundary_at4 (pfx_ut8 ++ rest) = true ->
    from_text is_utf8 (pfx_ut8 ++ rest) = Ok (CHashed rest true).
  Proof. intros H. unfold pfx_ut8 in *. cbn [List.app] in H. ft_dispatch H. Qed.
  Lemma from_text_num rest : char_boundary_at4 (pfx_num ++ rest) = true ->
    from_text is_utf8 (pfx_num ++ rest) =
    match parse_isize rest with Some v => Ok (CNumber v) | None => Err end.
  Proof. intros H. unfold pfx_num in *. cbn [List.app] in H. ft_dispatch H. Qed.
  Lemma from_text_scl rest : char_boundary_at4 (pfx_scl ++ rest) = true ->
    from_text is_utf8 (pfx_scl ++ rest) =
    if negb (len rest =? 64) || negb (forallb is_hexb rest) then Err
    else rmap CScalar (scalar_from_be_hex rest).
  Proof. intros H. unfold pfx_scl in *. cbn [List.app] in H. ft_dispatch H. Qed.
  Lemma from_text_rev rest : char_boundary_at4 (pfx_rev ++ rest) = true ->
    from_text is_utf8 (pfx_rev ++ rest) = Ok (CRevocation rest).
  Proof. intros H. unfold pfx_rev in *. cbn [List.app] in H. ft_dispatch H. Qed.
  Lemma from_text_enm rest : char_boundary_at4 (pfx_enm ++ rest) = true ->
    from_text is_utf8 (pfx_enm ++ rest) =
    match hex_decode rest with Some b => of_option (bare_enum_dec is_utf8 b) | None => Err end.
  Proof. intros H. unfold pfx_enm in *. cbn [List.app] in H. ft_dispatch H. Qed.

  Lemma bare_enum_roundtrip dst value total :
    all_bytes dst -> is_utf8 dst = true -> 0 <= total < two64 -> len dst < 128 ^ 8 ->
    bare_enum_dec is_utf8 (bare_enum dst value total) = Some (CEnum dst value total).
  Proof.
    intros Hb Hu Ht Hl. unfold bare_enum_dec, bare_enum.
    rewrite uvarint_roundtrip by (unfold len in *; lia).
    assert (Hlen : len dst <= len (dst ++ [value] ++ to_le 8 total))
      by (unfold len; rewrite app_length; lia).
    replace (len (dst ++ [value] ++ to_le 8 total) <? len dst) with false
      by (symmetry; apply Z.ltb_ge; exact Hlen).
    replace (Z.to_nat (len dst)) with (length dst) by (unfold len; rewrite Nat2Z.id; reflexivity).
    rewrite firstn_app_exact, skipn_app_exact by reflexivity.
    rewrite Hu. cbn [negb]. change ([value] ++ to_le 8 total) with (value :: to_le 8 total).
    cbv iota. rewrite to_le_length. cbn [Nat.ltb Nat.leb].
    replace (firstn 8 (to_le 8 total)) with (to_le 8 total)
      by (symmetry; apply firstn_all2; rewrite to_le_length; lia).
    rewrite of_le_to_le_small by (change (256 ^ Z.of_nat 8) with two64; exact Ht).
    reflexivity.
  Qed.

  Theorem claim_text_roundtrip c :
    wf_claim is_utf8 c -> exists t, to_text is_utf8 c = Ok t /\ from_text is_utf8 t = Ok c.
  Proof.
    intros Hwf. destruct c as [v pf|v|s|id|dst value total]; cbn [wf_claim] in Hwf.
    - destruct Hwf as [Hb Hu]. destruct pf.
      + specialize (Hu eq_refl). eexists. split; [cbn [to_text]; rewrite Hu; reflexivity|].
        apply from_text_ut8. apply boundary_pfx. exact Hu.
      + eexists. split; [reflexivity|].
        rewrite from_text_hex by (apply boundary_ascii; apply hex_encode_ascii; exact Hb).
        rewrite hex_roundtrip by exact Hb. reflexivity.
    - eexists. split; [reflexivity|].
      rewrite from_text_num.
      + rewrite parse_dec_string by exact Hwf. reflexivity.
      + apply boundary_ascii. intros x t E. destruct v as [|p|p]; cbn [dec_string] in E.
        * injection E as <- _. lia.
        * apply uint_bytes_head in E. lia.
        * injection E as <- _. lia.
    - eexists. split; [reflexivity|].
      pose proof (to_be_all_bytes 32 s) as Hb.
      rewrite from_text_scl by (apply boundary_ascii; apply hex_encode_ascii; exact Hb).
      unfold scalar_from_be_hex.
      assert (Hl : length (hex_encode (to_be 32 s)) = 64%nat) by (rewrite hex_encode_length, to_be_length; reflexivity).
      replace (len (hex_encode (to_be 32 s)) <? 64) with false
        by (symmetry; apply Z.ltb_ge; unfold len; rewrite Hl; lia).
      replace (len (hex_encode (to_be 32 s)) =? 64) with true
        by (symmetry; apply Z.eqb_eq; unfold len; rewrite Hl; reflexivity).
      rewrite hex_encode_all_hex by exact Hb. cbn [negb orb].
      rewrite <- Hl, firstn_all, hex_roundtrip by exact Hb.
      unfold scalar_of_be. rewrite of_be_to_be_small.
      + replace (s <? rmod) with true by (symmetry; apply Z.ltb_lt; lia). reflexivity.
      + assert (rmod < 256 ^ Z.of_nat 32) by reflexivity. lia.
    - destruct Hwf as [Hb Hu]. eexists. split; [reflexivity|].
      apply from_text_rev. apply boundary_pfx. exact Hu.
    - destruct Hwf as (Hb & Hu & Hv & Ht & Hl). eexists. split; [reflexivity|].
      pose proof (bare_enum_all_bytes dst value total Hb Hv) as Hall.
      rewrite from_text_enm by (apply boundary_ascii; apply hex_encode_ascii; exact Hall).
      rewrite hex_roundtrip by exact Hall.
      rewrite bare_enum_roundtrip by assumption. reflexivity.
  Qed.
End CodecProofs.

(** ---------------- collision freeness of to_scalar ---------------- *)

Definition same_value (c1 c2 : claim) : Prop :=
  match c1, c2 with
  | CHashed v1 _, CHashed v2 _ => v1 = v2      (* print_friendly is presentation only *)
  | _, _ => c1 = c2
  end.

Definition enum_total_u16 (c : claim) : Prop :=
  match c with CEnum _ _ t => 0 <= t < 65536 | _ => True end.

Section Collision.
  Variable H_xof : bytes -> Z.
  Variable is_utf8 : bytes -> bool.
  Hypothesis H_inj : forall a b, H_xof a = H_xof b -> a = b.   (* collision resistance *)

  Theorem to_scalar_collision_free c1 c2 :
    claim_type c1 = claim_type c2 ->
    wf_claim is_utf8 c1 -> wf_claim is_utf8 c2 ->
    enum_total_u16 c1 -> enum_total_u16 c2 ->
    to_scalar H_xof c1 = to_scalar H_xof c2 -> same_value c1 c2.
  Proof.
    intros Ht W1 W2 E1 E2 Hs.
    destruct c1 as [v1 p1|v1|s1|i1|d1 x1 t1]; destruct c2 as [v2 p2|v2|s2|i2|d2 x2 t2];
      try discriminate Ht; cbn [same_value wf_claim enum_total_u16] in *.
    - cbn [to_scalar preimage] in Hs. apply H_inj in Hs. exact Hs.
    - cbn [to_scalar] in Hs. unfold get_num_scalar in Hs. f_equal. apply zc_inj; assumption.
    - cbn [to_scalar] in Hs. congruence.
    - cbn [to_scalar preimage] in Hs. apply H_inj in Hs. apply revocation_pre_inj in Hs. congruence.
    - unfold to_scalar in Hs.
      destruct (preimage (CEnum d1 x1 t1)) as [p1|] eqn:P1; [|discriminate P1].
      destruct (preimage (CEnum d2 x2 t2)) as [p2|] eqn:P2; [|discriminate P2].
      apply H_inj in Hs. subst p2. rewrite <- P2 in P1.
      destruct (enum_pre_inj _ _ _ _ _ _ E1 E2 P1) as (-> & -> & ->). reflexivity.
  Qed.
End Collision.

(** the executable UTF-8 validator satisfies the boundary hypothesis *)
From ACV Require Import Exec.Utf8.

Lemma utf8_valid_head b t : utf8_valid (b :: t) = true -> (128 <=? b) && (b <? 192) = false.
Proof.
  intros H. destruct ((128 <=? b) && (b <? 192)) eqn:E; [|reflexivity].
  apply andb_prop in E. destruct E as [E1 E2]. apply Z.leb_le in E1. apply Z.ltb_lt in E2.
  unfold utf8_valid in H. cbn [length utf8_fuel] in H.
  assert (F : forall lo hi, (hi < 128 \/ 192 <= lo) -> inr lo hi b = false).
  { intros lo hi Hh. unfold inr. destruct (Z.leb_spec lo b); destruct (Z.leb_spec b hi); cbn; try reflexivity; lia. }
  rewrite (F 0 127), (F 194 223), (F 224 239), (F 240 244) in H by lia. discriminate H.
Qed.
