(** Lemmas about the 64-bit integer layer. *)
From Coq Require Import ZArith Lia Bool.
From ACV Require Import Model.Ints.
Open Scope Z_scope.

Lemma two63_val : two63 = 9223372036854775808. Proof. reflexivity. Qed.
Lemma two64_val : two64 = 18446744073709551616. Proof. reflexivity. Qed.
Lemma two64_two63 : two64 = 2 * two63. Proof. reflexivity. Qed.
Lemma rmod_gt_two64 : two64 < rmod. Proof. reflexivity. Qed.

Lemma testbit_63_small u : 0 <= u < two63 -> Z.testbit u 63 = false.
Proof.
  intros H. destruct (Z.eq_dec u 0) as [->|Hn]; [apply Z.testbit_0_l|].
  apply Z.bits_above_log2; [lia|].
  apply Z.log2_lt_pow2; [lia|]. unfold two63 in H. lia.
Qed.

Lemma land_two63_small u : 0 <= u < two63 -> Z.land u two63 = 0.
Proof.
  intros H. apply Z.bits_inj'. intros n Hn.
  rewrite Z.land_spec, Z.bits_0.
  unfold two63. rewrite Z.pow2_bits_eqb by lia.
  destruct (Z.eqb_spec 63 n) as [<-|Hne].
  - rewrite testbit_63_small by exact H. reflexivity.
  - apply andb_false_r.
Qed.

(** xor with the top bit adds it when clear and removes it when set *)
Lemma lxor_two63_small u : 0 <= u < two63 -> Z.lxor u two63 = u + two63.
Proof.
  intros H. symmetry. apply Z.add_nocarry_lxor. apply land_two63_small; exact H.
Qed.

Lemma lxor_two63_big u : two63 <= u < two64 -> Z.lxor u two63 = u - two63.
Proof.
  intros H. set (w := u - two63).
  assert (Hw : 0 <= w < two63) by (unfold w; rewrite two64_two63 in H; lia).
  replace u with (w + two63) by (unfold w; lia).
  rewrite <- (lxor_two63_small w Hw).
  rewrite Z.lxor_assoc, Z.lxor_nilpotent, Z.lxor_0_r. lia.
Qed.

Lemma as_u64_nonneg v : 0 <= v < two63 -> as_u64 v = v.
Proof. intros H. unfold as_u64. apply Z.mod_small. rewrite two64_two63. lia. Qed.

Lemma as_u64_neg v : - two63 <= v < 0 -> as_u64 v = v + two64.
Proof.
  intros H. unfold as_u64.
  rewrite <- (Z.mod_add v 1 two64) by (rewrite two64_val; lia).
  rewrite Z.mul_1_l. apply Z.mod_small. rewrite two64_two63 in *. lia.
Qed.

Lemma zc_value v : in_i64 v -> zero_center v = v + two63.
Proof.
  unfold in_i64, zero_center. intros H.
  destruct (Z_lt_le_dec v 0) as [Hneg|Hpos].
  - rewrite as_u64_neg by lia. rewrite lxor_two63_big by (rewrite two64_two63; lia).
    rewrite two64_two63. lia.
  - rewrite as_u64_nonneg by lia. apply lxor_two63_small. lia.
Qed.

Lemma zc_range v : in_i64 v -> 0 <= zero_center v < two64.
Proof. intros H. rewrite zc_value by exact H. unfold in_i64 in H. rewrite two64_two63. lia. Qed.

Lemma zc_lt_rmod v : in_i64 v -> 0 <= get_num_scalar v < rmod.
Proof. intros H. unfold get_num_scalar. pose proof (zc_range v H). pose proof rmod_gt_two64. lia. Qed.

Lemma zc_mono a b : in_i64 a -> in_i64 b -> (a < b <-> zero_center a < zero_center b).
Proof. intros Ha Hb. rewrite !zc_value by assumption. lia. Qed.

Lemma zc_inj a b : in_i64 a -> in_i64 b -> zero_center a = zero_center b -> a = b.
Proof. intros Ha Hb. rewrite !zc_value by assumption. lia. Qed.

Lemma as_i64_range u : 0 <= u < two64 -> in_i64 (as_i64 u).
Proof.
  intros H. unfold as_i64, in_i64. rewrite two64_two63 in *.
  destruct (Z.ltb_spec u two63); lia.
Qed.

Lemma as_u64_as_i64 u : 0 <= u < two64 -> as_u64 (as_i64 u) = u.
Proof.
  intros H. unfold as_i64. destruct (Z.ltb_spec u two63) as [Hlt|Hge].
  - apply as_u64_nonneg. lia.
  - rewrite as_u64_neg by (rewrite two64_two63 in *; lia). lia.
Qed.

Lemma as_i64_as_u64 v : in_i64 v -> as_i64 (as_u64 v) = v.
Proof.
  unfold in_i64. intros H. destruct (Z_lt_le_dec v 0) as [Hneg|Hpos].
  - rewrite as_u64_neg by lia. unfold as_i64.
    destruct (Z.ltb_spec (v + two64) two63) as [Hlt|Hge]; rewrite two64_two63 in *; lia.
  - rewrite as_u64_nonneg by lia. unfold as_i64.
    destruct (Z.ltb_spec v two63); lia.
Qed.

(** zero-centring a u64 (through isize) and reading the result back as isize *)
Lemma zc_of_u64 u : 0 <= u < two64 -> zero_center (as_i64 u) = Z.lxor u two63.
Proof. intros H. unfold zero_center. rewrite as_u64_as_i64 by exact H. reflexivity. Qed.

Lemma number_roundtrip v : in_i64 v -> number_of_scalar (get_num_scalar v) = v.
Proof.
  intros H. unfold number_of_scalar, get_num_scalar.
  pose proof (zc_range v H) as Hr.
  rewrite (Z.mod_small (zero_center v) two64) by exact Hr.
  rewrite zc_of_u64 by exact Hr.
  rewrite zc_value by exact H. unfold in_i64 in H.
  destruct (Z_lt_le_dec v 0) as [Hneg|Hpos].
  - rewrite lxor_two63_small by lia. unfold as_i64.
    destruct (Z.ltb_spec (v + two63 + two63) two63); rewrite two64_two63 in *; lia.
  - rewrite lxor_two63_big by (rewrite two64_two63; lia). unfold as_i64.
    destruct (Z.ltb_spec (v + two63 - two63) two63); lia.
Qed.

(** every scalar decodes to a number whose encoding is the scalar's low 64 bits *)
Lemma number_of_scalar_range s : in_i64 (number_of_scalar s).
Proof.
  unfold number_of_scalar. apply as_i64_range.
  assert (H : 0 <= s mod two64 < two64) by (apply Z.mod_pos_bound; rewrite two64_val; lia).
  rewrite zc_of_u64 by exact H.
  destruct (Z_lt_le_dec (s mod two64) two63).
  - rewrite lxor_two63_small by lia. rewrite two64_two63 in *. lia.
  - rewrite lxor_two63_big by lia. rewrite two64_two63 in *. lia.
Qed.
