From Coq Require Import List NArith Bool Lia.
From ACV Require Import Model.Registry.
Import ListNotations.

Lemma mem_In x l : mem x l = true <-> In x l.
Proof.
  unfold mem. rewrite existsb_exists. split.
  - intros [y [Hy E]]. apply N.eqb_eq in E. subst. exact Hy.
  - intros H. exists x. split; [exact H|apply N.eqb_refl].
Qed.
Lemma mem_false x l : mem x l = false <-> ~ In x l.
Proof. rewrite <- mem_In. destruct (mem x l); split; congruence. Qed.

Lemma nodupb_NoDup l : nodupb l = true <-> NoDup l.
Proof.
  induction l as [|x t IH]; cbn [nodupb].
  - split; [constructor|reflexivity].
  - rewrite andb_true_iff, negb_true_iff, mem_false, IH. split.
    + intros [A B]. constructor; assumption.
    + intros H. inversion H; subst. split; assumption.
Qed.

Lemma In_shift_remove x y l : NoDup l -> (In y (shift_remove x l) <-> In y l /\ y <> x).
Proof.
  induction l as [|z t IH]; intros ND; cbn [shift_remove].
  - cbn. tauto.
  - inversion ND as [|? ? Hz NDt]; subst. destruct (N.eqb_spec x z) as [->|Hne].
    + cbn [In]. split.
      * intros H. split; [right; exact H|]. intros ->. contradiction.
      * intros [[->|H] Hn]; [congruence|exact H].
    + cbn [In]. rewrite (IH NDt). split.
      * intros [->|[H Hn]]; [split; [left; reflexivity|congruence]|split; [right; exact H|exact Hn]].
      * intros [[->|H] Hn]; [left; reflexivity|right; split; assumption].
Qed.

Lemma NoDup_shift_remove x l : NoDup l -> NoDup (shift_remove x l).
Proof.
  induction l as [|z t IH]; intros ND; cbn [shift_remove]; [constructor|].
  inversion ND as [|? ? Hz NDt]; subst. destruct (N.eqb_spec x z); [exact NDt|].
  constructor; [|apply IH; exact NDt]. rewrite (In_shift_remove _ _ _ NDt). tauto.
Qed.

Lemma In_insert x y l : In y (insert x l) <-> y = x \/ In y l.
Proof.
  unfold insert. destruct (mem x l) eqn:M.
  - apply mem_In in M. split; [tauto|]. intros [->|H]; assumption.
  - rewrite in_app_iff. cbn. split; [intros [H|[->|[]]]; tauto|intros [->|H]; tauto].
Qed.

Lemma NoDup_snoc (x : id) l : NoDup l -> ~ In x l -> NoDup (l ++ [x]).
Proof.
  induction l as [|z t IH]; intros ND Hn; cbn.
  - constructor; [intros []|constructor].
  - inversion ND; subst. constructor.
    + rewrite in_app_iff. cbn. intros [H|[->|[]]]; [contradiction|apply Hn; left; reflexivity].
    + apply IH; [assumption|]. intros H. apply Hn. right. exact H.
Qed.

Lemma NoDup_app_disj (l b : list id) :
  NoDup l -> NoDup b -> (forall x, In x b -> ~ In x l) -> NoDup (l ++ b).
Proof.
  induction l as [|z t IH]; intros NDl NDb Hd; cbn; [exact NDb|].
  inversion NDl as [|? ? Hz NDt]; subst. constructor.
  - rewrite in_app_iff. intros [H|H]; [contradiction|]. apply (Hd z H). left; reflexivity.
  - apply IH; [exact NDt|exact NDb|]. intros x Hx Hn. apply (Hd x Hx). right; exact Hn.
Qed.

Lemma NoDup_insert x l : NoDup l -> NoDup (insert x l).
Proof.
  intros ND. unfold insert. destruct (mem x l) eqn:M; [exact ND|].
  apply mem_false in M. apply NoDup_snoc; assumption.
Qed.

Definition rm_all (b l : list id) : list id := fold_left (fun a x => shift_remove x a) b l.

Lemma NoDup_rm_all b : forall l, NoDup l -> NoDup (rm_all b l).
Proof.
  unfold rm_all. induction b as [|x t IH]; intros l ND; cbn [fold_left]; [exact ND|].
  apply IH. apply NoDup_shift_remove. exact ND.
Qed.

Lemma In_rm_all b : forall l y, NoDup l -> (In y (rm_all b l) <-> In y l /\ ~ In y b).
Proof.
  unfold rm_all. induction b as [|x t IH]; intros l y ND; cbn [fold_left].
  - cbn. tauto.
  - rewrite IH by (apply NoDup_shift_remove; exact ND). rewrite In_shift_remove by exact ND.
    cbn [In]. split.
    + intros [[A B] C]. split; [exact A|]. intros [E|E]; [congruence|contradiction].
    + intros [A B]. split; [split; [exact A|]|]; intros E; apply B; [left; congruence|right; exact E].
Qed.

(** ---------------------------------------------------------------------------------- *)
(** Invariant of every reachable registry state *)
Record Inv (s : reg) : Prop := {
  inv_nd_el : NoDup (elements s);
  inv_nd_ac : NoDup (active s);
  inv_nd_rm : NoDup (removed s);
  inv_sub   : forall x, In x (active s) -> In x (elements s);
  inv_rm    : forall x, In x (removed s) <-> In x (elements s) /\ ~ In x (active s)
}.

Lemma inv0 : Inv reg0.
Proof. constructor; cbn; try constructor; tauto. Qed.

Lemma record_inv s i : Inv s -> already_revoked s i = false -> Inv (record s i).
Proof.
  intros [A B C D E] H. unfold already_revoked in H.
  constructor; cbn [record elements active removed].
  - apply NoDup_insert; exact A.
  - apply NoDup_insert; exact B.
  - exact C.
  - intros x. rewrite !In_insert. intros [->|Hx]; [left; reflexivity|right; apply D; exact Hx].
  - intros x. rewrite !In_insert, E. split.
    + intros [He Hn]. split; [right; exact He|]. intros [->|Ha]; [|contradiction].
      apply andb_false_iff in H. destruct H as [H|H].
      * apply negb_false_iff, mem_In in H. contradiction.
      * apply mem_false in H. contradiction.
    + intros [[->|He] Hn]; [exfalso; apply Hn; left; reflexivity|].
      split; [exact He|]. intros Ha. apply Hn. right. exact Ha.
Qed.

Lemma revoke_ok_spec s b : revoke_ok s b = true <-> (forall x, In x b -> In x (active s)) /\ NoDup b.
Proof.
  unfold revoke_ok. rewrite andb_true_iff, forallb_forall, nodupb_NoDup.
  split; intros [H1 H2]; (split; [|exact H2]); intros x Hx; [apply mem_In|apply mem_In]; apply H1; exact Hx.
Qed.

Lemma revoke_inv s b : Inv s -> Inv (fst (revoke s b)).
Proof.
  intros I. unfold revoke. destruct (revoke_ok s b) eqn:R; cbn [fst]; [|exact I].
  apply revoke_ok_spec in R. destruct R as [Hact NDb]. destruct I as [A B C D E].
  fold (rm_all b (active s)).
  constructor; cbn [elements active removed].
  - exact A.
  - apply NoDup_rm_all; exact B.
  - apply NoDup_app_disj; [exact C|exact NDb|].
    intros x Hx Hr. apply E in Hr. destruct Hr as [_ Hr]. apply Hr, Hact, Hx.
  - intros x. rewrite In_rm_all by exact B. intros [H _]. apply D; exact H.
  - intros x. rewrite in_app_iff, In_rm_all by exact B. rewrite E. split.
    + intros [[He Hn]|Hb]; [split; [exact He|tauto]|].
      split; [apply D, Hact; exact Hb|tauto].
    + intros [He Hn]. destruct (in_dec N.eq_dec x b) as [Hb|Hb]; [right; exact Hb|].
      left. split; [exact He|]. intros Ha. apply Hn. split; assumption.
Qed.

Lemma step_inv s o : Inv s -> Inv (fst (step s o)).
Proof.
  intros I. destruct o as [i|i v|b|i|]; cbn [step].
  - destruct (already_revoked s i) eqn:H; cbn [fst]; [exact I|apply record_inv; assumption].
  - destruct (already_revoked s i) eqn:H; cbn [fst]; [exact I|].
    destruct v; cbn [fst]; [apply record_inv; assumption|exact I].
  - apply revoke_inv; exact I.
  - exact I.
  - exact I.
Qed.

Lemma run_inv ops : forall s, Inv s -> Inv (run ops s).
Proof.
  unfold run. induction ops as [|o t IH]; intros s I; cbn [fold_left]; [exact I|].
  apply IH. apply step_inv. exact I.
Qed.

(** an operation that returns an error leaves the whole registry state equal *)
Lemma step_err_unchanged s o : snd (step s o) = OErr -> fst (step s o) = s.
Proof.
  destruct o as [i|i v|b|i|]; cbn [step]; try (intros _; reflexivity).
  - destruct (already_revoked s i); cbn; [reflexivity|discriminate].
  - destruct (already_revoked s i); cbn; [reflexivity|]. destruct v; cbn; [discriminate|reflexivity].
  - unfold revoke. destruct (revoke_ok s b); cbn; [discriminate|reflexivity].
Qed.

(** the accumulator (the removed list) changes only by a successful revocation, which appends
    exactly its batch *)
Lemma step_removed s o :
  removed (fst (step s o)) =
  match o with Revoke b => if revoke_ok s b then removed s ++ b else removed s | _ => removed s end.
Proof.
  destruct o as [i|i v|b|i|]; cbn [step]; try reflexivity.
  - destruct (already_revoked s i); reflexivity.
  - destruct (already_revoked s i); [reflexivity|destruct v; reflexivity].
  - unfold revoke. destruct (revoke_ok s b); reflexivity.
Qed.

(** ---------------------------------------------------------------------------------- *)
(** Refinement: the concrete registry implements the abstract issued / revoked sets *)
Record Rel (s : reg) (a : spec) : Prop := {
  rel_el : forall x, mem x (elements s) = mem x (issued a);
  rel_rm : forall x, mem x (removed s) = mem x (revoked a);
  rel_ac : forall x, mem x (active s) = s_active a x
}.

Lemma rel0 : Rel reg0 spec0.
Proof. constructor; intros; reflexivity. Qed.

Lemma mem_eq_iff x l l' : (In x l <-> In x l') -> mem x l = mem x l'.
Proof.
  intros H. destruct (mem x l) eqn:A, (mem x l') eqn:B; try reflexivity.
  - apply mem_In in A. apply mem_false in B. tauto.
  - apply mem_false in A. apply mem_In in B. tauto.
Qed.

Lemma mem_insert x y l : mem y (insert x l) = (N.eqb y x || mem y l).
Proof.
  destruct (N.eqb_spec y x) as [->|Hne]; cbn [orb].
  - apply mem_In. apply In_insert. left; reflexivity.
  - apply mem_eq_iff. rewrite In_insert. split; [intros [?|?]; [congruence|assumption]|tauto].
Qed.

Lemma mem_cons x y l : mem y (x :: l) = (N.eqb y x || mem y l).
Proof. reflexivity. Qed.

Lemma mem_app x l l' : mem x (l ++ l') = (mem x l || mem x l').
Proof. unfold mem. apply existsb_app. Qed.

Lemma already_revoked_rel s a i : Inv s -> Rel s a -> already_revoked s i = mem i (revoked a).
Proof.
  intros I [A B C]. unfold already_revoked. rewrite <- B.
  destruct (mem i (removed s)) eqn:M.
  - apply mem_In in M. apply (inv_rm _ I) in M. destruct M as [M1 M2].
    apply mem_In in M1. apply mem_false in M2. rewrite M1, M2. reflexivity.
  - apply mem_false in M. rewrite (inv_rm _ I) in M.
    destruct (mem i (active s)) eqn:M1; [reflexivity|]. cbn.
    destruct (mem i (elements s)) eqn:M2; [|reflexivity].
    exfalso. apply M. split; [apply mem_In; exact M2|apply mem_false; exact M1].
Qed.

Lemma record_rel s a i : Inv s -> Rel s a -> mem i (revoked a) = false ->
  Rel (record s i) (mkSpec (i :: issued a) (revoked a)).
Proof.
  intros I [A B C] H. constructor; cbn [record elements active removed issued revoked]; intros x.
  - rewrite mem_insert, mem_cons, A. reflexivity.
  - apply B.
  - rewrite mem_insert, C. unfold s_active. cbn [issued revoked]. rewrite mem_cons.
    destruct (N.eqb_spec x i) as [->|Hne]; cbn [orb]; [rewrite H; reflexivity|reflexivity].
Qed.

Lemma step_refines s a o : Inv s -> Rel s a ->
  snd (step s o) = snd (spec_step a o) /\ Rel (fst (step s o)) (fst (spec_step a o)).
Proof.
  intros I R. destruct o as [i|i v|b|i|]; cbn [step spec_step].
  - rewrite (already_revoked_rel s a i I R). destruct (mem i (revoked a)) eqn:M; cbn [fst snd].
    + split; [reflexivity|exact R].
    + split; [reflexivity|apply record_rel; assumption].
  - rewrite (already_revoked_rel s a i I R). destruct (mem i (revoked a)) eqn:M; cbn [fst snd].
    + split; [reflexivity|exact R].
    + destruct v; cbn [fst snd]; (split; [reflexivity|]); [apply record_rel; assumption|exact R].
  - unfold revoke, revoke_ok.
    assert (E : forallb (fun x => mem x (active s)) b = forallb (s_active a) b).
    { clear -R. induction b as [|x t IHb]; cbn [forallb]; [reflexivity|]. rewrite IHb, (rel_ac _ _ R). reflexivity. }
    rewrite E. destruct (forallb (s_active a) b && nodupb b) eqn:OK; cbn [fst snd]; [|split; [reflexivity|exact R]].
    split; [reflexivity|]. destruct R as [A B C].
    constructor; cbn [elements active removed issued revoked]; intros x.
    + apply A.
    + rewrite !mem_app, B. apply orb_comm.
    + fold (rm_all b (active s)). unfold s_active. cbn [issued revoked]. rewrite mem_app.
      transitivity (mem x (active s) && negb (mem x b)).
      * destruct (mem x (rm_all b (active s))) eqn:M.
        -- apply mem_In in M. apply In_rm_all in M; [|apply (inv_nd_ac _ I)]. destruct M as [M1 M2].
           apply mem_In in M1. apply mem_false in M2. rewrite M1, M2. reflexivity.
        -- apply mem_false in M. rewrite In_rm_all in M by apply (inv_nd_ac _ I).
           destruct (mem x (active s)) eqn:M1; [|reflexivity]. destruct (mem x b) eqn:M2; [reflexivity|].
           exfalso. apply M. split; [apply mem_In; exact M1|apply mem_false; exact M2].
      * rewrite C. unfold s_active. rewrite negb_orb.
        destruct (mem x (issued a)), (mem x (revoked a)), (mem x b); reflexivity.
  - cbn [fst snd]. rewrite (rel_ac _ _ R). split; [reflexivity|exact R].
  - cbn [fst snd]. split; [reflexivity|exact R].
Qed.

Lemma trace_refines ops : forall s a, Inv s -> Rel s a ->
  map fst (trace ops s) = spec_trace ops a /\ Rel (run ops s) (spec_run ops a).
Proof.
  induction ops as [|o t IH]; intros s a I R; cbn [trace spec_trace].
  - split; [reflexivity|exact R].
  - destruct (step_refines s a o I R) as [E R'].
    unfold run, spec_run. cbn [fold_left]. fold (run t (fst (step s o))). fold (spec_run t (fst (spec_step a o))).
    destruct (step s o) as [s' r] eqn:Es. destruct (spec_step a o) as [a' r'] eqn:Ea. cbn [fst snd] in *.
    assert (I' : Inv s') by (pose proof (step_inv s o I) as X; rewrite Es in X; exact X).
    destruct (IH s' a' I' R') as [E1 R1]. cbn [map fst]. subst r'. rewrite E1. split; [reflexivity|exact R1].
Qed.

(** ---------------------------------------------------------------------------------- *)
(** Further corollaries over whole histories *)
Lemma removed_mono s o x : In x (removed s) -> In x (removed (fst (step s o))).
Proof.
  rewrite step_removed. destruct o as [i|i v|b|i|]; try (intros H; exact H).
  destruct (revoke_ok s b); [rewrite in_app_iff; left; assumption|intros H; exact H].
Qed.

Lemma removed_mono_run ops : forall s x, In x (removed s) -> In x (removed (run ops s)).
Proof.
  unfold run. induction ops as [|o t IH]; intros s x H; cbn [fold_left]; [exact H|].
  apply IH. apply removed_mono. exact H.
Qed.

(** a revoked identifier is refused by issuance, blind issuance and refresh *)
Lemma revoked_refused s i : Inv s -> In i (removed s) ->
  snd (step s (Issue i)) = OErr /\ (forall v, snd (step s (BlindIssue i v)) = OErr) /\
  snd (step s (Refresh i)) = OErr.
Proof.
  intros I H. apply (inv_rm _ I) in H. destruct H as [He Ha].
  assert (A : already_revoked s i = true).
  { unfold already_revoked. apply mem_In in He. apply mem_false in Ha. rewrite He, Ha. reflexivity. }
  cbn [step]. rewrite A. apply mem_false in Ha. rewrite Ha. repeat split.
Qed.

(** the three classes are distinguishable from the bookkeeping alone *)
Lemma classes s i : Inv s ->
  (In i (active s) /\ In i (elements s) /\ ~ In i (removed s)) \/
  (~ In i (active s) /\ In i (elements s) /\ In i (removed s)) \/
  (~ In i (active s) /\ ~ In i (elements s) /\ ~ In i (removed s)).
Proof.
  intros I. destruct (in_dec N.eq_dec i (active s)) as [Ha|Ha].
  - left. split; [exact Ha|]. split; [apply (inv_sub _ I); exact Ha|]. rewrite (inv_rm _ I). tauto.
  - right. destruct (in_dec N.eq_dec i (elements s)) as [He|He].
    + left. rewrite (inv_rm _ I). tauto.
    + right. rewrite (inv_rm _ I). tauto.
Qed.

(** ---------------------------------------------------------------------------------- *)
(** The published registry value and revocation handles, in the exponent model *)
From Coq Require Import Field Ring.
From ACV Require Import Model.Field Proofs.FieldP.

Section Value.
Variable K : fops.
Hypothesis Kf : is_field K.
Add Field KF : (Kf_th K Kf).
Local Notation "a + b" := (fadd K a b).
Local Notation "a - b" := (fsub K a b).
Local Notation "a * b" := (fmul K a b).
Local Notation "a / b" := (fdiv K a b).
Local Notation "0" := (f0 K).
Local Notation "1" := (f1 K).

Variable v0 : K.              (* initial accumulator exponent *)
Variable alpha : K.           (* accumulator secret key *)
Variable h : id -> K.         (* Element::hash of the identifier *)

(** Accumulator::remove_elements: v * prod (h x + alpha)^-1 *)
Definition divisor (b : list id) : K := fprod K (map (fun x => h x + alpha) b).
Definition value_of (rm : list id) : K := v0 / divisor rm.
Definition value (s : reg) : K := value_of (removed s).
(** MembershipWitness::new: V * (y + alpha)^-1;  verify: C * (y + alpha) = V *)
Definition handle (s : reg) (i : id) : K := value s / (h i + alpha).
Definition handle_verifies (c : K) (i : id) (v : K) : Prop := c * (h i + alpha) = v.

Hypothesis nz : forall x, h x + alpha <> 0.   (* id + alpha = 0 has probability 1/r; the code panics there *)

Lemma divisor_nz b : divisor b <> 0.
Proof.
  unfold divisor. apply (fprod_nz K Kf). intros y Hy. apply in_map_iff in Hy. destruct Hy as [x [<- _]]. apply nz.
Qed.

Lemma divisor_app a b : divisor (a ++ b) = divisor a * divisor b.
Proof. unfold divisor. rewrite map_app. apply (fprod_app K Kf). Qed.

Lemma value_revoke rm b : value_of (rm ++ b) = value_of rm / divisor b.
Proof.
  unfold value_of. rewrite divisor_app. field. split; apply divisor_nz.
Qed.

Lemma fresh_handle_verifies s i : handle_verifies (handle s i) i (value s).
Proof. unfold handle_verifies, handle. field. apply nz. Qed.

Lemma handle_verifies_iff s s' i : handle_verifies (handle s i) i (value s') <-> value s = value s'.
Proof.
  unfold handle_verifies, handle. split; intros H.
  - rewrite <- H. field. apply nz.
  - rewrite <- H. field. apply nz.
Qed.

(** the value is a function of the removed list only, so every operation other than a
    successful revocation — in particular every failing operation — leaves it unchanged *)
Lemma value_step s o :
  value (fst (step s o)) =
  match o with Revoke b => if revoke_ok s b then value s / divisor b else value s | _ => value s end.
Proof.
  unfold value. rewrite step_removed. destruct o as [i|i v|b|i|]; try reflexivity.
  destruct (revoke_ok s b); [apply value_revoke|reflexivity].
Qed.

(** after a successful revocation of a batch, a handle handed out before it verifies against the
    new value only if the batch's divisor is 1 — an event of probability 1/r over alpha *)
Lemma stale_handle_fails s b i : revoke_ok s b = true -> divisor b <> 1 -> value s <> 0 ->
  ~ handle_verifies (handle s i) i (value (fst (revoke s b))).
Proof.
  intros OK Hd Hv H. apply handle_verifies_iff in H. unfold revoke in H. rewrite OK in H. cbn [fst] in H.
  unfold value in H. cbn [removed] in H. rewrite value_revoke in H. fold (value s) in H.
  apply Hd. pose proof (divisor_nz b) as Hb.
  apply (fmul_cancel_l K Kf (value s)); [exact Hv|].
  rewrite H at 1. field. exact Hb.
Qed.
End Value.
