(** No-panic and oracle-monotonicity of the verification skeleton (C20). *)
From Coq Require Import ZArith List Bool Arith Lia.
From ACV Require Import Model.Res Model.Skeleton.
Import ListNotations.

Definition no_panic {A} (x : res A) : Prop := x <> Panic.

Lemma np_ok {A} (a : A) : no_panic (Ok a).  Proof. discriminate. Qed.
Lemma np_err {A} : no_panic (@Err A).  Proof. discriminate. Qed.
Lemma np_bind {A B} (x : res A) (f : A -> res B) :
  no_panic x -> (forall a, x = Ok a -> no_panic (f a)) -> no_panic (rbind x f).
Proof. unfold no_panic. destruct x as [a| |]; cbn [rbind]; intros Hx Hf; [apply Hf; reflexivity|discriminate|congruence]. Qed.
Lemma np_rmap {A B} (f : A -> B) (x : res A) : no_panic x -> no_panic (rmap f x).
Proof. unfold no_panic. destruct x; cbn [rmap]; congruence. Qed.
Lemma np_if {A} (b : bool) (x y : res A) : no_panic x -> no_panic y -> no_panic (if b then x else y).
Proof. destruct b; auto. Qed.

Lemma idx_lt {A} (l : list A) i : i < length l -> exists a, idx l i = Ok a.
Proof.
  intros H. unfold idx. destruct (nth_error l i) as [a|] eqn:E; [eauto|].
  apply nth_error_None in E. lia.
Qed.
Lemma usub_le a b : b <= a -> usub a b = Ok (a - b).
Proof. intros H. unfold usub. destruct (Nat.leb_spec b a); [reflexivity|lia]. Qed.

(** the index walk: the number of consumed disclosed entries never exceeds the current index,
    so neither [rvl_msgs[j]] nor [i - j] can unwind *)
Lemma walk_no_panic rem : forall i j off disc nresp acc,
  j <= i -> no_panic (walk rem i j off disc nresp acc).
Proof.
  induction rem as [|rem IH]; intros i j off disc nresp acc Hj; cbn [walk]; [apply np_ok|].
  assert (Hh : no_panic (do d <- usub (i + off) j;
                         if d <? nresp then walk rem (S i) j off disc nresp (i :: acc) else Err)).
  { rewrite usub_le by lia. cbn [rbind]. apply np_if; [apply IH; lia|apply np_err]. }
  destruct (Nat.ltb_spec j (length disc)) as [Hlt|Hge]; [|exact Hh].
  destruct (idx_lt disc j Hlt) as [e He]. rewrite He. cbn [rbind].
  apply np_if; [apply IH; lia|exact Hh].
Qed.

Lemma hidden_no_panic su O st p : no_panic (hidden_message_proofs su O st p).
Proof.
  unfold hidden_message_proofs. apply np_if; [apply np_err|]. apply np_if; [apply np_err|].
  apply walk_no_panic. lia.
Qed.

Lemma sig_hidden_no_panic su O S P r : no_panic (sig_hidden su O S P r).
Proof.
  unfold sig_hidden. destruct (find_proof P r) as [sp|]; [|apply np_err].
  apply np_if; [apply np_err|]. destruct (find_stmt S (p_id sp)) as [st|]; [|apply np_err].
  apply np_if; [apply np_err|apply hidden_no_panic].
Qed.

Lemma expected_no_panic labels rep req : forall acc, no_panic (expected_map labels rep req acc).
Proof.
  induction req as [|l t IH]; intros acc; cbn [expected_map]; [apply np_ok|].
  destruct (index_of l labels); [|apply IH]. destruct (assoc l rep); [apply IH|apply np_err].
Qed.

Lemma check_disclosed_no_panic s p rep : no_panic (check_disclosed s p rep).
Proof.
  unfold check_disclosed. apply np_bind; [apply expected_no_panic|]. intros e _.
  apply np_if; [apply np_err|]. apply np_if; [apply np_ok|apply np_err].
Qed.

Lemma sig_pass_no_panic S P : no_panic (sig_pass S P).
Proof.
  induction S as [|s t IH]; cbn [sig_pass]; [apply np_ok|].
  apply np_if; [exact IH|]. destruct (find_proof P (s_key s)) as [p|]; [|apply np_err].
  apply np_if; [apply np_err|]. destruct (assoc (s_id s) (reported P)) as [rep|]; [|apply np_err].
  apply np_bind; [apply check_disclosed_no_panic|]. intros _ _. exact IH.
Qed.

Lemma pred_one_no_panic su O S0 P s : no_panic (pred_one su O S0 P s).
Proof.
  unfold pred_one. destruct (find_proof P (s_key s)) as [p|]; [|apply np_err].
  apply np_if; [apply np_err|]. apply np_if.
  - apply np_bind; [apply sig_hidden_no_panic|]. intros h _. apply np_if; [apply np_ok|apply np_err].
  - destruct (s_kind s); try apply np_err; try apply np_ok.
    destruct (find_stmt S0 (s_ref s)) as [cs|]; [|apply np_err].
    apply np_if; [apply np_err|]. destruct (find_proof P (s_ref s)) as [cp|]; [|apply np_err].
    apply np_if; [apply np_ok|apply np_err].
Qed.

Lemma pred_pass_no_panic su O S0 S P : no_panic (pred_pass su O S0 S P).
Proof.
  induction S as [|s t IH]; cbn [pred_pass]; [apply np_ok|].
  apply np_if; [exact IH|]. apply np_bind; [apply pred_one_no_panic|]. intros _ _. exact IH.
Qed.

Lemma range_pass_no_panic S : no_panic (range_pass S).
Proof. induction S as [|s t IH]; cbn [range_pass]; [apply np_ok|]. apply np_if; [apply np_err|exact IH]. Qed.

(** the set of known indices: duplicate free and below the key length, hence at most that many *)
Lemma memn_In x l : memn x l = true <-> In x l.
Proof.
  unfold memn. rewrite existsb_exists. split.
  - intros (y & Hy & E). apply Nat.eqb_eq in E. subst. exact Hy.
  - intros H. exists x. split; [exact H|apply Nat.eqb_refl].
Qed.

Lemma known_set_spec n disc : forall acc,
  NoDup acc -> (forall x, In x acc -> x < n) ->
  NoDup (known_set n disc acc) /\ (forall x, In x (known_set n disc acc) -> x < n).
Proof.
  induction disc as [|[i z] t IH]; intros acc Hnd Hlt; cbn [known_set]; [split; assumption|].
  destruct (Nat.ltb_spec i n) as [Hi|Hi]; cbn [andb]; [|apply IH; assumption].
  destruct (memn i acc) eqn:Hm; cbn [negb]; [apply IH; assumption|].
  apply IH.
  - constructor; [|exact Hnd]. intros Hin. apply memn_In in Hin. congruence.
  - intros x [<-|Hx]; [exact Hi|apply Hlt; exact Hx].
Qed.

Lemma known_set_length n disc : length (known_set n disc []) <= n.
Proof.
  destruct (known_set_spec n disc [] (NoDup_nil _)) as [Hnd Hlt]; [intros x []|].
  assert (H : length (known_set n disc []) <= length (seq 0 n)).
  { apply NoDup_incl_length; [exact Hnd|]. intros x Hx. apply in_seq. specialize (Hlt x Hx). lia. }
  rewrite seq_length in H. exact H.
Qed.

Lemma index_all_no_panic {A} (ys : list A) disc :
  (forall e, In e disc -> fst e < length ys) -> no_panic (index_all ys disc).
Proof.
  induction disc as [|[i z] t IH]; intros H; cbn [index_all]; [apply np_ok|].
  destruct (idx_lt ys i) as [a Ha]; [apply (H (i, z)); left; reflexivity|].
  rewrite Ha. cbn [rbind]. apply IH. intros e He. apply H. right. exact He.
Qed.

Lemma pok_verify_no_panic su O st p : no_panic (pok_verify su O st p).
Proof.
  unfold pok_verify. apply np_if; [apply np_err|]. destruct su.
  - apply np_if; [apply np_err|]. apply np_bind.
    + apply index_all_no_panic. intros e He. apply filter_In in He. destruct He as [_ He].
      apply Nat.ltb_lt in He. rewrite repeat_length. exact He.
    + intros _ _. apply np_if; [apply np_err|]. apply np_if; [apply np_ok|apply np_err].
  - apply np_if; [apply np_err|]. apply np_if; [apply np_err|].
    rewrite usub_le by apply known_set_length. cbn [rbind].
    apply np_if; [apply np_err|].
    destruct (existsb (fun e => s_keylen st <=? fst e) (p_disc p)) eqn:Hex; [apply np_err|].
    apply np_bind.
    + apply index_all_no_panic. intros e He. rewrite repeat_length.
      destruct (Nat.ltb_spec (fst e) (s_keylen st)) as [Hlt|Hge]; [exact Hlt|].
      assert (existsb (fun e => s_keylen st <=? fst e) (p_disc p) = true)
        by (apply existsb_exists; exists e; split; [exact He|apply Nat.leb_le; exact Hge]).
      congruence.
    + intros _ _. apply np_if; [apply np_ok|apply np_err].
Qed.

Lemma eq_messages_no_panic su O S0 P refs : no_panic (eq_messages su O S0 P refs).
Proof.
  induction refs as [|[id c] t IH]; cbn [eq_messages]; [apply np_ok|].
  apply np_bind; [apply sig_hidden_no_panic|]. intros h _.
  apply np_if; [apply np_rmap; exact IH|apply np_err].
Qed.

Lemma post_one_no_panic su O S0 P s : no_panic (post_one su O S0 P s).
Proof.
  unfold post_one. destruct (s_kind s).
  - destruct (find_proof P (s_key s)); [apply pok_verify_no_panic|apply np_err].
  - apply np_if; [apply np_ok|apply np_err].
  - apply np_if; [apply np_ok|apply np_err].
  - apply np_bind; [apply eq_messages_no_panic|]. intros n _.
    apply np_if; [apply np_err|]. apply np_if; [apply np_ok|apply np_err].
  - apply np_if; [apply np_ok|apply np_err].
  - apply np_if; [apply np_err|]. apply np_if; [apply np_ok|apply np_err].
  - destruct (find_proof P (s_key s)); [|apply np_err].
    apply np_if; [apply np_err|]. apply np_if; [apply np_ok|apply np_err].
  - apply np_if; [apply np_ok|apply np_err].
Qed.

Lemma post_pass_no_panic su O S0 S P : no_panic (post_pass su O S0 S P).
Proof.
  induction S as [|s t IH]; cbn [post_pass]; [apply np_ok|].
  apply np_bind; [apply post_one_no_panic|]. intros _ _. exact IH.
Qed.

Theorem verify_no_panic su O S P : verify su O S P <> Panic.
Proof.
  change (no_panic (verify su O S P)). unfold verify.
  apply np_if; [apply np_err|].
  apply np_bind; [apply sig_pass_no_panic|]. intros _ _.
  apply np_bind; [apply pred_pass_no_panic|]. intros _ _.
  apply np_bind; [apply range_pass_no_panic|]. intros _ _.
  apply np_if; [apply np_err|].
  apply np_bind; [apply post_pass_no_panic|]. intros _ _.
  apply np_bind; [apply post_pass_no_panic|]. intros _ _.
  apply post_pass_no_panic.
Qed.

(** ---- the guards are needed: without them the primitives do unwind ---- *)
(** the hoisted-bounds-check variant of the walk (no [j < len] test before [rvl_msgs[j]]) *)
Example idx_unguarded_panics : idx (@nil (nat * Z)) 0 = Panic.  Proof. reflexivity. Qed.
Example usub_unguarded_panics : usub 1 2 = Panic.  Proof. reflexivity. Qed.

(** ---- oracle monotonicity: whatever the cryptographic tests say, an accepted structure is
    accepted when every test passes; hence a structure rejected under [all_pass] is rejected
    under every oracle ---- *)
Definition accepts {A} (x : res A) : Prop := exists a, x = Ok a.

Lemma acc_bind {A B} (x : res A) (f : A -> res B) b :
  rbind x f = Ok b -> exists a, x = Ok a /\ f a = Ok b.
Proof. destruct x as [a| |]; cbn [rbind]; intros H; [eauto|discriminate|discriminate]. Qed.

Lemma hidden_mono su O st p h :
  hidden_message_proofs su O st p = Ok h -> hidden_message_proofs su all_pass st p = Ok h.
Proof.
  unfold hidden_message_proofs. destruct (s_keylen st <? length (p_disc p)); [discriminate|].
  destruct (o_key_invalid O (s_key st)); [discriminate|]. cbn. auto.
Qed.

Lemma sig_hidden_mono su O S P r h :
  sig_hidden su O S P r = Ok h -> sig_hidden su all_pass S P r = Ok h.
Proof.
  unfold sig_hidden. destruct (find_proof P r) as [sp|]; [|discriminate].
  destruct (negb (kind_eqb (p_kind sp) KSig)); [discriminate|].
  destruct (find_stmt S (p_id sp)) as [st|]; [|discriminate].
  destruct (negb (kind_eqb (s_kind st) KSig)); [discriminate|]. apply hidden_mono.
Qed.

Lemma pred_one_mono su O S0 P s : pred_one su O S0 P s = Ok tt -> pred_one su all_pass S0 P s = Ok tt.
Proof.
  unfold pred_one. destruct (find_proof P (s_key s)) as [p|]; [|discriminate].
  destruct (negb (kind_eqb (p_kind p) (s_kind s))); [discriminate|].
  destruct (linked (s_kind s)); [|auto].
  intros H. apply acc_bind in H. destruct H as (h & Hh & Hm).
  rewrite (sig_hidden_mono _ _ _ _ _ _ Hh). exact Hm.
Qed.

Lemma pred_pass_mono su O S0 S P : pred_pass su O S0 S P = Ok tt -> pred_pass su all_pass S0 S P = Ok tt.
Proof.
  induction S as [|s t IH]; cbn [pred_pass]; [auto|].
  destruct (kind_eqb (s_kind s) KSig); [exact IH|].
  intros H. apply acc_bind in H. destruct H as ([] & H1 & H2).
  rewrite (pred_one_mono _ _ _ _ _ H1). cbn [rbind]. apply IH. exact H2.
Qed.

Lemma pok_verify_mono su O st p : pok_verify su O st p = Ok tt -> pok_verify su all_pass st p = Ok tt.
Proof.
  unfold pok_verify. destruct (o_identity O (s_key st)); [discriminate|]. cbn [all_pass o_identity o_key_invalid o_pok].
  destruct su.
  - destruct (o_key_invalid O (s_key st)); [discriminate|].
    destruct (index_all _ _) as [[]| |]; cbn [rbind]; try discriminate.
    destruct (negb _); [discriminate|]. destruct (o_pok O (s_key st)); [auto|discriminate].
  - destruct (s_keylen st <? length (p_disc p)); [discriminate|].
    destruct (o_key_invalid O (s_key st)); [discriminate|].
    destruct (usub _ _) as [h| |]; cbn [rbind]; try discriminate.
    destruct (negb _); [discriminate|]. destruct (existsb _ _); [discriminate|].
    destruct (index_all _ _) as [[]| |]; cbn [rbind]; try discriminate.
    destruct (o_pok O (s_key st)); [auto|discriminate].
Qed.

Lemma eq_messages_mono su O S0 P refs n :
  eq_messages su O S0 P refs = Ok n -> eq_messages su all_pass S0 P refs = Ok n.
Proof.
  revert n. induction refs as [|[id c] t IH]; intros n; cbn [eq_messages]; [auto|].
  intros H. apply acc_bind in H. destruct H as (h & Hh & Hm).
  rewrite (sig_hidden_mono _ _ _ _ _ _ Hh). cbn [rbind].
  destruct (memn c h); [|discriminate].
  destruct (eq_messages su O S0 P t) as [m| |]; cbn [rmap] in Hm; try discriminate.
  rewrite (IH m eq_refl). exact Hm.
Qed.

Lemma post_one_mono su O S0 P s : post_one su O S0 P s = Ok tt -> post_one su all_pass S0 P s = Ok tt.
Proof.
  unfold post_one. destruct (s_kind s); cbn [all_pass o_pred o_eq]; try (intros _; reflexivity).
  - destruct (find_proof P (s_key s)); [apply pok_verify_mono|discriminate].
  - intros H. apply acc_bind in H. destruct H as (n & Hn & Hm).
    rewrite (eq_messages_mono _ _ _ _ _ _ Hn). cbn [rbind].
    destruct (Nat.eqb n 0); [discriminate|]. rewrite orb_true_r. reflexivity.
  - destruct (negb (s_lo s) && negb (s_hi s)); [discriminate|reflexivity].
  - destruct (find_proof P (s_key s)) as [p|]; [|discriminate].
    destruct (s_dec s && negb (p_has_dec p)); [discriminate|reflexivity].
Qed.

Lemma post_pass_mono su O S0 S P : post_pass su O S0 S P = Ok tt -> post_pass su all_pass S0 S P = Ok tt.
Proof.
  induction S as [|s t IH]; cbn [post_pass]; [auto|].
  intros H. apply acc_bind in H. destruct H as ([] & H1 & H2).
  rewrite (post_one_mono _ _ _ _ _ H1). cbn [rbind]. apply IH. exact H2.
Qed.

Theorem verify_oracle_monotone su O S P :
  verify su O S P = Ok tt -> verify su all_pass S P = Ok tt.
Proof.
  unfold verify. destruct (negb (ids_ok P)); [discriminate|].
  destruct (sig_pass S P) as [[]| |]; cbn [rbind]; try discriminate.
  intros H. apply acc_bind in H. destruct H as ([] & H1 & H).
  rewrite (pred_pass_mono _ _ _ _ _ H1). cbn [rbind].
  destruct (range_pass S) as [[]| |]; cbn [rbind] in *; try discriminate.
  destruct (negb (o_fs_equal O)); [discriminate|]. cbn [all_pass o_fs_equal negb].
  apply acc_bind in H. destruct H as ([] & H2 & H).
  rewrite (post_pass_mono _ _ _ _ _ H2). cbn [rbind].
  apply acc_bind in H. destruct H as ([] & H3 & H).
  rewrite (post_pass_mono _ _ _ _ _ H3). cbn [rbind].
  exact (post_pass_mono _ _ _ _ _ H).
Qed.

Corollary structural_reject_is_final su O S P :
  verify su all_pass S P = Err -> verify su O S P = Err.
Proof.
  intros H. destruct (verify su O S P) as [[]| |] eqn:E; [|reflexivity|].
  - apply verify_oracle_monotone in E. congruence.
  - exfalso. exact (verify_no_panic su O S P E).
Qed.
