(** Every claim of one equality class gets the same blinder (C09 / C03, fix a78606f). *)
From Coq Require Import List Bool Arith Lia.
From ACV Require Import Model.EqGroups.
Import ListNotations.

Lemma keyb_eq a b : keyb a b = true <-> a = b.
Proof.
  unfold keyb. destruct a as [a1 a2], b as [b1 b2]; cbn [fst snd]. rewrite andb_true_iff, !Nat.eqb_eq.
  split; [intros [-> ->]; reflexivity|intros E; injection E as -> ->; auto].
Qed.
Lemma memk_In k l : memk k l = true <-> In k l.
Proof.
  unfold memk. rewrite existsb_exists. split.
  - intros (y & Hy & E). apply keyb_eq in E. subst. exact Hy.
  - intros H. exists k. split; [exact H|apply keyb_eq; reflexivity].
Qed.
Lemma inter_spec g h : inter g h = true <-> exists m, In m g /\ In m h.
Proof.
  unfold inter. rewrite existsb_exists. split; intros (m & H1 & H2); exists m; (split; [exact H1|]); apply memk_In; exact H2.
Qed.

Definition disjoint (g h : list key) : Prop := forall m, In m g -> In m h -> False.
Definition Disj (gs : list (list key)) : Prop :=
  forall i j g h, nth_error gs i = Some g -> nth_error gs j = Some h -> i <> j -> disjoint g h.

Lemma In_concat_filter m (gs : list (list key)) f : In m (concat (filter f gs)) -> exists g, In g gs /\ f g = true /\ In m g.
Proof.
  intros H. apply in_concat in H. destruct H as (g & Hg & Hm). apply filter_In in Hg. destruct Hg. eauto.
Qed.

(** the groups stay pairwise disjoint *)
Lemma Disj_nth_In gs : Disj gs -> forall g h, In g gs -> In h gs -> g <> h -> disjoint g h.
Proof.
  intros HD g h Hg Hh Hne. apply In_nth_error in Hg. apply In_nth_error in Hh.
  destruct Hg as [i Hi], Hh as [j Hj]. apply (HD i j g h Hi Hj). intros ->. congruence.
Qed.

Lemma filter_Disj f gs : Disj gs -> Disj (filter f gs).
Proof.
  induction gs as [|g t IH]; intros HD; [intros i j a b Hi; destruct i; discriminate|].
  assert (HDt : Disj t).
  { intros i j a b Hi Hj Hne. apply (HD (S i) (S j) a b); cbn [nth_error]; auto. }
  cbn [filter]. destruct (f g); [|apply IH; exact HDt].
  intros i j a b Hi Hj Hne. destruct i as [|i], j as [|j]; cbn [nth_error] in Hi, Hj.
  - congruence.
  - injection Hi as <-. apply nth_error_In in Hj. apply filter_In in Hj. destruct Hj as [Hj _].
    apply In_nth_error in Hj. destruct Hj as [k Hk]. apply (HD 0 (S k) g b); cbn [nth_error]; auto.
  - injection Hj as <-. apply nth_error_In in Hi. apply filter_In in Hi. destruct Hi as [Hi _].
    apply In_nth_error in Hi. destruct Hi as [k Hk]. apply (HD (S k) 0 a g); cbn [nth_error]; auto.
  - apply (IH HDt i j a b Hi Hj). lia.
Qed.

Lemma add_stmt_Disj gs s : Disj gs -> Disj (add_stmt gs s).
Proof.
  intros HD. unfold add_stmt.
  set (rest := filter (fun g => negb (inter g s)) gs). set (joined := filter (fun g => inter g s) gs).
  assert (HR : Disj rest) by (apply filter_Disj; exact HD).
  assert (Hnew : forall g, In g rest -> disjoint g (s ++ concat joined)).
  { intros g Hg m Hm1 Hm2. unfold rest in Hg. apply filter_In in Hg. destruct Hg as [Hg Hn].
    apply negb_true_iff in Hn. apply in_app_or in Hm2. destruct Hm2 as [Hs|Hj].
    - assert (inter g s = true) by (apply inter_spec; exists m; auto). congruence.
    - apply In_concat_filter in Hj. destruct Hj as (h & Hh & Hf & Hmh).
      assert (g <> h) by (intros ->; congruence).
      exact (Disj_nth_In gs HD g h Hg Hh H m Hm1 Hmh). }
  intros i j a b Hi Hj Hne.
  destruct (Nat.lt_ge_cases i (length rest)) as [Li|Li], (Nat.lt_ge_cases j (length rest)) as [Lj|Lj].
  - rewrite nth_error_app1 in Hi, Hj by assumption. apply (HR i j a b Hi Hj Hne).
  - rewrite nth_error_app1 in Hi by assumption. rewrite nth_error_app2 in Hj by assumption.
    destruct (j - length rest) as [|q]; cbn [nth_error] in Hj; [|destruct q; discriminate]. injection Hj as <-.
    apply Hnew. eapply nth_error_In; eassumption.
  - rewrite nth_error_app2 in Hi by assumption. rewrite nth_error_app1 in Hj by assumption.
    destruct (i - length rest) as [|q]; cbn [nth_error] in Hi; [|destruct q; discriminate]. injection Hi as <-.
    intros m H1 H2. apply (Hnew b (nth_error_In _ _ Hj) m H2 H1).
  - rewrite nth_error_app2 in Hi, Hj by assumption.
    destruct (i - length rest) as [|q] eqn:Ei; cbn [nth_error] in Hi; [|destruct q; discriminate].
    destruct (j - length rest) as [|q] eqn:Ej; cbn [nth_error] in Hj; [|destruct q; discriminate]. lia.
Qed.

(** every statement processed so far lies inside one group *)
Definition Covered (gs : list (list key)) (s : list key) : Prop := exists g, In g gs /\ incl s g.

Lemma add_stmt_cover_new gs s : Covered (add_stmt gs s) s.
Proof. exists (s ++ concat (filter (fun g => inter g s) gs)). split; [apply in_or_app; right; left; reflexivity|apply incl_appl, incl_refl]. Qed.

Lemma add_stmt_cover_old gs s s0 : Covered gs s0 -> Covered (add_stmt gs s) s0.
Proof.
  intros (g & Hg & Hi). unfold add_stmt. destruct (inter g s) eqn:E.
  - exists (s ++ concat (filter (fun g => inter g s) gs)). split; [apply in_or_app; right; left; reflexivity|].
    intros m Hm. apply in_or_app. right. apply in_concat. exists g. split; [apply filter_In; auto|apply Hi; exact Hm].
  - exists g. split; [|exact Hi]. apply in_or_app. left. apply filter_In. split; [exact Hg|rewrite E; reflexivity].
Qed.

Lemma groups_inv stmts : forall gs, Disj gs -> (forall s0, In s0 stmts \/ False -> True) ->
  Disj (fold_left add_stmt stmts gs) /\
  (forall s0, Covered gs s0 -> Covered (fold_left add_stmt stmts gs) s0) /\
  (forall s, In s stmts -> Covered (fold_left add_stmt stmts gs) s).
Proof.
  induction stmts as [|s t IH]; intros gs HD _; cbn [fold_left].
  - split; [exact HD|]. split; [auto|intros s []].
  - destruct (IH (add_stmt gs s) (add_stmt_Disj gs s HD) (fun _ _ => I)) as (I1 & I2 & I3).
    split; [exact I1|]. split.
    + intros s0 H. apply I2. apply add_stmt_cover_old. exact H.
    + intros s0 [<-|H]; [apply I2; apply add_stmt_cover_new|apply I3; exact H].
Qed.

Section Assign.
  Variable V : Type.

  (** assigning a group does not touch the claims outside it ... *)
  Lemma assign_outside (pm : key -> V) g k : ~ In k g -> assign V pm g k = pm k.
  Proof.
    destruct g as [|x t]; [reflexivity|]. cbn [assign]. intros H.
    destruct (memk k t) eqn:E; [|reflexivity]. apply memk_In in E. exfalso. apply H. right. exact E.
  Qed.
  (** ... and makes all its members equal *)
  Lemma assign_inside (pm : key -> V) g a b : In a g -> In b g -> assign V pm g a = assign V pm g b.
  Proof.
    destruct g as [|x t]; [intros []|]. cbn [assign].
    assert (H : forall k, In k (x :: t) -> (if memk k t then pm x else pm k) = pm x).
    { intros k [<-|Hk]; [destruct (memk x t); reflexivity|]. apply memk_In in Hk. rewrite Hk. reflexivity. }
    intros Ha Hb. rewrite (H a Ha), (H b Hb). reflexivity.
  Qed.

  Lemma fold_assign_outside gs : forall (pm : key -> V) k, (forall g, In g gs -> ~ In k g) -> fold_left (assign V) gs pm k = pm k.
  Proof.
    induction gs as [|g t IH]; intros pm k H; [reflexivity|]. cbn [fold_left].
    rewrite IH by (intros g0 Hg0; apply H; right; exact Hg0). apply assign_outside. apply H. left. reflexivity.
  Qed.

  Lemma fold_assign_group gs : Disj gs -> forall (pm : key -> V) g a b, In g gs -> In a g -> In b g ->
    fold_left (assign V) gs pm a = fold_left (assign V) gs pm b.
  Proof.
    induction gs as [|g0 t IH]; intros HD pm g a b Hg Ha Hb; [destruct Hg|].
    assert (HDt : Disj t) by (intros i j x y Hi Hj Hne; apply (HD (S i) (S j) x y); cbn [nth_error]; auto).
    cbn [fold_left]. destruct Hg as [->|Hg].
    - (* this group is assigned now; the later ones are disjoint from it *)
      assert (Hout : forall k, In k g -> forall h, In h t -> ~ In k h).
      { intros k Hk h Hh Hkh. apply In_nth_error in Hh. destruct Hh as [j Hj].
        assert (Hd : disjoint g h) by (apply (HD 0 (S j) g h); cbn [nth_error]; auto).
        exact (Hd k Hk Hkh). }
      rewrite !fold_assign_outside by (intros h Hh; auto). apply assign_inside; assumption.
    - apply (IH HDt _ g); assumption.
  Qed.

  Theorem propagate_equalises stmts (pm : key -> V) s a b :
    In s stmts -> In a s -> In b s -> propagate V stmts pm a = propagate V stmts pm b.
  Proof.
    intros Hs Ha Hb. unfold propagate, groups_of.
    destruct (groups_inv stmts [] (fun i j g h Hi => ltac:(destruct i; discriminate)) (fun _ _ => I)) as (HD & _ & HC).
    destruct (HC s Hs) as (g & Hg & Hi). apply (fold_assign_group _ HD pm g a b Hg); apply Hi; assumption.
  Qed.
End Assign.

(** the pinned sequential copying does not: statements (b = c, a = b) leave b and c different *)
Theorem propagate_seq_refuted :
  exists (stmts : list (list key)) (pm : key -> nat) s a b,
    In s stmts /\ In a s /\ In b s /\ propagate_seq nat stmts pm a <> propagate_seq nat stmts pm b.
Proof.
  exists [[(1, 0); (2, 0)]; [(0, 0); (1, 0)]], (fun k => fst k), [(1, 0); (2, 0)], (1, 0), (2, 0).
  repeat split; [left; reflexivity|left; reflexivity|right; left; reflexivity|]. vm_compute. discriminate.
Qed.
