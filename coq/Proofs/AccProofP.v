From Coq Require Import Field Ring List Bool.
From ACV Require Import Model.Field Model.AccProof Proofs.FieldP.
Import ListNotations.

Section AccProofP.
Variable K : fops.
Hypothesis Kf : is_field K.
Add Field KF : (Kf_th K Kf).
Local Notation "a + b" := (fadd K a b).
Local Notation "a - b" := (fsub K a b).
Local Notation "a * b" := (fmul K a b).
Local Notation "a / b" := (fdiv K a b).
Local Notation "0" := (f0 K).
Local Notation "- a" := (fopp K a).

(** the only component of the recomputed commitment that depends on the witness relation *)
Lemma finalize_re p m C V r c :
  ac_re K (acc_finalize K p V (acc_respond K p m C r c) c) =
  ac_re K (acc_commit K p m C r) + c * (C * (m + ap_alpha K p) - V).
Proof. cbn. ring. Qed.

(** completeness: with a witness valid for the statement's accumulator value the verifier recomputes
    exactly the prover's commitment, for all parameters, randomness and challenges *)
Theorem acc_proof_complete p m C V r c : C * (m + ap_alpha K p) = V ->
  acc_finalize K p V (acc_respond K p m C r c) c = acc_commit K p m C r.
Proof.
  intros H. unfold acc_finalize, acc_respond, acc_commit. cbn. f_equal; try ring.
  transitivity ((ap_z K p * (ar_sigma K r + ar_rho K r) + C) * ar_ry K r + ap_z K p * - (ar_rdsigma K r + ar_rdrho K r)
                + ap_z K p * - (ar_rsigma K r + ar_rrho K r) * ap_alpha K p + c * (C * (m + ap_alpha K p) - V)); [ring|].
  rewrite H. ring.
Qed.

(** conversely, the honest sub-protocol run with a handle that is NOT valid for the statement's value makes
    the recomputed R_E differ from the hashed one, for every non-zero challenge: a revoked holder's stale,
    updated-across-own-revocation or borrowed handle cannot pass through the honest prover *)
Theorem acc_proof_invalid_witness p m C V r c : c <> 0 -> C * (m + ap_alpha K p) <> V ->
  ac_re K (acc_finalize K p V (acc_respond K p m C r c) c) <> ac_re K (acc_commit K p m C r).
Proof.
  intros Hc Hw E. rewrite finalize_re in E. apply Hw. apply (fsub_zero K Kf).
  apply (fmul_zero_r K Kf c _ Hc).
  transitivity (ac_re K (acc_commit K p m C r) + c * (C * (m + ap_alpha K p) - V) - ac_re K (acc_commit K p m C r)); [ring|].
  rewrite E. ring.
Qed.

(** the s_y response is the shared response of the referenced claim (n + c*m with the shared nonce) *)
Theorem acc_link_complete p m C r c : pr_sy K (acc_respond K p m C r c) = m * c + ar_ry K r.
Proof. reflexivity. Qed.

(** special soundness: two accepting transcripts for one commitment and two challenges give (y, sigma, rho)
    with T_sigma = sigma*X, T_rho = rho*Y and a witness C' = E_C - (sigma+rho)*Z with C'*(y+alpha) = V *)
Theorem acc_proof_extract p V ec ts tr (pr pr' : aproof K) c c' :
  pr_ec K pr = ec -> pr_tsigma K pr = ts -> pr_trho K pr = tr ->
  pr_ec K pr' = ec -> pr_tsigma K pr' = ts -> pr_trho K pr' = tr ->
  c <> c' -> ap_x K p <> 0 -> ap_y K p <> 0 ->
  acc_finalize K p V pr c = acc_finalize K p V pr' c' ->
  let d := finv K (c - c') in
  let y := (pr_sy K pr - pr_sy K pr') * d in
  let sigma := (pr_ssigma K pr - pr_ssigma K pr') * d in
  let rho := (pr_srho K pr - pr_srho K pr') * d in
  ts = ap_x K p * sigma /\ tr = ap_y K p * rho /\
  (ec - ap_z K p * (sigma + rho)) * (y + ap_alpha K p) = V.
Proof.
  intros E1 E2 E3 E1' E2' E3' Hc Hx Hy H. cbn zeta.
  assert (Hd : c - c' <> 0) by (intros Z; apply Hc; apply (fsub_zero K Kf); exact Z).
  unfold acc_finalize in H. rewrite E1, E2, E3, E1', E2', E3' in H.
  injection H as HRE HRS HRR HDS HDR.
  set (d := finv K (c - c')).
  (* each component equation as a difference equal to zero *)
  assert (ZS : (ap_x K p * pr_ssigma K pr + - ts * c) - (ap_x K p * pr_ssigma K pr' + - ts * c') = 0) by (rewrite HRS; ring).
  assert (ZR : (ap_y K p * pr_srho K pr + - tr * c) - (ap_y K p * pr_srho K pr' + - tr * c') = 0) by (rewrite HRR; ring).
  assert (ZDS : (ts * pr_sy K pr + - ap_x K p * pr_sdsigma K pr) - (ts * pr_sy K pr' + - ap_x K p * pr_sdsigma K pr') = 0) by (rewrite HDS; ring).
  assert (ZDR : (tr * pr_sy K pr + - ap_y K p * pr_sdrho K pr) - (tr * pr_sy K pr' + - ap_y K p * pr_sdrho K pr') = 0) by (rewrite HDR; ring).
  (* T_sigma, T_rho *)
  assert (Ts0 : ts * (c - c') = ap_x K p * (pr_ssigma K pr - pr_ssigma K pr')).
  { apply (fsub_zero K Kf).
    transitivity (- ((ap_x K p * pr_ssigma K pr + - ts * c) - (ap_x K p * pr_ssigma K pr' + - ts * c'))); [ring|rewrite ZS; ring]. }
  assert (Tr0 : tr * (c - c') = ap_y K p * (pr_srho K pr - pr_srho K pr')).
  { apply (fsub_zero K Kf).
    transitivity (- ((ap_y K p * pr_srho K pr + - tr * c) - (ap_y K p * pr_srho K pr' + - tr * c'))); [ring|rewrite ZR; ring]. }
  assert (Ts : ts = ap_x K p * ((pr_ssigma K pr - pr_ssigma K pr') * d)).
  { transitivity (ts * (c - c') / (c - c')); [field; exact Hd|]. rewrite Ts0. unfold d. field. exact Hd. }
  assert (Tr : tr = ap_y K p * ((pr_srho K pr - pr_srho K pr') * d)).
  { transitivity (tr * (c - c') / (c - c')); [field; exact Hd|]. rewrite Tr0. unfold d. field. exact Hd. }
  split; [exact Ts|]. split; [exact Tr|].
  (* delta relations: (s_y - s_y')*T = (s_d - s_d')*X, hence delta = y*sigma *)
  assert (Ds : ap_x K p * (pr_sdsigma K pr - pr_sdsigma K pr') = ts * (pr_sy K pr - pr_sy K pr')).
  { apply (fsub_zero K Kf).
    transitivity (- ((ts * pr_sy K pr + - ap_x K p * pr_sdsigma K pr) - (ts * pr_sy K pr' + - ap_x K p * pr_sdsigma K pr'))); [ring|rewrite ZDS; ring]. }
  assert (Dr : ap_y K p * (pr_sdrho K pr - pr_sdrho K pr') = tr * (pr_sy K pr - pr_sy K pr')).
  { apply (fsub_zero K Kf).
    transitivity (- ((tr * pr_sy K pr + - ap_y K p * pr_sdrho K pr) - (tr * pr_sy K pr' + - ap_y K p * pr_sdrho K pr'))); [ring|rewrite ZDR; ring]. }
  assert (Dsig : pr_sdsigma K pr - pr_sdsigma K pr' = ((pr_ssigma K pr - pr_ssigma K pr') * d) * (pr_sy K pr - pr_sy K pr')).
  { apply (fmul_cancel_l K Kf (ap_x K p) _ _ Hx). rewrite Ds, Ts. ring. }
  assert (Drho : pr_sdrho K pr - pr_sdrho K pr' = ((pr_srho K pr - pr_srho K pr') * d) * (pr_sy K pr - pr_sy K pr')).
  { apply (fmul_cancel_l K Kf (ap_y K p) _ _ Hy). rewrite Dr, Tr. ring. }
  (* the pairing component *)
  assert (RE : (c - c') * V =
               ec * (pr_sy K pr - pr_sy K pr') - ap_z K p * ((pr_sdsigma K pr - pr_sdsigma K pr') + (pr_sdrho K pr - pr_sdrho K pr'))
               + (- (ap_z K p * ((pr_ssigma K pr - pr_ssigma K pr') + (pr_srho K pr - pr_srho K pr'))) + ec * (c - c')) * ap_alpha K p).
  { apply (fsub_zero K Kf).
    match type of HRE with ?L = ?R => assert (ZE : L - R = 0) by (rewrite HRE; ring); transitivity (- (L - R)); [ring|rewrite ZE; ring] end. }
  rewrite Dsig, Drho in RE.
  transitivity ((c - c') * V / (c - c')); [|field; exact Hd].
  rewrite RE. unfold d. field. exact Hd.
Qed.
End AccProofP.
