(** Re-randomisation of signatures inside proofs of knowledge, and uniformity of Schnorr responses:
    the algebraic core of C07 (confidentiality) and C12 (unlinkability). *)
From Coq Require Import Field Ring List Bool.
From ACV Require Import Model.Field Model.Pres Model.Sigs Proofs.FieldP Proofs.SigsP.
Import ListNotations.

Section PrivacyP.
Variable K : fops.
Hypothesis Kf : is_field K.
Add Field KF : (Kf_th K Kf).
Local Notation "a + b" := (fadd K a b).
Local Notation "a - b" := (fsub K a b).
Local Notation "a * b" := (fmul K a b).
Local Notation "a / b" := (fdiv K a b).
Local Notation "0" := (f0 K).

(** BBS (pok_signature.rs:34-41): a_bar = A*r, b_bar = B*r - a_bar*e = x*a_bar.  For ANY two valid signatures
    of the issuer there is a bijection r -> r' = r*A/A' on the randomiser under which both published
    elements coincide: (a_bar, b_bar) is (U, x*U) for uniform U, independent of the credential. *)
Theorem bbs_rerandomise x ys A e msgs A' e' msgs' r : A <> 0 -> A' <> 0 ->
  A * (e + x) = bbs_B K ys msgs -> A' * (e' + x) = bbs_B K ys msgs' ->
  let r' := r * A / A' in
  A' * r' = A * r /\ bbs_B K ys msgs' * r' - (A' * r') * e' = bbs_B K ys msgs * r - (A * r) * e.
Proof.
  intros HA HA' S S'. cbn zeta. split; [field; exact HA'|].
  rewrite <- S, <- S'. field. exact HA'.
Qed.
Theorem bbs_rerandomise_inverse (A A' r : K) : A <> 0 -> A' <> 0 -> (r * A / A') * A' / A = r.
Proof. intros H H'. field. split; assumption. Qed.

(** PS (pok_signature.rs:37-42): sigma' = (s1*r, (s2 + s1*t)*r) with s2 = s1*E.  For any two valid
    signatures there is a bijection (r, t) -> (r*s1/s1', E + t - E') under which both elements coincide. *)
Theorem ps_rerandomise (s1 E s1' E' r t : K) : s1 <> 0 -> s1' <> 0 ->
  let r' := r * s1 / s1' in
  let t' := E + t - E' in
  s1' * r' = s1 * r /\ (s1' * E' + s1' * t') * r' = (s1 * E + s1 * t) * r.
Proof. intros H H'. cbn zeta. split; field; exact H'. Qed.

(** a Schnorr response n + s*c is a bijective image of its nonce: for every secret and challenge, every
    value of the response is attained by exactly one nonce — so responses with independent uniform nonces
    are uniform and carry no information about the secrets *)
Theorem response_bijective (s c z : K) : exists n, n + s * c = z /\ forall n', n' + s * c = z -> n' = n.
Proof.
  exists (z - s * c). split; [ring|]. intros n' H. rewrite <- H. ring.
Qed.

(** conversely a nonce used for two secrets links them: the difference of the responses is c*(s - s') *)
Theorem shared_nonce_links (n s s' c : K) : (n + s * c) - (n + s' * c) = c * (s - s').
Proof. ring. Qed.
(** and a nonce reused across two presentations reveals the secret: (z - z') = (c - c')*s *)
Theorem reused_nonce_reveals (n s c c' : K) : c <> c' -> ((n + s * c) - (n + s * c')) / (c - c') = s.
Proof. intros H. field. intros Z. apply H. apply (fsub_zero K Kf). exact Z. Qed.
End PrivacyP.
