//! f_acc: accumulator histories.  The op carries the case (alpha, v0, y, history, groups, els)
//! and the model's predicted exponents/scalars; the harness runs credx's manager and every
//! public update procedure and reports, field by field, whether the implementation's point equals
//! G * (model exponent), together with the implementation's own verify() verdicts and
//! from-scratch comparisons (for the property oracle).
use crate::util::*;
use blsful::inner_types::*;
use credx::knox::accumulator::vb20::*;
use serde_json::{json, Value};

fn sc(v: &Value) -> Scalar {
    sc_from_hex(v).expect("canonical scalar")
}
fn scl(v: &Value) -> Vec<Scalar> {
    v.as_array().unwrap().iter().map(sc).collect()
}
fn els(v: &Value) -> Vec<Element> {
    scl(v).into_iter().map(Element).collect()
}
fn pt_is(p: &G1Projective, e: &Value) -> bool {
    match sc_from_hex(e) {
        Some(s) => *p == G1Projective::GENERATOR * s,
        None => false,
    }
}

/// f_accfin: MembershipProof::finalize on chosen parameters (known logs), proof and challenge; the eight values it
/// hashes are compared with G1 / GT elements built from the model's predicted exponents (`expect`), by comparing the
/// merlin transcripts after `get_bytes_for_challenge` (labels as in proof.rs).
fn run_fin(v: &Value) -> Value {
    let g = G1Projective::GENERATOR;
    let params = ProofParams { x: g * sc(&v["x"]), y: g * sc(&v["y"]), z: g * sc(&v["z"]), k: g };
    let pk = PublicKey::from(&SecretKey(sc(&v["alpha"])));
    let acc = Accumulator(g * sc(&v["V"]));
    let pj = json!({
        "e_c": crate::ops_adv::tj(&(g * sc(&v["ec"]))), "t_sigma": crate::ops_adv::tj(&(g * sc(&v["ts"]))), "t_rho": crate::ops_adv::tj(&(g * sc(&v["tr"]))),
        "s_sigma": crate::ops_adv::tj(&sc(&v["ss"])), "s_rho": crate::ops_adv::tj(&sc(&v["sr"])),
        "s_delta_sigma": crate::ops_adv::tj(&sc(&v["sds"])), "s_delta_rho": crate::ops_adv::tj(&sc(&v["sdr"])), "s_y": crate::ops_adv::tj(&sc(&v["sy"]))});
    let proof: MembershipProof = crate::ops_adv::fj(&pj);
    let fin = proof.finalize(acc, params, pk, Element(sc(&v["c"])));
    let mut t1 = merlin::Transcript::new(b"f_accfin");
    fin.get_bytes_for_challenge(&mut t1);
    let e = scl(&v["expect"]);
    if e.len() != 8 {
        return json!({"r":"harness-error","msg":"expect needs 8 exponents"});
    }
    use elliptic_curve::group::GroupEncoding;
    let gt = blsful::inner_types::pairing(&G1Affine::generator(), &G2Affine::generator()) * e[3];
    let mut t2 = merlin::Transcript::new(b"f_accfin");
    t2.append_message(b"Ec", (g * e[0]).to_bytes().as_ref());
    t2.append_message(b"T_sigma", (g * e[1]).to_bytes().as_ref());
    t2.append_message(b"T_rho", (g * e[2]).to_bytes().as_ref());
    t2.append_message(b"R_E", gt.to_bytes().as_ref());
    t2.append_message(b"R_sigma", (g * e[4]).to_bytes().as_ref());
    t2.append_message(b"R_rho", (g * e[5]).to_bytes().as_ref());
    t2.append_message(b"R_delta_sigma", (g * e[6]).to_bytes().as_ref());
    t2.append_message(b"R_delta_rho", (g * e[7]).to_bytes().as_ref());
    let (mut a, mut b) = ([0u8; 32], [0u8; 32]);
    t1.challenge_bytes(b"x", &mut a);
    t2.challenge_bytes(b"x", &mut b);
    // which single field differs, if any: rebuild with the library's value is not possible (fields are private), so only the verdict
    json!({"r":"ok","same": a == b})
}

/// d_proof_params: the theorems treat the accumulator proof parameters X, Y, Z (and K) as elements with hidden, independent
/// logs.  In the code that rests on each being the hash-to-curve image of its own input; recompute them that way.
fn run_params(v: &Value) -> Value {
    use elliptic_curve::hash2curve::ExpandMsgXmd;
    const DST: &[u8] = b"BLS12381G1_XMD:SHA-256_SSWU_RO_VB_ACCUMULATOR:1_0_0";
    let pk = PublicKey::from(&SecretKey::new(None));
    let nonce = hex::decode(v["nonce"].as_str().unwrap_or("")).unwrap_or_default();
    let entropy: Option<&[u8]> = if v["no_entropy"] == true { None } else { Some(nonce.as_slice()) };
    let p = ProofParams::new(pk, entropy);
    let mut data = vec![0xFFu8; 32];
    data.extend_from_slice(entropy.unwrap_or(&[]));
    data.extend_from_slice(&pk.to_bytes());
    let h = |d: &[u8]| G1Projective::hash::<ExpandMsgXmd<sha2::Sha256>>(d, DST);
    let z = h(&data);
    data[0] = 0xFE;
    let y = h(&data);
    data[0] = 0xFD;
    let x = h(&data);
    data[0] = 0xFC;
    let k = h(&data);
    let pts = [p.x, p.y, p.z, p.k];
    let distinct = (0..4).all(|i| (0..4).all(|j| i == j || pts[i] != pts[j])) && pts.iter().all(|q| !bool::from(q.is_identity()));
    json!({"r":"ok","x": p.x == x, "y": p.y == y, "z": p.z == z, "k": p.k == k, "distinct": distinct})
}

pub fn run(op: &str, v: &Value) -> Value {
    if op == "f_accfin" {
        return run_fin(v);
    }
    if op == "d_proof_params" {
        return run_params(v);
    }
    if op == "d_domain_gen" {
        // create_domain_proof_generator: the verifier-chosen pseudonym / commitment base of a domain is the hash-to-curve image
        // of the domain string (no known log relative to G or to another domain's base)
        use elliptic_curve::hash2curve::ExpandMsgXmd;
        let d = hex::decode(v["domain"].as_str().unwrap_or("")).unwrap_or_default();
        let g = credx::create_domain_proof_generator(&d);
        let h = G1Projective::hash::<ExpandMsgXmd<sha2::Sha256>>(&d, b"BLS12381G1_XMD:SHA-256_SSWU_RO_");
        return json!({"r":"ok","same": g == h, "nontrivial": g != G1Projective::GENERATOR && !bool::from(g.is_identity())});
    }
    let key = SecretKey(sc(&v["alpha"]));
    let pk = PublicKey::from(&key);
    let y = Element(sc(&v["y"]));
    let v0 = Accumulator(G1Projective::GENERATOR * sc(&v["v0"]));
    let hist: Vec<(Vec<Element>, Vec<Element>)> =
        v["hist"].as_array().unwrap().iter().map(|h| (els(&h[0]), els(&h[1]))).collect();
    let exp = &v["expect"];
    // ---- manager
    let mut acc = v0;
    let mut accs = vec![];
    let mut pubs: Vec<(Vec<Element>, Vec<Element>, Vec<Coefficient>)> = vec![];
    for (a, d) in hist.iter() {
        let coeffs = acc.update_assign(&key, a, d);
        accs.push(acc);
        pubs.push((a.clone(), d.clone(), coeffs));
    }
    let vals_ok: Vec<bool> = accs.iter().enumerate().map(|(i, a)| pt_is(&a.0, &exp["vals"][i])).collect();
    let coeffs_ok: Vec<bool> = pubs
        .iter()
        .enumerate()
        .map(|(i, p)| {
            let e = exp["coeffs"][i].as_array().unwrap();
            e.len() == p.2.len() && p.2.iter().zip(e.iter()).all(|(c, x)| pt_is(&c.0, x))
        })
        .collect();
    // ---- membership
    let c0 = MembershipWitness::new(y, v0, &key);
    let mut seq = vec![c0];
    for p in pubs.iter() {
        let w = seq.last().unwrap().batch_update(y, &p.0, &p.1, &p.2);
        seq.push(w);
    }
    let seq_ok: Vec<bool> = seq.iter().enumerate().map(|(i, w)| pt_is(&w.0, &exp["seq"][i])).collect();
    let seq_verify: Vec<bool> = seq.iter().enumerate().map(|(i, w)| w.verify(y, pk, if i == 0 { v0 } else { accs[i - 1] })).collect();
    let scratch_eq: Vec<bool> =
        seq.iter().enumerate().map(|(i, w)| *w == MembershipWitness::new(y, if i == 0 { v0 } else { accs[i - 1] }, &key)).collect();
    let last = *accs.last().unwrap_or(&v0);
    let mut m = c0;
    let multi = m.multi_batch_update(y, pubs.as_slice());
    let mut g = c0;
    let mut rest = pubs.as_slice();
    for n in v["groups"].as_array().unwrap() {
        let n = (n.as_u64().unwrap() as usize).min(rest.len());
        let (h, t) = rest.split_at(n);
        g.multi_batch_update_assign(y, h);
        rest = t;
    }
    if !rest.is_empty() {
        g.multi_batch_update_assign(y, rest);
    }
    let mut singles = vec![c0];
    let mut prev = v0;
    for (i, p) in pubs.iter().enumerate() {
        let w = singles.last().unwrap().update(y, prev, accs[i], &p.0, &p.1);
        singles.push(w);
        prev = accs[i];
    }
    let single_ok: Vec<bool> = singles.iter().enumerate().map(|(i, w)| pt_is(&w.0, &exp["single"][i])).collect();
    let single_verify: Vec<bool> =
        singles.iter().enumerate().map(|(i, w)| w.verify(y, pk, if i == 0 { v0 } else { accs[i - 1] })).collect();
    // ---- non-membership over with_elements(els)
    let init = els(&v["els"]);
    let vn0 = Accumulator::with_elements(&key, &init);
    let mut nacc = vn0;
    let mut naccs = vec![];
    let mut npubs: Vec<(Vec<Element>, Vec<Element>, Vec<Coefficient>)> = vec![];
    for (a, d) in hist.iter() {
        let coeffs = nacc.update_assign(&key, a, d);
        naccs.push(nacc);
        npubs.push((a.clone(), d.clone(), coeffs));
    }
    let nvals_ok: Vec<bool> = naccs.iter().enumerate().map(|(i, a)| pt_is(&a.0, &exp["nvals"][i])).collect();
    let nm = NonMembershipWitness::new(y, &init, &key);
    let mut nmsingle_ok = json!(null);
    let mut nmsingle_verify = json!(null);
    let (nm_ok, nm_verify, nmmulti_ok, nmmulti_verify) = match nm {
        None => (json!(exp["nm"][0].as_str() == Some("none")), json!([]), json!(exp["nmmulti"].as_str() == Some("none")), json!(null)),
        Some(w0) => {
            let mut ws = vec![w0];
            for p in npubs.iter() {
                let w = ws.last().unwrap().batch_update(y, &p.0, &p.1, &p.2);
                ws.push(w);
            }
            let ok: Vec<bool> = ws
                .iter()
                .enumerate()
                .map(|(i, w)| {
                    let e = exp["nm"][i].as_str().unwrap_or("");
                    let parts: Vec<&str> = e.split(':').collect();
                    parts.len() == 2 && pt_is(&w.c, &json!(parts[0])) && sc_from_hex(&json!(parts[1])) == Some(w.d)
                })
                .collect();
            let ver: Vec<bool> = ws.iter().enumerate().map(|(i, w)| w.verify(y, pk, if i == 0 { vn0 } else { naccs[i - 1] })).collect();
            // single-step procedure, one call per epoch
            let mut wsingle = vec![w0];
            let mut prev = vn0;
            for (i, p) in npubs.iter().enumerate() {
                let w = wsingle.last().unwrap().update(y, prev, naccs[i], &p.0, &p.1);
                wsingle.push(w);
                prev = naccs[i];
            }
            let es: Vec<&str> = exp["nmsingle"].as_array().map(|a| a.iter().map(|x| x.as_str().unwrap_or("")).collect()).unwrap_or_default();
            nmsingle_ok = json!(wsingle.iter().enumerate().map(|(i, w)| {
                let parts: Vec<&str> = es.get(i).copied().unwrap_or("").split(':').collect();
                parts.len() == 2 && pt_is(&w.c, &json!(parts[0])) && sc_from_hex(&json!(parts[1])) == Some(w.d)
            }).collect::<Vec<bool>>());
            nmsingle_verify = json!(wsingle.iter().enumerate().map(|(i, w)| w.verify(y, pk, if i == 0 { vn0 } else { naccs[i - 1] })).collect::<Vec<bool>>());
            let mut wm = w0;
            let wmm = wm.multi_batch_update(y, npubs.as_slice());
            let e = exp["nmmulti"].as_str().unwrap_or("");
            let parts: Vec<&str> = e.split(':').collect();
            let mok = parts.len() == 2 && pt_is(&wmm.c, &json!(parts[0])) && sc_from_hex(&json!(parts[1])) == Some(wmm.d);
            (json!(ok), json!(ver), json!(mok), json!(wmm.verify(y, pk, *naccs.last().unwrap_or(&vn0))))
        }
    };
    json!({
        "r": "ok",
        "vals_ok": vals_ok, "coeffs_ok": coeffs_ok, "coeff_lens": pubs.iter().map(|p| p.2.len()).collect::<Vec<_>>(),
        "seq_ok": seq_ok, "seq_verify": seq_verify, "scratch_eq": scratch_eq,
        "multi_ok": pt_is(&multi.0, &exp["multi"]), "multi_verify": multi.verify(y, pk, last),
        "multi_scratch": multi == MembershipWitness::new(y, last, &key),
        "grouped_ok": pt_is(&g.0, &exp["grouped"]), "grouped_verify": g.verify(y, pk, last),
        "single_ok": single_ok, "single_verify": single_verify,
        "nvals_ok": nvals_ok, "nm_ok": nm_ok, "nm_verify": nm_verify, "nmmulti_ok": nmmulti_ok, "nmmulti_verify": nmmulti_verify,
        "nmsingle_ok": nmsingle_ok, "nmsingle_verify": nmsingle_verify,
    })
}
