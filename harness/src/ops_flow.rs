//! End-to-end flows through Presentation::create / Presentation::verify (honest holder).
use crate::util::*;
use blsful::inner_types::*;
use credx::claim::*;
use credx::credential::{ClaimSchema, CredentialSchema};
use credx::issuer::Issuer;
use credx::knox::bbs::BbsScheme;
use credx::knox::ps::PsScheme;
use credx::knox::short_group_sig_core::short_group_traits::ShortGroupSignatureScheme;
use credx::presentation::{Presentation, PresentationSchema};
use credx::statement::*;
use indexmap::indexmap;
use serde_json::{json, Value};
use std::collections::BTreeSet;

fn opt_i64(v: &Value) -> Option<isize> {
    if v.is_null() {
        None
    } else {
        Some(i64_of(v) as isize)
    }
}

pub fn hash_g1(tag: &[u8]) -> G1Projective {
    G1Projective::hash::<ExpandMsgXmd<sha2_compat::Sha256>>(tag, b"BLS12381G1_XMD:SHA-256_SSWU_RO_")
}

mod sha2_compat {
    pub use sha2::Sha256;
}

/// f_range: credential [revocation id, hashed name, number v (index `pos` of `n` claims)],
/// schema = signature + commitment + range(lower, upper); returns create/verify outcomes.
fn range_case<S: ShortGroupSignatureScheme>(v: &Value) -> Value {
    let val = i64_of(&v["v"]) as isize;
    let lower = opt_i64(&v["lo"]);
    let upper = opt_i64(&v["hi"]);
    let n_extra = v["extra"].as_u64().unwrap_or(0) as usize; // extra hashed claims before the number
    let disclose_name = v["disclose"].as_bool().unwrap_or(true);
    let mut schema_claims = vec![
        ClaimSchema { claim_type: ClaimType::Revocation, label: "identifier".into(), print_friendly: false, validators: vec![] },
        ClaimSchema { claim_type: ClaimType::Hashed, label: "name".into(), print_friendly: true, validators: vec![] },
    ];
    for i in 0..n_extra {
        schema_claims.push(ClaimSchema { claim_type: ClaimType::Hashed, label: format!("extra{i}"), print_friendly: true, validators: vec![] });
    }
    schema_claims.push(ClaimSchema { claim_type: ClaimType::Number, label: "age".into(), print_friendly: true, validators: vec![] });
    let idx = schema_claims.len() - 1;
    let cred_schema = CredentialSchema::new(Some("s"), Some("d"), &[], &schema_claims).expect("schema");
    let (issuer_public, mut issuer) = Issuer::<S>::new(&cred_schema);
    let mut claims: Vec<ClaimData> = vec![RevocationClaim::from("91742856-6eda-45fb-a709-d22ebb5ec8a5").into(), HashedClaim::from("John Doe").into()];
    for i in 0..n_extra {
        claims.push(HashedClaim::from(format!("x{i}")).into());
    }
    claims.push(NumberClaim::from(val).into());
    let credential = match issuer.sign_credential(&claims) {
        Ok(c) => c,
        Err(_) => return json!({"r":"ok","issue":"err"}),
    };
    let mut disclosed = BTreeSet::new();
    if disclose_name {
        disclosed.insert("name".to_string());
    }
    let sig_st = SignatureStatement { disclosed, id: "sig-1".into(), issuer: issuer_public.clone() };
    let comm_st = CommitmentStatement {
        id: "comm-1".into(),
        reference_id: sig_st.id.clone(),
        message_generator: hash_g1(b"message generator"),
        blinder_generator: hash_g1(b"blinder generator"),
        claim: idx,
    };
    let range_st = RangeStatement { id: "range-1".into(), reference_id: comm_st.id.clone(), signature_id: sig_st.id.clone(), claim: idx, lower, upper };
    let nonce = unhx(&v["nonce"]);
    let credentials = indexmap! { sig_st.id.clone() => credential.credential.into() };
    let schema = PresentationSchema::new(&[sig_st.into(), comm_st.into(), range_st.into()]);
    match Presentation::create(&credentials, &schema, &nonce) {
        Err(_) => json!({"r":"ok","issue":"ok","create":"err"}),
        Ok(p) => {
            let ver = match p.verify(&schema, &nonce) { Ok(_) => "ok", Err(_) => "err" };
            // verification after a serde round trip (BARE, as in the repository's tests)
            let ver2 = match serde_bare::to_vec(&p).ok().and_then(|b| serde_bare::from_slice::<Presentation<S>>(&b).ok()) {
                Some(p2) => match p2.verify(&schema, &nonce) { Ok(_) => "ok", Err(_) => "err" },
                None => "codec-err",
            };
            // the bulletproof itself must be examined: the range proof of a second, independently created presentation of
            // the same credential under the same request (other blinding, other commitments) does not fit this one
            let swapped = match Presentation::create(&credentials, &schema, &nonce) {
                Ok(p2) => {
                    let mut q = p.clone();
                    match p2.proofs.get("range-1") {
                        Some(rp) => {
                            q.proofs.insert("range-1".to_string(), rp.clone());
                            match q.verify(&schema, &nonce) { Ok(_) => "ok", Err(_) => "err" }
                        }
                        None => "no-range-proof",
                    }
                }
                Err(_) => "create2-err",
            };
            json!({"r":"ok","issue":"ok","create":"ok","verify":ver,"verify_rt":ver2,"verify_swapped":swapped})
        }
    }
}

pub fn run(op: &str, v: &Value) -> Value {
    let ps = v["suite"].as_str() == Some("ps");
    match op {
        "f_range" => if ps { range_case::<PsScheme>(v) } else { range_case::<BbsScheme>(v) },
        _ => json!({"r":"harness-error","msg":format!("unknown flow op {op}")}),
    }
}
