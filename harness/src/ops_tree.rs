//! d_tree (C19): a recording serde Serializer.  It dumps the serde data-model tree that the real
//! Serialize impl of an object produces (for human-readable and for binary formats), in a
//! canonical one-line text form that the Coq model of the hand-written / attribute-driven impls
//! (coq/Model/SerdeTree.v) prints identically.
use crate::ops_issue::{claim_from, ctype, validator};
use credx::claim::*;
use credx::credential::{ClaimSchema, CredentialSchema};
use serde::ser::*;
use serde_json::{json, Value};
use std::fmt::Display;

pub struct Rec {
    pub hr: bool,
}

#[derive(Debug)]
pub struct RecErr(String);
impl Display for RecErr {
    fn fmt(&self, f: &mut std::fmt::Formatter<'_>) -> std::fmt::Result {
        write!(f, "{}", self.0)
    }
}
impl std::error::Error for RecErr {}
impl serde::ser::Error for RecErr {
    fn custom<T: Display>(msg: T) -> Self {
        RecErr(msg.to_string())
    }
}

fn hexs(b: &[u8]) -> String {
    hex::encode(b)
}

pub struct SeqRec {
    hr: bool,
    head: String,
    items: Vec<String>,
    pending_key: Option<String>,
    tail: &'static str,
}

impl Serializer for Rec {
    type Ok = String;
    type Error = RecErr;
    type SerializeSeq = SeqRec;
    type SerializeTuple = SeqRec;
    type SerializeTupleStruct = SeqRec;
    type SerializeTupleVariant = SeqRec;
    type SerializeMap = SeqRec;
    type SerializeStruct = SeqRec;
    type SerializeStructVariant = SeqRec;

    fn is_human_readable(&self) -> bool {
        self.hr
    }
    fn serialize_bool(self, v: bool) -> Result<String, RecErr> {
        Ok(format!("bool({})", if v { 1 } else { 0 }))
    }
    fn serialize_i8(self, v: i8) -> Result<String, RecErr> {
        Ok(format!("i8({v})"))
    }
    fn serialize_i16(self, v: i16) -> Result<String, RecErr> {
        Ok(format!("i16({v})"))
    }
    fn serialize_i32(self, v: i32) -> Result<String, RecErr> {
        Ok(format!("i32({v})"))
    }
    fn serialize_i64(self, v: i64) -> Result<String, RecErr> {
        Ok(format!("i64({v})"))
    }
    fn serialize_u8(self, v: u8) -> Result<String, RecErr> {
        Ok(format!("u8({v})"))
    }
    fn serialize_u16(self, v: u16) -> Result<String, RecErr> {
        Ok(format!("u16({v})"))
    }
    fn serialize_u32(self, v: u32) -> Result<String, RecErr> {
        Ok(format!("u32({v})"))
    }
    fn serialize_u64(self, v: u64) -> Result<String, RecErr> {
        Ok(format!("u64({v})"))
    }
    fn serialize_f32(self, v: f32) -> Result<String, RecErr> {
        Ok(format!("f32({v})"))
    }
    fn serialize_f64(self, v: f64) -> Result<String, RecErr> {
        Ok(format!("f64({v})"))
    }
    fn serialize_char(self, v: char) -> Result<String, RecErr> {
        Ok(format!("char({})", v as u32))
    }
    fn serialize_str(self, v: &str) -> Result<String, RecErr> {
        Ok(format!("str({})", hexs(v.as_bytes())))
    }
    fn serialize_bytes(self, v: &[u8]) -> Result<String, RecErr> {
        Ok(format!("bytes({})", hexs(v)))
    }
    fn serialize_none(self) -> Result<String, RecErr> {
        Ok("none".to_string())
    }
    fn serialize_some<T: ?Sized + Serialize>(self, value: &T) -> Result<String, RecErr> {
        Ok(format!("some({})", value.serialize(Rec { hr: self.hr })?))
    }
    fn serialize_unit(self) -> Result<String, RecErr> {
        Ok("unit".to_string())
    }
    fn serialize_unit_struct(self, name: &'static str) -> Result<String, RecErr> {
        { let _ = name; Ok("unitstruct".to_string()) }
    }
    fn serialize_unit_variant(self, _name: &'static str, idx: u32, variant: &'static str) -> Result<String, RecErr> {
        Ok(format!("variant:{idx}:{variant}"))
    }
    fn serialize_newtype_struct<T: ?Sized + Serialize>(self, name: &'static str, value: &T) -> Result<String, RecErr> {
        { let _ = name; Ok(format!("newtype({})", value.serialize(Rec { hr: self.hr })?)) }
    }
    fn serialize_newtype_variant<T: ?Sized + Serialize>(self, _name: &'static str, idx: u32, variant: &'static str, value: &T) -> Result<String, RecErr> {
        Ok(format!("variant:{idx}:{variant}({})", value.serialize(Rec { hr: self.hr })?))
    }
    fn serialize_seq(self, _len: Option<usize>) -> Result<SeqRec, RecErr> {
        Ok(SeqRec { hr: self.hr, head: "seq[".into(), items: vec![], pending_key: None, tail: "]" })
    }
    fn serialize_tuple(self, _len: usize) -> Result<SeqRec, RecErr> {
        Ok(SeqRec { hr: self.hr, head: "tuple[".into(), items: vec![], pending_key: None, tail: "]" })
    }
    fn serialize_tuple_struct(self, name: &'static str, _len: usize) -> Result<SeqRec, RecErr> {
        Ok(SeqRec { hr: self.hr, head: { let _ = name; "tuplestruct[".to_string() }, items: vec![], pending_key: None, tail: "]" })
    }
    fn serialize_tuple_variant(self, _name: &'static str, idx: u32, variant: &'static str, _len: usize) -> Result<SeqRec, RecErr> {
        Ok(SeqRec { hr: self.hr, head: format!("variant:{idx}:{variant}["), items: vec![], pending_key: None, tail: "]" })
    }
    fn serialize_map(self, _len: Option<usize>) -> Result<SeqRec, RecErr> {
        Ok(SeqRec { hr: self.hr, head: "map{".into(), items: vec![], pending_key: None, tail: "}" })
    }
    fn serialize_struct(self, name: &'static str, _len: usize) -> Result<SeqRec, RecErr> {
        Ok(SeqRec { hr: self.hr, head: { let _ = name; "struct{".to_string() }, items: vec![], pending_key: None, tail: "}" })
    }
    fn serialize_struct_variant(self, _name: &'static str, idx: u32, variant: &'static str, _len: usize) -> Result<SeqRec, RecErr> {
        Ok(SeqRec { hr: self.hr, head: format!("variant:{idx}:{variant}{{"), items: vec![], pending_key: None, tail: "}" })
    }
}

impl SeqRec {
    fn push<T: ?Sized + Serialize>(&mut self, v: &T) -> Result<(), RecErr> {
        self.items.push(v.serialize(Rec { hr: self.hr })?);
        Ok(())
    }
    fn finish(self) -> String {
        format!("{}{}{}", self.head, self.items.join(","), self.tail)
    }
}
impl SerializeSeq for SeqRec {
    type Ok = String;
    type Error = RecErr;
    fn serialize_element<T: ?Sized + Serialize>(&mut self, v: &T) -> Result<(), RecErr> {
        self.push(v)
    }
    fn end(self) -> Result<String, RecErr> {
        Ok(self.finish())
    }
}
impl SerializeTuple for SeqRec {
    type Ok = String;
    type Error = RecErr;
    fn serialize_element<T: ?Sized + Serialize>(&mut self, v: &T) -> Result<(), RecErr> {
        self.push(v)
    }
    fn end(self) -> Result<String, RecErr> {
        Ok(self.finish())
    }
}
impl SerializeTupleStruct for SeqRec {
    type Ok = String;
    type Error = RecErr;
    fn serialize_field<T: ?Sized + Serialize>(&mut self, v: &T) -> Result<(), RecErr> {
        self.push(v)
    }
    fn end(self) -> Result<String, RecErr> {
        Ok(self.finish())
    }
}
impl SerializeTupleVariant for SeqRec {
    type Ok = String;
    type Error = RecErr;
    fn serialize_field<T: ?Sized + Serialize>(&mut self, v: &T) -> Result<(), RecErr> {
        self.push(v)
    }
    fn end(self) -> Result<String, RecErr> {
        Ok(self.finish())
    }
}
impl SerializeMap for SeqRec {
    type Ok = String;
    type Error = RecErr;
    fn serialize_key<T: ?Sized + Serialize>(&mut self, k: &T) -> Result<(), RecErr> {
        self.pending_key = Some(k.serialize(Rec { hr: self.hr })?);
        Ok(())
    }
    fn serialize_value<T: ?Sized + Serialize>(&mut self, v: &T) -> Result<(), RecErr> {
        let k = self.pending_key.take().unwrap_or_default();
        let vv = v.serialize(Rec { hr: self.hr })?;
        self.items.push(format!("{k}=>{vv}"));
        Ok(())
    }
    fn end(self) -> Result<String, RecErr> {
        Ok(self.finish())
    }
}
impl SerializeStruct for SeqRec {
    type Ok = String;
    type Error = RecErr;
    fn serialize_field<T: ?Sized + Serialize>(&mut self, key: &'static str, v: &T) -> Result<(), RecErr> {
        let vv = v.serialize(Rec { hr: self.hr })?;
        self.items.push(format!("{key}:{vv}"));
        Ok(())
    }
    fn end(self) -> Result<String, RecErr> {
        Ok(self.finish())
    }
}
impl SerializeStructVariant for SeqRec {
    type Ok = String;
    type Error = RecErr;
    fn serialize_field<T: ?Sized + Serialize>(&mut self, key: &'static str, v: &T) -> Result<(), RecErr> {
        let vv = v.serialize(Rec { hr: self.hr })?;
        self.items.push(format!("{key}:{vv}"));
        Ok(())
    }
    fn end(self) -> Result<String, RecErr> {
        Ok(self.finish())
    }
}

pub fn dump<T: Serialize>(t: &T, hr: bool) -> String {
    match std::panic::catch_unwind(std::panic::AssertUnwindSafe(|| t.serialize(Rec { hr }))) {
        Ok(Ok(s)) => s,
        Ok(Err(e)) => format!("error({e})"),
        Err(_) => "panic".to_string(),
    }
}

/// {"op":"d_tree","kind":"claim"|"claim_type"|"validator"|"claim_schema"|"credential_schema", ...} -> both trees
pub fn run(v: &Value) -> Value {
    fn bare_rt<T: Serialize + serde::de::DeserializeOwned>(t: &T) -> &'static str {
        match serde_bare::to_vec(t) {
            Err(_) => "enc-err",
            Ok(b) => match std::panic::catch_unwind(|| serde_bare::from_slice::<T>(&b)) {
                Ok(Ok(y)) => if serde_bare::to_vec(&y).map(|b2| b2 == b).unwrap_or(false) && serde_json::to_string(&y).ok() == serde_json::to_string(t).ok() { "ok" } else { "differs" },
                Ok(Err(_)) => "dec-err",
                Err(_) => "panic",
            },
        }
    }
    let both = |hr: String, bin: String, bare: &'static str| json!({"r":"ok","hr":hr,"bin":bin,"bare":bare});
    match v["kind"].as_str().unwrap_or("") {
        "claim" => {
            let c = claim_from(&v["c"]);
            both(dump(&c, true), dump(&c, false), bare_rt(&c))
        }
        "claim_type" => {
            let t = ctype(v["t"].as_str().unwrap_or(""));
            both(dump(&t, true), dump(&t, false), bare_rt(&t))
        }
        "validator" => {
            let x = validator(&v["v"]);
            both(dump(&x, true), dump(&x, false), bare_rt(&x))
        }
        "claim_schema" | "credential_schema" => {
            let cl = v["claims"].as_array().unwrap();
            let schema_claims: Vec<ClaimSchema> = cl
                .iter()
                .enumerate()
                .map(|(i, s)| ClaimSchema {
                    claim_type: ctype(s["t"].as_str().unwrap()),
                    label: s["label"].as_str().map(|x| x.to_string()).unwrap_or(format!("l{i}")),
                    print_friendly: s["pf"].as_bool().unwrap_or(true),
                    validators: s["validators"].as_array().map(|a| a.iter().map(validator).collect()).unwrap_or_default(),
                })
                .collect();
            if v["kind"] == "claim_schema" {
                return both(dump(&schema_claims[0], true), dump(&schema_claims[0], false), bare_rt(&schema_claims[0]));
            }
            let blind: Vec<String> = v["blind"].as_array().map(|a| a.iter().map(|x| schema_claims[x.as_u64().unwrap() as usize].label.clone()).collect()).unwrap_or_default();
            let bl: Vec<&str> = blind.iter().map(|s| s.as_str()).collect();
            match CredentialSchema::new(v["label"].as_str(), v["desc"].as_str(), &bl, &schema_claims) {
                Ok(mut cs) => {
                    cs.id = v["id"].as_str().unwrap_or("the-id").to_string();
                    both(dump(&cs, true), dump(&cs, false), bare_rt(&cs))
                }
                Err(e) => json!({"r":"err","msg":format!("{e:?}")}),
            }
        }
        _ => json!({"r":"harness-error","msg":"unknown tree kind"}),
    }
}
