//! f_pres: external (honest and deviating) prover against Presentation::verify.
//!
//! Every group element the prover creates is shadowed by a (pseudo-)discrete log: true logs for
//! everything derived from secret keys and chosen generators, independent random pseudo-logs for
//! hash-derived bases (BBS message generators, PS sigma_1).  The real points go to credx, the logs
//! go to the Coq model.  The verifier's challenge is obtained from the verifier itself: a dummy
//! presentation with challenge 0 and responses = nonces makes it recompute the prover's commitments;
//! its challenge-mismatch error carries the recomputed challenge.
use crate::util::*;
use blsful::inner_types::*;
use credx::claim::*;
use credx::credential::{ClaimSchema, CredentialSchema};
use credx::issuer::{Issuer, IssuerPublic};
use credx::knox::bbs::BbsScheme;
use credx::knox::ps::PsScheme;
use credx::knox::short_group_sig_core::short_group_traits::ShortGroupSignatureScheme;
use credx::presentation::*;
use credx::statement::*;
use indexmap::IndexMap;
use rand::{Rng, SeedableRng};
use rand_chacha::ChaCha20Rng;
use serde::de::DeserializeOwned;
use serde::Serialize;
use serde_json::{json, Value};
use std::collections::BTreeSet;
use std::panic::{catch_unwind, AssertUnwindSafe};

pub(crate) fn tj<T: Serialize>(t: &T) -> Value {
    serde_json::to_value(t).expect("to_value")
}
pub(crate) fn fj<T: DeserializeOwned>(v: &Value) -> T {
    serde_json::from_str(&v.to_string()).expect("from_str")
}
pub(crate) fn rnd(rng: &mut ChaCha20Rng) -> Scalar {
    let mut b = [0u8; 64];
    rng.fill(&mut b[..]);
    Scalar::from_bytes_wide(&b)
}
pub(crate) fn inv(s: Scalar) -> Scalar {
    Option::<Scalar>::from(s.invert()).unwrap_or(Scalar::ZERO)
}

#[derive(Clone, Copy)]
pub(crate) struct Sh1 {
    pub pt: G1Projective,
    pub dl: Scalar,
}
impl Sh1 {
    pub fn gen(k: Scalar) -> Self {
        Sh1 { pt: G1Projective::GENERATOR * k, dl: k }
    }
    pub fn zero() -> Self {
        Sh1 { pt: G1Projective::IDENTITY, dl: Scalar::ZERO }
    }
    pub fn mul(&self, k: Scalar) -> Self {
        Sh1 { pt: self.pt * k, dl: self.dl * k }
    }
    pub fn add(&self, o: &Sh1) -> Self {
        Sh1 { pt: self.pt + o.pt, dl: self.dl + o.dl }
    }
    pub fn sub(&self, o: &Sh1) -> Self {
        Sh1 { pt: self.pt - o.pt, dl: self.dl - o.dl }
    }
}
#[derive(Clone, Copy)]
pub(crate) struct Sh2 {
    pub pt: G2Projective,
    pub dl: Scalar,
}
impl Sh2 {
    pub fn gen(k: Scalar) -> Self {
        Sh2 { pt: G2Projective::GENERATOR * k, dl: k }
    }
    pub fn mul(&self, k: Scalar) -> Self {
        Sh2 { pt: self.pt * k, dl: self.dl * k }
    }
    pub fn add(&self, o: &Sh2) -> Self {
        Sh2 { pt: self.pt + o.pt, dl: self.dl + o.dl }
    }
}

/// suite-specific view of a key and a signature, in shadow form
#[derive(Clone)]
pub(crate) struct KeyView {
    pub ps: bool,
    pub x: Scalar,        // BBS: x (w = x*g2).  PS: x
    pub w: Scalar,        // PS: w
    pub y1: Vec<Sh1>,     // BBS message generators (pseudo-logs)
    pub y2: Vec<Sh2>,     // PS message generators in G2 (true logs)
}
#[derive(Clone)]
pub(crate) struct SigView {
    // BBS: (A, e).  PS: (sigma_1, sigma_2, m_tick)
    pub a: Sh1,
    pub e: Scalar,
    pub s2: Sh1,
    pub m_tick: Scalar,
}

pub(crate) fn key_view_json(sk: &Value, pk: &Value, ps: bool, rng: &mut ChaCha20Rng) -> KeyView {
    if ps {
        let x: Scalar = fj(&sk["x"]);
        let w: Scalar = fj(&sk["w"]);
        let ys: Vec<Scalar> = fj(&sk["y"]);
        KeyView { ps, x, w, y1: vec![], y2: ys.iter().map(|s| Sh2::gen(*s)).collect() }
    } else {
        let x: Scalar = fj(&sk["x"]);
        let ys: Vec<G1Projective> = fj(&pk["y"]);
        KeyView { ps, x, w: Scalar::ZERO, y1: ys.iter().map(|p| Sh1 { pt: *p, dl: rnd(rng) }).collect(), y2: vec![] }
    }
}
fn key_view<S: ShortGroupSignatureScheme>(issuer: &Issuer<S>, ipub: &IssuerPublic<S>, ps: bool, rng: &mut ChaCha20Rng) -> KeyView {
    key_view_json(&tj(&issuer.signing_key), &tj(&ipub.verifying_key), ps, rng)
}

pub(crate) fn sig_view<S: ShortGroupSignatureScheme>(sig: &S::Signature, key: &KeyView, msgs: &[Scalar], rng: &mut ChaCha20Rng) -> SigView {
    let v = tj(sig);
    if key.ps {
        let s1: G1Projective = fj(&v["sigma_1"]);
        let s2: G1Projective = fj(&v["sigma_2"]);
        let m_tick: Scalar = fj(&v["m_tick"]);
        let l = rnd(rng);
        let mut exp = key.x + key.w * m_tick;
        for (y, m) in key.y2.iter().zip(msgs) {
            exp += y.dl * m;
        }
        SigView { a: Sh1 { pt: s1, dl: l }, e: Scalar::ZERO, s2: Sh1 { pt: s2, dl: l * exp }, m_tick }
    } else {
        let a: G1Projective = fj(&v["a"]);
        let e: Scalar = fj(&v["e"]);
        let mut b = Scalar::ONE;
        for (y, m) in key.y1.iter().zip(msgs) {
            b += y.dl * m;
        }
        SigView { a: Sh1 { pt: a, dl: b * inv(key.x + e) }, e, s2: Sh1::zero(), m_tick: Scalar::ZERO }
    }
}

/// prover-side material of one signature proof: commitment-side elements, secrets, nonces
#[derive(Clone)]
struct SigMat {
    ps: bool,
    e1: Sh1, // BBS a_bar / PS sigma_1'
    e2: Sh1, // BBS b_bar / PS sigma_2'
    t1: Sh1, // BBS t
    j2: Sh2, // PS commitment J
    secrets: Vec<Scalar>,
    nonces: Vec<Scalar>,
    disclosed: Vec<(usize, Scalar)>,
}

struct Ctx {
    ps: bool,
    rng: ChaCha20Rng,
}

fn claim_of(s: &str) -> ClaimData {
    let (k, v) = s.split_at(2);
    match k {
        "r:" => RevocationClaim::from(v).into(),
        "n:" => NumberClaim::from(v.parse::<isize>().unwrap()).into(),
        _ => HashedClaim::from(v).into(),
    }
}
fn ctype_of(s: &str) -> ClaimType {
    match &s[..2] {
        "r:" => ClaimType::Revocation,
        "n:" => ClaimType::Number,
        _ => ClaimType::Hashed,
    }
}

pub(crate) fn hexs(s: &Scalar) -> Value {
    json!(sc_hex(s))
}

fn run_suite<S: ShortGroupSignatureScheme>(v: &Value, ps: bool) -> Value {
    let mut cx = Ctx { ps, rng: ChaCha20Rng::seed_from_u64(v["seed"].as_u64().unwrap_or(1)) };
    let dev = &v["dev"];
    let devk = dev["k"].as_str().unwrap_or("none").to_string();
    // ---- issuers and credentials
    let creds_spec = v["creds"].as_array().unwrap();
    let n_issuers = v["n_issuers"].as_u64().unwrap_or(1) as usize;
    let mut issuers: Vec<Option<(IssuerPublic<S>, Issuer<S>, KeyView)>> = (0..n_issuers).map(|_| None).collect();
    struct Cred {
        issuer: usize,
        claims: Vec<ClaimData>,
        msgs: Vec<Scalar>,
        sig: SigView,
        handle: credx::knox::accumulator::vb20::MembershipWitness,
    }
    let mut creds: Vec<Cred> = vec![];
    for c in creds_spec {
        let ii = c["issuer"].as_u64().unwrap() as usize;
        let cl: Vec<String> = c["claims"].as_array().unwrap().iter().map(|x| x.as_str().unwrap().to_string()).collect();
        if issuers[ii].is_none() {
            let schema_claims: Vec<ClaimSchema> = cl
                .iter()
                .enumerate()
                .map(|(i, s)| ClaimSchema { claim_type: ctype_of(s), label: format!("l{i}"), print_friendly: true, validators: vec![] })
                .collect();
            let cs = CredentialSchema::new(Some("s"), Some("d"), &[], &schema_claims).expect("schema");
            let (ipub, iss) = Issuer::<S>::new(&cs);
            let kv = key_view::<S>(&iss, &ipub, ps, &mut cx.rng);
            issuers[ii] = Some((ipub, iss, kv));
        }
        let (_ipub, iss, kv) = issuers[ii].as_mut().unwrap();
        let claims: Vec<ClaimData> = cl.iter().map(|s| claim_of(s)).collect();
        let bundle = iss.sign_credential(&claims).expect("sign");
        let msgs: Vec<Scalar> = claims.iter().map(|c| c.to_scalar()).collect();
        let sig = sig_view::<S>(&bundle.credential.signature, kv, &msgs, &mut cx.rng);
        creds.push(Cred { issuer: ii, claims, msgs, sig, handle: bundle.credential.revocation_handle });
    }
    // ---- statements
    let stmts_spec = v["stmts"].as_array().unwrap();
    let mut ids: Vec<String> = vec![];
    let idn = |ids: &Vec<String>, s: &str| -> usize { ids.iter().position(|x| x == s).unwrap_or(900 + s.len()) };
    let mut statements: Vec<Statements<S>> = vec![];
    let mut model_schema: Vec<Value> = vec![];
    // shared nonces: (stmt id, claim idx) -> nonce, for claims referenced by predicates
    let mut shared: IndexMap<(String, usize), Scalar> = IndexMap::new();
    for st in stmts_spec {
        let id = st["id"].as_str().unwrap().to_string();
        ids.push(id.clone());
    }
    // equality: all referenced claims share ONE nonce; commitment: the referenced claim gets a shared nonce
    for st in stmts_spec {
        match st["k"].as_str().unwrap() {
            "eq" => {
                let n = rnd(&mut cx.rng);
                let mut first: Option<Scalar> = None;
                for r in st["refs"].as_array().unwrap() {
                    let key = (r[0].as_str().unwrap().to_string(), r[1].as_u64().unwrap() as usize);
                    if let Some(e) = shared.get(&key) {
                        first = Some(*e);
                    }
                }
                let n = first.unwrap_or(n);
                for r in st["refs"].as_array().unwrap() {
                    let key = (r[0].as_str().unwrap().to_string(), r[1].as_u64().unwrap() as usize);
                    shared.insert(key, n);
                }
            }
            "comm" | "venc" | "rev" | "mem" => {
                let key = (st["ref"].as_str().unwrap().to_string(), st["claim"].as_u64().unwrap() as usize);
                if !shared.contains_key(&key) {
                    let n = rnd(&mut cx.rng);
                    shared.insert(key, n);
                }
            }
            _ => {}
        }
    }
    if devk == "eq_disc_reverse_exploit" {
        // the holder bets on a verifier that looks responses up along the proof's OWN (reversed) list of disclosed pairs: the
        // equality's shared nonce goes to the claim whose response such a walk would hand out, which holds the matching value
        let t = dev["stmt"].as_str().unwrap_or("").to_string();
        let (ec, sc) = (dev["eq_claim"].as_u64().unwrap_or(3) as usize, dev["shift_claim"].as_u64().unwrap_or(4) as usize);
        if let Some(n) = shared.shift_remove(&(t.clone(), ec)) {
            shared.insert((t, sc), n);
        }
    }
    if devk == "eq_independent_nonces" {
        // deviating holder: every referenced claim gets its own nonce
        let keys: Vec<_> = shared.keys().cloned().collect();
        for k in keys {
            let n = rnd(&mut cx.rng);
            shared.insert(k, n);
        }
    }
    let mut sig_of: IndexMap<String, usize> = IndexMap::new(); // sig stmt id -> cred index
    let mut comm_gens: IndexMap<String, (Sh1, Sh1)> = IndexMap::new();
    let mut venc_gens: IndexMap<String, (Sh1, Sh1)> = IndexMap::new();
    let mut mem_sets: IndexMap<String, (credx::knox::accumulator::vb20::SecretKey, credx::knox::accumulator::vb20::PublicKey, credx::knox::accumulator::vb20::Accumulator)> = IndexMap::new();
    fn st_cred(spec: &Vec<Value>, sid: &str) -> usize {
        spec.iter().find(|s| s["k"] == "sig" && s["id"] == sid).map(|s| s["cred"].as_u64().unwrap() as usize).unwrap_or(0)
    }
    for st in stmts_spec {
        let id = st["id"].as_str().unwrap().to_string();
        match st["k"].as_str().unwrap() {
            "sig" => {
                let ci = st["cred"].as_u64().unwrap() as usize;
                sig_of.insert(id.clone(), ci);
                let (ipub, _, kv) = issuers[creds[ci].issuer].as_ref().unwrap();
                let disclosed: BTreeSet<String> = st["disclosed"].as_array().unwrap().iter().map(|x| format!("l{}", x.as_u64().unwrap())).collect();
                let mut req: Vec<u64> = st["disclosed"].as_array().unwrap().iter().map(|x| x.as_u64().unwrap()).collect();
                req.sort();
                req.dedup();
                statements.push(SignatureStatement { disclosed, id: id.clone(), issuer: ipub.clone() }.into());
                let ys: Vec<Value> = if ps { kv.y2.iter().map(|y| hexs(&y.dl)).collect() } else { kv.y1.iter().map(|y| hexs(&y.dl)).collect() };
                model_schema.push(json!({"k":"sig","id":idn(&ids,&id),"suite": if ps {"ps"} else {"bbs"},"x":hexs(&kv.x),"w":hexs(&kv.w),"y":ys,"req":req}));
            }
            "eq" => {
                let mut m = IndexMap::new();
                let mut refs = vec![];
                for r in st["refs"].as_array().unwrap() {
                    m.insert(r[0].as_str().unwrap().to_string(), r[1].as_u64().unwrap() as usize);
                }
                for (k, c) in m.iter() {
                    refs.push(json!([idn(&ids, k), c]));
                }
                statements.push(EqualityStatement { id: id.clone(), ref_id_claim_index: m }.into());
                model_schema.push(json!({"k":"eq","id":idn(&ids,&id),"refs":refs}));
            }
            "comm" => {
                let gm = Sh1::gen(rnd(&mut cx.rng));
                let gb = Sh1::gen(rnd(&mut cx.rng));
                comm_gens.insert(id.clone(), (gm, gb));
                let r = st["ref"].as_str().unwrap().to_string();
                let claim = st["claim"].as_u64().unwrap() as usize;
                statements.push(CommitmentStatement { id: id.clone(), reference_id: r.clone(), message_generator: gm.pt, blinder_generator: gb.pt, claim }.into());
                model_schema.push(json!({"k":"comm","id":idn(&ids,&id),"ref":idn(&ids,&r),"claim":claim,"gm":hexs(&gm.dl),"gb":hexs(&gb.dl)}));
            }
            "venc" => {
                let gm = Sh1::gen(rnd(&mut cx.rng));
                let r = st["ref"].as_str().unwrap().to_string();
                let claim = st["claim"].as_u64().unwrap() as usize;
                let ci = st_cred(stmts_spec, &r);
                let (ipub, iss, _) = issuers[creds[ci].issuer].as_ref().unwrap();
                let dk: Scalar = fj(&tj(&iss.verifiable_decryption_key));
                let ek = Sh1 { pt: ipub.verifiable_encryption_key.0, dl: dk };
                venc_gens.insert(id.clone(), (gm, ek));
                let dec = st["dec"].as_bool().unwrap_or(false);
                statements.push(VerifiableEncryptionStatement { message_generator: gm.pt, encryption_key: ipub.verifiable_encryption_key, id: id.clone(), reference_id: r.clone(), claim, allow_message_decryption: dec }.into());
                model_schema.push(json!({"k":"venc","id":idn(&ids,&id),"ref":idn(&ids,&r),"claim":claim,"gm":hexs(&gm.dl),"ek":hexs(&ek.dl),"dec":dec}));
            }
            "rev" => {
                let r = st["ref"].as_str().unwrap().to_string();
                let claim = st["claim"].as_u64().unwrap() as usize;
                let ci = st_cred(stmts_spec, &r);
                let (ipub, _, _) = issuers[creds[ci].issuer].as_ref().unwrap();
                statements.push(RevocationStatement { id: id.clone(), reference_id: r.clone(), accumulator: ipub.revocation_registry, verification_key: ipub.revocation_verifying_key, claim }.into());
                model_schema.push(json!({"k":"rev","id":idn(&ids,&id),"ref":idn(&ids,&r),"claim":claim}));
            }
            "mem" => {
                // set membership: the verifier's own accumulator; same proof type and verifier as revocation
                let r = st["ref"].as_str().unwrap().to_string();
                let claim = st["claim"].as_u64().unwrap() as usize;
                let sk = credx::knox::accumulator::vb20::SecretKey::new(None);
                let vk = credx::knox::accumulator::vb20::PublicKey::from(&sk);
                let registry = credx::knox::accumulator::vb20::Accumulator::random(rand::thread_rng());
                mem_sets.insert(id.clone(), (sk, vk, registry));
                statements.push(MembershipStatement { id: id.clone(), reference_id: r.clone(), accumulator: registry, verification_key: vk, claim }.into());
                model_schema.push(json!({"k":"rev","id":idn(&ids,&id),"ref":idn(&ids,&r),"claim":claim}));
            }
            _ => panic!("unknown statement kind"),
        }
    }
    let schema = PresentationSchema::new_with_id(&statements, "schema-1");
    let nonce = b"verifier nonce".to_vec();

    // ---- prover material for every signature statement
    let target = dev["stmt"].as_str().unwrap_or("").to_string();
    let mut mats: IndexMap<String, SigMat> = IndexMap::new();
    let mut reported: IndexMap<String, IndexMap<String, ClaimData>> = IndexMap::new();
    for st in stmts_spec {
        if st["k"].as_str().unwrap() != "sig" {
            continue;
        }
        let id = st["id"].as_str().unwrap().to_string();
        let ci = sig_of[&id];
        let cred = &creds[ci];
        let kv = issuers[cred.issuer].as_ref().unwrap().2.clone();
        let n = cred.msgs.len();
        let mut disc_idx: Vec<usize> = st["disclosed"].as_array().unwrap().iter().map(|x| x.as_u64().unwrap() as usize).collect();
        disc_idx.sort();
        disc_idx.dedup();
        if id == target && devk == "withhold_consistent" && !disc_idx.is_empty() {
            // the holder treats a requested claim as hidden everywhere (map, index list, proof of knowledge)
            disc_idx.remove(0);
        }
        if id == target && devk == "extra_consistent" {
            // the holder discloses a claim that was not requested, consistently everywhere
            if let Some(i) = (1..n).find(|i| !disc_idx.contains(i) && !shared.contains_key(&(id.clone(), *i))) {
                disc_idx.push(i);
                disc_idx.sort();
            }
        }
        // what the holder claims to be signed (deviation: a substituted message vector)
        let mut msgs = cred.msgs.clone();
        let mut rep_claims = cred.claims.clone();
        if id == target && (devk == "subst_disclosed_everywhere" || devk == "resp_len_exploit") {
            // Mallory's value for the first disclosed claim, used consistently in map, proof scalar and Schnorr relation
            if let Some(&i) = disc_idx.first() {
                rep_claims[i] = HashedClaim::from("Mallory").into();
                msgs[i] = rep_claims[i].to_scalar();
            }
        }
        if id == target && devk == "swap_disclosed_everywhere" && disc_idx.len() >= 2 {
            // the values of two disclosed claims exchanged, consistently in map, proof scalars and Schnorr relation
            let (a, b) = (disc_idx[0], disc_idx[1]);
            rep_claims.swap(a, b);
            msgs.swap(a, b);
        }
        let sig = if id == target && devk == "other_issuer_sig" && creds.len() > 1 {
            // signature of another credential (other claim vector / other issuer)
            creds[(ci + 1) % creds.len()].sig.clone()
        } else {
            cred.sig.clone()
        };
        let mut hidden: Vec<usize> = (0..n).filter(|i| !disc_idx.contains(i)).collect();
        // the holder keeps a requested claim hidden inside the proof of knowledge (it gets a response like any hidden
        // claim) and reports it as disclosed with a value that encodes to the scalar zero
        let false_zero = if id == target && devk == "false_zero_disclosed" { disc_idx.first().copied() } else { None };
        if let Some(d) = false_zero {
            hidden.push(d);
            hidden.sort();
        }
        let mut secrets = vec![];
        let mut nonces = vec![];
        let (e1, e2, t1, j2);
        if ps {
            let r = rnd(&mut cx.rng);
            let t = rnd(&mut cx.rng);
            e1 = sig.a.mul(r);
            e2 = sig.s2.add(&sig.a.mul(t)).mul(r);
            secrets.push(t);
            secrets.push(sig.m_tick);
            nonces.push(rnd(&mut cx.rng));
            nonces.push(rnd(&mut cx.rng));
            let mut j = Sh2::gen(t).add(&Sh2::gen(kv.w).mul(sig.m_tick));
            for &i in &hidden {
                secrets.push(msgs[i]);
                nonces.push(*shared.get(&(id.clone(), i)).unwrap_or(&rnd(&mut cx.rng)));
                j = j.add(&kv.y2[i].mul(msgs[i]));
            }
            if id == target && devk == "resp_len_exploit" {
                // compensate the claimed (false) disclosed values inside J so that the pairing still holds
                for &i in &disc_idx {
                    j = j.add(&kv.y2[i].mul(cred.msgs[i] - msgs[i]));
                }
            }
            j2 = j;
            t1 = Sh1::zero();
        } else {
            let r = rnd(&mut cx.rng);
            let r_inv = inv(-r);
            let mut b = Sh1::gen(Scalar::ONE);
            for i in 0..n {
                // the length exploit keeps a pairing-valid (a_bar, b_bar) from the TRUE credential
                let mi = if id == target && devk == "resp_len_exploit" { cred.msgs[i] } else { msgs[i] };
                b = b.add(&kv.y1[i].mul(mi));
            }
            e1 = sig.a.mul(r);
            e2 = b.mul(r).sub(&e1.mul(sig.e));
            let mut t = Sh1::zero();
            for &i in &hidden {
                secrets.push(msgs[i]);
                let nn = *shared.get(&(id.clone(), i)).unwrap_or(&rnd(&mut cx.rng));
                nonces.push(nn);
                t = t.add(&kv.y1[i].mul(nn));
            }
            secrets.push(r_inv * sig.e);
            secrets.push(r_inv);
            let na = rnd(&mut cx.rng);
            let nb = rnd(&mut cx.rng);
            nonces.push(na);
            nonces.push(nb);
            t = t.add(&e1.mul(na)).add(&e2.mul(nb));
            t1 = t;
            j2 = Sh2::gen(Scalar::ZERO);
        }
        let mut disclosed: Vec<(usize, Scalar)> = disc_idx.iter().map(|&i| (i, msgs[i])).collect();
        let mut rep: IndexMap<String, ClaimData> = IndexMap::new();
        for &i in &disc_idx {
            rep.insert(format!("l{i}"), rep_claims[i].clone());
        }
        if let Some(d) = false_zero {
            for e in disclosed.iter_mut() {
                if e.0 == d {
                    e.1 = Scalar::ZERO;
                }
            }
            rep.insert(format!("l{d}"), ScalarClaim::from(Scalar::ZERO).into());
        }
        // the exploit of a response lookup that would follow the holder's order of the reported claims:
        // the statement the target commitment refers to lists its reported claims in the opposite order
        let exploit_here = devk == "reorder_shift_exploit"
            && stmts_spec.iter().any(|st| st["k"] == "comm" && st["id"].as_str() == Some(target.as_str()) && st["ref"].as_str() == Some(id.as_str()));
        if exploit_here {
            let r: Vec<(String, ClaimData)> = rep.iter().map(|(k, c)| (k.clone(), c.clone())).rev().collect();
            rep = r.into_iter().collect();
        }
        if id == target {
            match devk.as_str() {
                "false_reported_subst" => {
                    if let Some(&i) = disc_idx.first() {
                        rep.insert(format!("l{i}"), HashedClaim::from("Mallory").into());
                    }
                }
                "false_reported_type" => {
                    if let Some(&i) = disc_idx.first() {
                        rep.insert(format!("l{i}"), NumberClaim::from(7).into());
                    }
                }
                "reported_reorder" => {
                    // the same reported claims, listed in the opposite order: a map is a map
                    let r: Vec<(String, ClaimData)> = rep.iter().map(|(k, c)| (k.clone(), c.clone())).rev().collect();
                    rep = r.into_iter().collect();
                }
                "false_reported_omit" => {
                    if let Some(&i) = disc_idx.first() {
                        rep.shift_remove(&format!("l{i}"));
                    }
                }
                "false_reported_extra" => {
                    if let Some(&i) = hidden.first() {
                        rep.insert(format!("l{i}"), cred.claims[i].clone());
                    } else {
                        rep.insert("zz".to_string(), HashedClaim::from("x").into());
                    }
                }
                "false_reported_unknown_label" => {
                    if let Some(&i) = disc_idx.first() {
                        let c = rep.shift_remove(&format!("l{i}")).unwrap();
                        rep.insert("zz".to_string(), c);
                    }
                }
                "false_reported_swap" => {
                    if disc_idx.len() >= 2 {
                        let a = format!("l{}", disc_idx[0]);
                        let b = format!("l{}", disc_idx[1]);
                        let ca = rep[&a].clone();
                        let cb = rep[&b].clone();
                        rep.insert(a, cb);
                        rep.insert(b, ca);
                    }
                }
                "disc_reverse" | "eq_disc_reverse_exploit" => disclosed.reverse(),
                "disc_dup" => {
                    if let Some(f) = disclosed.first().cloned() {
                        // IndexMap keys are unique: a duplicate index can only be expressed by an out-of-range alias
                        disclosed.push((n + 5, f.1));
                    }
                }
                "disc_pad_oob_first" => disclosed.insert(0, (n + 3, Scalar::ONE)),
                "disc_pad_oob_last" => disclosed.push((n + 3, Scalar::ONE)),
                "disc_withhold" => {
                    // treat a requested claim as hidden in the index list while reporting it
                    if !disclosed.is_empty() {
                        disclosed.remove(0);
                    }
                }
                _ => {}
            }
        }
        reported.insert(id.clone(), rep);
        mats.insert(id.clone(), SigMat { ps, e1, e2, t1, j2, secrets, nonces, disclosed });
    }
    // ---- deviations on prover material
    if let Some(m) = mats.get_mut(&target) {
        match devk.as_str() {
            "resp_len" => {
                let d = dev["delta"].as_i64().unwrap_or(1);
                if d > 0 {
                    for _ in 0..d {
                        m.secrets.push(rnd(&mut cx.rng));
                        m.nonces.push(rnd(&mut cx.rng));
                    }
                } else {
                    for _ in 0..(-d) {
                        m.secrets.pop();
                        m.nonces.pop();
                    }
                }
            }
            "resp_len_exploit" => {
                // response vector of length hidden+3: the verifier's multi-scalar multiplication drops -challenge
                // (BBS) so that the extra response multiplies `lhs`; nothing depends on the challenge any more.
                // The holder chose msgs (with Mallory's value) above; secrets must satisfy the relation with c absent:
                // t = sum Y z + a_bar z_a + b_bar z_b + lhs z_x  -- all z are free "nonces" with zero secrets.
                for s in m.secrets.iter_mut() {
                    *s = Scalar::ZERO;
                }
                m.secrets.push(Scalar::ZERO);
                let zx = rnd(&mut cx.rng);
                m.nonces.push(zx);
                if !ps {
                    // recompute t to include lhs * z_x;  lhs = -(sum_revealed Y m) - G
                    let cred = &creds[sig_of[&target]];
                    let kv = &issuers[cred.issuer].as_ref().unwrap().2;
                    let mut lhs = Sh1::gen(-Scalar::ONE);
                    for (i, s) in m.disclosed.iter() {
                        if *i < kv.y1.len() {
                            lhs = lhs.sub(&kv.y1[*i].mul(*s));
                        }
                    }
                    m.t1 = m.t1.add(&lhs.mul(zx));
                }
            }
            "identity" => {
                m.e1 = Sh1::zero();
                m.e2 = Sh1::zero();
            }
            "random_e2" | "forged_missing_entry" => {
                m.e2 = Sh1::gen(rnd(&mut cx.rng));
            }
            "wrong_secret" => {
                let k = dev["slot"].as_u64().unwrap_or(0) as usize % m.secrets.len().max(1);
                m.secrets[k] += Scalar::ONE;
            }
            _ => {}
        }
    }
    if devk == "eq_copy_response" {
        // make the second referenced claim's nonce AND secret equal to the first one's (so responses are equal)
        if let Some(st) = stmts_spec.iter().find(|s| s["k"] == "eq") {
            let refs = st["refs"].as_array().unwrap();
            if refs.len() >= 2 {
                let (a_id, a_c) = (refs[0][0].as_str().unwrap().to_string(), refs[0][1].as_u64().unwrap() as usize);
                let (b_id, b_c) = (refs[1][0].as_str().unwrap().to_string(), refs[1][1].as_u64().unwrap() as usize);
                let off = if ps { 2 } else { 0 };
                let slot = |m: &SigMat, c: usize| -> usize { off + (0..c).filter(|i| !m.disclosed.iter().any(|(d, _)| d == i)).count() };
                let (sa, na) = {
                    let m = &mats[&a_id];
                    let s = slot(m, a_c);
                    (m.secrets[s], m.nonces[s])
                };
                let m = mats.get_mut(&b_id).unwrap();
                let s = slot(m, b_c);
                m.secrets[s] = sa;
                m.nonces[s] = na;
            }
        }
    }
    // commitments
    struct CommMat {
        c: Sh1,
        m: Scalar,
        b: Scalar,
        nm: Scalar,
        nb: Scalar,
    }
    let mut comms: IndexMap<String, CommMat> = IndexMap::new();
    for st in stmts_spec {
        if st["k"].as_str().unwrap() != "comm" {
            continue;
        }
        let id = st["id"].as_str().unwrap().to_string();
        let r = st["ref"].as_str().unwrap().to_string();
        let claim = st["claim"].as_u64().unwrap() as usize;
        let (gm, gb) = comm_gens[&id];
        let cred = &creds[sig_of[&r]];
        let mut m = cred.msgs[claim];
        let mut nm = *shared.get(&(r.clone(), claim)).unwrap();
        if id == target && devk == "comm_subst_shared" {
            m += Scalar::ONE; // substitute value, shared nonce
        }
        if id == target && devk == "comm_subst_independent" {
            m += Scalar::ONE;
            nm = rnd(&mut cx.rng);
        }
        if id == target && devk == "reorder_shift_exploit" {
            // which response would a walk over the REVERSED disclosed list hand out for this claim?  run the commitment
            // on that claim's value and nonce (when the walk is not shifted, fall back to a substitute value)
            let sm = &mats[&r];
            let off = if sm.ps { 2 } else { 0 };
            let dr: Vec<usize> = sm.disclosed.iter().rev().map(|(i, _)| *i).collect();
            let mut j = 0;
            let mut shifted: Option<usize> = None;
            for i in 0..cred.msgs.len() {
                if j < dr.len() && dr[j] == i {
                    j += 1;
                    continue;
                }
                if i == claim {
                    shifted = Some(off + i - j);
                    break;
                }
            }
            let true_slot = off + (0..claim).filter(|i| !sm.disclosed.iter().any(|(d, _)| d == i)).count();
            match shifted {
                Some(sl) if sl != true_slot && sl < sm.secrets.len() => {
                    m = sm.secrets[sl];
                    nm = sm.nonces[sl];
                }
                _ => m += Scalar::ONE,
            }
        }
        let b = rnd(&mut cx.rng);
        let nb = rnd(&mut cx.rng);
        comms.insert(id, CommMat { c: gm.mul(m).add(&gb.mul(b)), m, b, nm, nb });
    }

    // verifiable encryptions (no decryptable part: that needs bulletproofs)
    struct VencMat {
        c1: Sh1,
        c2: Sh1,
        k: Scalar,
        r: Scalar,
    }
    let mut vencs: IndexMap<String, VencMat> = IndexMap::new();
    for st in stmts_spec {
        if st["k"].as_str().unwrap() != "venc" {
            continue;
        }
        let id = st["id"].as_str().unwrap().to_string();
        let r = st["ref"].as_str().unwrap().to_string();
        let claim = st["claim"].as_u64().unwrap() as usize;
        let (gm, ek) = venc_gens[&id];
        let cred = &creds[sig_of[&r]];
        let mut m = cred.msgs[claim];
        if id == target && (devk == "venc_subst_shared" || devk == "venc_subst_independent") {
            m += Scalar::ONE;
        }
        let k = rnd(&mut cx.rng);
        vencs.insert(id, VencMat { c1: Sh1::gen(k), c2: gm.mul(m).add(&ek.mul(k)), k, r: rnd(&mut cx.rng) });
    }

    // revocation: the accumulator sub-protocol is run by the library's own committing step (public API) on an element,
    // a witness and a blinder of the holder's choosing; gen_proof(0) is the dummy proof (responses = nonces)
    use credx::knox::accumulator::vb20::{Element, MembershipProofCommitting, ProofParams};
    use credx::knox::short_group_sig_core::{HiddenMessage, ProofMessage};
    struct RevMat {
        committing: MembershipProofCommitting,
        params: ProofParams,
        acc: credx::knox::accumulator::vb20::Accumulator,
        vk: credx::knox::accumulator::vb20::PublicKey,
    }
    let mut revs: IndexMap<String, RevMat> = IndexMap::new();
    for st in stmts_spec {
        if st["k"].as_str().unwrap() != "rev" {
            continue;
        }
        let id = st["id"].as_str().unwrap().to_string();
        let r = st["ref"].as_str().unwrap().to_string();
        let claim = st["claim"].as_u64().unwrap() as usize;
        let ci = sig_of[&r];
        let cred = &creds[ci];
        let (ipub, _, _) = issuers[cred.issuer].as_ref().unwrap();
        let mut y = cred.msgs[claim];
        let mut wit = cred.handle;
        let mut ny = *shared.get(&(r.clone(), claim)).unwrap();
        if id == target && (devk == "rev_other_element_shared" || devk == "rev_other_element_independent") {
            // the sub-protocol is run on ANOTHER credential's identifier and (valid) handle of the same registry
            if let Some(o) = (0..creds.len()).find(|o| *o != ci && creds[*o].issuer == cred.issuer) {
                y = creds[o].msgs[0];
                wit = creds[o].handle;
            }
            if devk == "rev_other_element_independent" {
                ny = rnd(&mut cx.rng);
            }
        }
        let params = ProofParams::new(ipub.revocation_verifying_key, Some(b"verifier nonce"));
        let committing = MembershipProofCommitting::new(ProofMessage::Hidden(HiddenMessage::ExternalBlinding(y, ny)), wit, params, ipub.revocation_verifying_key);
        revs.insert(id, RevMat { committing, params, acc: ipub.revocation_registry, vk: ipub.revocation_verifying_key });
    }
    for st in stmts_spec {
        if st["k"].as_str().unwrap() != "mem" {
            continue;
        }
        let id = st["id"].as_str().unwrap().to_string();
        let r = st["ref"].as_str().unwrap().to_string();
        let claim = st["claim"].as_u64().unwrap() as usize;
        let cred = &creds[sig_of[&r]];
        let (sk, vk, registry) = &mem_sets[&id];
        let mut y = cred.msgs[claim];
        let mut ny = *shared.get(&(r.clone(), claim)).unwrap();
        if id == target && (devk == "rev_other_element_shared" || devk == "rev_other_element_independent") {
            // the holder's value is not the member it proves: the sub-protocol is run on another element of the set
            y += Scalar::ONE;
            if devk == "rev_other_element_independent" {
                ny = rnd(&mut cx.rng);
            }
        }
        let wit = credx::knox::accumulator::vb20::MembershipWitness::new(Element(y), *registry, sk);
        let params = ProofParams::new(*vk, Some(b"verifier nonce"));
        let committing = MembershipProofCommitting::new(ProofMessage::Hidden(HiddenMessage::ExternalBlinding(y, ny)), wit, params, *vk);
        revs.insert(id, RevMat { committing, params, acc: *registry, vk: *vk });
    }

    // ---- assemble a presentation for a given challenge
    let build = |c: Scalar, mats: &IndexMap<String, SigMat>, fin: bool| -> (Presentation<S>, Value) {
        let mut proofs: IndexMap<String, PresentationProofs<S>> = IndexMap::new();
        let mut mproofs: Vec<Value> = vec![];
        for st in stmts_spec {
            let id = st["id"].as_str().unwrap().to_string();
            match st["k"].as_str().unwrap() {
                "sig" => {
                    let m = &mats[&id];
                    let mut resp: Vec<Scalar> = m.nonces.iter().zip(m.secrets.iter()).map(|(n, s)| *n + c * *s).collect();
                    let mut m = m.clone();
                    if fin && id == target {
                        // modifications of the finished presentation (C11)
                        match devk.as_str() {
                            "tamper_resp" => {
                                let k = dev["slot"].as_u64().unwrap_or(0) as usize % resp.len().max(1);
                                if !resp.is_empty() { resp[k] += Scalar::ONE; }
                            }
                            "tamper_resp_neg" => {
                                let k = dev["slot"].as_u64().unwrap_or(0) as usize % resp.len().max(1);
                                if !resp.is_empty() { resp[k] = -resp[k]; }
                            }
                            "tamper_extend_minus_c" => resp.push(-c),
                            "tamper_extend_zero" => resp.push(Scalar::ZERO),
                            "tamper_shorten" => { resp.pop(); }
                            "tamper_resp_swap" => {
                                if resp.len() >= 2 { resp.swap(0, 1); }
                            }
                            "tamper_e1" => m.e1 = m.e1.add(&Sh1::gen(Scalar::ONE)),
                            "tamper_e2" => m.e2 = m.e2.add(&Sh1::gen(Scalar::ONE)),
                            "tamper_e3" => {
                                m.t1 = m.t1.add(&Sh1::gen(Scalar::ONE));
                                m.j2 = m.j2.add(&Sh2::gen(Scalar::ONE));
                            }
                            "tamper_disc_scalar" => {
                                if let Some(e) = m.disclosed.first_mut() { e.1 += Scalar::ONE; }
                            }
                            _ => {}
                        }
                    }
                    let m = &m;
                    if id == target && devk == "omit_sig" {
                        continue;
                    }
                    if id == target && devk == "variant_under_sig" {
                        match dev["variant"].as_str().unwrap_or("eq") {
                            "comm" => {
                                let p = CommitmentProof { id: id.clone(), commitment: G1Projective::GENERATOR, blinder_proof: Scalar::ONE };
                                proofs.insert(id.clone(), p.into());
                                mproofs.push(json!([idn(&ids,&id), {"k":"comm","id":idn(&ids,&id),"c":hexs(&Scalar::ONE),"bp":hexs(&Scalar::ONE)}]));
                            }
                            _ => {
                                proofs.insert(id.clone(), EqualityProof { id: id.clone() }.into());
                                mproofs.push(json!([idn(&ids,&id), {"k":"eq","id":idn(&ids,&id)}]));
                            }
                        }
                        continue;
                    }
                    let pokv = if ps {
                        json!({"sigma_1": tj(&m.e1.pt), "sigma_2": tj(&m.e2.pt), "commitment": tj(&m.j2.pt), "proof": tj(&resp)})
                    } else {
                        json!({"a_bar": tj(&m.e1.pt), "b_bar": tj(&m.e2.pt), "t": tj(&m.t1.pt), "proof": tj(&resp)})
                    };
                    let pok: S::ProofOfSignatureKnowledge = fj(&pokv);
                    let mut dm: IndexMap<usize, Scalar> = IndexMap::new();
                    for (i, s) in m.disclosed.iter() {
                        dm.insert(*i, *s);
                    }
                    let inner_id = if id == target && devk == "inner_id_other" { dev["other"].as_str().unwrap_or("zz").to_string() } else { id.clone() };
                    let sp = SignatureProof::<S> { id: inner_id.clone(), disclosed_messages: dm, pok };
                    proofs.insert(id.clone(), sp.into());
                    let disc: Vec<Value> = m.disclosed.iter().map(|(i, s)| json!([i, hexs(s)])).collect();
                    let mp = if ps {
                        json!({"k":"sig","id":idn(&ids,&inner_id),"suite":"ps","disc":disc,"e1":hexs(&m.e1.dl),"e2":hexs(&m.e2.dl),"e3":hexs(&m.j2.dl),"resp":resp.iter().map(hexs).collect::<Vec<_>>()})
                    } else {
                        json!({"k":"sig","id":idn(&ids,&inner_id),"suite":"bbs","disc":disc,"e1":hexs(&m.e1.dl),"e2":hexs(&m.e2.dl),"e3":hexs(&m.t1.dl),"resp":resp.iter().map(hexs).collect::<Vec<_>>()})
                    };
                    mproofs.push(json!([idn(&ids, &id), mp]));
                }
                "eq" => {
                    if id == target && devk == "omit_pred" {
                        continue;
                    }
                    proofs.insert(id.clone(), EqualityProof { id: id.clone() }.into());
                    mproofs.push(json!([idn(&ids,&id), {"k":"eq","id":idn(&ids,&id)}]));
                }
                "comm" => {
                    if id == target && devk == "omit_pred" {
                        continue;
                    }
                    let cm = &comms[&id];
                    let mut bp = cm.nb + c * cm.b;
                    let mut cpt = cm.c;
                    if fin && id == target && devk == "tamper_bp" { bp += Scalar::ONE; }
                    if fin && id == target && devk == "tamper_C" { cpt = cpt.add(&Sh1::gen(Scalar::ONE)); }
                    // the message response is NOT carried by the commitment proof: the verifier takes it from the signature proof
                    let p = CommitmentProof { id: id.clone(), commitment: cpt.pt, blinder_proof: bp };
                    proofs.insert(id.clone(), p.into());
                    mproofs.push(json!([idn(&ids,&id), {"k":"comm","id":idn(&ids,&id),"c":hexs(&cpt.dl),"bp":hexs(&bp)}]));
                    let _ = (cm.m, cm.nm);
                }
                "venc" => {
                    if id == target && devk == "omit_pred" {
                        continue;
                    }
                    let vm = &vencs[&id];
                    let mut bp = vm.r + c * vm.k;
                    if fin && id == target && devk == "tamper_bp" { bp += Scalar::ONE; }
                    let p = VerifiableEncryptionProof { id: id.clone(), c1: vm.c1.pt, c2: vm.c2.pt, blinder_proof: bp, decryptable_scalar_proof: None };
                    proofs.insert(id.clone(), p.into());
                    mproofs.push(json!([idn(&ids,&id), {"k":"venc","id":idn(&ids,&id),"c1":hexs(&vm.c1.dl),"c2":hexs(&vm.c2.dl),"bp":hexs(&bp),"has":false}]));
                }
                "rev" | "mem" => {
                    if id == target && devk == "omit_pred" {
                        continue;
                    }
                    let rm = &revs[&id];
                    let mut proof = rm.committing.gen_proof(Element(c));
                    if fin && id == target && devk == "rev_tamper_sy" {
                        let mut pv = tj(&proof);
                        let sy: Scalar = fj(&pv["s_y"]);
                        pv["s_y"] = tj(&(sy + Scalar::ONE));
                        proof = fj(&pv);
                    }
                    // the verifier's recomputed commitments, as one opaque item for the model's transcript comparison
                    let fin_v = proof.finalize(rm.acc, rm.params, rm.vk, Element(c));
                    let mut t = merlin::Transcript::new(b"opaque item");
                    fin_v.get_bytes_for_challenge(&mut t);
                    let mut okm = [0u8; 64];
                    t.challenge_bytes(b"digest", &mut okm);
                    let digest = Scalar::from_bytes_wide(&okm);
                    let sy: Scalar = fj(&tj(&proof)["s_y"]);
                    if st["k"] == "mem" {
                        proofs.insert(id.clone(), MembershipProof { id: id.clone(), proof }.into());
                    } else {
                        proofs.insert(id.clone(), RevocationProof { id: id.clone(), proof }.into());
                    }
                    mproofs.push(json!([idn(&ids,&id), {"k":"rev","id":idn(&ids,&id),"sy":hexs(&sy),"fin":hexs(&digest)}]));
                }
                _ => {}
            }
        }
        let mrep: Vec<Value> = reported
            .iter()
            .map(|(id, m)| {
                let l: Vec<Value> = m
                    .iter()
                    .map(|(lab, c)| {
                        let li = lab.strip_prefix('l').and_then(|x| x.parse::<usize>().ok()).unwrap_or(1000);
                        json!([li, hexs(&c.to_scalar())])
                    })
                    .collect();
                json!([idn(&ids, id), l])
            })
            .collect();
        let mut rep = reported.clone();
        let mut mrep = mrep;
        if fin && devk == "tamper_reported" {
            if let Some(mm) = rep.get_mut(&target) {
                if let Some((l, _)) = mm.iter().next().map(|(l, c)| (l.clone(), c.clone())) {
                    let nc: ClaimData = HashedClaim::from("tampered").into();
                    let li = l.strip_prefix('l').and_then(|x| x.parse::<usize>().ok()).unwrap_or(1000);
                    for e in mrep.iter_mut() {
                        if e[0] == json!(idn(&ids, &target)) {
                            let arr = e[1].as_array().unwrap().iter().map(|lv| if lv[0] == json!(li) { json!([li, hexs(&nc.to_scalar())]) } else { lv.clone() }).collect::<Vec<_>>();
                            e[1] = json!(arr);
                        }
                    }
                    mm.insert(l, nc);
                }
            }
        }
        if devk == "reported_missing_entry" || devk == "forged_missing_entry" {
            rep.shift_remove(&target);
        }
        let mrep = if devk == "reported_missing_entry" || devk == "forged_missing_entry" { mrep.into_iter().filter(|x| x[0] != json!(idn(&ids, &target))).collect() } else { mrep };
        (Presentation { proofs, challenge: c, disclosed_messages: rep }, json!({"proofs": mproofs, "challenge": hexs(&c), "reported": mrep}))
    };

    // For a commitment with a substituted value the message nonce/secret live in the signature proof's slot;
    // the prover can only make ONE of the two relations hold.  "comm_subst_*" keep the signature relation true.
    let (p0, m0) = build(Scalar::ZERO, &mats, false);
    let r0 = catch_unwind(AssertUnwindSafe(|| p0.verify(&schema, &nonce)));
    let (c, derived, r0s) = match &r0 {
        Ok(Err(e)) => {
            let msg = format!("{:?}", e);
            match msg.find("expected challenge '") {
                Some(p) => {
                    let h = &msg[p + 20..p + 20 + 64];
                    (sc_from_hex(&json!(h)).unwrap_or(Scalar::ONE), true, "fs")
                }
                None => (rnd(&mut cx.rng), false, "struct-or-post"),
            }
        }
        Ok(Ok(_)) => (Scalar::ZERO, true, "accepted-with-zero-challenge"),
        Err(_) => (rnd(&mut cx.rng), false, "panic"),
    };
    let mut c_used = c;
    let mut derived = derived;
    if devk == "challenge_arbitrary" {
        c_used = c + Scalar::ONE;
        derived = false;
    }
    let (p, m) = build(c_used, &mats, true);
    let p = if devk == "roundtrip_json" {
        match serde_json::to_string(&p).ok().and_then(|s| serde_json::from_str::<Presentation<S>>(&s).ok()) {
            Some(q) => q,
            None => return json!({"r":"ok","impl":"codec-err","schema":model_schema,"P0":m0,"P":m,"derived":derived,"dummy":r0s}),
        }
    } else {
        p
    };
    let r = catch_unwind(AssertUnwindSafe(|| p.verify(&schema, &nonce)));
    let (verdict, detail) = match r {
        Ok(Ok(_)) => ("accept", String::new()),
        Ok(Err(e)) => ("reject", format!("{:?}", e).chars().take(120).collect()),
        Err(_) => ("panic", String::new()),
    };
    json!({"r":"ok","impl":verdict,"detail":detail,"schema":model_schema,"P0":m0,"P":m,"derived":derived,"dummy":r0s})
}

pub fn run(_op: &str, v: &Value) -> Value {
    if v["suite"].as_str() == Some("ps") { run_suite::<PsScheme>(v, true) } else { run_suite::<BbsScheme>(v, false) }
}
