//! f_pok / f_sigv: the signature suites at the knox level (keys, signatures, proofs of knowledge),
//! without the presentation layer: arbitrary revealed-message lists reach PokSignatureProof::verify.
use crate::ops_adv::*;
use crate::util::*;
use blsful::inner_types::*;
use credx::knox::bbs::BbsScheme;
use credx::knox::ps::PsScheme;
use credx::knox::short_group_sig_core::short_group_traits::{ProofOfSignatureKnowledge, ShortGroupSignatureScheme, Signature as SigTrait};
use rand::SeedableRng;
use rand_chacha::ChaCha20Rng;
use serde_json::{json, Value};
use std::num::NonZeroUsize;
use std::panic::{catch_unwind, AssertUnwindSafe};

fn special(k: &str, rng: &mut ChaCha20Rng) -> Scalar {
    match k {
        "0" => Scalar::ZERO,
        "1" => Scalar::ONE,
        "-1" => -Scalar::ONE,
        "2" => Scalar::from(2u64),
        _ => rnd(rng),
    }
}

fn pok_case<S: ShortGroupSignatureScheme>(v: &Value, ps: bool) -> Value {
    let mut rng = ChaCha20Rng::seed_from_u64(v["seed"].as_u64().unwrap_or(1));
    let n = v["n"].as_u64().unwrap() as usize;
    let (pk, sk) = S::new_keys(NonZeroUsize::new(n).unwrap(), &mut rng).expect("keys");
    let msgs: Vec<Scalar> = v["msgs"].as_array().unwrap().iter().map(|k| special(k.as_str().unwrap_or("r"), &mut rng)).collect();
    let sig = <S::Signature as SigTrait>::create(&sk, &msgs).expect("sign");
    let kv = key_view_json(&tj(&sk), &tj(&pk), ps, &mut rng);
    let sv = sig_view::<S>(&sig, &kv, &msgs, &mut rng);
    let reveal: Vec<bool> = v["reveal"].as_array().unwrap().iter().map(|b| b.as_bool().unwrap()).collect();
    let disc_idx: Vec<usize> = (0..n).filter(|i| reveal[*i]).collect();
    let hidden: Vec<usize> = (0..n).filter(|i| !reveal[*i]).collect();
    let dev = v["dev"]["k"].as_str().unwrap_or("none").to_string();
    // honest prover material
    let mut secrets = vec![];
    let mut nonces = vec![];
    let (e1, e2, e3dl, e3pt1, e3pt2);
    if ps {
        let r = rnd(&mut rng);
        let t = rnd(&mut rng);
        e1 = sv.a.mul(r);
        e2 = sv.s2.add(&sv.a.mul(t)).mul(r);
        secrets.push(t);
        secrets.push(sv.m_tick);
        nonces.push(rnd(&mut rng));
        nonces.push(rnd(&mut rng));
        let mut j = Sh2::gen(t).add(&Sh2::gen(kv.w).mul(sv.m_tick));
        for &i in &hidden {
            secrets.push(msgs[i]);
            nonces.push(rnd(&mut rng));
            j = j.add(&kv.y2[i].mul(msgs[i]));
        }
        e3dl = j.dl;
        e3pt2 = Some(j.pt);
        e3pt1 = None;
    } else {
        let r = rnd(&mut rng);
        let r_inv = inv(-r);
        let mut b = Sh1::gen(Scalar::ONE);
        for i in 0..n {
            b = b.add(&kv.y1[i].mul(msgs[i]));
        }
        e1 = sv.a.mul(r);
        e2 = b.mul(r).sub(&e1.mul(sv.e));
        let mut t = Sh1::zero();
        for &i in &hidden {
            secrets.push(msgs[i]);
            let nn = rnd(&mut rng);
            nonces.push(nn);
            t = t.add(&kv.y1[i].mul(nn));
        }
        secrets.push(r_inv * sv.e);
        secrets.push(r_inv);
        let na = rnd(&mut rng);
        let nb = rnd(&mut rng);
        nonces.push(na);
        nonces.push(nb);
        t = t.add(&e1.mul(na)).add(&e2.mul(nb));
        e3dl = t.dl;
        e3pt1 = Some(t.pt);
        e3pt2 = None;
    }
    // what the verifier is told is revealed
    let mut revealed: Vec<(usize, Scalar)> = disc_idx.iter().map(|&i| (i, msgs[i])).collect();
    match dev.as_str() {
        "reveal_wrong_value" => {
            if let Some(e) = revealed.first_mut() {
                e.1 += Scalar::ONE;
            }
        }
        "reveal_drop" => {
            if !revealed.is_empty() {
                revealed.remove(0);
            }
        }
        "reveal_add_true" => {
            if let Some(&i) = hidden.first() {
                revealed.push((i, msgs[i]));
            }
        }
        "reveal_add_fake_low" => {
            if let Some(&i) = hidden.first() {
                revealed.push((i, msgs[i] + Scalar::ONE));
            }
        }
        "reverse" => revealed.reverse(),
        "rotate" => {
            if revealed.len() > 1 {
                revealed.rotate_left(1);
            }
        }
        "dup" => {
            if let Some(e) = revealed.first().cloned() {
                revealed.push(e);
            }
        }
        "oob" => revealed.push((n + 2, Scalar::ONE)),
        _ => {}
    }
    // verification key
    let (vpk, vkv) = if dev == "other_key" {
        let (pk2, sk2) = S::new_keys(NonZeroUsize::new(n).unwrap(), &mut rng).expect("keys");
        let kv2 = key_view_json(&tj(&sk2), &tj(&pk2), ps, &mut rng);
        (pk2, kv2)
    } else {
        (pk.clone(), kv.clone())
    };
    if dev == "wrong_secret" {
        let k = v["dev"]["slot"].as_u64().unwrap_or(0) as usize % secrets.len();
        secrets[k] += Scalar::ONE;
    }
    if dev == "resp_extra" {
        secrets.push(Scalar::ZERO);
        nonces.push(rnd(&mut rng));
    }
    if dev == "resp_short" {
        secrets.pop();
        nonces.pop();
    }
    let build = |c: Scalar| -> (S::ProofOfSignatureKnowledge, Value) {
        let resp: Vec<Scalar> = nonces.iter().zip(secrets.iter()).map(|(n, s)| *n + c * *s).collect();
        let pokv = if ps {
            json!({"sigma_1": tj(&e1.pt), "sigma_2": tj(&e2.pt), "commitment": tj(&e3pt2.unwrap()), "proof": tj(&resp)})
        } else {
            json!({"a_bar": tj(&e1.pt), "b_bar": tj(&e2.pt), "t": tj(&e3pt1.unwrap()), "proof": tj(&resp)})
        };
        let disc: Vec<Value> = revealed.iter().map(|(i, s)| json!([i, hexs(s)])).collect();
        let m = json!({"k":"sig","id":0,"suite": if ps {"ps"} else {"bbs"},"disc":disc,"e1":hexs(&e1.dl),"e2":hexs(&e2.dl),"e3":hexs(&e3dl),"resp":resp.iter().map(hexs).collect::<Vec<_>>()});
        (fj(&pokv), m)
    };
    let chal = |p: &S::ProofOfSignatureKnowledge, c: Scalar| -> Scalar {
        let mut t = merlin::Transcript::new(b"knox level pok");
        p.add_proof_contribution(&vpk, &revealed, c, &mut t);
        let mut okm = [0u8; 64];
        t.challenge_bytes(b"c", &mut okm);
        Scalar::from_bytes_wide(&okm)
    };
    let res = catch_unwind(AssertUnwindSafe(|| {
        let (p0, m0) = build(Scalar::ZERO);
        let c = chal(&p0, Scalar::ZERO);
        let (p, m) = build(c);
        let c1 = chal(&p, c);
        let ver = p.verify(&vpk, &revealed, c).is_ok();
        let hid = p.get_hidden_message_proofs(&vpk, &revealed).ok().map(|h| h.into_iter().map(|(i, s)| json!([i, hexs(&s)])).collect::<Vec<_>>());
        (m0, m, c1 == c, ver, hid, c)
    }));
    let ys: Vec<Value> = if ps { vkv.y2.iter().map(|y| hexs(&y.dl)).collect() } else { vkv.y1.iter().map(|y| hexs(&y.dl)).collect() };
    let pkm = json!({"suite": if ps {"ps"} else {"bbs"},"x":hexs(&vkv.x),"w":hexs(&vkv.w),"y":ys});
    match res {
        Ok((m0, m, fs, ver, hid, c)) => json!({"r":"ok","impl": if fs && ver {"accept"} else {"reject"},"fs":fs,"ver":ver,"hidden":hid,"pk":pkm,"sp0":m0,"sp":m,"chal":hexs(&c)}),
        Err(_) => json!({"r":"ok","impl":"panic","pk":pkm}),
    }
}

fn sigv_case<S: ShortGroupSignatureScheme>(v: &Value, ps: bool) -> Value {
    let mut rng = ChaCha20Rng::seed_from_u64(v["seed"].as_u64().unwrap_or(1));
    let n = v["n"].as_u64().unwrap() as usize;
    let (pk, sk) = S::new_keys(NonZeroUsize::new(n).unwrap(), &mut rng).expect("keys");
    let mut msgs: Vec<Scalar> = v["msgs"].as_array().unwrap().iter().map(|k| special(k.as_str().unwrap_or("r"), &mut rng)).collect();
    let sig = match <S::Signature as SigTrait>::create(&sk, &msgs) {
        Ok(s) => s,
        Err(_) => return json!({"r":"ok","impl":"sign-err"}),
    };
    let mut kv = key_view_json(&tj(&sk), &tj(&pk), ps, &mut rng);
    let mut sv = sig_view::<S>(&sig, &kv, &msgs, &mut rng);
    let ch = v["change"]["k"].as_str().unwrap_or("none").to_string();
    let idx = v["change"]["i"].as_u64().unwrap_or(0) as usize;
    let mut vpk = pk.clone();
    match ch.as_str() {
        "msg" => {
            if !msgs.is_empty() {
                let i = idx % msgs.len();
                msgs[i] += Scalar::ONE;
            }
        }
        "msg_swap" => {
            if msgs.len() >= 2 {
                msgs.swap(0, 1);
            }
        }
        "a" => sv.a = sv.a.add(&Sh1::gen(Scalar::ONE)),
        "a_zero" => sv.a = Sh1::zero(),
        "e" => sv.e += Scalar::ONE,
        "s2" => sv.s2 = sv.s2.add(&Sh1::gen(Scalar::ONE)),
        "mtick" => sv.m_tick += Scalar::ONE,
        "key" => {
            let (pk2, sk2) = S::new_keys(NonZeroUsize::new(n).unwrap(), &mut rng).expect("keys");
            kv = key_view_json(&tj(&sk2), &tj(&pk2), ps, &mut rng);
            vpk = pk2;
        }
        "msgs_short" => {
            msgs.pop();
        }
        "msgs_long" => msgs.push(Scalar::ONE),
        _ => {}
    }
    let sigv = if ps {
        json!({"sigma_1": tj(&sv.a.pt), "sigma_2": tj(&sv.s2.pt), "m_tick": tj(&sv.m_tick)})
    } else {
        json!({"a": tj(&sv.a.pt), "e": tj(&sv.e)})
    };
    let sig2: S::Signature = fj(&sigv);
    let r = catch_unwind(AssertUnwindSafe(|| sig2.verify(&vpk, &msgs).is_ok()));
    let ys: Vec<Value> = if ps { kv.y2.iter().map(|y| hexs(&y.dl)).collect() } else { kv.y1.iter().map(|y| hexs(&y.dl)).collect() };
    json!({"r":"ok","impl": match r { Ok(true) => "accept", Ok(false) => "reject", Err(_) => "panic" },
           "suite": if ps {"ps"} else {"bbs"}, "x":hexs(&kv.x),"w":hexs(&kv.w),"y":ys,
           "a":hexs(&sv.a.dl),"e":hexs(&sv.e),"s2":hexs(&sv.s2.dl),"mtick":hexs(&sv.m_tick),
           "msgs": msgs.iter().map(hexs).collect::<Vec<_>>()})
}

/// d_bbs_gens: the BBS message generators of a key are treated by the theorems as elements with hidden, independent logs.
/// In the code that rests on each being the hash-to-curve image of its own input (a per-key seed and the index);
/// recompute them that way (msg_gens.rs repeated) and compare with the key's generators.
fn bbs_gens_pin(v: &Value) -> Value {
    use blsful::inner_types::{G1Projective, G2Projective, Scalar};
    use elliptic_curve::hash2curve::{ExpandMsg, ExpandMsgXmd, Expander};
    use sha2::Sha256;
    let n = v["n"].as_u64().unwrap_or(4) as usize;
    let sk = credx::knox::bbs::SecretKey::random(std::num::NonZeroUsize::new(n.max(1)).unwrap(), rand::thread_rng());
    let pk = credx::knox::bbs::PublicKey::from(&sk);
    let pkv = tj(&pk);
    let ys: Vec<G1Projective> = fj(&pkv["y"]);
    let w: G2Projective = fj(&pkv["w"]);
    let api_id = w.to_compressed();
    let cat = |tail: &[u8]| -> Vec<u8> { api_id.iter().chain(tail).copied().collect() };
    let seed_dst = cat(b"SIG_GENERATOR_SEED_");
    let generator_seed = cat(b"SIG_GENERATOR_SEED_");
    let generator_dst = cat(b"SIG_GENERATOR_DST_");
    let binding = [seed_dst.as_slice()];
    let mut vbuf = [0u8; 40];
    let mut ex = ExpandMsgXmd::<Sha256>::expand_message(&[&generator_seed], &binding, 32).expect("expand");
    ex.fill_bytes(&mut vbuf[..32]);
    let mut same = ys.len() == n.max(1);
    let mut inner = [0u8; 32];
    for (i, y) in ys.iter().enumerate() {
        vbuf[32..].copy_from_slice(&(i as u64).to_be_bytes());
        let mut iex = ExpandMsgXmd::<Sha256>::expand_message(&[&vbuf], &binding, 32).expect("expand");
        iex.fill_bytes(&mut inner);
        let g = G1Projective::hash::<ExpandMsgXmd<Sha256>>(&inner, &generator_dst);
        if g != *y {
            same = false;
        }
    }
    let distinct = (0..ys.len()).all(|i| (0..ys.len()).all(|j| i == j || ys[i] != ys[j])) && ys.iter().all(|q| !bool::from(q.is_identity()) && *q != G1Projective::GENERATOR);
    let _ = Scalar::ONE;
    json!({"r":"ok","same":same,"distinct":distinct,"n":ys.len()})
}

pub fn run(op: &str, v: &Value) -> Value {
    if op == "d_bbs_gens" {
        return bbs_gens_pin(v);
    }
    let ps = v["suite"].as_str() == Some("ps");
    match (op, ps) {
        ("f_pok", true) => pok_case::<PsScheme>(v, true),
        ("f_pok", false) => pok_case::<BbsScheme>(v, false),
        ("f_sigv", true) => sigv_case::<PsScheme>(v, true),
        _ => sigv_case::<BbsScheme>(v, false),
    }
}
