//! acvh — thin executor of the credx implementation for the correspondence checks.
//! `acvh exec` reads one JSON object per line from stdin ({"op": ..., ...}) and writes one
//! JSON object per line to stdout ({"r": "ok"|"err"|"panic", ...}).  Every call into credx
//! runs under catch_unwind; a panic is an observation, never a harness crash.
use serde_json::{json, Value};
use std::io::{BufRead, Write};
use std::panic::{catch_unwind, AssertUnwindSafe};

mod ops_data;
mod ops_codec;
mod ops_acc;
mod ops_adv;
mod ops_blind;
mod ops_create;
mod ops_flow;
mod ops_issue;
mod ops_pok;
mod ops_registry;
mod ops_revoc;
mod ops_total;
mod ops_venc;
mod ops_tree;
mod ops_wire;
mod util;

fn dispatch(v: &Value) -> Value {
    let op = v["op"].as_str().unwrap_or("");
    match op {
        "d_tree" => ops_tree::run(v),
        o if o.starts_with("d_codec") => ops_codec::run(o, v),
        o if o.starts_with("d_") => ops_data::run(o, v),
        "f_pok" | "f_sigv" => ops_pok::run(op, v),
        "f_issue" | "f_schema_new" => ops_issue::run(op, v),
        "f_blind" => ops_blind::run(op, v),
        "f_create" => ops_create::run(op, v),
        "f_pres" => ops_adv::run(op, v),
        "f_acc" => ops_acc::run(op, v),
        "f_revoc" => ops_revoc::run(op, v),
        "f_registry" => ops_registry::run(op, v),
        "f_total" => ops_total::run(op, v),
        "f_vencbytes" => ops_venc::run(v),
        "f_wire_issue" | "f_wire_pres" => ops_wire::run(op, v),
        o if o.starts_with("f_") => ops_flow::run(o, v),
        _ => json!({"r": "harness-error", "msg": format!("unknown op {op}")}),
    }
}

fn main() {
    if std::env::var("ACVH_PANIC_MSG").is_err() {
        // a panic is an observation: remember where it happened (file:line, crate-relative) and its message
        std::panic::set_hook(Box::new(|info| {
            let loc = info.location().map(|l| format!("{}:{}", l.file(), l.line())).unwrap_or_default();
            let loc = match loc.rfind("/src/") {
                // registry crates: keep "<crate-version>/src/..."; credx: "src/..."
                Some(i) => {
                    let head = &loc[..i];
                    let krate = head.rsplit('/').next().unwrap_or("");
                    if loc.contains("/.cargo/registry/") { format!("{}{}", krate, &loc[i..]) } else { loc[i + 1..].to_string() }
                }
                None => loc,
            };
            let msg = if let Some(s) = info.payload().downcast_ref::<&str>() { s.to_string() } else if let Some(s) = info.payload().downcast_ref::<String>() { s.clone() } else { String::new() };
            *util::LAST_PANIC.lock().unwrap() = format!("{loc} :: {}", msg.chars().take(120).collect::<String>());
        }));
    }
    let args: Vec<String> = std::env::args().collect();
    let mode = args.get(1).map(|s| s.as_str()).unwrap_or("exec");
    match mode {
        "exec" => {
            let stdin = std::io::stdin();
            let stdout = std::io::stdout();
            let mut out = std::io::BufWriter::new(stdout.lock());
            for line in stdin.lock().lines() {
                let line = line.expect("stdin");
                if line.trim().is_empty() {
                    continue;
                }
                let v: Value = match serde_json::from_str(&line) {
                    Ok(v) => v,
                    Err(e) => {
                        writeln!(out, "{}", json!({"r":"harness-error","msg":e.to_string()})).unwrap();
                        continue;
                    }
                };
                let res = catch_unwind(AssertUnwindSafe(|| dispatch(&v)));
                let o = match res {
                    Ok(o) => o,
                    Err(_) => json!({"r": "panic"}),
                };
                writeln!(out, "{}", o).unwrap();
            }
            out.flush().unwrap();
        }
        _ => {
            eprintln!("usage: acvh exec < ops.jsonl");
            std::process::exit(2);
        }
    }
}
