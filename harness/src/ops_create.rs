//! f_create: the honest prover Presentation::create over arbitrary well-formed schemas with every
//! statement kind, followed by an action: verify (+ wire round trips), context mutations (C04),
//! presentation tampering (C11), decryption (C10).
use crate::ops_issue::claim_from;
use crate::util::*;
use blsful::inner_types::*;
use credx::claim::*;
use credx::credential::{ClaimSchema, CredentialSchema};
use credx::issuer::{Issuer, IssuerPublic};
use credx::knox::accumulator::vb20;
use credx::knox::bbs::BbsScheme;
use credx::knox::ps::PsScheme;
use credx::knox::short_group_sig_core::short_group_traits::ShortGroupSignatureScheme;
use credx::prelude::{MembershipClaim, MembershipCredential, MembershipRegistry, MembershipSigningKey, MembershipVerificationKey};
use credx::presentation::*;
use credx::statement::*;
use indexmap::IndexMap;
use rand::{Rng, SeedableRng};
use rand_chacha::ChaCha20Rng;
use serde_json::{json, Value};
use std::collections::BTreeSet;
use std::panic::{catch_unwind, AssertUnwindSafe};

pub struct World<S: ShortGroupSignatureScheme> {
    pub issuers: Vec<(IssuerPublic<S>, Issuer<S>)>,
    pub cred_issuer: Vec<usize>,
    pub credentials: IndexMap<String, PresentationCredential<S>>,
    pub statements: Vec<Statements<S>>,
    pub schema: PresentationSchema<S>,
    pub nonce: Vec<u8>,
    pub claims: Vec<Vec<ClaimData>>,
    pub sig_cred: IndexMap<String, usize>,
}

/// claim labels whose alphabetical order differs from the schema (index) order
pub fn label(i: usize) -> String {
    const L: [&str; 8] = ["zeta", "alpha", "mu", "beta", "omega", "kappa", "eta", "delta"];
    if i < L.len() { L[i].to_string() } else { format!("x{i}") }
}

fn ctype_of(c: &ClaimData) -> ClaimType {
    match c {
        ClaimData::Hashed(_) => ClaimType::Hashed,
        ClaimData::Number(_) => ClaimType::Number,
        ClaimData::Scalar(_) => ClaimType::Scalar,
        ClaimData::Revocation(_) => ClaimType::Revocation,
        ClaimData::Enumeration(_) => ClaimType::Enumeration,
    }
}

pub fn gen_of(kind: &str, tag: &str) -> G1Projective {
    match kind {
        "std" => G1Projective::GENERATOR,
        _ => credx::create_domain_proof_generator(tag.as_bytes()),
    }
}

pub fn build_world<S: ShortGroupSignatureScheme>(v: &Value) -> Result<World<S>, String> {
    let creds_spec = v["creds"].as_array().unwrap();
    let mut issuers: Vec<(IssuerPublic<S>, Issuer<S>)> = vec![];
    let mut issuer_of_key: IndexMap<u64, usize> = IndexMap::new();
    let mut cred_issuer = vec![];
    let mut claims_all = vec![];
    let mut bundles = vec![];
    for (ci, c) in creds_spec.iter().enumerate() {
        let claims: Vec<ClaimData> = c["claims"].as_array().unwrap().iter().map(claim_from).collect();
        let key = c["issuer"].as_u64().unwrap_or(100 + ci as u64);
        let ii = match issuer_of_key.get(&key) {
            Some(i) => *i,
            None => {
                let schema_claims: Vec<ClaimSchema> = claims
                    .iter()
                    .enumerate()
                    .map(|(i, cl)| ClaimSchema { claim_type: ctype_of(cl), label: label(i), print_friendly: true, validators: vec![] })
                    .collect();
                let cs = CredentialSchema::new(Some("schema"), Some("description"), &[], &schema_claims).map_err(|e| format!("{e:?}"))?;
                let (ipub, iss) = Issuer::<S>::new(&cs);
                issuers.push((ipub, iss));
                issuer_of_key.insert(key, issuers.len() - 1);
                issuers.len() - 1
            }
        };
        let b = issuers[ii].1.sign_credential(&claims).map_err(|e| format!("sign: {e:?}"))?;
        bundles.push(b);
        cred_issuer.push(ii);
        claims_all.push(claims);
    }
    // issuer public data must carry the registry value current at presentation time
    let mut credentials: IndexMap<String, PresentationCredential<S>> = IndexMap::new();
    let mut statements: Vec<Statements<S>> = vec![];
    let mut sig_cred: IndexMap<String, usize> = IndexMap::new();
    for st in v["stmts"].as_array().unwrap() {
        if st["k"] == "sig" {
            sig_cred.insert(st["id"].as_str().unwrap().to_string(), st["cred"].as_u64().unwrap() as usize);
        }
    }
    for st in v["stmts"].as_array().unwrap() {
        let id = st["id"].as_str().unwrap().to_string();
        match st["k"].as_str().unwrap() {
            "sig" => {
                let ci = st["cred"].as_u64().unwrap() as usize;
                let ipub = IssuerPublic::from(&issuers[cred_issuer[ci]].1);
                let disclosed: BTreeSet<String> = st["disclosed"].as_array().unwrap().iter().map(|x| label(x.as_u64().unwrap() as usize)).collect();
                statements.push(SignatureStatement { disclosed, id: id.clone(), issuer: ipub }.into());
                credentials.insert(id.clone(), bundles[ci].credential.clone().into());
                sig_cred.insert(id, ci);
            }
            "rev" => {
                let r = st["ref"].as_str().unwrap().to_string();
                let ipub = IssuerPublic::from(&issuers[cred_issuer[sig_cred[&r]]].1);
                statements.push(
                    RevocationStatement { id, reference_id: r, accumulator: ipub.revocation_registry, verification_key: ipub.revocation_verifying_key, claim: st["claim"].as_u64().unwrap_or(0) as usize }
                        .into(),
                );
            }
            "mem" => {
                let r = st["ref"].as_str().unwrap().to_string();
                let claim = st["claim"].as_u64().unwrap() as usize;
                let sk = MembershipSigningKey::new(None);
                let vk = MembershipVerificationKey::from(&sk);
                let registry = MembershipRegistry::random(rand::thread_rng());
                let el = MembershipClaim::from(&claims_all[sig_cred[&r]][claim]).0;
                let mc = MembershipCredential::new(el, registry, &sk);
                statements.push(MembershipStatement { id: id.clone(), reference_id: r, accumulator: registry, verification_key: vk, claim }.into());
                credentials.insert(id, mc.into());
            }
            "eq" => {
                let mut m = IndexMap::new();
                for r in st["refs"].as_array().unwrap() {
                    m.insert(r[0].as_str().unwrap().to_string(), r[1].as_u64().unwrap() as usize);
                }
                statements.push(EqualityStatement { id, ref_id_claim_index: m }.into());
            }
            "comm" => {
                let g = st["gens"].as_str().unwrap_or("hash");
                statements.push(
                    CommitmentStatement {
                        id: id.clone(),
                        reference_id: st["ref"].as_str().unwrap().to_string(),
                        message_generator: gen_of(g, &format!("message generator {id}")),
                        blinder_generator: gen_of("hash", &format!("blinder generator {id}")),
                        claim: st["claim"].as_u64().unwrap() as usize,
                    }
                    .into(),
                );
            }
            "range" => {
                let lo = if st["lo"].is_null() { None } else { Some(i64_of(&st["lo"]) as isize) };
                let hi = if st["hi"].is_null() { None } else { Some(i64_of(&st["hi"]) as isize) };
                statements.push(
                    RangeStatement {
                        id,
                        reference_id: st["ref"].as_str().unwrap().to_string(),
                        signature_id: st["sig"].as_str().unwrap().to_string(),
                        claim: st["claim"].as_u64().unwrap() as usize,
                        lower: lo,
                        upper: hi,
                    }
                    .into(),
                );
            }
            "venc" => {
                let r = st["ref"].as_str().unwrap().to_string();
                let ipub = IssuerPublic::from(&issuers[cred_issuer[sig_cred[&r]]].1);
                statements.push(
                    VerifiableEncryptionStatement {
                        message_generator: gen_of(st["gen"].as_str().unwrap_or("std"), &format!("venc generator {id}")),
                        encryption_key: ipub.verifiable_encryption_key,
                        id,
                        reference_id: r,
                        claim: st["claim"].as_u64().unwrap() as usize,
                        allow_message_decryption: st["dec"].as_bool().unwrap_or(false),
                    }
                    .into(),
                );
            }
            "vdec" => {
                let r = st["ref"].as_str().unwrap().to_string();
                let ipub = IssuerPublic::from(&issuers[cred_issuer[sig_cred[&r]]].1);
                statements.push(
                    VerifiableEncryptionDecryptionStatement {
                        message_generator: gen_of(st["gen"].as_str().unwrap_or("std"), &format!("vdec generator {id}")),
                        encryption_key: ipub.verifiable_encryption_key,
                        id,
                        reference_id: r,
                        claim: st["claim"].as_u64().unwrap() as usize,
                    }
                    .into(),
                );
            }
            k => return Err(format!("unknown statement kind {k}")),
        }
    }
    let schema = PresentationSchema::new_with_id(&statements, v["schema_id"].as_str().unwrap_or("schema-1"));
    let nonce = unhx(&v["nonce"]);
    // the holder's wallet is a map: its order is the holder's business, not the schema's
    match v["cred_order"].as_str().unwrap_or("schema") {
        "reverse" => credentials.reverse(),
        "rotate" => {
            if credentials.len() >= 2 {
                let last = credentials.len() - 1;
                credentials.move_index(0, last);
            }
        }
        _ => {}
    }
    Ok(World { issuers, cred_issuer, credentials, statements, schema, nonce, claims: claims_all, sig_cred })
}

fn verdict<S: ShortGroupSignatureScheme>(p: &Presentation<S>, schema: &PresentationSchema<S>, nonce: &[u8]) -> &'static str {
    match catch_unwind(AssertUnwindSafe(|| p.verify(schema, nonce))) {
        Ok(Ok(_)) => "ok",
        Ok(Err(_)) => "err",
        Err(_) => "panic",
    }
}

/// every leaf of a JSON tree, as a path
fn leaves(v: &Value, path: &mut Vec<String>, out: &mut Vec<(Vec<String>, Value)>) {
    match v {
        Value::Object(m) => {
            for (k, x) in m {
                path.push(k.clone());
                leaves(x, path, out);
                path.pop();
            }
        }
        Value::Array(a) => {
            for (i, x) in a.iter().enumerate() {
                path.push(i.to_string());
                leaves(x, path, out);
                path.pop();
            }
        }
        other => out.push((path.clone(), other.clone())),
    }
}
fn set_at(v: &mut Value, path: &[String], new: Value) {
    if path.is_empty() {
        *v = new;
        return;
    }
    match v {
        Value::Object(m) => set_at(m.get_mut(&path[0]).unwrap(), &path[1..], new),
        Value::Array(a) => set_at(&mut a[path[0].parse::<usize>().unwrap()], &path[1..], new),
        _ => {}
    }
}

fn mutate_hex(h: &str, kind: &str, rng: &mut ChaCha20Rng, sibling: Option<&str>) -> Option<String> {
    let b = hex::decode(h).ok()?;
    match (b.len(), kind) {
        (32, "random") => {
            let mut w = [0u8; 64];
            rng.fill(&mut w[..]);
            Some(hex::encode(Scalar::from_bytes_wide(&w).to_be_bytes()))
        }
        (32, "zero") => Some(hex::encode([0u8; 32])),
        (32, "neg") => {
            let a: [u8; 32] = b.clone().try_into().ok()?;
            let s = Option::<Scalar>::from(Scalar::from_be_bytes(&a))?;
            Some(hex::encode((-s).to_be_bytes()))
        }
        (32, "plus1") => {
            let a: [u8; 32] = b.clone().try_into().ok()?;
            let s = Option::<Scalar>::from(Scalar::from_be_bytes(&a))?;
            Some(hex::encode((s + Scalar::ONE).to_be_bytes()))
        }
        (48, "random") => {
            let mut w = [0u8; 64];
            rng.fill(&mut w[..]);
            Some(hex::encode((G1Projective::GENERATOR * Scalar::from_bytes_wide(&w)).to_compressed()))
        }
        (48, "zero") => Some(hex::encode(G1Projective::IDENTITY.to_compressed())),
        (48, "neg") => {
            let a: [u8; 48] = b.clone().try_into().ok()?;
            let p = Option::<G1Affine>::from(G1Affine::from_compressed(&a))?;
            Some(hex::encode((-G1Projective::from(p)).to_compressed()))
        }
        (48, "plus1") => {
            let a: [u8; 48] = b.clone().try_into().ok()?;
            let p = Option::<G1Affine>::from(G1Affine::from_compressed(&a))?;
            Some(hex::encode((G1Projective::from(p) + G1Projective::GENERATOR).to_compressed()))
        }
        (96, "random") => {
            let mut w = [0u8; 64];
            rng.fill(&mut w[..]);
            Some(hex::encode((G2Projective::GENERATOR * Scalar::from_bytes_wide(&w)).to_compressed()))
        }
        (96, "zero") => Some(hex::encode(G2Projective::IDENTITY.to_compressed())),
        (96, "neg") => {
            let a: [u8; 96] = b.clone().try_into().ok()?;
            let p = Option::<G2Affine>::from(G2Affine::from_compressed(&a))?;
            Some(hex::encode((-G2Projective::from(p)).to_compressed()))
        }
        (96, "plus1") => {
            let a: [u8; 96] = b.clone().try_into().ok()?;
            let p = Option::<G2Affine>::from(G2Affine::from_compressed(&a))?;
            Some(hex::encode((G2Projective::from(p) + G2Projective::GENERATOR).to_compressed()))
        }
        (_, "sibling") => sibling.filter(|s| s.len() == h.len() && *s != h).map(|s| s.to_string()),
        _ => None,
    }
}

fn case<S: ShortGroupSignatureScheme>(v: &Value) -> Value {
    let w = match build_world::<S>(v) {
        Ok(w) => w,
        Err(e) => return json!({"r":"ok","world":"err","msg":e}),
    };
    let action = v["action"]["k"].as_str().unwrap_or("verify");
    let created = catch_unwind(AssertUnwindSafe(|| Presentation::create(&w.credentials, &w.schema, &w.nonce)));
    let p = match created {
        Ok(Ok(p)) => p,
        Ok(Err(e)) => return json!({"r":"ok","world":"ok","create":"err","msg":format!("{e:?}").chars().take(160).collect::<String>()}),
        Err(_) => return json!({"r":"ok","world":"ok","create":"panic"}),
    };
    let base = verdict(&p, &w.schema, &w.nonce);
    let mut rng = ChaCha20Rng::seed_from_u64(v["seed"].as_u64().unwrap_or(7));
    match action {
        "verify" => {
            let bare = serde_bare::to_vec(&p).ok().and_then(|b| serde_bare::from_slice::<Presentation<S>>(&b).ok().map(|q| (b, q)));
            let v_bare = match &bare {
                Some((b, q)) => {
                    let re = serde_bare::to_vec(q).map(|b2| &b2 == b).unwrap_or(false);
                    json!({"verify": verdict(q, &w.schema, &w.nonce), "reencode_same": re})
                }
                None => json!("codec-err"),
            };
            let cbor = serde_cbor::to_vec(&p).ok().and_then(|b| serde_cbor::from_slice::<Presentation<S>>(&b).ok().map(|q| (b, q)));
            let v_cbor = match &cbor {
                Some((b, q)) => {
                    let re = serde_cbor::to_vec(q).map(|b2| &b2 == b).unwrap_or(false);
                    json!({"verify": verdict(q, &w.schema, &w.nonce), "reencode_same": re})
                }
                None => json!("codec-err"),
            };
            let js = serde_json::to_string(&p).ok().and_then(|s| serde_json::from_str::<Presentation<S>>(&s).ok().map(|q| (s, q)));
            let v_json = match &js {
                Some((s, q)) => {
                    let re = serde_json::to_string(q).map(|s2| &s2 == s).unwrap_or(false);
                    json!({"verify": verdict(q, &w.schema, &w.nonce), "reencode_same": re})
                }
                None => json!("codec-err"),
            };
            // the schema itself must survive the wire as well
            let sch_json = serde_json::to_string(&w.schema).ok().and_then(|s| serde_json::from_str::<PresentationSchema<S>>(&s).ok());
            let v_schema = match &sch_json {
                Some(s2) => json!(verdict(&p, s2, &w.nonce)),
                None => json!("codec-err"),
            };
            json!({"r":"ok","world":"ok","create":"ok","verify":base,"bare":v_bare,"cbor":v_cbor,"json":v_json,"schema_json":v_schema,
                   "n_proofs": p.proofs.len()})
        }
        "tamper" => {
            // single-site mutations of the presentation through its CBOR value tree (scalars and points are
            // arrays of 32 / 48 / 96 byte values there); a mutation that fails to decode counts as detected
            use serde_cbor::Value as CV;
            fn cleaves(v: &CV, path: &mut Vec<String>, out: &mut Vec<(Vec<String>, Vec<u8>)>) {
                match v {
                    CV::Array(a) => {
                        let bytes: Option<Vec<u8>> = a.iter().map(|x| if let CV::Integer(i) = x { if (0..256).contains(i) { Some(*i as u8) } else { None } } else { None }).collect();
                        match bytes {
                            Some(b) if b.len() == 32 || b.len() == 48 || b.len() == 96 => out.push((path.clone(), b)),
                            _ => {
                                for (i, x) in a.iter().enumerate() {
                                    path.push(i.to_string());
                                    cleaves(x, path, out);
                                    path.pop();
                                }
                            }
                        }
                    }
                    CV::Map(m) => {
                        for (k, x) in m.iter() {
                            let ks = match k { CV::Text(t) => t.clone(), other => format!("{other:?}") };
                            path.push(ks);
                            cleaves(x, path, out);
                            path.pop();
                        }
                    }
                    _ => {}
                }
            }
            fn cset(v: &mut CV, path: &[String], new: &[u8]) {
                if path.is_empty() {
                    *v = CV::Array(new.iter().map(|b| CV::Integer(*b as i128)).collect());
                    return;
                }
                match v {
                    CV::Array(a) => cset(&mut a[path[0].parse::<usize>().unwrap()], &path[1..], new),
                    CV::Map(m) => {
                        let key = m.keys().find(|k| match k { CV::Text(t) => *t == path[0], other => format!("{other:?}") == path[0] }).cloned().unwrap();
                        cset(m.get_mut(&key).unwrap(), &path[1..], new)
                    }
                    _ => {}
                }
            }
            let tree = match serde_cbor::value::to_value(&p) {
                Ok(t) => t,
                Err(_) => return json!({"r":"ok","world":"ok","create":"ok","verify":base,"tamper":"no-cbor"}),
            };
            let can_roundtrip = serde_cbor::value::from_value::<Presentation<S>>(tree.clone()).map(|q| verdict(&q, &w.schema, &w.nonce) == "ok").unwrap_or(false);
            let mut bl = vec![];
            cleaves(&tree, &mut vec![], &mut bl);
            let max = v["action"]["max"].as_u64().unwrap_or(60) as usize;
            let mut results = vec![];
            let hexleaves: Vec<(Vec<String>, String)> = bl.iter().map(|(p, b)| (p.clone(), hex::encode(b))).collect();
            let mut order: Vec<usize> = (0..hexleaves.len()).collect();
            for i in (1..order.len()).rev() {
                let j = rng.gen_range(0..=i);
                order.swap(i, j);
            }
            for &li in order.iter().take(max) {
                let (path, h) = &hexleaves[li];
                let sib = hexleaves.iter().find(|(p2, h2)| p2 != path && h2.len() == h.len() && h2 != h).map(|(_, h2)| h2.as_str());
                for kind in ["random", "zero", "neg", "plus1", "sibling"] {
                    if let Some(nh) = mutate_hex(h, kind, &mut rng, sib) {
                        if &nh == h {
                            continue;
                        }
                        let mut t2 = tree.clone();
                        cset(&mut t2, path, &hex::decode(&nh).unwrap());
                        let out = match catch_unwind(AssertUnwindSafe(|| serde_cbor::value::from_value::<Presentation<S>>(t2))) {
                            Ok(Ok(q)) => verdict(&q, &w.schema, &w.nonce),
                            Ok(Err(_)) => "decode-err",
                            Err(_) => "decode-panic",
                        };
                        results.push(json!({"path": path.join("/"), "kind": kind, "len": h.len() / 2, "out": out}));
                    }
                }
            }
            // inner ids of proofs
            for k in p.proofs.keys() {
                let tj = serde_json::to_value(&p.proofs[k]);
                let _ = tj;
            }
            // structural mutations: remove each proof; swap two proofs' bodies; drop the disclosed map entry
            for k in p.proofs.keys() {
                let mut q = p.clone();
                q.proofs.shift_remove(k);
                results.push(json!({"path": format!("proofs/{k}"), "kind": "remove-proof", "out": verdict(&q, &w.schema, &w.nonce)}));
            }
            for (k, pr) in p.proofs.iter() {
                if let PresentationProofs::Signature(sp) = pr {
                    if let Ok(mut pj) = serde_json::to_value(&sp.pok) {
                        let orig = pj["proof"].as_array().cloned().unwrap_or_default();
                        let variants: Vec<(&str, Vec<Value>)> = vec![
                            ("extend-by-minus-challenge", [orig.clone(), vec![json!(hex::encode((-p.challenge).to_be_bytes()))]].concat()),
                            ("extend-by-zero", [orig.clone(), vec![json!(hex::encode(Scalar::ZERO.to_be_bytes()))]].concat()),
                            ("shorten", orig[..orig.len().saturating_sub(1)].to_vec()),
                        ];
                        for (name, nv) in variants {
                            pj["proof"] = json!(nv);
                            if let Ok(npok) = serde_json::from_str::<S::ProofOfSignatureKnowledge>(&pj.to_string()) {
                                let mut q = p.clone();
                                let mut sp2 = (**sp).clone();
                                sp2.pok = npok;
                                q.proofs.insert(k.clone(), sp2.into());
                                results.push(json!({"path": format!("proofs/{k}/Signature/pok/proof"), "kind": name, "out": verdict(&q, &w.schema, &w.nonce)}));
                            }
                        }
                    }
                }
            }
            let keys: Vec<String> = p.proofs.keys().cloned().collect();
            if keys.len() >= 2 {
                let mut q = p.clone();
                let a = q.proofs[&keys[0]].clone();
                let b = q.proofs[&keys[1]].clone();
                q.proofs.insert(keys[0].clone(), b);
                q.proofs.insert(keys[1].clone(), a);
                results.push(json!({"path": "proofs", "kind": "swap-proofs", "out": verdict(&q, &w.schema, &w.nonce)}));
            }
            {
                let mut q = p.clone();
                q.challenge += Scalar::ONE;
                results.push(json!({"path": "challenge", "kind": "plus1", "out": verdict(&q, &w.schema, &w.nonce)}));
            }
            for (sid, m) in p.disclosed_messages.iter() {
                for (label, claim) in m.iter() {
                    let mut q = p.clone();
                    let newc: ClaimData = match claim {
                        ClaimData::Number(n) => NumberClaim::from(n.value.wrapping_add(1)).into(),
                        _ => HashedClaim::from("tampered").into(),
                    };
                    q.disclosed_messages.get_mut(sid).unwrap().insert(label.clone(), newc);
                    results.push(json!({"path": format!("disclosed/{sid}/{label}"), "kind": "value", "out": verdict(&q, &w.schema, &w.nonce)}));
                    // every non-numeric leaf of the reported claim as well: the text / bytes flag of a hashed claim
                    if let ClaimData::Hashed(h) = claim {
                        let mut q = p.clone();
                        let mut h2 = h.clone();
                        h2.print_friendly = !h2.print_friendly;
                        q.disclosed_messages.get_mut(sid).unwrap().insert(label.clone(), h2.into());
                        results.push(json!({"path": format!("disclosed/{sid}/{label}"), "kind": "print-friendly-flag", "out": verdict(&q, &w.schema, &w.nonce)}));
                    }
                    let mut q = p.clone();
                    let c = q.disclosed_messages.get_mut(sid).unwrap().shift_remove(label).unwrap();
                    q.disclosed_messages.get_mut(sid).unwrap().insert(format!("{label}x"), c);
                    results.push(json!({"path": format!("disclosed/{sid}/{label}"), "kind": "label", "out": verdict(&q, &w.schema, &w.nonce)}));
                }
            }
            // debugging aid for a reported byte position: every bit of a range, with the JSON leaves that changed
            if let (Some(a), Ok(bytes)) = (v["action"]["scan_from"].as_u64(), serde_bare::to_vec(&p)) {
                let b_end = (v["action"]["scan_to"].as_u64().unwrap_or(a + 1) as usize).min(bytes.len());
                let orig = serde_json::to_value(&p).unwrap_or(Value::Null);
                let mut lo = vec![];
                leaves(&orig, &mut vec![], &mut lo);
                for pos in (a as usize)..b_end {
                    for bit in 0..8 {
                        let mut b2 = bytes.clone();
                        b2[pos] ^= 1 << bit;
                        if let Ok(Ok(q)) = catch_unwind(AssertUnwindSafe(|| serde_bare::from_slice::<Presentation<S>>(&b2))) {
                            let same = serde_bare::to_vec(&q).map(|b3| b3 == bytes).unwrap_or(false);
                            let out = if same { "same-object" } else { verdict(&q, &w.schema, &w.nonce) };
                            if out == "ok" {
                                let nv = serde_json::to_value(&q).unwrap_or(Value::Null);
                                let mut ln = vec![];
                                leaves(&nv, &mut vec![], &mut ln);
                                let changed: Vec<String> = lo.iter().zip(ln.iter()).filter(|(x, y)| x != y).map(|(x, y)| format!("{}: {} -> {}", x.0.join("/"), x.1, y.1)).take(4).collect();
                                results.push(json!({"path": format!("bare[{pos}] bit {bit}"), "kind": "scan", "out": out, "changed": changed, "nleaves": [lo.len(), ln.len()]}));
                            }
                        }
                    }
                }
            }
            // binary encoding: single-byte and single-bit changes of the BARE bytes
            if let Ok(bytes) = serde_bare::to_vec(&p) {
                let nb = v["action"]["bytes"].as_u64().unwrap_or(40) as usize;
                for _ in 0..nb {
                    let pos = rng.gen_range(0..bytes.len());
                    let mut b2 = bytes.clone();
                    let kind = if rng.gen_bool(0.5) {
                        b2[pos] ^= 1 << rng.gen_range(0..8);
                        "bit"
                    } else {
                        let old = b2[pos];
                        let mut nv: u8 = rng.gen();
                        if nv == old {
                            nv = old.wrapping_add(1);
                        }
                        b2[pos] = nv;
                        "byte"
                    };
                    let out = match catch_unwind(AssertUnwindSafe(|| serde_bare::from_slice::<Presentation<S>>(&b2))) {
                        Ok(Ok(q)) => {
                            // a change the decoder normalises away (non-canonical encodings) is not a change of the object
                            if serde_bare::to_vec(&q).map(|b3| b3 == bytes).unwrap_or(false) { "same-object" } else { verdict(&q, &w.schema, &w.nonce) }
                        }
                        Ok(Err(_)) => "decode-err",
                        Err(_) => "decode-panic",
                    };
                    results.push(json!({"path": format!("bare[{pos}]"), "kind": kind, "out": out}));
                }
            }
            json!({"r":"ok","world":"ok","create":"ok","verify":base,"json_roundtrip":can_roundtrip,"tamper":results,"n_leaves":hexleaves.len()})
        }
        "leak" => {
            // public-data distinguishers (C07): given the presentation, the schema and a candidate value m' for an
            // undisclosed claim, test algebraic relations among transmitted values that hold exactly for the signed value
            use credx::knox::short_group_sig_core::short_group_traits::ProofOfSignatureKnowledge;
            let c = p.challenge;
            let mut reports = vec![];
            for st in w.statements.iter() {
                let (sid, rid, claim, gens, leaves, byte_ct, bresp): (String, String, usize, Vec<(&str, G1Projective)>, Vec<(&str, G1Projective)>, Option<(Vec<G1Projective>, Vec<Scalar>)>, Scalar) = match st {
                    Statements::Commitment(s) => match p.proofs.get(&s.id) {
                        Some(PresentationProofs::Commitment(cp)) => (s.id.clone(), s.reference_id.clone(), s.claim,
                            vec![("G", G1Projective::GENERATOR), ("gm", s.message_generator), ("gb", s.blinder_generator)],
                            vec![("commitment", cp.commitment)], None, cp.blinder_proof),
                        _ => continue,
                    },
                    Statements::VerifiableEncryption(s) => match p.proofs.get(&s.id) {
                        Some(PresentationProofs::VerifiableEncryption(vp)) => (s.id.clone(), s.reference_id.clone(), s.claim,
                            vec![("G", G1Projective::GENERATOR), ("gm", s.message_generator), ("ek", s.encryption_key.0)],
                            vec![("c1", vp.c1), ("c2", vp.c2)],
                            vp.decryptable_scalar_proof.as_ref().map(|d| (d.byte_ciphertext.c1.to_vec(), d.byte_proofs.iter().map(|b| b.message).collect())), vp.blinder_proof),
                        _ => continue,
                    },
                    Statements::VerifiableEncryptionDecryption(s) => match p.proofs.get(&s.id) {
                        Some(PresentationProofs::VerifiableEncryptionDecryption(vp)) => (s.id.clone(), s.reference_id.clone(), s.claim,
                            vec![("G", G1Projective::GENERATOR), ("gm", s.message_generator), ("ek", s.encryption_key.0)],
                            vec![("c1", vp.c1), ("c2", vp.c2)],
                            Some((vp.byte_ciphertext.c1.to_vec(), vp.byte_proofs.iter().map(|b| b.message).collect())), vp.blinder_proof),
                        _ => continue,
                    },
                    _ => continue,
                };
                // the referenced claim's Schnorr response, as any verifier extracts it
                let (sp, ss) = match (p.proofs.get(&rid), w.schema.statements.get(&rid)) {
                    (Some(PresentationProofs::Signature(sp)), Some(Statements::Signature(ss))) => (sp, ss),
                    _ => continue,
                };
                let disc: Vec<(usize, Scalar)> = sp.disclosed_messages.iter().map(|(i, s)| (*i, *s)).collect();
                let hid = match sp.pok.get_hidden_message_proofs(&ss.issuer.verifying_key, &disc) {
                    Ok(h) => h,
                    Err(_) => continue,
                };
                let mp = match hid.get(&claim) {
                    Some(m) => *m,
                    None => continue,
                };
                let ci = w.sig_cred[&rid];
                let m_true = w.claims[ci][claim].to_scalar();
                let mut cands = vec![m_true, m_true + Scalar::ONE, m_true - Scalar::ONE, Scalar::from(rng.gen::<u64>())];
                for (j, cl) in w.claims[ci].iter().enumerate() {
                    if j != claim {
                        cands.push(cl.to_scalar());
                    }
                }
                // generic two-term catalogue: L == m'*Q1 + n'*Q2 with n' = mp - c*m', Q1, Q2 public generators or zero
                let mut gz = gens.clone();
                gz.push(("0", G1Projective::IDENTITY));
                let mut tests = vec![];
                for (ln, l) in leaves.iter() {
                    for (q1n, q1) in gz.iter() {
                        for (q2n, q2) in gz.iter() {
                            if *q1n == "0" && *q2n == "0" {
                                continue;
                            }
                            let hits: Vec<bool> = cands.iter().map(|m| *l == *q1 * *m + *q2 * (mp - c * *m)).collect();
                            if hits.iter().any(|h| *h) {
                                tests.push(json!({"test": format!("{ln} == m'*{q1n} + (resp - c*m')*{q2n}"), "true_value": hits[0], "decoys": hits[1..].iter().filter(|h| **h).count()}));
                            }
                        }
                    }
                }
                // degenerate randomness of the statement's own blinding factor beta (response bresp = nonce + c*beta):
                // nonce == beta, nonce == 0, nonce == the claim's nonce; with beta known L - Q2*beta == Q1*m' is a dictionary test
                {
                    let inv = |x: Scalar| Option::<Scalar>::from(x.invert()).unwrap_or(Scalar::ZERO);
                    let fixed = [("bresp/(1+c)", bresp * inv(Scalar::ONE + c)), ("bresp/c", bresp * inv(c))];
                    for (ln, l) in leaves.iter() {
                        for (q1n, q1) in gens.iter() {
                            for (q2n, q2) in gens.iter() {
                                if q1n == q2n {
                                    continue;
                                }
                                for (bn, beta) in fixed.iter() {
                                    let hits: Vec<bool> = cands.iter().map(|m| *l - *q2 * *beta == *q1 * *m).collect();
                                    if hits.iter().any(|h| *h) {
                                        tests.push(json!({"test": format!("{ln} - {q2n}*({bn}) == m'*{q1n} (the blinding factor is recoverable)"), "true_value": hits[0], "decoys": hits[1..].iter().filter(|h| **h).count()}));
                                    }
                                }
                                let hits: Vec<bool> = cands.iter().map(|m| *l - *q2 * ((bresp - mp) * inv(c) + *m) == *q1 * *m).collect();
                                if hits.iter().any(|h| *h) {
                                    tests.push(json!({"test": format!("{ln} - {q2n}*((bresp - resp)/c + m') == m'*{q1n} (blinding nonce = claim nonce)"), "true_value": hits[0], "decoys": hits[1..].iter().filter(|h| **h).count()}));
                                }
                            }
                        }
                    }
                }
                // zero nonce on the claim itself: resp == c*m'
                {
                    let hits: Vec<bool> = cands.iter().map(|m| mp == c * *m).collect();
                    if hits.iter().any(|h| *h) {
                        tests.push(json!({"test": "resp == c*m' (zero nonce)", "true_value": hits[0], "decoys": hits[1..].iter().filter(|h| **h).count()}));
                    }
                }
                // per-byte dictionary test on the byte ciphertexts: G*resp_i - c1_i == c*byte*G
                let mut bytes_recovered = None;
                if let Some((c1s, resps)) = byte_ct {
                    let mut rec = vec![];
                    for (c1i, ri) in c1s.iter().zip(resps.iter()) {
                        let lhs = G1Projective::GENERATOR * *ri - *c1i;
                        let b = (0u16..256).find(|b| lhs == G1Projective::GENERATOR * (c * Scalar::from(*b)));
                        rec.push(b);
                    }
                    // degenerate nonces: resp_i == c*b (zero nonce), and two bytes sharing one nonce: (resp_i - resp_j)/c in -255..255
                    let cinv = Option::<Scalar>::from(c.invert()).unwrap_or(Scalar::ZERO);
                    let small = |x: Scalar| -> bool { (0u16..256).any(|b| x == Scalar::from(b) || x == -Scalar::from(b)) };
                    for (i, ri) in resps.iter().enumerate() {
                        if rec[i].is_none() {
                            let q = *ri * cinv;
                            if let Some(b) = (0u16..256).find(|b| q == Scalar::from(*b)) {
                                rec[i] = Some(b);
                            }
                        }
                    }
                    let mut shared_pairs = 0;
                    for i in 0..resps.len() {
                        for j in (i + 1)..resps.len() {
                            if small((resps[i] - resps[j]) * cinv) {
                                shared_pairs += 1;
                            }
                        }
                    }
                    if shared_pairs > 0 {
                        tests.push(json!({"test": "(byte_resp_i - byte_resp_j)/c is a byte difference: two byte proofs share one nonce", "true_value": true, "decoys": 0, "pairs": shared_pairs}));
                    }
                    let all: Option<Vec<u8>> = rec.iter().map(|x| x.map(|y| y as u8)).collect();
                    bytes_recovered = Some(match all {
                        Some(b) => json!({"all": true, "equals_signed_scalar": b == m_true.to_be_bytes().to_vec()}),
                        None => json!({"all": false, "some": rec.iter().filter(|x| x.is_some()).count()}),
                    });
                }
                reports.push(json!({"stmt": sid, "kind": kind_name(st), "tests": tests, "bytes_recovered": bytes_recovered}));
            }
            // two hidden claims of one credential blinded with one nonce: (s_i - s_j) == c*(m_i - m_j)
            for (sid, ci) in w.sig_cred.iter() {
                if let (Some(PresentationProofs::Signature(sp)), Some(Statements::Signature(ss))) = (p.proofs.get(sid), w.schema.statements.get(sid)) {
                    let disc: Vec<(usize, Scalar)> = sp.disclosed_messages.iter().map(|(i, s)| (*i, *s)).collect();
                    if let Ok(hid) = sp.pok.get_hidden_message_proofs(&ss.issuer.verifying_key, &disc) {
                        let hv: Vec<(usize, Scalar)> = hid.into_iter().collect();
                        let mut hits = vec![];
                        for a in 0..hv.len() {
                            for b in (a + 1)..hv.len() {
                                let (i, si) = hv[a];
                                let (j, sj) = hv[b];
                                let (mi, mj) = (w.claims[*ci][i].to_scalar(), w.claims[*ci][j].to_scalar());
                                if si - sj == c * (mi - mj) {
                                    hits.push(json!([i, j]));
                                }
                            }
                        }
                        if !hits.is_empty() {
                            reports.push(json!({"stmt": sid, "kind": "sig", "tests": [{"test": "(resp_i - resp_j) == c*(m_i - m_j): two hidden claims share one nonce", "true_value": true, "decoys": 0, "pairs": hits}], "bytes_recovered": null}));
                        }
                    }
                }
            }
            json!({"r":"ok","world":"ok","create":"ok","verify":base,"leak":reports})
        }
        "link" => {
            // linking tests (C12): P1, P2 from the SAME credentials (fresh nonces), P3 from other credentials of the
            // same issuers under the same schema; a relation that holds for (P1,P2) but not for (P1,P3) links
            use credx::knox::short_group_sig_core::short_group_traits::ProofOfSignatureKnowledge;
            use serde_cbor::Value as CV;
            fn cl(v: &CV, path: &mut Vec<String>, out: &mut Vec<(String, Vec<u8>)>) {
                match v {
                    CV::Array(a) => {
                        let bytes: Option<Vec<u8>> = a.iter().map(|x| if let CV::Integer(i) = x { if (0..256).contains(i) { Some(*i as u8) } else { None } } else { None }).collect();
                        match bytes {
                            Some(b) if b.len() == 32 || b.len() == 48 || b.len() == 96 => out.push((path.join("/"), b)),
                            _ => for (i, x) in a.iter().enumerate() { path.push(i.to_string()); cl(x, path, out); path.pop(); }
                        }
                    }
                    CV::Map(m) => for (k, x) in m.iter() {
                        let ks = match k { CV::Text(t) => t.clone(), other => format!("{other:?}") };
                        if ks == "disclosed_messages" { continue; }
                        path.push(ks); cl(x, path, out); path.pop();
                    },
                    _ => {}
                }
            }
            let alt = &v["action"]["alt"];
            let mut creds3 = w.credentials.clone();
            // bundles of all credentials were consumed into w.credentials keyed by statement; rebuild alt from w.claims via a fresh signature
            let mut claims3: IndexMap<String, Vec<ClaimData>> = IndexMap::new();
            let mut issuers = w.issuers;
            for (sid, ci) in w.sig_cred.iter() {
                if let Some(aci) = alt[sid].as_u64() {
                    let aci = aci as usize;
                    let b = issuers[w.cred_issuer[aci]].1.sign_credential(&w.claims[aci]).expect("re-sign");
                    creds3.insert(sid.clone(), b.credential.into());
                    claims3.insert(sid.clone(), w.claims[aci].clone());
                } else {
                    claims3.insert(sid.clone(), w.claims[*ci].clone());
                }
            }
            let nonce2 = [w.nonce.clone(), vec![2u8]].concat();
            let same_nonce = v["action"]["same_nonce"].as_bool().unwrap_or(false);
            let p2 = match Presentation::create(&w.credentials, &w.schema, if same_nonce { &w.nonce } else { &nonce2 }) { Ok(x) => x, Err(e) => return json!({"r":"ok","create2":format!("{e:?}")}) };
            let p3 = match Presentation::create(&creds3, &w.schema, &nonce2) { Ok(x) => x, Err(e) => return json!({"r":"ok","create3":format!("{e:?}")}) };
            let leaves_of = |q: &Presentation<S>| -> Vec<(String, Vec<u8>)> {
                let t = serde_cbor::value::to_value(q).unwrap();
                let mut o = vec![];
                cl(&t, &mut vec![], &mut o);
                o
            };
            let (l1, l2, l3) = (leaves_of(&p), leaves_of(&p2), leaves_of(&p3));
            let mut links = vec![];
            // (1) equal leaves at equal positions
            for (path, b1) in l1.iter() {
                let e12 = l2.iter().any(|(p2, b2)| p2 == path && b2 == b1);
                let e13 = l3.iter().any(|(p3, b3)| p3 == path && b3 == b1);
                if e12 && !e13 {
                    links.push(json!({"test": "leaf-equality", "path": path}));
                }
            }
            // (2) a nonce reused across presentations: (s1 - s2) == (c1 - c2)*m
            let resp_of = |q: &Presentation<S>, sid: &String| -> Option<std::collections::BTreeMap<usize, Scalar>> {
                if let (Some(PresentationProofs::Signature(sp)), Some(Statements::Signature(ss))) = (q.proofs.get(sid), w.schema.statements.get(sid)) {
                    let disc: Vec<(usize, Scalar)> = sp.disclosed_messages.iter().map(|(i, s)| (*i, *s)).collect();
                    sp.pok.get_hidden_message_proofs(&ss.issuer.verifying_key, &disc).ok()
                } else { None }
            };
            for (sid, ci) in w.sig_cred.iter() {
                if let (Some(h1), Some(h2)) = (resp_of(&p, sid), resp_of(&p2, sid)) {
                    for (i, s1) in h1.iter() {
                        if let Some(s2) = h2.get(i) {
                            let m = w.claims[*ci][*i].to_scalar();
                            if *s1 - *s2 == (p.challenge - p2.challenge) * m && p.challenge != p2.challenge {
                                links.push(json!({"test": "cross-presentation nonce reuse", "stmt": sid, "claim": i}));
                            }
                        }
                    }
                }
            }
            // (2b) publicly computable invariants of one presentation that repeat across presentations of the same
            // credential: (s_i - s_j)/c for every pair of hidden claims
            for (sid, _) in w.sig_cred.iter() {
                if let (Some(h1), Some(h2), Some(h3)) = (resp_of(&p, sid), resp_of(&p2, sid), resp_of(&p3, sid)) {
                    let inv = |h: &std::collections::BTreeMap<usize, Scalar>, c: Scalar, i: usize, j: usize| -> Option<Scalar> {
                        let ci = Option::<Scalar>::from(c.invert())?;
                        Some((*h.get(&i)? - *h.get(&j)?) * ci)
                    };
                    let keys: Vec<usize> = h1.keys().cloned().collect();
                    for a in 0..keys.len() {
                        for b in (a + 1)..keys.len() {
                            let (i, j) = (keys[a], keys[b]);
                            if let (Some(t1), Some(t2)) = (inv(&h1, p.challenge, i, j), inv(&h2, p2.challenge, i, j)) {
                                if t1 == t2 && inv(&h3, p3.challenge, i, j) != Some(t1) {
                                    links.push(json!({"test": "(resp_i - resp_j)/challenge repeats across presentations", "stmt": sid, "claims": [i, j]}));
                                }
                            }
                        }
                    }
                }
            }
            // (2b) byte proofs of the decryptable encryptions: (resp_i - resp_0)/challenge as a vector
            {
                let diffs = |q: &Presentation<S>, id: &String| -> Option<Vec<Scalar>> {
                    let (msgs, c): (Vec<Scalar>, Scalar) = match q.proofs.get(id)? {
                        PresentationProofs::VerifiableEncryption(vp) => (vp.decryptable_scalar_proof.as_ref()?.byte_proofs.iter().map(|b| b.message).collect(), q.challenge),
                        PresentationProofs::VerifiableEncryptionDecryption(vp) => (vp.byte_proofs.iter().map(|b| b.message).collect(), q.challenge),
                        _ => return None,
                    };
                    let ci = Option::<Scalar>::from(c.invert())?;
                    Some(msgs.iter().skip(1).map(|m| (*m - msgs[0]) * ci).collect())
                };
                for (id, _) in p.proofs.iter() {
                    if let (Some(d1), Some(d2)) = (diffs(&p, id), diffs(&p2, id)) {
                        let same = d1.iter().zip(d2.iter()).filter(|(a, b)| a == b).count();
                        if same > 0 && diffs(&p3, id).map(|d3| d3 != d1).unwrap_or(true) {
                            links.push(json!({"test": "(byte_resp_i - byte_resp_0)/challenge repeats across presentations", "stmt": id, "equal_components": same}));
                        }
                    }
                }
            }
            // (3) pairing cross-ratio e(P_a, Q_b) == e(P_b, Q_a) for G1 leaves P and G2 leaves Q at equal positions
            let g1 = |b: &Vec<u8>| -> Option<G1Affine> { let a: [u8; 48] = b.clone().try_into().ok()?; Option::<G1Affine>::from(G1Affine::from_compressed(&a)) };
            let g2 = |b: &Vec<u8>| -> Option<G2Affine> { let a: [u8; 96] = b.clone().try_into().ok()?; Option::<G2Affine>::from(G2Affine::from_compressed(&a)) };
            let ratio = |la: &Vec<(String, Vec<u8>)>, lb: &Vec<(String, Vec<u8>)>, pp: &String, qp: &String| -> Option<bool> {
                let pa = g1(&la.iter().find(|(x, b)| x == pp && b.len() == 48)?.1)?;
                let pb = g1(&lb.iter().find(|(x, b)| x == pp && b.len() == 48)?.1)?;
                let qa = g2(&la.iter().find(|(x, b)| x == qp && b.len() == 96)?.1)?;
                let qb = g2(&lb.iter().find(|(x, b)| x == qp && b.len() == 96)?.1)?;
                if bool::from(pa.is_identity()) || bool::from(pb.is_identity()) || bool::from(qa.is_identity()) || bool::from(qb.is_identity()) { return None; }
                Some(pairing(&pa, &qb) == pairing(&pb, &qa))
            };
            let p_paths: Vec<String> = l1.iter().filter(|(_, b)| b.len() == 48).map(|(x, _)| x.clone()).collect();
            let q_paths: Vec<String> = l1.iter().filter(|(_, b)| b.len() == 96).map(|(x, _)| x.clone()).collect();
            let mut n_ratio = 0;
            for pp in p_paths.iter().take(40) {
                for qp in q_paths.iter().take(6) {
                    if let Some(true) = ratio(&l1, &l2, pp, qp) {
                        n_ratio += 1;
                        if ratio(&l1, &l3, pp, qp) != Some(true) {
                            links.push(json!({"test": "pairing cross-ratio", "g1": pp, "g2": qp}));
                        }
                    }
                }
            }
            json!({"r":"ok","world":"ok","create":"ok","verify":base,"verify2":verdict(&p2, &w.schema, if same_nonce { &w.nonce } else { &nonce2 }),"links":links,
                   "n_leaves": l1.len(), "n_g2": q_paths.len(), "ratio_hits_same": n_ratio})
        }
        "valuedep" => {
            // C07: is a transmitted element of the hidden part a function of the hidden claim VALUES alone?  P1 from the
            // credentials, Pb from freshly issued credentials over the same claim vectors (new signatures), Pc from
            // credentials over other claim vectors - all under the same schema and the same verifier nonce.  A leaf that is
            // equal in P1 and Pb and differs in Pc can be tested against candidate values by anyone.
            use serde_cbor::Value as CV;
            fn cl(v: &CV, path: &mut Vec<String>, out: &mut Vec<(String, Vec<u8>)>) {
                match v {
                    CV::Array(a) => {
                        let bytes: Option<Vec<u8>> = a.iter().map(|x| if let CV::Integer(i) = x { if (0..256).contains(i) { Some(*i as u8) } else { None } } else { None }).collect();
                        match bytes {
                            Some(b) if b.len() == 32 || b.len() == 48 || b.len() == 96 => out.push((path.join("/"), b)),
                            _ => for (i, x) in a.iter().enumerate() { path.push(i.to_string()); cl(x, path, out); path.pop(); }
                        }
                    }
                    CV::Map(m) => for (k, x) in m.iter() {
                        let ks = match k { CV::Text(t) => t.clone(), other => format!("{other:?}") };
                        if ks == "disclosed_messages" { continue; }
                        path.push(ks); cl(x, path, out); path.pop();
                    },
                    _ => {}
                }
            }
            let alt = &v["action"]["alt"];
            let mut creds_b = w.credentials.clone();
            let mut creds_c = w.credentials.clone();
            let mut issuers = w.issuers;
            for (sid, ci) in w.sig_cred.iter() {
                let b = match issuers[w.cred_issuer[*ci]].1.sign_credential(&w.claims[*ci]) { Ok(b) => b, Err(e) => return json!({"r":"ok","resign":format!("{e:?}")}) };
                creds_b.insert(sid.clone(), b.credential.into());
                if let Some(aci) = alt[sid].as_u64() {
                    let aci = aci as usize;
                    let c = issuers[w.cred_issuer[aci]].1.sign_credential(&w.claims[aci]).expect("re-sign");
                    creds_c.insert(sid.clone(), c.credential.into());
                }
            }
            let pb = match Presentation::create(&creds_b, &w.schema, &w.nonce) { Ok(x) => x, Err(e) => return json!({"r":"ok","createb":format!("{e:?}")}) };
            let pc = match Presentation::create(&creds_c, &w.schema, &w.nonce) { Ok(x) => x, Err(e) => return json!({"r":"ok","createc":format!("{e:?}")}) };
            let leaves_of = |q: &Presentation<S>| -> Vec<(String, Vec<u8>)> {
                let t = serde_cbor::value::to_value(q).unwrap();
                let mut o = vec![];
                cl(&t, &mut vec![], &mut o);
                o
            };
            let (l1, lb, lc) = (leaves_of(&p), leaves_of(&pb), leaves_of(&pc));
            let mut hits = vec![];
            for (path, b1) in l1.iter() {
                let e1b = lb.iter().any(|(p2, b2)| p2 == path && b2 == b1);
                let e1c = lc.iter().any(|(p3, b3)| p3 == path && b3 == b1);
                if e1b && !e1c {
                    hits.push(json!({"test": "leaf determined by the hidden claim values", "path": path}));
                }
            }
            json!({"r":"ok","world":"ok","create":"ok","verify":base,"verifyb":verdict(&pb, &w.schema, &w.nonce),"valuedep":hits,"n_leaves": l1.len()})
        }
        "decrypt" => {
            // C10: what the key holder recovers from an accepted presentation
            let mut out = vec![];
            for st in w.statements.iter() {
                match st {
                    Statements::VerifiableEncryption(s) => {
                        if let Some(PresentationProofs::VerifiableEncryption(vp)) = p.proofs.get(&s.id) {
                            let ci = w.sig_cred[&s.reference_id];
                            let dk = &w.issuers[w.cred_issuer[ci]].1.verifiable_decryption_key;
                            let m = w.claims[ci][s.claim].to_scalar();
                            let group_ok = vp.decrypt(dk) == s.message_generator * m;
                            let sc = catch_unwind(AssertUnwindSafe(|| vp.decrypt_scalar(dk)));
                            let scalar = match sc {
                                Ok(Some(v)) => if v == m { "signed" } else { "other" },
                                Ok(None) => "none",
                                Err(_) => "panic",
                            };
                            // the same credential and generator give the same pseudonym; another generator an unrelated one
                            out.push(json!({"stmt": s.id, "kind": "venc", "flag": s.allow_message_decryption, "has_part": vp.decryptable_scalar_proof.is_some(),
                                            "gen_is_std": s.message_generator == G1Projective::GENERATOR,
                                            "group_ok": group_ok, "scalar": scalar, "pseudonym": hx(&vp.decrypt(dk).to_compressed()),
                                            "claim": s.claim, "cred": ci, "gen": hx(&s.message_generator.to_compressed())}));
                        }
                    }
                    Statements::VerifiableEncryptionDecryption(s) => {
                        if let Some(PresentationProofs::VerifiableEncryptionDecryption(vp)) = p.proofs.get(&s.id) {
                            let ci = w.sig_cred[&s.reference_id];
                            let dk = &w.issuers[w.cred_issuer[ci]].1.verifiable_decryption_key;
                            let signed = &w.claims[ci][s.claim];
                            let r = catch_unwind(AssertUnwindSafe(|| vp.decrypt_and_verify(dk)));
                            let res = match r {
                                Ok(Ok(c)) => if &c == signed { "signed" } else if c.to_scalar() == signed.to_scalar() { "same-scalar-other-claim" } else { "other" },
                                Ok(Err(_)) => "err",
                                Err(_) => "panic",
                            };
                            out.push(json!({"stmt": s.id, "kind": "vdec", "result": res, "gen_is_std": s.message_generator == G1Projective::GENERATOR}));
                        }
                    }
                    _ => {}
                }
            }
            json!({"r":"ok","world":"ok","create":"ok","verify":base,"decrypt":out})
        }
        "ctx" => {
            let max = v["action"]["max"].as_u64().unwrap_or(1000) as usize;
            let muts = context_mutations::<S>(&w, &mut rng);
            let d0 = digest(&w.schema, &w.nonce);
            let mut out = vec![];
            for (name, schema2, nonce2) in muts.into_iter().take(max) {
                let d = digest(&schema2, &nonce2);
                out.push(json!({"name": name, "verify": verdict(&p, &schema2, &nonce2), "digest_same": d == d0,
                                "model": json!({"nonce": hx(&nonce2), "schema": schema_model(&schema2)})}));
            }
            json!({"r":"ok","world":"ok","create":"ok","verify":base,"orig": json!({"nonce": hx(&w.nonce), "schema": schema_model(&w.schema)}),"ctx":out})
        }
        _ => json!({"r":"ok","world":"ok","create":"ok","verify":base}),
    }
}

/// the transcript digest of (nonce, schema) computed with the library's own public contribution function
fn digest<S: ShortGroupSignatureScheme>(schema: &PresentationSchema<S>, nonce: &[u8]) -> [u8; 32] {
    let mut t = merlin::Transcript::new(b"context digest");
    t.append_message(b"nonce", nonce);
    schema.add_challenge_contribution(&mut t);
    let mut d = [0u8; 32];
    t.challenge_bytes(b"d", &mut d);
    d
}

fn hb<T: AsRef<[u8]>>(b: T) -> Value {
    json!(hx(b.as_ref()))
}

/// Rust schema -> model input (the fields the model's transcript encoding takes), bytes as hex
fn schema_model<S: ShortGroupSignatureScheme>(schema: &PresentationSchema<S>) -> Value {
    use credx::knox::short_group_sig_core::short_group_traits::PublicKey as _;
    let mut stmts = vec![];
    for (k, st) in schema.statements.iter() {
        let m = match st {
            Statements::Signature(s) => {
                let cs = &s.issuer.schema;
                json!({"k":"sig","id":hb(&s.id),"disclosed": s.disclosed.iter().map(hb).collect::<Vec<_>>(),
                       "issuer": {"id":hb(&s.issuer.id),"vk":hb(s.issuer.verifying_key.to_bytes()),"rvk":hb(s.issuer.revocation_verifying_key.to_bytes()),
                                  "reg":hb(s.issuer.revocation_registry.to_bytes()),"ek":hb(s.issuer.verifiable_encryption_key.0.to_compressed()),
                                  "schema":{"id":hb(&cs.id),"label":hb(cs.label.clone().unwrap_or_default()),"desc":hb(cs.description.clone().unwrap_or_default()),
                                            "blind": cs.blind_claims.iter().map(hb).collect::<Vec<_>>(),"indices": cs.claim_indices.iter().map(hb).collect::<Vec<_>>(),
                                            "nclaims": cs.claims.len()}}})
            }
            Statements::Revocation(s) => json!({"k":"rev","id":hb(&s.id),"ref":hb(&s.reference_id),"claim":s.claim,"vk":hb(s.verification_key.to_bytes()),"acc":hb(s.accumulator.to_bytes())}),
            Statements::Membership(s) => json!({"k":"mem","id":hb(&s.id),"ref":hb(&s.reference_id),"claim":s.claim,"vk":hb(s.verification_key.to_bytes()),"acc":hb(s.accumulator.to_bytes())}),
            Statements::Equality(s) => json!({"k":"eq","id":hb(&s.id),"refs": s.ref_id_claim_index.iter().map(|(i,c)| json!([hb(i), c])).collect::<Vec<_>>()}),
            Statements::Commitment(s) => json!({"k":"comm","id":hb(&s.id),"ref":hb(&s.reference_id),"claim":s.claim,"gm":hb(s.message_generator.to_compressed()),"gb":hb(s.blinder_generator.to_compressed())}),
            Statements::Range(s) => json!({"k":"range","id":hb(&s.id),"ref":hb(&s.reference_id),"sig":hb(&s.signature_id),"claim":s.claim,
                                           "lo": s.lower.map(|x| x.to_string()),"hi": s.upper.map(|x| x.to_string())}),
            Statements::VerifiableEncryption(s) => json!({"k":"venc","id":hb(&s.id),"dec":s.allow_message_decryption,"ref":hb(&s.reference_id),"claim":s.claim,
                                                          "gm":hb(s.message_generator.to_compressed()),"ek":hb(s.encryption_key.0.to_compressed())}),
            Statements::VerifiableEncryptionDecryption(s) => json!({"k":"vdec","id":hb(&s.id),"ref":hb(&s.reference_id),"claim":s.claim,
                                                          "gm":hb(s.message_generator.to_compressed()),"ek":hb(s.encryption_key.0.to_compressed())}),
        };
        stmts.push(json!([hb(k), m]));
    }
    json!({"id": hb(&schema.id), "stmts": stmts})
}

/// every single change of a verifier-side parameter
/// other spellings of a textual identifier: letter case swapped, the hex spelling of its bytes, the bytes its hex
/// spelling denotes, surrounding white space
fn id_twins(id: &str) -> Vec<(&'static str, String)> {
    let mut v = vec![];
    let swapped: String = id.chars().map(|c| if c.is_ascii_lowercase() { c.to_ascii_uppercase() } else if c.is_ascii_uppercase() { c.to_ascii_lowercase() } else { c }).collect();
    if swapped != id {
        v.push(("case-swapped", swapped));
    }
    v.push(("hex-spelling", hex::encode(id.as_bytes())));
    if let Ok(b) = hex::decode(id) {
        if let Ok(t) = String::from_utf8(b) {
            if t != id {
                v.push(("hex-decoded", t));
            }
        }
    }
    v.push(("trailing-space", format!("{id} ")));
    v
}

fn context_mutations<S: ShortGroupSignatureScheme>(w: &World<S>, rng: &mut ChaCha20Rng) -> Vec<(String, PresentationSchema<S>, Vec<u8>)> {
    let mut out: Vec<(String, PresentationSchema<S>, Vec<u8>)> = vec![];
    let sid = w.schema.id.clone();
    let same = |st: &Vec<Statements<S>>| PresentationSchema::new_with_id(st, &sid);
    // nonce
    let mut n = w.nonce.clone();
    if !n.is_empty() {
        let k = rng.gen_range(0..n.len());
        n[k] ^= 1 << rng.gen_range(0..8);
        out.push(("nonce-bitflip".into(), same(&w.statements), n));
        out.push(("nonce-truncate".into(), same(&w.statements), w.nonce[..w.nonce.len() - 1].to_vec()));
    }
    let mut n = w.nonce.clone();
    n.push(0);
    out.push(("nonce-extend".into(), same(&w.statements), n));
    out.push(("schema-id".into(), PresentationSchema::new_with_id(&w.statements, &format!("{sid}x")), w.nonce.clone()));
    // identifiers are byte strings: another spelling that some decoding would identify with the original is another id
    for (nm, alt) in id_twins(&sid) {
        out.push((format!("schema-id:{nm}"), PresentationSchema::new_with_id(&w.statements, &alt), w.nonce.clone()));
    }
    // statement order and count
    if w.statements.len() >= 2 {
        let mut st = w.statements.clone();
        st.swap(0, 1);
        out.push(("statement-order-swap-0-1".into(), same(&st), w.nonce.clone()));
    }
    let other_g1 = G1Projective::GENERATOR * Scalar::from(rng.gen::<u64>() | 1);
    let (other_ipub, _) = Issuer::<S>::new(&w.issuers[0].0.schema);
    let other_acc_sk = vb20::SecretKey::new(None);
    let other_acc_pk = vb20::PublicKey::from(&other_acc_sk);
    // another signature statement of the schema (a reference retargeted to it stays well-formed), else a dangling id
    let sig_ids: Vec<String> = w.statements.iter().filter_map(|st| if let Statements::Signature(s) = st { Some(s.id.clone()) } else { None }).collect();
    let other_sig_id = |cur: &String| -> String { sig_ids.iter().find(|x| *x != cur).cloned().unwrap_or_else(|| "no-such-statement".to_string()) };
    for (i, st) in w.statements.iter().enumerate() {
        let mut push = |name: &str, ns: Statements<S>| {
            let mut v = w.statements.clone();
            v[i] = ns;
            out.push((format!("{}[{}]:{}", kind_name(st), i, name), same(&v), w.nonce.clone()));
        };
        match st {
            Statements::Signature(s) => {
                let mut t = (**s).clone();
                t.issuer.id = format!("{}x", t.issuer.id);
                push("issuer.id", t.into());
                for (nm, alt) in id_twins(&s.issuer.id) {
                    let mut t = (**s).clone();
                    t.issuer.id = alt;
                    push(&format!("issuer.id:{nm}"), t.into());
                }
                for (nm, alt) in id_twins(&s.issuer.schema.id) {
                    let mut t = (**s).clone();
                    t.issuer.schema.id = alt;
                    push(&format!("issuer.schema.id:{nm}"), t.into());
                }
                let mut t = (**s).clone();
                t.issuer.verifying_key = other_ipub.verifying_key.clone();
                push("issuer.verifying_key", t.into());
                let mut t = (**s).clone();
                t.issuer.revocation_verifying_key = other_ipub.revocation_verifying_key;
                push("issuer.revocation_verifying_key", t.into());
                let mut t = (**s).clone();
                t.issuer.revocation_registry = other_ipub.revocation_registry;
                push("issuer.revocation_registry", t.into());
                let mut t = (**s).clone();
                t.issuer.verifiable_encryption_key = other_ipub.verifiable_encryption_key;
                push("issuer.verifiable_encryption_key", t.into());
                let mut t = (**s).clone();
                t.issuer.schema.id = format!("{}x", t.issuer.schema.id);
                push("issuer.schema.id", t.into());
                let mut t = (**s).clone();
                t.issuer.schema.label = Some("other label".into());
                push("issuer.schema.label", t.into());
                let mut t = (**s).clone();
                t.issuer.schema.description = Some("other description".into());
                push("issuer.schema.description", t.into());
                let mut t = (**s).clone();
                let l0 = t.issuer.schema.claim_indices.get_index(t.issuer.schema.claim_indices.len() - 1).unwrap().clone();
                t.issuer.schema.blind_claims.insert(l0);
                push("issuer.schema.blind_claims+1", t.into());
                // rename a claim label to another label of the SAME length, consistently in claims and claim_indices
                let mut t = (**s).clone();
                let hidden_idx = (0..t.issuer.schema.claims.len()).rev().find(|i| !t.disclosed.contains(&t.issuer.schema.claims[*i].label));
                if let Some(hi) = hidden_idx {
                    let old = t.issuer.schema.claims[hi].label.clone();
                    let mut newl: String = old.chars().rev().collect();
                    if newl == old {
                        newl = old.replace(|c: char| c.is_ascii_alphabetic(), "q");
                    }
                    if newl != old && newl.len() == old.len() && !t.issuer.schema.claim_indices.contains(&newl) {
                        t.issuer.schema.claims[hi].label = newl.clone();
                        let labels: Vec<String> = t.issuer.schema.claim_indices.iter().map(|l| if *l == old { newl.clone() } else { l.clone() }).collect();
                        t.issuer.schema.claim_indices = labels.into_iter().collect();
                        push("issuer.schema.claim-label-rename-same-length", t.into());
                    }
                }
                let mut t = (**s).clone();
                let extra = t.issuer.schema.claims[0].clone();
                t.issuer.schema.claims.push(extra);
                push("issuer.schema.claims.len+1", t.into());
                // requested disclosures: add a hidden, non-referenced label / remove a disclosed one
                let mut t = (**s).clone();
                if let Some(l) = t.disclosed.iter().next().cloned() {
                    t.disclosed.remove(&l);
                    push("disclosed-remove", t.into());
                }
                let mut t = (**s).clone();
                t.disclosed.insert("not-a-label".into());
                push("disclosed-add-unknown-label", t.into());
            }
            Statements::Revocation(s) => {
                let mut t = (**s).clone();
                t.reference_id = other_sig_id(&s.reference_id);
                push("reference_id", t.into());
                let mut t = (**s).clone();
                t.verification_key = other_acc_pk;
                push("verification_key", t.into());
                let mut t = (**s).clone();
                t.accumulator = vb20::Accumulator(other_g1);
                push("accumulator", t.into());
                let mut t = (**s).clone();
                t.claim += 1;
                push("claim+1", t.into());
            }
            Statements::Membership(s) => {
                let mut t = (**s).clone();
                t.reference_id = other_sig_id(&s.reference_id);
                push("reference_id", t.into());
                let mut t = (**s).clone();
                t.verification_key = other_acc_pk;
                push("verification_key", t.into());
                let mut t = (**s).clone();
                t.accumulator = vb20::Accumulator(other_g1);
                push("accumulator", t.into());
                let mut t = (**s).clone();
                t.claim = if t.claim > 1 { t.claim - 1 } else { t.claim + 1 };
                push("claim+-1", t.into());
            }
            Statements::Equality(s) => {
                let mut t = (**s).clone();
                if let Some((k, c)) = t.ref_id_claim_index.iter().next().map(|(k, c)| (k.clone(), *c)) {
                    t.ref_id_claim_index.insert(k, c + 1);
                    push("first-ref-claim+1", t.into());
                }
                let mut t = (**s).clone();
                let keys: Vec<String> = t.ref_id_claim_index.keys().cloned().collect();
                if keys.len() >= 2 {
                    t.ref_id_claim_index.swap_indices(0, 1);
                    push("refs-reordered", t.into());
                }
            }
            Statements::Commitment(s) => {
                let mut t = (**s).clone();
                t.reference_id = other_sig_id(&s.reference_id);
                push("reference_id", t.into());
                let mut t = (**s).clone();
                t.message_generator = other_g1;
                push("message_generator", t.into());
                let mut t = (**s).clone();
                t.blinder_generator = other_g1;
                push("blinder_generator", t.into());
                let mut t = (**s).clone();
                t.claim = if t.claim > 1 { t.claim - 1 } else { t.claim + 1 };
                push("claim+-1", t.into());
            }
            Statements::Range(s) => {
                let mut t = (**s).clone();
                t.signature_id = other_sig_id(&s.signature_id);
                push("signature_id", t.into());
                let mut t = (**s).clone();
                t.lower = match t.lower { Some(l) => Some(l.wrapping_sub(1)), None => Some(isize::MIN) };
                push("lower-changed-or-added", t.into());
                let mut t = (**s).clone();
                t.upper = match t.upper { Some(u) => Some(u.wrapping_add(1)), None => Some(isize::MAX) };
                push("upper-changed-or-added", t.into());
                if s.lower.is_some() && s.upper.is_some() {
                    let mut t = (**s).clone();
                    t.lower = None;
                    push("lower-removed", t.into());
                    let mut t = (**s).clone();
                    t.upper = None;
                    push("upper-removed", t.into());
                }
            }
            Statements::VerifiableEncryption(s) => {
                let mut t = (**s).clone();
                t.reference_id = other_sig_id(&s.reference_id);
                push("reference_id", t.into());
                let mut t = (**s).clone();
                t.allow_message_decryption = !t.allow_message_decryption;
                push("allow_message_decryption", t.into());
                let mut t = (**s).clone();
                t.message_generator = other_g1;
                push("message_generator", t.into());
                let mut t = (**s).clone();
                t.encryption_key = other_ipub.verifiable_encryption_key;
                push("encryption_key", t.into());
                let mut t = (**s).clone();
                t.claim = if t.claim > 1 { t.claim - 1 } else { t.claim + 1 };
                push("claim+-1", t.into());
            }
            Statements::VerifiableEncryptionDecryption(s) => {
                let mut t = (**s).clone();
                t.reference_id = other_sig_id(&s.reference_id);
                push("reference_id", t.into());
                let mut t = (**s).clone();
                t.message_generator = other_g1;
                push("message_generator", t.into());
                let mut t = (**s).clone();
                t.encryption_key = other_ipub.verifiable_encryption_key;
                push("encryption_key", t.into());
            }
        }
    }
    out
}

fn kind_name<S: ShortGroupSignatureScheme>(s: &Statements<S>) -> &'static str {
    match s {
        Statements::Signature(_) => "sig",
        Statements::Revocation(_) => "rev",
        Statements::Membership(_) => "mem",
        Statements::Equality(_) => "eq",
        Statements::Commitment(_) => "comm",
        Statements::Range(_) => "range",
        Statements::VerifiableEncryption(_) => "venc",
        Statements::VerifiableEncryptionDecryption(_) => "vdec",
    }
}

pub fn run(_op: &str, v: &Value) -> Value {
    if v["suite"].as_str() == Some("ps") { case::<PsScheme>(v) } else { case::<BbsScheme>(v) }
}

#[allow(dead_code)]
fn _unused(_: vb20::Element) {}
