//! f_create: the honest prover Presentation::create over arbitrary well-formed schemas with every
//! statement kind, followed by an action: verify (+ wire round trips), context mutations (C04),
//! presentation tampering (C11), decryption (C10).
use crate::ops_issue::claim_from;
use crate::util::*;
use blsful::inner_types::*;
use credx::claim::*;
use credx::credential::{ClaimSchema, CredentialSchema};
use credx::issuer::{Issuer, IssuerPublic};
use credx::knox::accumulator::vb20;
use credx::knox::bbs::BbsScheme;
use credx::knox::ps::PsScheme;
use credx::knox::short_group_sig_core::short_group_traits::ShortGroupSignatureScheme;
use credx::prelude::{MembershipClaim, MembershipCredential, MembershipRegistry, MembershipSigningKey, MembershipVerificationKey};
use credx::presentation::*;
use credx::statement::*;
use indexmap::IndexMap;
use rand::{Rng, SeedableRng};
use rand_chacha::ChaCha20Rng;
use serde_json::{json, Value};
use std::collections::BTreeSet;
use std::panic::{catch_unwind, AssertUnwindSafe};

pub struct World<S: ShortGroupSignatureScheme> {
    pub issuers: Vec<(IssuerPublic<S>, Issuer<S>)>,
    pub cred_issuer: Vec<usize>,
    pub credentials: IndexMap<String, PresentationCredential<S>>,
    pub statements: Vec<Statements<S>>,
    pub schema: PresentationSchema<S>,
    pub nonce: Vec<u8>,
    pub claims: Vec<Vec<ClaimData>>,
    pub sig_cred: IndexMap<String, usize>,
}

/// claim labels whose alphabetical order differs from the schema (index) order
pub fn label(i: usize) -> String {
    const L: [&str; 8] = ["zeta", "alpha", "mu", "beta", "omega", "kappa", "eta", "delta"];
    if i < L.len() { L[i].to_string() } else { format!("x{i}") }
}

fn ctype_of(c: &ClaimData) -> ClaimType {
    match c {
        ClaimData::Hashed(_) => ClaimType::Hashed,
        ClaimData::Number(_) => ClaimType::Number,
        ClaimData::Scalar(_) => ClaimType::Scalar,
        ClaimData::Revocation(_) => ClaimType::Revocation,
        ClaimData::Enumeration(_) => ClaimType::Enumeration,
    }
}

pub fn gen_of(kind: &str, tag: &str) -> G1Projective {
    match kind {
        "std" => G1Projective::GENERATOR,
        _ => credx::create_domain_proof_generator(tag.as_bytes()),
    }
}

pub fn build_world<S: ShortGroupSignatureScheme>(v: &Value) -> Result<World<S>, String> {
    let creds_spec = v["creds"].as_array().unwrap();
    let mut issuers: Vec<(IssuerPublic<S>, Issuer<S>)> = vec![];
    let mut issuer_of_key: IndexMap<u64, usize> = IndexMap::new();
    let mut cred_issuer = vec![];
    let mut claims_all = vec![];
    let mut bundles = vec![];
    for (ci, c) in creds_spec.iter().enumerate() {
        let claims: Vec<ClaimData> = c["claims"].as_array().unwrap().iter().map(claim_from).collect();
        let key = c["issuer"].as_u64().unwrap_or(100 + ci as u64);
        let ii = match issuer_of_key.get(&key) {
            Some(i) => *i,
            None => {
                let schema_claims: Vec<ClaimSchema> = claims
                    .iter()
                    .enumerate()
                    .map(|(i, cl)| ClaimSchema { claim_type: ctype_of(cl), label: label(i), print_friendly: true, validators: vec![] })
                    .collect();
                let cs = CredentialSchema::new(Some("schema"), Some("description"), &[], &schema_claims).map_err(|e| format!("{e:?}"))?;
                let (ipub, iss) = Issuer::<S>::new(&cs);
                issuers.push((ipub, iss));
                issuer_of_key.insert(key, issuers.len() - 1);
                issuers.len() - 1
            }
        };
        let b = issuers[ii].1.sign_credential(&claims).map_err(|e| format!("sign: {e:?}"))?;
        bundles.push(b);
        cred_issuer.push(ii);
        claims_all.push(claims);
    }
    // issuer public data must carry the registry value current at presentation time
    let mut credentials: IndexMap<String, PresentationCredential<S>> = IndexMap::new();
    let mut statements: Vec<Statements<S>> = vec![];
    let mut sig_cred: IndexMap<String, usize> = IndexMap::new();
    for st in v["stmts"].as_array().unwrap() {
        if st["k"] == "sig" {
            sig_cred.insert(st["id"].as_str().unwrap().to_string(), st["cred"].as_u64().unwrap() as usize);
        }
    }
    for st in v["stmts"].as_array().unwrap() {
        let id = st["id"].as_str().unwrap().to_string();
        match st["k"].as_str().unwrap() {
            "sig" => {
                let ci = st["cred"].as_u64().unwrap() as usize;
                let ipub = IssuerPublic::from(&issuers[cred_issuer[ci]].1);
                let disclosed: BTreeSet<String> = st["disclosed"].as_array().unwrap().iter().map(|x| label(x.as_u64().unwrap() as usize)).collect();
                statements.push(SignatureStatement { disclosed, id: id.clone(), issuer: ipub }.into());
                credentials.insert(id.clone(), bundles[ci].credential.clone().into());
                sig_cred.insert(id, ci);
            }
            "rev" => {
                let r = st["ref"].as_str().unwrap().to_string();
                let ipub = IssuerPublic::from(&issuers[cred_issuer[sig_cred[&r]]].1);
                statements.push(
                    RevocationStatement { id, reference_id: r, accumulator: ipub.revocation_registry, verification_key: ipub.revocation_verifying_key, claim: st["claim"].as_u64().unwrap_or(0) as usize }
                        .into(),
                );
            }
            "mem" => {
                let r = st["ref"].as_str().unwrap().to_string();
                let claim = st["claim"].as_u64().unwrap() as usize;
                let sk = MembershipSigningKey::new(None);
                let vk = MembershipVerificationKey::from(&sk);
                let registry = MembershipRegistry::random(rand::thread_rng());
                let el = MembershipClaim::from(&claims_all[sig_cred[&r]][claim]).0;
                let mc = MembershipCredential::new(el, registry, &sk);
                statements.push(MembershipStatement { id: id.clone(), reference_id: r, accumulator: registry, verification_key: vk, claim }.into());
                credentials.insert(id, mc.into());
            }
            "eq" => {
                let mut m = IndexMap::new();
                for r in st["refs"].as_array().unwrap() {
                    m.insert(r[0].as_str().unwrap().to_string(), r[1].as_u64().unwrap() as usize);
                }
                statements.push(EqualityStatement { id, ref_id_claim_index: m }.into());
            }
            "comm" => {
                let g = st["gens"].as_str().unwrap_or("hash");
                statements.push(
                    CommitmentStatement {
                        id: id.clone(),
                        reference_id: st["ref"].as_str().unwrap().to_string(),
                        message_generator: gen_of(g, &format!("message generator {id}")),
                        blinder_generator: gen_of("hash", &format!("blinder generator {id}")),
                        claim: st["claim"].as_u64().unwrap() as usize,
                    }
                    .into(),
                );
            }
            "range" => {
                let lo = if st["lo"].is_null() { None } else { Some(i64_of(&st["lo"]) as isize) };
                let hi = if st["hi"].is_null() { None } else { Some(i64_of(&st["hi"]) as isize) };
                statements.push(
                    RangeStatement {
                        id,
                        reference_id: st["ref"].as_str().unwrap().to_string(),
                        signature_id: st["sig"].as_str().unwrap().to_string(),
                        claim: st["claim"].as_u64().unwrap() as usize,
                        lower: lo,
                        upper: hi,
                    }
                    .into(),
                );
            }
            "venc" => {
                let r = st["ref"].as_str().unwrap().to_string();
                let ipub = IssuerPublic::from(&issuers[cred_issuer[sig_cred[&r]]].1);
                statements.push(
                    VerifiableEncryptionStatement {
                        message_generator: gen_of(st["gen"].as_str().unwrap_or("std"), &format!("venc generator {id}")),
                        encryption_key: ipub.verifiable_encryption_key,
                        id,
                        reference_id: r,
                        claim: st["claim"].as_u64().unwrap() as usize,
                        allow_message_decryption: st["dec"].as_bool().unwrap_or(false),
                    }
                    .into(),
                );
            }
            "vdec" => {
                let r = st["ref"].as_str().unwrap().to_string();
                let ipub = IssuerPublic::from(&issuers[cred_issuer[sig_cred[&r]]].1);
                statements.push(
                    VerifiableEncryptionDecryptionStatement {
                        message_generator: gen_of(st["gen"].as_str().unwrap_or("std"), &format!("vdec generator {id}")),
                        encryption_key: ipub.verifiable_encryption_key,
                        id,
                        reference_id: r,
                        claim: st["claim"].as_u64().unwrap() as usize,
                    }
                    .into(),
                );
            }
            k => return Err(format!("unknown statement kind {k}")),
        }
    }
    let schema = PresentationSchema::new_with_id(&statements, v["schema_id"].as_str().unwrap_or("schema-1"));
    let nonce = unhx(&v["nonce"]);
    Ok(World { issuers, cred_issuer, credentials, statements, schema, nonce, claims: claims_all, sig_cred })
}

fn verdict<S: ShortGroupSignatureScheme>(p: &Presentation<S>, schema: &PresentationSchema<S>, nonce: &[u8]) -> &'static str {
    match catch_unwind(AssertUnwindSafe(|| p.verify(schema, nonce))) {
        Ok(Ok(_)) => "ok",
        Ok(Err(_)) => "err",
        Err(_) => "panic",
    }
}

/// every leaf of a JSON tree, as a path
fn leaves(v: &Value, path: &mut Vec<String>, out: &mut Vec<(Vec<String>, Value)>) {
    match v {
        Value::Object(m) => {
            for (k, x) in m {
                path.push(k.clone());
                leaves(x, path, out);
                path.pop();
            }
        }
        Value::Array(a) => {
            for (i, x) in a.iter().enumerate() {
                path.push(i.to_string());
                leaves(x, path, out);
                path.pop();
            }
        }
        other => out.push((path.clone(), other.clone())),
    }
}
fn set_at(v: &mut Value, path: &[String], new: Value) {
    if path.is_empty() {
        *v = new;
        return;
    }
    match v {
        Value::Object(m) => set_at(m.get_mut(&path[0]).unwrap(), &path[1..], new),
        Value::Array(a) => set_at(&mut a[path[0].parse::<usize>().unwrap()], &path[1..], new),
        _ => {}
    }
}

fn mutate_hex(h: &str, kind: &str, rng: &mut ChaCha20Rng, sibling: Option<&str>) -> Option<String> {
    let b = hex::decode(h).ok()?;
    match (b.len(), kind) {
        (32, "random") => {
            let mut w = [0u8; 64];
            rng.fill(&mut w[..]);
            Some(hex::encode(Scalar::from_bytes_wide(&w).to_be_bytes()))
        }
        (32, "zero") => Some(hex::encode([0u8; 32])),
        (32, "neg") => {
            let a: [u8; 32] = b.clone().try_into().ok()?;
            let s = Option::<Scalar>::from(Scalar::from_be_bytes(&a))?;
            Some(hex::encode((-s).to_be_bytes()))
        }
        (32, "plus1") => {
            let a: [u8; 32] = b.clone().try_into().ok()?;
            let s = Option::<Scalar>::from(Scalar::from_be_bytes(&a))?;
            Some(hex::encode((s + Scalar::ONE).to_be_bytes()))
        }
        (48, "random") => {
            let mut w = [0u8; 64];
            rng.fill(&mut w[..]);
            Some(hex::encode((G1Projective::GENERATOR * Scalar::from_bytes_wide(&w)).to_compressed()))
        }
        (48, "zero") => Some(hex::encode(G1Projective::IDENTITY.to_compressed())),
        (48, "neg") => {
            let a: [u8; 48] = b.clone().try_into().ok()?;
            let p = Option::<G1Affine>::from(G1Affine::from_compressed(&a))?;
            Some(hex::encode((-G1Projective::from(p)).to_compressed()))
        }
        (48, "plus1") => {
            let a: [u8; 48] = b.clone().try_into().ok()?;
            let p = Option::<G1Affine>::from(G1Affine::from_compressed(&a))?;
            Some(hex::encode((G1Projective::from(p) + G1Projective::GENERATOR).to_compressed()))
        }
        (96, "random") => {
            let mut w = [0u8; 64];
            rng.fill(&mut w[..]);
            Some(hex::encode((G2Projective::GENERATOR * Scalar::from_bytes_wide(&w)).to_compressed()))
        }
        (96, "zero") => Some(hex::encode(G2Projective::IDENTITY.to_compressed())),
        (96, "neg") => {
            let a: [u8; 96] = b.clone().try_into().ok()?;
            let p = Option::<G2Affine>::from(G2Affine::from_compressed(&a))?;
            Some(hex::encode((-G2Projective::from(p)).to_compressed()))
        }
        (96, "plus1") => {
            let a: [u8; 96] = b.clone().try_into().ok()?;
            let p = Option::<G2Affine>::from(G2Affine::from_compressed(&a))?;
            Some(hex::encode((G2Projective::from(p) + G2Projective::GENERATOR).to_compressed()))
        }
        (_, "sibling") => sibling.filter(|s| s.len() == h.len() && *s != h).map(|s| s.to_string()),
        _ => None,
    }
}

fn case<S: ShortGroupSignatureScheme>(v: &Value) -> Value {
    let w = match build_world::<S>(v) {
        Ok(w) => w,
        Err(e) => return json!({"r":"ok","world":"err","msg":e}),
    };
    let action = v["action"]["k"].as_str().unwrap_or("verify");
    let created = catch_unwind(AssertUnwindSafe(|| Presentation::create(&w.credentials, &w.schema, &w.nonce)));
    let p = match created {
        Ok(Ok(p)) => p,
        Ok(Err(e)) => return json!({"r":"ok","world":"ok","create":"err","msg":format!("{e:?}").chars().take(160).collect::<String>()}),
        Err(_) => return json!({"r":"ok","world":"ok","create":"panic"}),
    };
    let base = verdict(&p, &w.schema, &w.nonce);
    let mut rng = ChaCha20Rng::seed_from_u64(v["seed"].as_u64().unwrap_or(7));
    match action {
        "verify" => {
            let bare = serde_bare::to_vec(&p).ok().and_then(|b| serde_bare::from_slice::<Presentation<S>>(&b).ok().map(|q| (b, q)));
            let v_bare = match &bare {
                Some((b, q)) => {
                    let re = serde_bare::to_vec(q).map(|b2| &b2 == b).unwrap_or(false);
                    json!({"verify": verdict(q, &w.schema, &w.nonce), "reencode_same": re})
                }
                None => json!("codec-err"),
            };
            let cbor = serde_cbor::to_vec(&p).ok().and_then(|b| serde_cbor::from_slice::<Presentation<S>>(&b).ok().map(|q| (b, q)));
            let v_cbor = match &cbor {
                Some((b, q)) => {
                    let re = serde_cbor::to_vec(q).map(|b2| &b2 == b).unwrap_or(false);
                    json!({"verify": verdict(q, &w.schema, &w.nonce), "reencode_same": re})
                }
                None => json!("codec-err"),
            };
            let js = serde_json::to_string(&p).ok().and_then(|s| serde_json::from_str::<Presentation<S>>(&s).ok().map(|q| (s, q)));
            let v_json = match &js {
                Some((s, q)) => {
                    let re = serde_json::to_string(q).map(|s2| &s2 == s).unwrap_or(false);
                    json!({"verify": verdict(q, &w.schema, &w.nonce), "reencode_same": re})
                }
                None => json!("codec-err"),
            };
            // the schema itself must survive the wire as well
            let sch_json = serde_json::to_string(&w.schema).ok().and_then(|s| serde_json::from_str::<PresentationSchema<S>>(&s).ok());
            let v_schema = match &sch_json {
                Some(s2) => json!(verdict(&p, s2, &w.nonce)),
                None => json!("codec-err"),
            };
            json!({"r":"ok","world":"ok","create":"ok","verify":base,"bare":v_bare,"cbor":v_cbor,"json":v_json,"schema_json":v_schema,
                   "n_proofs": p.proofs.len()})
        }
        "tamper" => {
            // single-site mutations of the presentation through its JSON tree; a mutation that fails to decode counts as detected
            let tree = match serde_json::to_value(&p) {
                Ok(t) => t,
                Err(_) => return json!({"r":"ok","world":"ok","create":"ok","verify":base,"tamper":"no-json"}),
            };
            let can_roundtrip = serde_json::from_str::<Presentation<S>>(&tree.to_string()).is_ok();
            let mut ls = vec![];
            leaves(&tree, &mut vec![], &mut ls);
            let max = v["action"]["max"].as_u64().unwrap_or(60) as usize;
            let mut results = vec![];
            let hexleaves: Vec<(Vec<String>, String)> = ls.iter().filter_map(|(p, x)| x.as_str().map(|s| (p.clone(), s.to_string()))).collect();
            let mut order: Vec<usize> = (0..hexleaves.len()).collect();
            // deterministic shuffle
            for i in (1..order.len()).rev() {
                let j = rng.gen_range(0..=i);
                order.swap(i, j);
            }
            for &li in order.iter().take(max) {
                let (path, h) = &hexleaves[li];
                let sib = hexleaves.iter().find(|(p2, h2)| p2 != path && h2.len() == h.len() && h2 != h).map(|(_, h2)| h2.as_str());
                for kind in ["random", "zero", "neg", "plus1", "sibling"] {
                    if let Some(nh) = mutate_hex(h, kind, &mut rng, sib) {
                        if &nh == h {
                            continue;
                        }
                        let mut t2 = tree.clone();
                        set_at(&mut t2, path, json!(nh));
                        let out = match serde_json::from_str::<Presentation<S>>(&t2.to_string()) {
                            Ok(q) => verdict(&q, &w.schema, &w.nonce),
                            Err(_) => "decode-err",
                        };
                        results.push(json!({"path": path.join("/"), "kind": kind, "len": h.len() / 2, "out": out}));
                    }
                }
            }
            // structural mutations: remove each proof; swap two proofs' bodies; drop the disclosed map entry
            for k in p.proofs.keys() {
                let mut q = p.clone();
                q.proofs.shift_remove(k);
                results.push(json!({"path": format!("proofs/{k}"), "kind": "remove-proof", "out": verdict(&q, &w.schema, &w.nonce)}));
            }
            let keys: Vec<String> = p.proofs.keys().cloned().collect();
            if keys.len() >= 2 {
                let mut q = p.clone();
                let a = q.proofs[&keys[0]].clone();
                let b = q.proofs[&keys[1]].clone();
                q.proofs.insert(keys[0].clone(), b);
                q.proofs.insert(keys[1].clone(), a);
                results.push(json!({"path": "proofs", "kind": "swap-proofs", "out": verdict(&q, &w.schema, &w.nonce)}));
            }
            {
                let mut q = p.clone();
                q.challenge += Scalar::ONE;
                results.push(json!({"path": "challenge", "kind": "plus1", "out": verdict(&q, &w.schema, &w.nonce)}));
            }
            for (sid, m) in p.disclosed_messages.iter() {
                for (label, claim) in m.iter() {
                    let mut q = p.clone();
                    let newc: ClaimData = match claim {
                        ClaimData::Number(n) => NumberClaim::from(n.value.wrapping_add(1)).into(),
                        _ => HashedClaim::from("tampered").into(),
                    };
                    q.disclosed_messages.get_mut(sid).unwrap().insert(label.clone(), newc);
                    results.push(json!({"path": format!("disclosed/{sid}/{label}"), "kind": "value", "out": verdict(&q, &w.schema, &w.nonce)}));
                    let mut q = p.clone();
                    let c = q.disclosed_messages.get_mut(sid).unwrap().shift_remove(label).unwrap();
                    q.disclosed_messages.get_mut(sid).unwrap().insert(format!("{label}x"), c);
                    results.push(json!({"path": format!("disclosed/{sid}/{label}"), "kind": "label", "out": verdict(&q, &w.schema, &w.nonce)}));
                }
            }
            // binary encoding: single-byte and single-bit changes of the BARE bytes
            if let Ok(bytes) = serde_bare::to_vec(&p) {
                let nb = v["action"]["bytes"].as_u64().unwrap_or(40) as usize;
                for _ in 0..nb {
                    let pos = rng.gen_range(0..bytes.len());
                    let mut b2 = bytes.clone();
                    let kind = if rng.gen_bool(0.5) {
                        b2[pos] ^= 1 << rng.gen_range(0..8);
                        "bit"
                    } else {
                        let old = b2[pos];
                        let mut nv: u8 = rng.gen();
                        if nv == old {
                            nv = old.wrapping_add(1);
                        }
                        b2[pos] = nv;
                        "byte"
                    };
                    let out = match catch_unwind(AssertUnwindSafe(|| serde_bare::from_slice::<Presentation<S>>(&b2))) {
                        Ok(Ok(q)) => {
                            // a change the decoder normalises away (non-canonical encodings) is not a change of the object
                            if serde_bare::to_vec(&q).map(|b3| b3 == bytes).unwrap_or(false) { "same-object" } else { verdict(&q, &w.schema, &w.nonce) }
                        }
                        Ok(Err(_)) => "decode-err",
                        Err(_) => "decode-panic",
                    };
                    results.push(json!({"path": format!("bare[{pos}]"), "kind": kind, "out": out}));
                }
            }
            json!({"r":"ok","world":"ok","create":"ok","verify":base,"json_roundtrip":can_roundtrip,"tamper":results,"n_leaves":hexleaves.len()})
        }
        _ => json!({"r":"ok","world":"ok","create":"ok","verify":base}),
    }
}

pub fn run(_op: &str, v: &Value) -> Value {
    if v["suite"].as_str() == Some("ps") { case::<PsScheme>(v) } else { case::<BbsScheme>(v) }
}

#[allow(dead_code)]
fn _unused(_: vb20::Element) {}
