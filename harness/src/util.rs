use blsful::inner_types::Scalar;
use serde_json::Value;

pub fn hx(b: &[u8]) -> String {
    hex::encode(b)
}
pub fn unhx(v: &Value) -> Vec<u8> {
    hex::decode(v.as_str().expect("hex string")).expect("hex")
}
pub fn sc_hex(s: &Scalar) -> String {
    hex::encode(s.to_be_bytes())
}
/// Scalar from 32 big-endian bytes given as hex; None if not canonical.
pub fn sc_from_hex(v: &Value) -> Option<Scalar> {
    let b = unhx(v);
    let a: [u8; 32] = b.try_into().ok()?;
    Option::<Scalar>::from(Scalar::from_be_bytes(&a))
}
pub fn i64_of(v: &Value) -> i64 {
    match v {
        Value::String(s) => s.parse::<i64>().expect("i64"),
        _ => v.as_i64().expect("i64"),
    }
}
pub fn u64_of(v: &Value) -> u64 {
    match v {
        Value::String(s) => s.parse::<u64>().expect("u64"),
        _ => v.as_u64().expect("u64"),
    }
}

pub static LAST_PANIC: std::sync::Mutex<String> = std::sync::Mutex::new(String::new());
/// location and message of the most recent panic (set by the panic hook)
pub fn last_panic() -> String {
    LAST_PANIC.lock().map(|s| s.clone()).unwrap_or_default()
}
