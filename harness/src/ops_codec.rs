//! d_codec_samples / d_codec_dec: the hand-written byte codecs of keys, signatures, contexts and proofs
//! (C19 round trips, C20 totality on arbitrary bytes).
use crate::ops_adv::{fj, tj};
use crate::ops_issue::claim_from;
use crate::util::last_panic;
use credx::blind::BlindCredentialRequest;
use credx::claim::*;
use credx::credential::{ClaimSchema, CredentialSchema};
use credx::issuer::Issuer;
use credx::knox::accumulator::vb20;
use credx::knox::bbs::BbsScheme;
use credx::knox::ps::PsScheme;
use credx::knox::short_group_sig_core::short_group_traits::ShortGroupSignatureScheme;
use credx::knox::{bbs, ps};
use credx::presentation::*;
use credx::statement::*;
use indexmap::IndexMap;
use serde_json::{json, Value};
use std::collections::{BTreeMap, BTreeSet};
use std::panic::{catch_unwind, AssertUnwindSafe};

fn ctype_of(c: &ClaimData) -> ClaimType {
    match c {
        ClaimData::Hashed(_) => ClaimType::Hashed,
        ClaimData::Number(_) => ClaimType::Number,
        ClaimData::Scalar(_) => ClaimType::Scalar,
        ClaimData::Revocation(_) => ClaimType::Revocation,
        ClaimData::Enumeration(_) => ClaimType::Enumeration,
    }
}

/// JSON leaves of one issuer / credential / presentation / blind request, by name
fn leaves<S: ShortGroupSignatureScheme>(v: &Value) -> Result<BTreeMap<&'static str, Value>, String> {
    let claims: Vec<ClaimData> = v["claims"].as_array().unwrap().iter().map(claim_from).collect();
    let n = claims.len();
    let labels: Vec<String> = (0..n).map(|i| format!("l{i}")).collect();
    let disclosed: BTreeSet<String> = v["disclosed"].as_array().map(|a| a.iter().map(|x| labels[x.as_u64().unwrap() as usize].clone()).collect()).unwrap_or_default();
    let hidden: Vec<usize> = v["blind"].as_array().map(|a| a.iter().map(|x| x.as_u64().unwrap() as usize).collect()).unwrap_or_default();
    let schema_claims: Vec<ClaimSchema> = claims.iter().zip(labels.iter()).map(|(c, l)| ClaimSchema { claim_type: ctype_of(c), label: l.clone(), print_friendly: true, validators: vec![] }).collect();
    let bl: Vec<&str> = hidden.iter().map(|i| labels[*i].as_str()).collect();
    let cs = CredentialSchema::new(Some("s"), None, &bl, &schema_claims).map_err(|e| format!("{e:?}"))?;
    let (ipub, mut issuer) = Issuer::<S>::new(&cs);
    let bundle = issuer.sign_credential(&claims).map_err(|e| format!("{e:?}"))?;
    let mut out = BTreeMap::new();
    out.insert("sk", tj(&issuer.signing_key));
    out.insert("pk", tj(&ipub.verifying_key));
    out.insert("sig", tj(&bundle.credential.signature));
    // presentation with a revocation statement: signature proof of knowledge + accumulator proof
    let ipub2 = credx::issuer::IssuerPublic::from(&issuer);
    let sig_st = SignatureStatement { disclosed, id: "s".to_string(), issuer: ipub2.clone() };
    let rev_st = RevocationStatement { id: "r".to_string(), reference_id: "s".to_string(), accumulator: ipub2.revocation_registry, verification_key: ipub2.revocation_verifying_key, claim: 0 };
    let schema = if v["norev"] == true { PresentationSchema::new(&[sig_st.into()]) } else { PresentationSchema::new(&[sig_st.into(), rev_st.into()]) };
    let mut creds: IndexMap<String, PresentationCredential<S>> = IndexMap::new();
    creds.insert("s".to_string(), bundle.credential.clone().into());
    let p = Presentation::create(&creds, &schema, b"nonce").map_err(|e| format!("{e:?}"))?;
    for (_, pr) in &p.proofs {
        match pr {
            PresentationProofs::Signature(sp) => {
                out.insert("pok", tj(&sp.pok));
            }
            PresentationProofs::Revocation(rp) => {
                out.insert("acc", tj(&rp.proof));
            }
            _ => {}
        }
    }
    if !hidden.is_empty() {
        let blind_claims: BTreeMap<String, ClaimData> = hidden.iter().map(|&i| (labels[i].clone(), claims[i].clone())).collect();
        let known: BTreeMap<String, ClaimData> = (0..n).filter(|i| !hidden.contains(i)).map(|i| (labels[i].clone(), claims[i].clone())).collect();
        // a fresh identifier is needed for the second issuance: replace the revocation claim
        let (req, _blinder) = BlindCredentialRequest::<S>::new(&ipub, &blind_claims).map_err(|e| format!("{e:?}"))?;
        out.insert("ctx", tj(&req.blind_signature_context));
        let mut known2 = known.clone();
        for (_, c) in known2.iter_mut() {
            if let ClaimData::Revocation(r) = c {
                r.value = format!("{}-b", r.value);
            }
        }
        if let Ok(bb) = issuer.blind_sign_credential(&req, &known2) {
            out.insert("bsig", tj(&bb.credential.signature));
        }
    }
    Ok(out)
}

fn enc_ps(name: &str, j: &Value) -> Option<Vec<u8>> {
    Some(match name {
        "sk" => fj::<ps::SecretKey>(j).to_bytes(),
        "pk" => fj::<ps::PublicKey>(j).to_bytes(),
        "sig" => fj::<ps::Signature>(j).to_bytes().to_vec(),
        "pok" => fj::<ps::PokSignatureProof>(j).to_bytes(),
        "ctx" => fj::<ps::BlindSignatureContext>(j).to_bytes(),
        "bsig" => fj::<ps::BlindSignature>(j).to_bytes().to_vec(),
        "acc" => fj::<vb20::MembershipProof>(j).to_bytes().to_vec(),
        _ => return None,
    })
}
fn enc_bbs(name: &str, j: &Value) -> Option<Vec<u8>> {
    Some(match name {
        "sk" => fj::<bbs::SecretKey>(j).to_bytes(),
        "pk" => fj::<bbs::PublicKey>(j).to_bytes(),
        "sig" => fj::<bbs::Signature>(j).to_bytes(),
        "pok" => fj::<bbs::PokSignatureProof>(j).to_bytes(),
        "acc" => fj::<vb20::MembershipProof>(j).to_bytes().to_vec(),
        _ => return None,
    })
}

/// decode -> (re-encoded bytes, JSON of the decoded object)
fn dec(suite: &str, name: &str, b: &[u8]) -> Option<(Vec<u8>, Value)> {
    fn arr<const N: usize>(b: &[u8]) -> Option<[u8; N]> {
        <[u8; N]>::try_from(b).ok()
    }
    match (suite, name) {
        ("ps", "sk") => ps::SecretKey::from_bytes(b).map(|x| (x.to_bytes(), tj(&x))),
        ("ps", "pk") => ps::PublicKey::from_bytes(b).map(|x| (x.to_bytes(), tj(&x))),
        ("ps", "sig") => arr::<128>(b).and_then(|a| Option::<ps::Signature>::from(ps::Signature::from_bytes(&a))).map(|x| (x.to_bytes().to_vec(), tj(&x))),
        ("ps", "pok") => ps::PokSignatureProof::from_bytes(b).map(|x| (x.to_bytes(), tj(&x))),
        ("ps", "ctx") => ps::BlindSignatureContext::from_bytes(b).map(|x| (x.to_bytes(), tj(&x))),
        ("ps", "bsig") => arr::<128>(b).and_then(|a| Option::<ps::BlindSignature>::from(ps::BlindSignature::from_bytes(&a))).map(|x| (x.to_bytes().to_vec(), tj(&x))),
        ("bbs", "sk") => bbs::SecretKey::from_bytes(b).map(|x| (x.to_bytes(), tj(&x))),
        ("bbs", "pk") => bbs::PublicKey::from_bytes(b).map(|x| (x.to_bytes(), tj(&x))),
        ("bbs", "sig") => bbs::Signature::from_bytes(b).map(|x| (x.to_bytes(), tj(&x))),
        ("bbs", "pok") => bbs::PokSignatureProof::from_bytes(b).map(|x| (x.to_bytes(), tj(&x))),
        // the compact form of a BBS public key (the point and the number of messages) as received from another party, expanded
        ("bbs", "cpk") => bbs::CompressedPublicKey::from_bytes(b).map(|c| {
            let pk = c.decompress();
            (Vec::<u8>::from(pk.compress()), tj(&pk))
        }),
        (_, "acc") => arr::<304>(b).and_then(|a| vb20::MembershipProof::from_bytes(&a).ok()).map(|x| (x.to_bytes().to_vec(), tj(&x))),
        _ => None,
    }
}

pub fn run(op: &str, v: &Value) -> Value {
    let suite = v["suite"].as_str().unwrap_or("bbs");
    match op {
        "d_codec_samples" => {
            let l = if suite == "ps" { leaves::<PsScheme>(v) } else { leaves::<BbsScheme>(v) };
            let l = match l {
                Ok(l) => l,
                Err(e) => return json!({"r":"err","msg":e}),
            };
            let mut out = serde_json::Map::new();
            for (name, j) in &l {
                let e = catch_unwind(AssertUnwindSafe(|| if suite == "ps" { enc_ps(name, j) } else { enc_bbs(name, j) }));
                match e {
                    Ok(Some(b)) => {
                        out.insert(name.to_string(), json!({"b": hex::encode(b), "json": j}));
                    }
                    Ok(None) => {}
                    Err(_) => {
                        out.insert(name.to_string(), json!({"enc":"panic","at":last_panic()}));
                    }
                }
            }
            json!({"r":"ok","samples":out})
        }
        "d_codec_cpk" => {
            // the compact encoding of a fresh BBS key for [n] messages
            let n = v["n"].as_u64().unwrap_or(3) as usize;
            let sk = bbs::SecretKey::random(std::num::NonZeroUsize::new(n.max(1)).unwrap(), rand::thread_rng());
            let c = bbs::CompressedPublicKey::from(&sk);
            json!({"r":"ok","b": hex::encode(Vec::<u8>::from(c))})
        }
        "d_codec_dec" => {
            let name = v["codec"].as_str().unwrap_or("");
            let b = hex::decode(v["b"].as_str().unwrap_or("")).unwrap_or_default();
            match catch_unwind(AssertUnwindSafe(|| dec(suite, name, &b))) {
                Ok(Some((re, j))) => json!({"r":"ok","re":hex::encode(re),"json":j}),
                Ok(None) => json!({"r":"none"}),
                Err(_) => json!({"r":"panic","at":last_panic()}),
            }
        }
        "d_codec_points" => {
            // which 48- / 96-byte windows (at offsets that are multiples of 4) decode as compressed points
            use blsful::inner_types::{G1Affine, G2Affine};
            let b = hex::decode(v["b"].as_str().unwrap_or("")).unwrap_or_default();
            let mut g1 = std::collections::BTreeSet::new();
            let mut g2 = std::collections::BTreeSet::new();
            let mut o = 0;
            while o + 48 <= b.len() {
                let a: [u8; 48] = b[o..o + 48].try_into().unwrap();
                if bool::from(G1Affine::from_compressed(&a).is_some()) {
                    g1.insert(hex::encode(a));
                }
                if o + 96 <= b.len() {
                    let a2: [u8; 96] = b[o..o + 96].try_into().unwrap();
                    if bool::from(G2Affine::from_compressed(&a2).is_some()) {
                        g2.insert(hex::encode(a2));
                    }
                }
                o += 4;
            }
            json!({"r":"ok","g1":g1.into_iter().collect::<Vec<_>>(),"g2":g2.into_iter().collect::<Vec<_>>()})
        }
        _ => json!({"r":"harness-error","msg":"unknown codec op"}),
    }
}
