//! f_issue: Issuer::sign_credential on arbitrary (schema, claim vector, registry state);
//! f_schema_new: CredentialSchema::new on arbitrary label / blindable lists.
use crate::util::*;
use blsful::inner_types::*;
use credx::claim::*;
use credx::credential::{ClaimSchema, CredentialSchema};
use credx::issuer::Issuer;
use credx::knox::accumulator::vb20::{Element, PublicKey as AccPk};
use credx::knox::bbs::BbsScheme;
use credx::knox::ps::PsScheme;
use credx::knox::short_group_sig_core::short_group_traits::{ShortGroupSignatureScheme, Signature as SigTrait};
use serde_json::{json, Value};
use std::panic::{catch_unwind, AssertUnwindSafe};

pub fn claim_from(v: &Value) -> ClaimData {
    match v["t"].as_str().unwrap() {
        "h" => HashedClaim { value: unhx(&v["hex"]), print_friendly: v["pf"].as_bool().unwrap_or(false) }.into(),
        "n" => NumberClaim::from(i64_of(&v["v"]) as isize).into(),
        "s" => ScalarClaim::from(sc_from_hex(&v["hex"]).expect("scalar")).into(),
        "r" => RevocationClaim::from(v["s"].as_str().unwrap()).into(),
        "e" => EnumerationClaim { dst: v["dst"].as_str().unwrap().to_string(), value: v["v"].as_u64().unwrap() as u8, total_values: v["total"].as_u64().unwrap() as usize }.into(),
        _ => panic!("claim kind"),
    }
}
pub fn ctype(s: &str) -> ClaimType {
    match s {
        "h" => ClaimType::Hashed,
        "n" => ClaimType::Number,
        "s" => ClaimType::Scalar,
        "r" => ClaimType::Revocation,
        "e" => ClaimType::Enumeration,
        _ => ClaimType::Unknown,
    }
}
pub fn validator(v: &Value) -> ClaimValidator {
    match v["k"].as_str().unwrap() {
        "len" => ClaimValidator::Length { min: v["min"].as_u64().map(|x| x as usize), max: v["max"].as_u64().map(|x| x as usize) },
        "range" => ClaimValidator::Range {
            min: if v["min"].is_null() { None } else { Some(i64_of(&v["min"]) as isize) },
            max: if v["max"].is_null() { None } else { Some(i64_of(&v["max"]) as isize) },
        },
        "regex" => ClaimValidator::regex_from_string(v["rx"].as_str().unwrap()).expect("regex"),
        "anyone" => ClaimValidator::AnyOne(v["claims"].as_array().unwrap().iter().map(claim_from).collect()),
        _ => panic!("validator kind"),
    }
}

fn issue_case<S: ShortGroupSignatureScheme>(v: &Value) -> Value {
    let spec = v["schema"].as_array().unwrap();
    let schema_claims: Vec<ClaimSchema> = spec
        .iter()
        .enumerate()
        .map(|(i, s)| ClaimSchema {
            claim_type: ctype(s["t"].as_str().unwrap()),
            label: format!("l{i}"),
            print_friendly: true,
            validators: s["validators"].as_array().unwrap().iter().map(validator).collect(),
        })
        .collect();
    let cs = match CredentialSchema::new(Some("s"), None, &[], &schema_claims) {
        Ok(c) => c,
        Err(_) => return json!({"r":"ok","schema":"err"}),
    };
    let (ipub, mut issuer) = Issuer::<S>::new(&cs);
    let claims: Vec<ClaimData> = v["claims"].as_array().unwrap().iter().map(claim_from).collect();
    // independent evaluation of every regex validator on the claim at its position (oracle table for the model)
    let mut rx_table = vec![];
    let mut rid = 0usize;
    for (i, s) in spec.iter().enumerate() {
        for val in s["validators"].as_array().unwrap() {
            if val["k"] == "regex" {
                let re = regex::Regex::new(val["rx"].as_str().unwrap()).unwrap();
                let m = match claims.get(i) {
                    Some(ClaimData::Hashed(h)) => std::str::from_utf8(&h.value).map(|s| re.is_match(s)).unwrap_or(false),
                    Some(ClaimData::Revocation(r)) => re.is_match(&r.value),
                    _ => false,
                };
                rx_table.push(json!([rid, m]));
                rid += 1;
            }
        }
    }
    // registry state before the call: 0 fresh, 1 the identifier was issued, 2 issued and revoked
    let state = v["state"].as_u64().unwrap_or(0);
    let rev_id = claims.iter().find_map(|c| if let ClaimData::Revocation(r) = c { Some(r.value.clone()) } else { None });
    if state >= 1 {
        if let Some(id) = &rev_id {
            issuer.revocation_registry.elements.insert(id.clone());
            issuer.revocation_registry.active.insert(id.clone());
            if state >= 2 {
                let _ = issuer.revoke_credentials(&[RevocationClaim::from(id.as_str())]);
            }
        }
    }
    if v["blind"] == true {
        return json!({"r":"harness-error","msg":"blind cases go through blind_issue_case"});
    }
    let before = (issuer.revocation_registry.elements.clone(), issuer.revocation_registry.active.clone(), issuer.revocation_registry.value);
    let r = catch_unwind(AssertUnwindSafe(|| issuer.sign_credential(&claims)));
    let after = (issuer.revocation_registry.elements.clone(), issuer.revocation_registry.active.clone(), issuer.revocation_registry.value);
    match r {
        Err(_) => json!({"r":"ok","impl":"panic","rx":rx_table}),
        Ok(Err(_)) => json!({"r":"ok","impl":"err","rx":rx_table,"unchanged": before == after}),
        Ok(Ok(b)) => {
            let msgs: Vec<Scalar> = claims.iter().map(|c| c.to_scalar()).collect();
            let sig_ok = b.credential.signature.verify(&ipub.verifying_key, &msgs).is_ok();
            let idx = b.credential.revocation_index;
            let handle_ok = b.credential.revocation_handle.verify(Element(msgs[idx]), AccPk::from(&issuer.revocation_key), issuer.revocation_registry.value);
            let id = rev_id.clone().unwrap_or_default();
            let recorded = issuer.revocation_registry.active.contains(&id) && issuer.revocation_registry.elements.contains(&id);
            let claims_same = b.credential.claims == claims;
            json!({"r":"ok","impl":"ok","rx":rx_table,"sig_ok":sig_ok,"handle_ok":handle_ok,"recorded":recorded,"claims_same":claims_same,
                   "value_same": before.2 == after.2, "rev_index_ok": matches!(claims.get(idx), Some(ClaimData::Revocation(_)))})
        }
    }
}

/// The same vectors through blind issuance: the schema gets one more claim (Hashed, no validators, declared
/// blindable) that an honest holder hides; the vector is what the issuer supplies itself.
fn blind_issue_case<S: ShortGroupSignatureScheme>(v: &Value) -> Value {
    use credx::blind::BlindCredentialRequest;
    use std::collections::BTreeMap;
    let spec = v["schema"].as_array().unwrap();
    let n = spec.len();
    let mut schema_claims: Vec<ClaimSchema> = spec
        .iter()
        .enumerate()
        .map(|(i, s)| ClaimSchema {
            claim_type: ctype(s["t"].as_str().unwrap()),
            label: format!("l{i}"),
            print_friendly: true,
            validators: s["validators"].as_array().unwrap().iter().map(validator).collect(),
        })
        .collect();
    let hidden_label = format!("l{n}");
    schema_claims.push(ClaimSchema { claim_type: ClaimType::Hashed, label: hidden_label.clone(), print_friendly: true, validators: vec![] });
    let cs = match CredentialSchema::new(Some("s"), None, &[hidden_label.as_str()], &schema_claims) {
        Ok(c) => c,
        Err(_) => return json!({"r":"ok","schema":"err"}),
    };
    let (ipub, mut issuer) = Issuer::<S>::new(&cs);
    let claims: Vec<ClaimData> = v["claims"].as_array().unwrap().iter().map(claim_from).collect();
    let mut rx_table = vec![];
    let mut rid = 0usize;
    for (i, s) in spec.iter().enumerate() {
        for val in s["validators"].as_array().unwrap() {
            if val["k"] == "regex" {
                let re = regex::Regex::new(val["rx"].as_str().unwrap()).unwrap();
                let m = match claims.get(i) {
                    Some(ClaimData::Hashed(h)) => std::str::from_utf8(&h.value).map(|s| re.is_match(s)).unwrap_or(false),
                    Some(ClaimData::Revocation(r)) => re.is_match(&r.value),
                    _ => false,
                };
                rx_table.push(json!([rid, m]));
                rid += 1;
            }
        }
    }
    // registry state before the call, for every identifier in the vector: 0 fresh, 1 issued, 2 issued and revoked
    let state = v["state"].as_u64().unwrap_or(0);
    let ids: Vec<String> = claims.iter().filter_map(|c| if let ClaimData::Revocation(r) = c { Some(r.value.clone()) } else { None }).collect::<std::collections::BTreeSet<_>>().into_iter().collect();
    if state >= 1 {
        for id in &ids {
            issuer.revocation_registry.elements.insert(id.clone());
            issuer.revocation_registry.active.insert(id.clone());
        }
        if state >= 2 {
            let rc: Vec<RevocationClaim> = ids.iter().map(|id| RevocationClaim::from(id.as_str())).collect();
            let _ = issuer.revoke_credentials(&rc);
        }
    }
    let hidden: ClaimData = HashedClaim { value: b"the holder's secret".to_vec(), print_friendly: true }.into();
    let blind_claims: BTreeMap<String, ClaimData> = [(hidden_label.clone(), hidden.clone())].into_iter().collect();
    let known: BTreeMap<String, ClaimData> = claims.iter().enumerate().map(|(i, c)| (format!("l{i}"), c.clone())).collect();
    let (req, blinder) = match catch_unwind(AssertUnwindSafe(|| BlindCredentialRequest::<S>::new(&ipub, &blind_claims))) {
        Ok(Ok(x)) => x,
        _ => return json!({"r":"harness-error","msg":"honest blind request failed"}),
    };
    let before = (issuer.revocation_registry.elements.clone(), issuer.revocation_registry.active.clone(), issuer.revocation_registry.value);
    let r = catch_unwind(AssertUnwindSafe(|| issuer.blind_sign_credential(&req, &known)));
    let after = (issuer.revocation_registry.elements.clone(), issuer.revocation_registry.active.clone(), issuer.revocation_registry.value);
    match r {
        Err(_) => json!({"r":"ok","impl":"panic","rx":rx_table}),
        Ok(Err(_)) => json!({"r":"ok","impl":"err","rx":rx_table,"unchanged": before == after}),
        Ok(Ok(b)) => {
            // the last revocation claim in label order is the credential's identifier
            let id = known.values().filter_map(|c| if let ClaimData::Revocation(r) = c { Some(r.value.clone()) } else { None }).last().unwrap_or_default();
            let recorded = issuer.revocation_registry.active.contains(&id) && issuer.revocation_registry.elements.contains(&id);
            match catch_unwind(AssertUnwindSafe(|| b.to_unblinded(&blind_claims, blinder))) {
                Ok(Ok(cb)) => {
                    let msgs: Vec<Scalar> = cb.credential.claims.iter().map(|c| c.to_scalar()).collect();
                    let sig_ok = cb.credential.signature.verify(&ipub.verifying_key, &msgs).is_ok();
                    let idx = cb.credential.revocation_index;
                    let handle_ok = idx < msgs.len() && cb.credential.revocation_handle.verify(Element(msgs[idx]), AccPk::from(&issuer.revocation_key), issuer.revocation_registry.value);
                    let mut all = claims.clone();
                    all.push(hidden);
                    json!({"r":"ok","impl":"ok","rx":rx_table,"sig_ok":sig_ok,"handle_ok":handle_ok,"recorded":recorded,"claims_same": cb.credential.claims == all,
                           "value_same": before.2 == after.2, "rev_index_ok": matches!(all.get(idx), Some(ClaimData::Revocation(r)) if r.value == id)})
                }
                Ok(Err(_)) => json!({"r":"ok","impl":"ok","rx":rx_table,"unblind":"err"}),
                Err(_) => json!({"r":"ok","impl":"ok","rx":rx_table,"unblind":"panic"}),
            }
        }
    }
}

fn schema_new_case(v: &Value) -> Value {
    let labels: Vec<String> = v["labels"].as_array().unwrap().iter().map(|x| x.as_str().unwrap().to_string()).collect();
    let blind: Vec<String> = v["blind"].as_array().unwrap().iter().map(|x| x.as_str().unwrap().to_string()).collect();
    let claims: Vec<ClaimSchema> = labels
        .iter()
        .map(|l| ClaimSchema { claim_type: ClaimType::Hashed, label: l.clone(), print_friendly: true, validators: vec![] })
        .collect();
    let b: Vec<&str> = blind.iter().map(|s| s.as_str()).collect();
    let r = catch_unwind(AssertUnwindSafe(|| CredentialSchema::new(Some("s"), None, &b, &claims).is_ok()));
    json!({"r":"ok","impl": match r { Ok(true) => "ok", Ok(false) => "err", Err(_) => "panic" }})
}

pub fn run(op: &str, v: &Value) -> Value {
    match op {
        "f_schema_new" => schema_new_case(v),
        _ if v["blind"] == true => if v["suite"].as_str() == Some("ps") { blind_issue_case::<PsScheme>(v) } else { blind_issue_case::<BbsScheme>(v) },
        _ => if v["suite"].as_str() == Some("ps") { issue_case::<PsScheme>(v) } else { issue_case::<BbsScheme>(v) },
    }
}
