//! Data-layer operations (claim encodings and codecs): C18, C20 (text/byte parsers).
use crate::util::*;
use credx::claim::*;
use serde_json::{json, Value};
use sha3::digest::{ExtendableOutput, Update, XofReader};

fn claim_json(c: &ClaimData) -> Value {
    match c {
        ClaimData::Hashed(h) => json!({"t":"hashed","v":hx(&h.value),"pf":h.print_friendly}),
        ClaimData::Number(n) => json!({"t":"number","v":(n.value as i64).to_string()}),
        ClaimData::Scalar(s) => json!({"t":"scalar","v":sc_hex(&s.value)}),
        ClaimData::Revocation(r) => json!({"t":"revocation","v":hx(r.value.as_bytes())}),
        ClaimData::Enumeration(e) => {
            json!({"t":"enumeration","dst":hx(e.dst.as_bytes()),"v":e.value,"total":e.total_values.to_string()})
        }
    }
}

/// Build a claim from its JSON description; None when the description is not constructible
/// (e.g. a non-canonical scalar or a non-UTF-8 string for a String field).
pub fn claim_of(v: &Value) -> Option<ClaimData> {
    Some(match v["t"].as_str()? {
        "hashed" => ClaimData::Hashed(HashedClaim {
            value: unhx(&v["v"]),
            print_friendly: v["pf"].as_bool().unwrap_or(false),
        }),
        "number" => ClaimData::Number(NumberClaim { value: i64_of(&v["v"]) as isize }),
        "scalar" => ClaimData::Scalar(ScalarClaim { value: sc_from_hex(&v["v"])? }),
        "revocation" => ClaimData::Revocation(RevocationClaim {
            value: String::from_utf8(unhx(&v["v"])).ok()?,
        }),
        "enumeration" => ClaimData::Enumeration(EnumerationClaim {
            dst: String::from_utf8(unhx(&v["dst"])).ok()?,
            value: v["v"].as_u64()? as u8,
            total_values: u64_of(&v["total"]) as usize,
        }),
        _ => return None,
    })
}

fn claim_type_of(s: &str) -> ClaimType {
    match s {
        "hashed" => ClaimType::Hashed,
        "number" => ClaimType::Number,
        "scalar" => ClaimType::Scalar,
        "revocation" => ClaimType::Revocation,
        "enumeration" => ClaimType::Enumeration,
        _ => ClaimType::Unknown,
    }
}

fn shake_wide(pre: &[u8]) -> blsful::inner_types::Scalar {
    let mut h = sha3::Shake256::default();
    h.update(pre);
    let mut okm = [0u8; 64];
    h.finalize_xof().read(&mut okm);
    blsful::inner_types::Scalar::from_bytes_wide(&okm)
}

pub fn run(op: &str, v: &Value) -> Value {
    match op {
        // claim -> scalar (the signed encoding)
        "d_to_scalar" => match claim_of(&v["c"]) {
            Some(c) => json!({"r":"ok","s":sc_hex(&c.to_scalar())}),
            None => json!({"r":"skip"}),
        },
        // scalar -> number claim
        "d_num_from_scalar" => match sc_from_hex(&v["s"]) {
            Some(s) => json!({"r":"ok","v":(NumberClaim::from(s).value as i64).to_string()}),
            None => json!({"r":"skip"}),
        },
        // independent SHAKE-256 / from_bytes_wide of a pre-image printed by the model
        "d_shake" => json!({"r":"ok","s":sc_hex(&shake_wide(&unhx(&v["pre"])))}),
        "d_encode_str" => {
            let b = unhx(&v["b"]);
            match std::str::from_utf8(&b) {
                Ok(s) => match ScalarClaim::encode_str(s) {
                    Ok(c) => json!({"r":"ok","s":sc_hex(&c.value)}),
                    Err(_) => json!({"r":"err"}),
                },
                Err(_) => json!({"r":"skip"}),
            }
        }
        "d_encode_bytes" => match ScalarClaim::encode_bytes(&unhx(&v["b"])) {
            Ok(c) => json!({"r":"ok","s":sc_hex(&c.value)}),
            Err(_) => json!({"r":"err"}),
        },
        "d_decode_str" => match sc_from_hex(&v["s"]) {
            Some(s) => match (ScalarClaim { value: s }).decode_to_str() {
                Ok(t) => json!({"r":"ok","b":hx(t.as_bytes())}),
                Err(_) => json!({"r":"err"}),
            },
            None => json!({"r":"skip"}),
        },
        "d_decode_bytes" => match sc_from_hex(&v["s"]) {
            Some(s) => match (ScalarClaim { value: s }).decode_to_bytes() {
                Ok(t) => json!({"r":"ok","b":hx(&t)}),
                Err(_) => json!({"r":"err"}),
            },
            None => json!({"r":"skip"}),
        },
        "d_to_bytes" => match claim_of(&v["c"]) {
            Some(c) => json!({"r":"ok","b":hx(&c.to_bytes())}),
            None => json!({"r":"skip"}),
        },
        "d_from_bytes" => {
            let t = claim_type_of(v["t"].as_str().unwrap_or(""));
            match ClaimData::from_bytes(t, &unhx(&v["b"])) {
                Ok(c) => json!({"r":"ok","c":claim_json(&c)}),
                Err(_) => json!({"r":"err"}),
            }
        }
        "d_to_text" => match claim_of(&v["c"]) {
            Some(c) => json!({"r":"ok","b":hx(c.to_text().as_bytes())}),
            None => json!({"r":"skip"}),
        },
        "d_from_text" => {
            let b = unhx(&v["b"]);
            match std::str::from_utf8(&b) {
                Ok(s) => match ClaimData::from_text(s) {
                    Ok(c) => json!({"r":"ok","c":claim_json(&c)}),
                    Err(_) => json!({"r":"err"}),
                },
                Err(_) => json!({"r":"skip"}),
            }
        }
        _ => json!({"r":"harness-error","msg":format!("unknown data op {op}")}),
    }
}
