//! f_vdec: a hand-written holder for a [signature, encrypt-and-decrypt] schema that follows Presentation::create step by
//! step except for the text it puts into the symmetric (AES-GCM) part and the generator it lets the proof carry
//! (adapted from the demonstration of seed C10-f).  The variant that does not deviate is the calibration case: it must be
//! accepted and decrypt to the signed claim, else holder and library have drifted apart.
use crate::ops_issue::claim_from;
use aes_gcm::aead::{Aead, Payload};
use aes_gcm::{Aes128Gcm, KeyInit, Nonce};
use blsful::inner_types::*;
use bulletproofs::{BulletproofGens, PedersenGens, RangeProof};
use credx::claim::{ClaimData, ClaimType};
use credx::credential::{ClaimSchema, Credential, CredentialSchema};
use credx::issuer::Issuer;
use credx::knox::bbs::BbsScheme;
use credx::knox::ps::PsScheme;
use credx::knox::short_group_sig_core::short_group_traits::{ProofOfSignatureKnowledgeContribution, ShortGroupSignatureScheme};
use credx::knox::short_group_sig_core::{HiddenMessage, ProofMessage};
use credx::presentation::*;
use credx::statement::*;
use indexmap::{indexmap, IndexMap};
use merlin::Transcript;
use rand::rngs::OsRng;
use rand_core::RngCore;
use serde_json::{json, Value};
use std::collections::BTreeSet;
use std::panic::{catch_unwind, AssertUnwindSafe};
use uint_zigzag::Uint;

/// `Presentation::add_curve_parameters_challenge_contribution`
fn add_curve_parameters(transcript: &mut Transcript) {
    transcript.append_message(b"curve name", b"BLS12-381");
    transcript.append_message(
        b"curve G1 generator",
        G1Affine::generator().to_compressed().as_slice(),
    );
    transcript.append_message(
        b"curve G2 generator",
        G2Affine::generator().to_compressed().as_slice(),
    );
    transcript.append_message(
        b"subgroup size",
        &[
            0x73, 0xed, 0xa7, 0x53, 0x29, 0x9d, 0x7d, 0x48, 0x33, 0x39, 0xd8, 0x08, 0x09, 0xa1,
            0xd8, 0x05, 0x53, 0xbd, 0xa4, 0x02, 0xff, 0xfe, 0x5b, 0xfe, 0xff, 0xff, 0xff, 0xff,
            0x00, 0x00, 0x00, 0x01,
        ],
    );
    transcript.append_message(
        b"field modulus",
        &[
            0x1a, 0x01, 0x11, 0xea, 0x39, 0x7f, 0xe6, 0x9a, 0x4b, 0x1b, 0xa7, 0xb6, 0x43, 0x4b,
            0xac, 0xd7, 0x64, 0x77, 0x4b, 0x84, 0xf3, 0x85, 0x12, 0xbf, 0x67, 0x30, 0xd2, 0xa0,
            0xf6, 0xb0, 0xf6, 0x24, 0x1e, 0xab, 0xff, 0xfe, 0xb1, 0x53, 0xff, 0xff, 0xb9, 0xfe,
            0xff, 0xff, 0xff, 0xff, 0xaa, 0xab,
        ],
    );
}

/// How the deviating holder treats the generator it carries in the proof
#[derive(Copy, Clone, Debug, PartialEq)]
enum Carried {
    /// the proof carries the statement's generator (no deviation in this respect)
    Statements,
    /// the proof carries H' and the holder's transcript is the one of the original protocol
    SubstituteUnbound,
    /// the proof carries H' and the holder's transcript also absorbs H' right after the statement id
    SubstituteBound,
}

/// A holder that follows `Presentation::create` step by step for the schema
/// `[sig_st, verenc_st]`, except for the text it encrypts in the symmetric part
/// and the generator it puts into the proof.
fn deviating_presentation<S: ShortGroupSignatureScheme>(
    schema: &PresentationSchema<S>,
    sig_st: &SignatureStatement<S>,
    verenc_st: &VerifiableEncryptionDecryptionStatement<G1Projective>,
    credential: &Credential<S>,
    nonce: &[u8],
    encrypted_text_of: &ClaimData,
    carried: Carried,
) -> Presentation<S> {
    let mut rng = OsRng;
    let g = G1Projective::GENERATOR;
    let h = verenc_st.message_generator;
    let pk = verenc_st.encryption_key.0;

    let mut transcript = Transcript::new(b"credx presentation");
    add_curve_parameters(&mut transcript);
    transcript.append_message(b"nonce", nonce);
    schema.add_challenge_contribution(&mut transcript);

    // the signed claim is shared between the signature proof and the encryption proof
    let m = credential.claims[verenc_st.claim].to_scalar();
    let b = Scalar::random(&mut rng);
    let messages = credential
        .claims
        .iter()
        .enumerate()
        .map(|(i, c)| {
            if i == verenc_st.claim {
                ProofMessage::Hidden(HiddenMessage::ExternalBlinding(c.to_scalar(), b))
            } else {
                ProofMessage::Hidden(HiddenMessage::ProofSpecificBlinding(c.to_scalar()))
            }
        })
        .collect::<Vec<_>>();

    // signature statement: nothing is disclosed
    transcript.append_message(b"disclosed messages from statement ", sig_st.id.as_bytes());
    transcript.append_message(b"disclosed messages length", &Uint::from(0usize).to_vec());
    let pok = <S::ProofOfSignatureKnowledgeContribution as ProofOfSignatureKnowledgeContribution>::commit(
        &credential.signature,
        &sig_st.issuer.verifying_key,
        &messages,
        &mut rng,
    )
    .unwrap();
    pok.add_proof_contribution(&mut transcript);

    // the generator carried in the proof: H' * m' == H * m
    let m_sub = encrypted_text_of.to_scalar();
    let carried_generator = match carried {
        Carried::Statements => h,
        _ => h * (m * Option::<Scalar>::from(m_sub.invert()).unwrap()),
    };

    // encrypt-and-decrypt statement: the ElGamal part is the honest one for the signed claim
    let r = Scalar::random(&mut rng);
    let k = Scalar::random(&mut rng);
    let c1 = g * k;
    let c2 = h * m + pk * k;
    let r1 = g * r;
    let r2 = h * b + pk * r;

    let message_bytes = m.to_be_bytes();
    let shift = Scalar::from(256u16);
    let mut byte_ciphertext = Ciphertext::default();
    let mut byte_blinders = [Scalar::ZERO; 32];
    let mut blinder_blinders = [Scalar::ZERO; 32];
    let mut byte_nonces = [Scalar::ZERO; 32];
    let mut sum = Scalar::ZERO;
    for i in 0..32 {
        byte_nonces[i] = Scalar::random(&mut rng);
        blinder_blinders[i] = Scalar::random(&mut rng);
        byte_blinders[i] = if i < 31 {
            let blinder = Scalar::random(&mut rng);
            sum += blinder * shift.pow([31u64 - i as u64]);
            blinder
        } else {
            k - sum
        };
        byte_ciphertext.c1[i] = g * byte_blinders[i];
        byte_ciphertext.c2[i] = h * Scalar::from(message_bytes[i]) + pk * byte_blinders[i];
    }

    transcript.append_message(b"", verenc_st.id.as_bytes());
    if carried == Carried::SubstituteBound {
        transcript.append_message(
            b"message generator",
            carried_generator.to_compressed().as_slice(),
        );
    }
    transcript.append_message(b"c1", c1.to_compressed().as_slice());
    transcript.append_message(b"c2", c2.to_compressed().as_slice());
    transcript.append_message(b"r1", r1.to_compressed().as_slice());
    transcript.append_message(b"r2", r2.to_compressed().as_slice());
    for i in 0..32 {
        transcript.append_u64(
            b"verifiable_encryption_decryption_message_byte_index",
            i as u64,
        );
        transcript.append_message(
            b"byte_proof_c1",
            byte_ciphertext.c1[i].to_compressed().as_slice(),
        );
        transcript.append_message(
            b"byte_proof_c2",
            byte_ciphertext.c2[i].to_compressed().as_slice(),
        );
        let inner_r1 = g * blinder_blinders[i];
        let inner_r2 = h * byte_nonces[i] + pk * blinder_blinders[i];
        transcript.append_message(b"byte_proof_r1", inner_r1.to_compressed().as_slice());
        transcript.append_message(b"byte_proof_r2", inner_r2.to_compressed().as_slice());
    }

    // symmetric part: the text of the holder's choice, under the key the decryptor will derive
    let mut aes_transcript =
        Transcript::new(b"PresentationEncryptionDecryption arbitrary data derive aes key");
    aes_transcript.append_message(b"key ikm", (pk * k).to_compressed().as_slice());
    let mut okm = [0u8; 32];
    aes_transcript.challenge_bytes(b"aes key", &mut okm);
    let mut aes_nonce = [0u8; 12];
    rng.fill_bytes(&mut aes_nonce);
    let aad = okm[16..]
        .iter()
        .copied()
        .chain(c1.to_compressed())
        .chain(c2.to_compressed())
        .collect::<Vec<_>>();
    let cipher = Aes128Gcm::new(aes_gcm::Key::<Aes128Gcm>::from_slice(&okm[..16]));
    let mut ciphertext = aes_nonce.to_vec();
    ciphertext.extend(
        cipher
            .encrypt(
                Nonce::from_slice(&aes_nonce),
                Payload {
                    msg: encrypted_text_of.to_text().as_bytes(),
                    aad: &aad,
                },
            )
            .unwrap(),
    );
    transcript.append_message(b"arbitrary_data_ciphertext", &ciphertext);

    let mut okm = [0u8; 64];
    transcript.challenge_bytes(b"challenge bytes", &mut okm);
    let challenge = Scalar::from_bytes_wide(&okm);

    // responses
    let signature_proof = SignatureProof::<S> {
        id: sig_st.id.clone(),
        disclosed_messages: IndexMap::new(),
        pok: pok.generate_proof(challenge).unwrap(),
    };

    let bp_gens = BulletproofGens::new(8, 32);
    let pedersen_gen = PedersenGens {
        B: h,
        B_blinding: pk,
    };
    let mut range_transcript =
        Transcript::new(b"PresentationEncryptionDecryption byte range proof");
    range_transcript.append_message(b"challenge", &challenge.to_be_bytes());
    let segments = message_bytes.iter().map(|b| *b as u64).collect::<Vec<_>>();
    let (range_proof, _) = RangeProof::prove_multiple(
        &bp_gens,
        &pedersen_gen,
        &mut range_transcript,
        &segments,
        &byte_blinders,
        8,
    )
    .unwrap();
    let mut byte_proofs = [ByteProof::default(); 32];
    for i in 0..32 {
        byte_proofs[i] = ByteProof {
            message: byte_nonces[i] + challenge * Scalar::from(message_bytes[i]),
            blinder: blinder_blinders[i] + challenge * byte_blinders[i],
        };
    }
    let verenc_proof = VerifiableEncryptionDecryptionProof {
        id: verenc_st.id.clone(),
        message_generator: carried_generator,
        byte_proofs,
        range_proof,
        c1,
        c2,
        blinder_proof: r + challenge * k,
        byte_ciphertext,
        ciphertext,
    };

    let mut proofs = IndexMap::new();
    proofs.insert(
        sig_st.id.clone(),
        PresentationProofs::<S>::from(signature_proof),
    );
    proofs.insert(
        verenc_st.id.clone(),
        PresentationProofs::<S>::from(verenc_proof),
    );
    Presentation {
        proofs,
        challenge,
        disclosed_messages: indexmap! { sig_st.id.clone() => IndexMap::new() },
    }
}


fn ctype_of(c: &ClaimData) -> ClaimType {
    match c {
        ClaimData::Hashed(_) => ClaimType::Hashed,
        ClaimData::Number(_) => ClaimType::Number,
        ClaimData::Scalar(_) => ClaimType::Scalar,
        ClaimData::Revocation(_) => ClaimType::Revocation,
        ClaimData::Enumeration(_) => ClaimType::Enumeration,
    }
}

fn case<S: ShortGroupSignatureScheme>(v: &Value) -> Value {
    let claims: Vec<ClaimData> = v["claims"].as_array().unwrap().iter().map(claim_from).collect();
    let other = claim_from(&v["other"]);
    let claim_ix = v["claim"].as_u64().unwrap_or(1) as usize;
    let schema_claims: Vec<ClaimSchema> = claims.iter().enumerate().map(|(i, c)| ClaimSchema { claim_type: ctype_of(c), label: format!("l{i}"), print_friendly: true, validators: vec![] }).collect();
    let cs = CredentialSchema::new(Some("s"), Some(""), &[], &schema_claims).expect("schema");
    let (ipub, mut issuer) = Issuer::<S>::new(&cs);
    let credential: Credential<S> = issuer.sign_credential(&claims).expect("sign").credential;
    let gen = if v["gen"] == "std" { G1Projective::GENERATOR } else { credx::create_domain_proof_generator(b"f_vdec generator") };
    let sig_st = SignatureStatement::<S> { disclosed: BTreeSet::new(), id: "s0".to_string(), issuer: ipub.clone() };
    let verenc_st = VerifiableEncryptionDecryptionStatement { message_generator: gen, encryption_key: ipub.verifiable_encryption_key, id: "d0".to_string(), reference_id: "s0".to_string(), claim: claim_ix };
    let schema = PresentationSchema::new_with_id(&[sig_st.clone().into(), verenc_st.clone().into()], "schema-1");
    let nonce = b"f_vdec nonce".to_vec();
    let signed = claims[claim_ix].clone();
    let mut out = serde_json::Map::new();
    for (name, text_of, carried) in [
        ("honest", &signed, Carried::Statements),
        ("other_text", &other, Carried::Statements),
        ("other_text_scaled_generator", &other, Carried::SubstituteUnbound),
        ("other_text_scaled_generator_hashed", &other, Carried::SubstituteBound),
    ] {
        let r = catch_unwind(AssertUnwindSafe(|| {
            let p = deviating_presentation::<S>(&schema, &sig_st, &verenc_st, &credential, &nonce, text_of, carried);
            let p: Presentation<S> = serde_json::from_str(&serde_json::to_string(&p).unwrap()).unwrap();
            match p.verify(&schema, &nonce) {
                Err(e) => json!({"verify":"err","msg":format!("{e:?}").chars().take(100).collect::<String>()}),
                Ok(()) => {
                    let vp = match &p.proofs["d0"] { PresentationProofs::VerifiableEncryptionDecryption(x) => x, _ => unreachable!() };
                    match vp.decrypt_and_verify(&issuer.verifiable_decryption_key) {
                        Ok(c) => json!({"verify":"ok","decrypt": if c == signed { "signed" } else if c.to_scalar() == signed.to_scalar() { "same-scalar" } else { "other" }}),
                        Err(_) => json!({"verify":"ok","decrypt":"err"}),
                    }
                }
            }
        }));
        out.insert(name.to_string(), r.unwrap_or(json!({"verify":"panic"})));
    }
    json!({"r":"ok","variants":out})
}

pub fn run(v: &Value) -> Value {
    if v["suite"].as_str() == Some("ps") { case::<PsScheme>(v) } else { case::<BbsScheme>(v) }
}
