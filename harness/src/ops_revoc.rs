//! f_revoc: issuer histories over a set of holders; after every operation each holder tries to present with a
//! non-revocation statement against the CURRENT registry value, using every handle it can derive:
//! freshly refreshed, stale, publicly updated (single-step procedure over single revocations), borrowed.
use blsful::inner_types::*;
use credx::claim::*;
use credx::credential::{ClaimSchema, Credential, CredentialSchema};
use credx::issuer::{Issuer, IssuerPublic};
use credx::knox::accumulator::vb20::{Accumulator, Coefficient, Element, MembershipWitness};
use credx::knox::bbs::BbsScheme;
use credx::knox::ps::PsScheme;
use credx::knox::short_group_sig_core::short_group_traits::ShortGroupSignatureScheme;
use credx::presentation::{Presentation, PresentationSchema};
use credx::statement::*;
use indexmap::IndexMap;
use serde_json::{json, Value};
use std::collections::BTreeSet;
use std::panic::{catch_unwind, AssertUnwindSafe};

fn hid(n: u64) -> String {
    format!("holder-{n}")
}

fn present<S: ShortGroupSignatureScheme>(ipub: &IssuerPublic<S>, cred: &Credential<S>, handle: MembershipWitness) -> &'static str {
    let mut c = cred.clone();
    c.revocation_handle = handle;
    let sig = SignatureStatement { disclosed: BTreeSet::new(), id: "s".to_string(), issuer: ipub.clone() };
    let rev = RevocationStatement { id: "r".to_string(), reference_id: "s".to_string(), accumulator: ipub.revocation_registry, verification_key: ipub.revocation_verifying_key, claim: 0 };
    let schema = PresentationSchema::new_with_id(&[sig.into(), rev.into()], "sch");
    let mut creds = IndexMap::new();
    creds.insert("s".to_string(), c.into());
    match catch_unwind(AssertUnwindSafe(|| Presentation::<S>::create(&creds, &schema, b"n").and_then(|p| p.verify(&schema, b"n")))) {
        Ok(Ok(_)) => "accept",
        Ok(Err(_)) => "reject",
        Err(_) => "panic",
    }
}

fn case<S: ShortGroupSignatureScheme>(v: &Value) -> Value {
    let schema_claims = vec![
        ClaimSchema { claim_type: ClaimType::Revocation, label: "identifier".into(), print_friendly: false, validators: vec![] },
        ClaimSchema { claim_type: ClaimType::Hashed, label: "name".into(), print_friendly: true, validators: vec![] },
    ];
    // (the name is blindable, so that a holder can also obtain its credential by blind issuance)
    let cs = CredentialSchema::new(Some("s"), None, &["name"], &schema_claims).unwrap();
    let (_ip, mut issuer) = Issuer::<S>::new(&cs);
    // per holder: credential (claims + signature), handle history: (step obtained, witness, registry value then)
    struct H<S: ShortGroupSignatureScheme> {
        cred: Option<Credential<S>>,
        handles: Vec<(usize, MembershipWitness, Accumulator)>,
        updated: Option<(MembershipWitness, Accumulator)>, // chained single-step public update of the first handle
    }
    let nh = v["holders"].as_u64().unwrap_or(3) as usize;
    let mut hs: Vec<H<S>> = (0..nh).map(|_| H { cred: None, handles: vec![], updated: None }).collect();
    let mut steps = vec![];
    // what an issuer can publish per successful revocation: the revoked elements and the batch coefficients;
    // a holder catches up on all epochs since its FIRST handle with one multi-batch update
    let mut epochs: Vec<(Vec<Element>, Vec<Element>, Vec<Coefficient>)> = vec![];
    let mut first_epoch: Vec<Option<(MembershipWitness, usize)>> = vec![None; nh];
    let mut shadow_ok = true;
    for (si, o) in v["ops"].as_array().unwrap().iter().enumerate() {
        let k = o["k"].as_str().unwrap();
        let before = issuer.revocation_registry.value;
        let r = match k {
            "issue" => {
                let h = o["id"].as_u64().unwrap() as usize;
                match issuer.sign_credential(&[RevocationClaim::from(hid(h as u64)).into(), HashedClaim::from(format!("name {h}")).into()]) {
                    Ok(b) => {
                        hs[h].handles.push((si, b.credential.revocation_handle, issuer.revocation_registry.value));
                        if hs[h].updated.is_none() {
                            hs[h].updated = Some((b.credential.revocation_handle, issuer.revocation_registry.value));
                        }
                        if first_epoch[h].is_none() {
                            first_epoch[h] = Some((b.credential.revocation_handle, epochs.len()));
                        }
                        hs[h].cred = Some(b.credential);
                        "ok"
                    }
                    Err(_) => "err",
                }
            }
            "blind" => {
                // blind issuance: the holder chooses the name, the issuer supplies the identifier
                let h = o["id"].as_u64().unwrap() as usize;
                let ipub0 = IssuerPublic::from(&issuer);
                let mut blind_claims = std::collections::BTreeMap::new();
                blind_claims.insert("name".to_string(), ClaimData::from(HashedClaim::from(format!("name {h}"))));
                let mut known = std::collections::BTreeMap::new();
                known.insert("identifier".to_string(), ClaimData::from(RevocationClaim::from(hid(h as u64))));
                match credx::blind::BlindCredentialRequest::<S>::new(&ipub0, &blind_claims) {
                    Err(_) => "err",
                    Ok((req, blinder)) => match issuer.blind_sign_credential(&req, &known) {
                        Err(_) => "err",
                        Ok(bb) => match bb.to_unblinded(&blind_claims, blinder) {
                            Err(_) => "err",
                            Ok(b) => {
                                hs[h].handles.push((si, b.credential.revocation_handle, issuer.revocation_registry.value));
                                if hs[h].updated.is_none() {
                                    hs[h].updated = Some((b.credential.revocation_handle, issuer.revocation_registry.value));
                                }
                                if first_epoch[h].is_none() {
                                    first_epoch[h] = Some((b.credential.revocation_handle, epochs.len()));
                                }
                                hs[h].cred = Some(b.credential);
                                "ok"
                            }
                        },
                    },
                }
            }
            "revoke" => {
                let ids: Vec<RevocationClaim> = o["ids"].as_array().unwrap().iter().map(|x| RevocationClaim::from(hid(x.as_u64().unwrap()))).collect();
                match issuer.revoke_credentials(&ids) {
                    Ok(_) => {
                        // everybody applies the public single-step update when exactly one identifier was revoked
                        let after = issuer.revocation_registry.value;
                        if !ids.is_empty() {
                            let dels: Vec<Element> = ids.iter().map(|c| Element::hash(c.value.as_bytes())).collect();
                            let mut shadow = before;
                            let coeffs = shadow.update_assign(&issuer.revocation_key, &[], &dels);
                            shadow_ok &= shadow == after;
                            epochs.push((vec![], dels, coeffs));
                        }
                        if ids.len() == 1 {
                            let d = Element::hash(ids[0].value.as_bytes());
                            for (hi, h) in hs.iter_mut().enumerate() {
                                // (only a handle that was valid for the value before this step can follow it: a chain
                                // that missed a batch revocation stays broken)
                                if let Some((w, at)) = h.updated {
                                    if at == before {
                                        let y = Element::hash(hid(hi as u64).as_bytes());
                                        let w2 = w.update(y, before, after, &[], &[d]);
                                        h.updated = Some((w2, after));
                                    }
                                }
                            }
                        } else if !ids.is_empty() {
                            // batch revocation: no public single-step data for the intermediate values; the chain stops tracking
                            for h in hs.iter_mut() {
                                if let Some((w, a)) = h.updated {
                                    h.updated = Some((w, a));
                                }
                            }
                        }
                        "ok"
                    }
                    Err(_) => "err",
                }
            }
            "refresh" => {
                let h = o["id"].as_u64().unwrap() as usize;
                match issuer.update_revocation_handle(RevocationClaim::from(hid(h as u64))) {
                    Ok(w) => {
                        hs[h].handles.push((si, w, issuer.revocation_registry.value));
                        "ok"
                    }
                    Err(_) => "err",
                }
            }
            _ => "harness-error",
        };
        // presentations against the current registry
        let ipub = IssuerPublic::from(&issuer);
        let mut pres = vec![];
        for (hi, h) in hs.iter().enumerate() {
            let cred = match &h.cred {
                Some(c) => c,
                None => continue,
            };
            // newest handle, oldest handle
            if let Some((st, w, _)) = h.handles.last() {
                pres.push(json!({"holder": hi, "kind": "latest", "from_step": st, "out": present::<S>(&ipub, cred, *w)}));
            }
            if h.handles.len() > 1 {
                let (st, w, _) = h.handles[0];
                pres.push(json!({"holder": hi, "kind": "oldest", "from_step": st, "out": present::<S>(&ipub, cred, w)}));
            }
            if let Some((w, acc_at)) = h.updated {
                pres.push(json!({"holder": hi, "kind": "public-update", "tracked_to_current": acc_at == ipub.revocation_registry, "out": present::<S>(&ipub, cred, w)}));
            }
            // the first handle brought up to date with ONE multi-batch update over everything published since
            if let Some((w0, e0)) = first_epoch[hi] {
                let mut w = w0;
                let y = Element::hash(hid(hi as u64).as_bytes());
                let wu = w.multi_batch_update(y, &epochs[e0..]);
                pres.push(json!({"holder": hi, "kind": "multi-batch-update", "epochs": epochs.len() - e0, "out": present::<S>(&ipub, cred, wu)}));
            }
            // another holder's latest handle
            if let Some((oi, other)) = hs.iter().enumerate().find(|(oi, o)| *oi != hi && !o.handles.is_empty()) {
                let (_, w, _) = other.handles.last().unwrap();
                pres.push(json!({"holder": hi, "kind": "borrowed", "from_holder": oi, "out": present::<S>(&ipub, cred, *w)}));
            }
            // the registry value itself as handle
            pres.push(json!({"holder": hi, "kind": "value-as-handle", "out": present::<S>(&ipub, cred, MembershipWitness(ipub.revocation_registry.0))}));
        }
        steps.push(json!({"r": r, "value_changed": before != issuer.revocation_registry.value, "pres": pres,
                          "active": issuer.revocation_registry.active.iter().cloned().collect::<Vec<_>>()}));
    }
    json!({"r":"ok","steps":steps,"shadow_ok":shadow_ok})
}

pub fn run(_op: &str, v: &Value) -> Value {
    if v["suite"].as_str() == Some("ps") { case::<PsScheme>(v) } else { case::<BbsScheme>(v) }
}

#[allow(dead_code)]
fn _u(_: G1Projective) {}
