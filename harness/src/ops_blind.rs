//! f_blind: the three-step blind issuance through the public API (request, blind signing, unblinding), and an
//! external deviating holder that assembles blind-signature contexts itself.
use crate::ops_adv::*;
use crate::ops_issue::claim_from;
use blsful::inner_types::*;
use credx::blind::BlindCredentialRequest;
use credx::claim::*;
use credx::credential::{ClaimSchema, CredentialSchema};
use credx::issuer::{Issuer, IssuerPublic};
use credx::knox::accumulator::vb20::{Element, PublicKey as AccPk};
use credx::knox::bbs::BbsScheme;
use credx::knox::ps::PsScheme;
use credx::knox::short_group_sig_core::short_group_traits::{ShortGroupSignatureScheme, Signature as SigTrait};
use credx::presentation::{Presentation, PresentationSchema};
use credx::statement::SignatureStatement;
use indexmap::IndexMap;
use rand::SeedableRng;
use rand_chacha::ChaCha20Rng;
use serde_json::{json, Value};
use std::collections::{BTreeMap, BTreeSet};
use std::panic::{catch_unwind, AssertUnwindSafe};

fn ctype_of(c: &ClaimData) -> ClaimType {
    match c {
        ClaimData::Hashed(_) => ClaimType::Hashed,
        ClaimData::Number(_) => ClaimType::Number,
        ClaimData::Scalar(_) => ClaimType::Scalar,
        ClaimData::Revocation(_) => ClaimType::Revocation,
        ClaimData::Enumeration(_) => ClaimType::Enumeration,
    }
}

fn pk_bytes<S: ShortGroupSignatureScheme>(pk: &S::PublicKey, ps: bool) -> Vec<u8> {
    let v = tj(pk);
    if ps {
        let p: credx::knox::ps::PublicKey = fj(&v);
        p.to_bytes()
    } else {
        let p: credx::knox::bbs::PublicKey = fj(&v);
        p.to_bytes()
    }
}

fn ctx_challenge(ps: bool, pkb: &[u8], random_commitment: &G1Projective, commitment: &G1Projective, nonce: Scalar) -> Scalar {
    let mut t = merlin::Transcript::new(b"new blind signature");
    t.append_message(b"public key", pkb);
    if !ps {
        t.append_message(b"generator", &G1Projective::GENERATOR.to_compressed());
    }
    t.append_message(b"random commitment", &random_commitment.to_affine().to_compressed());
    t.append_message(b"blind commitment", &commitment.to_affine().to_compressed());
    t.append_message(b"nonce", &nonce.to_be_bytes());
    let mut okm = [0u8; 64];
    t.challenge_bytes(b"blind signature context challenge", &mut okm);
    Scalar::from_bytes_wide(&okm)
}

fn case<S: ShortGroupSignatureScheme>(v: &Value, ps: bool) -> Value {
    let mut rng = ChaCha20Rng::seed_from_u64(v["seed"].as_u64().unwrap_or(1));
    // schema: labels given explicitly (so that alphabetical and index order can differ), blindable subset
    let labels: Vec<String> = v["labels"].as_array().unwrap().iter().map(|x| x.as_str().unwrap().to_string()).collect();
    let claims: Vec<ClaimData> = v["claims"].as_array().unwrap().iter().map(claim_from).collect();
    let blindable: Vec<String> = v["blindable"].as_array().unwrap().iter().map(|x| labels[x.as_u64().unwrap() as usize].clone()).collect();
    let schema_claims: Vec<ClaimSchema> = claims.iter().zip(labels.iter()).map(|(c, l)| ClaimSchema { claim_type: ctype_of(c), label: l.clone(), print_friendly: true, validators: vec![] }).collect();
    let bl: Vec<&str> = blindable.iter().map(|s| s.as_str()).collect();
    let cs = match CredentialSchema::new(Some("s"), None, &bl, &schema_claims) {
        Ok(c) => c,
        Err(_) => return json!({"r":"ok","schema":"err"}),
    };
    let (ipub, mut issuer) = Issuer::<S>::new(&cs);
    let hidden_idx: Vec<usize> = v["hidden"].as_array().unwrap().iter().map(|x| x.as_u64().unwrap() as usize).collect();
    let mode = v["mode"].as_str().unwrap_or("api");
    let known: BTreeMap<String, ClaimData> = (0..labels.len())
        .filter(|i| !hidden_idx.contains(i) || v["known_overlap"].as_array().map(|a| a.iter().any(|x| x.as_u64() == Some(*i as u64))).unwrap_or(false))
        .filter(|i| !v["known_drop"].as_array().map(|a| a.iter().any(|x| x.as_u64() == Some(*i as u64))).unwrap_or(false))
        .map(|i| (labels[i].clone(), claims[i].clone()))
        .collect();
    let blind_claims: BTreeMap<String, ClaimData> = hidden_idx.iter().map(|&i| (labels[i].clone(), claims[i].clone())).collect();
    let before = (issuer.revocation_registry.elements.clone(), issuer.revocation_registry.active.clone());
    if mode == "api" {
        // honest holder through the public API
        let req = catch_unwind(AssertUnwindSafe(|| BlindCredentialRequest::<S>::new(&ipub, &blind_claims)));
        let (mut req, blinder) = match req {
            Ok(Ok(x)) => x,
            Ok(Err(_)) => return json!({"r":"ok","request":"err"}),
            Err(_) => return json!({"r":"ok","request":"panic"}),
        };
        // hiding: can the hidden values be tested against the request from public data?
        // commitment == sum_i Y_i * m_i (no blinding factor) for the true values
        let not_hiding = {
            let kvh = key_view_json(&tj(&issuer.signing_key), &tj(&ipub.verifying_key), ps, &mut rng);
            let cv = tj(&req.blind_signature_context);
            let cm: G1Projective = fj(&cv["commitment"]);
            let mut acc = G1Projective::IDENTITY;
            for &i in &hidden_idx {
                let g = if ps { G1Projective::GENERATOR * kvh.y2[i].dl } else { kvh.y1[i].pt };
                acc += g * claims[i].to_scalar();
            }
            // degenerate nonces for the blinding factor: nonce == secret (z = b*(1+c)) or nonce == 0 (z = b*c)
            let c: Scalar = fj(&cv["challenge"]);
            let proofs: Vec<Scalar> = fj(&cv["proofs"]);
            let mut hit = acc == cm;
            if let Some(z) = proofs.last() {
                for d in [Scalar::ONE + c, c] {
                    if let Some(di) = Option::<Scalar>::from(d.invert()) {
                        if cm - G1Projective::GENERATOR * (*z * di) == acc {
                            hit = true;
                        }
                    }
                }
            }
            // ... and for a hidden message: z_i = m_i*(1+c) or m_i*c
            for (k, &i) in { let mut h = hidden_idx.clone(); h.sort(); h }.iter().enumerate() {
                if let Some(z) = proofs.get(k) {
                    let m = claims[i].to_scalar();
                    if *z == m * (Scalar::ONE + c) || *z == m * c {
                        hit = true;
                    }
                }
            }
            hit
        };
        match v["tamper"].as_str().unwrap_or("none") {
            "nonce" => req.nonce += Scalar::ONE,
            "labels_add" => req.blind_claim_labels.push(labels[0].clone()),
            "labels_dup" => {
                if let Some(l) = req.blind_claim_labels.first().cloned() {
                    req.blind_claim_labels.push(l);
                }
            }
            _ => {}
        }
        let mut reqv = tj(&req);
        match v["tamper"].as_str().unwrap_or("none") {
            "commitment" => {
                let c: G1Projective = fj(&reqv["blind_signature_context"]["commitment"]);
                reqv["blind_signature_context"]["commitment"] = tj(&(c + G1Projective::GENERATOR));
            }
            "challenge" => {
                let c: Scalar = fj(&reqv["blind_signature_context"]["challenge"]);
                reqv["blind_signature_context"]["challenge"] = tj(&(c + Scalar::ONE));
            }
            "response" => {
                let mut p: Vec<Scalar> = fj(&reqv["blind_signature_context"]["proofs"]);
                if let Some(x) = p.first_mut() {
                    *x += Scalar::ONE;
                }
                reqv["blind_signature_context"]["proofs"] = tj(&p);
            }
            "response_extra" => {
                let mut p: Vec<Scalar> = fj(&reqv["blind_signature_context"]["proofs"]);
                p.push(rnd(&mut rng));
                reqv["blind_signature_context"]["proofs"] = tj(&p);
            }
            "response_short" => {
                let mut p: Vec<Scalar> = fj(&reqv["blind_signature_context"]["proofs"]);
                p.pop();
                reqv["blind_signature_context"]["proofs"] = tj(&p);
            }
            _ => {}
        }
        let req: BlindCredentialRequest<S> = fj(&reqv);
        let r = catch_unwind(AssertUnwindSafe(|| issuer.blind_sign_credential(&req, &known)));
        let after = (issuer.revocation_registry.elements.clone(), issuer.revocation_registry.active.clone());
        let bundle = match r {
            Ok(Ok(b)) => b,
            Ok(Err(_)) => return json!({"r":"ok","request":"ok","sign":"err","unchanged": before == after}),
            Err(_) => return json!({"r":"ok","request":"ok","sign":"panic"}),
        };
        let ub = catch_unwind(AssertUnwindSafe(|| bundle.to_unblinded(&blind_claims, blinder)));
        let cred = match ub {
            Ok(Ok(c)) => c,
            Ok(Err(_)) => return json!({"r":"ok","request":"ok","sign":"ok","unblind":"err"}),
            Err(_) => return json!({"r":"ok","request":"ok","sign":"ok","unblind":"panic"}),
        };
        let msgs: Vec<Scalar> = cred.credential.claims.iter().map(|c| c.to_scalar()).collect();
        let sig_ok = cred.credential.signature.verify(&ipub.verifying_key, &msgs).is_ok();
        let claims_ok = cred.credential.claims == claims;
        let idx = cred.credential.revocation_index;
        let handle_ok = cred.credential.revocation_handle.verify(Element(msgs[idx]), AccPk::from(&issuer.revocation_key), issuer.revocation_registry.value);
        // as valid as a directly issued one: it presents
        let ipub2 = IssuerPublic::from(&issuer);
        let sig_st = SignatureStatement { disclosed: BTreeSet::new(), id: "s".to_string(), issuer: ipub2 };
        let schema = PresentationSchema::new_with_id(&[sig_st.into()], "p");
        let mut creds = IndexMap::new();
        creds.insert("s".to_string(), cred.credential.into());
        let pres_ok = matches!(catch_unwind(AssertUnwindSafe(|| Presentation::<S>::create(&creds, &schema, b"n").and_then(|p| p.verify(&schema, b"n")))), Ok(Ok(_)));
        return json!({"r":"ok","request":"ok","sign":"ok","unblind":"ok","sig_ok":sig_ok,"claims_ok":claims_ok,"handle_ok":handle_ok,"pres_ok":pres_ok,"not_hiding":not_hiding});
    }
    // ---- external holder: assembles the context itself
    let kv = key_view_json(&tj(&issuer.signing_key), &tj(&ipub.verifying_key), ps, &mut rng);
    let pkb = pk_bytes::<S>(&ipub.verifying_key, ps);
    let n = labels.len();
    let known_idx: Vec<usize> = (0..n).filter(|i| known.contains_key(&labels[*i])).collect();
    // generators the holder can commit on (G1): BBS y_i (pseudo-logs), PS y_blinds = G*y_i (true logs)
    let gen = |i: usize| -> Sh1 { if ps { Sh1::gen(kv.y2[i].dl) } else { kv.y1[i] } };
    let dev = v["dev"].as_str().unwrap_or("none");
    // which indices the holder treats as committed, in which order
    let mut order: Vec<usize> = hidden_idx.clone();
    order.sort();
    if dev == "unsorted" {
        order.reverse();
    }
    let msgs: Vec<Scalar> = claims.iter().map(|c| c.to_scalar()).collect();
    let mut commitment = Sh1::zero();
    let mut rc = Sh1::zero();
    let mut nonces = vec![];
    let mut secrets = vec![];
    for &i in &order {
        let nn = rnd(&mut rng);
        commitment = commitment.add(&gen(i).mul(msgs[i]));
        rc = rc.add(&gen(i).mul(nn));
        nonces.push(nn);
        secrets.push(msgs[i]);
    }
    let blinding = rnd(&mut rng);
    if ps {
        let nb = rnd(&mut rng);
        commitment = commitment.add(&Sh1::gen(blinding));
        rc = rc.add(&Sh1::gen(nb));
        nonces.push(nb);
        secrets.push(blinding);
    }
    let nonce = rnd(&mut rng);
    if dev == "known_component" {
        // a value on the generator of an ISSUER-SUPPLIED claim, hidden behind a response vector that is one too long:
        // the issuer's multi-scalar multiplication then drops -challenge and multiplies the commitment by the extra response
        if let Some(&k) = known_idx.first() {
            commitment = commitment.add(&gen(k).mul(Scalar::from(1000u64)));
        }
        let zx = rnd(&mut rng);
        for s in secrets.iter_mut() {
            *s = Scalar::ZERO;
        }
        secrets.push(Scalar::ZERO);
        nonces.push(zx);
        rc = rc.add(&commitment.mul(zx));
    }
    let c = ctx_challenge(ps, &pkb, &rc.pt, &commitment.pt, nonce);
    let mut proofs: Vec<Scalar> = nonces.iter().zip(secrets.iter()).map(|(n, s)| *n + c * *s).collect();
    let mut challenge = c;
    let mut derived = true;
    let mut sent_nonce = nonce;
    match dev {
        "resp_plus" => proofs[0] += Scalar::ONE,
        "resp_extra" => proofs.push(rnd(&mut rng)),
        "resp_short" => {
            proofs.pop();
        }
        "challenge_plus" => {
            challenge += Scalar::ONE;
            derived = false;
        }
        "nonce_plus" => {
            sent_nonce += Scalar::ONE;
            derived = false;
        }
        "commitment_plus" => {
            commitment = commitment.add(&Sh1::gen(Scalar::ONE));
            derived = false;
        }
        _ => {}
    }
    let ctxv = json!({"commitment": tj(&commitment.pt), "challenge": tj(&challenge), "proofs": tj(&proofs)});
    let ctx: S::BlindSignatureContext = fj(&ctxv);
    let req = BlindCredentialRequest::<S> { blind_signature_context: ctx, blind_claim_labels: hidden_idx.iter().map(|&i| labels[i].clone()).collect(), nonce: sent_nonce };
    let r = catch_unwind(AssertUnwindSafe(|| issuer.blind_sign_credential(&req, &known)));
    let after = (issuer.revocation_registry.elements.clone(), issuer.revocation_registry.active.clone());
    let sign = match &r {
        Ok(Ok(_)) => "ok",
        Ok(Err(_)) => "err",
        Err(_) => "panic",
    };
    let ys: Vec<Value> = (0..n).map(|i| hexs(&gen(i).dl)).collect();
    json!({"r":"ok","sign":sign,"unchanged": before == after,
           "model": {"suite": if ps {"ps"} else {"bbs"}, "ys": ys, "known": known_idx, "commitment": hexs(&commitment.dl), "challenge": hexs(&challenge),
                     "proofs": proofs.iter().map(hexs).collect::<Vec<_>>(), "t0": hexs(&rc.dl), "derived": derived,
                     "n": n, "blindable": v["blindable"], "req_labels": hidden_idx, "known_labels": known_idx}})
}

pub fn run(_op: &str, v: &Value) -> Value {
    if v["suite"].as_str() == Some("ps") { case::<PsScheme>(v, true) } else { case::<BbsScheme>(v, false) }
}
