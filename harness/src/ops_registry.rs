//! f_registry: issuer histories (issue / blind-issue / revoke batch / refresh / persist-restore).
//! The accumulator value is overwritten at start by v0*G (known v0) and the revocation secret
//! alpha is read from the public field, so the value's exponent can be explained exactly.
use blsful::inner_types::*;
use credx::blind::BlindCredentialRequest;
use credx::claim::*;
use credx::credential::{ClaimSchema, CredentialSchema};
use credx::issuer::Issuer;
use credx::knox::accumulator::vb20::{Accumulator, Element, MembershipWitness, PublicKey as AccPk};
use credx::knox::bbs::BbsScheme;
use credx::knox::ps::PsScheme;
use credx::knox::short_group_sig_core::short_group_traits::ShortGroupSignatureScheme;
use rand_core::OsRng;
use serde_json::{json, Value};
use std::collections::BTreeMap;
use std::panic::{catch_unwind, AssertUnwindSafe};

fn id_str(n: u64) -> String {
    // identifiers of different lengths on purpose
    match n {
        0 => "".to_string(),
        1 => "id-1".to_string(),
        2 => "91742856-6eda-45fb-a709-d22ebb5ec8a5".to_string(),
        k => format!("holder/{k}"),
    }
}
fn id_num(s: &str) -> Value {
    for n in 0..64u64 {
        if id_str(n) == s {
            return json!(n);
        }
    }
    json!(format!("?{s}"))
}

fn registry_case<S: ShortGroupSignatureScheme>(v: &Value) -> Value {
    let schema_claims = vec![
        ClaimSchema { claim_type: ClaimType::Revocation, label: "identifier".into(), print_friendly: false, validators: vec![] },
        ClaimSchema { claim_type: ClaimType::Scalar, label: "link_secret".into(), print_friendly: false, validators: vec![] },
        ClaimSchema { claim_type: ClaimType::Hashed, label: "name".into(), print_friendly: true, validators: vec![] },
    ];
    let cred_schema = CredentialSchema::new(Some("s"), Some("d"), &["link_secret"], &schema_claims).expect("schema");
    let (_ipub, mut issuer) = Issuer::<S>::new(&cred_schema);
    let v0 = Scalar::random(OsRng);
    issuer.revocation_registry.value = Accumulator(G1Projective::GENERATOR * v0);
    let alpha = issuer.revocation_key.0;
    let acc_pk = AccPk::from(&issuer.revocation_key);
    let mut cur_exp = v0;
    let mut handles: Vec<(u64, MembershipWitness)> = vec![];
    let mut steps = vec![];
    for o in v["ops"].as_array().expect("ops") {
        let k = o["k"].as_str().unwrap_or("");
        let before_val = issuer.revocation_registry.value;
        let res = catch_unwind(AssertUnwindSafe(|| -> Result<Option<(u64, MembershipWitness)>, ()> {
            match k {
                "issue" => {
                    let id = o["id"].as_u64().unwrap();
                    let claims: Vec<ClaimData> = vec![
                        RevocationClaim::from(id_str(id)).into(),
                        ScalarClaim::from(Scalar::random(OsRng)).into(),
                        HashedClaim::from("John").into(),
                    ];
                    let b = issuer.sign_credential(&claims).map_err(|_| ())?;
                    // the returned credential must be valid: signature and handle
                    Ok(Some((id, b.credential.revocation_handle)))
                }
                "blind" => {
                    let id = o["id"].as_u64().unwrap();
                    let valid = o["valid"].as_bool().unwrap_or(true);
                    let ipub = credx::issuer::IssuerPublic::from(&issuer);
                    let mut blind_claims: BTreeMap<String, ClaimData> = BTreeMap::new();
                    blind_claims.insert("link_secret".into(), ScalarClaim::from(Scalar::random(OsRng)).into());
                    let (mut req, _blinder) = BlindCredentialRequest::<S>::new(&ipub, &blind_claims).map_err(|_| ())?;
                    if !valid {
                        req.nonce += Scalar::ONE;
                    }
                    let mut known: BTreeMap<String, ClaimData> = BTreeMap::new();
                    known.insert("identifier".into(), RevocationClaim::from(id_str(id)).into());
                    known.insert("name".into(), HashedClaim::from("John").into());
                    let b = issuer.blind_sign_credential(&req, &known).map_err(|_| ())?;
                    Ok(Some((id, b.credential.revocation_handle)))
                }
                "revoke" => {
                    let ids: Vec<RevocationClaim> =
                        o["ids"].as_array().unwrap().iter().map(|x| RevocationClaim::from(id_str(x.as_u64().unwrap()))).collect();
                    issuer.revoke_credentials(&ids).map_err(|_| ())?;
                    Ok(None)
                }
                "refresh" => {
                    let id = o["id"].as_u64().unwrap();
                    let w = issuer.update_revocation_handle(RevocationClaim::from(id_str(id))).map_err(|_| ())?;
                    Ok(Some((id, w)))
                }
                "persist" => {
                    let fmt = o["fmt"].as_str().unwrap_or("json");
                    let restored: Issuer<S> = match fmt {
                        "cbor" => {
                            let b = serde_cbor::to_vec(&issuer).map_err(|_| ())?;
                            serde_cbor::from_slice(&b).map_err(|_| ())?
                        }
                        "bare" => {
                            let b = serde_bare::to_vec(&issuer).map_err(|_| ())?;
                            serde_bare::from_slice(&b).map_err(|_| ())?
                        }
                        _ => {
                            let s = serde_json::to_string(&issuer).map_err(|_| ())?;
                            serde_json::from_str(&s).map_err(|_| ())?
                        }
                    };
                    issuer = restored;
                    Ok(None)
                }
                _ => panic!("unknown registry op"),
            }
        }));
        let (r, new_handle) = match res {
            Ok(Ok(h)) => ("ok", h),
            Ok(Err(())) => ("err", None),
            Err(_) => ("panic", None),
        };
        // explain the value change
        let after_val = issuer.revocation_registry.value;
        let mut div: Value = json!([]);
        if after_val != before_val {
            div = json!("unexplained");
            if k == "revoke" {
                let mut ids: Vec<u64> = o["ids"].as_array().unwrap().iter().map(|x| x.as_u64().unwrap()).collect();
                ids.sort();
                ids.dedup();
                let n = ids.len();
                let total = 3usize.pow(n as u32);
                'search: for code in 0..total {
                    let mut c = code;
                    let mut e = cur_exp;
                    let mut used = vec![];
                    for id in ids.iter() {
                        let m = c % 3;
                        c /= 3;
                        let d = Element::hash(id_str(*id).as_bytes()).0 + alpha;
                        for _ in 0..m {
                            e *= d.invert().unwrap();
                            used.push(*id);
                        }
                    }
                    if G1Projective::GENERATOR * e == after_val.0 {
                        cur_exp = e;
                        div = json!(used);
                        break 'search;
                    }
                }
            }
        }
        if let Some(h) = new_handle {
            handles.push(h);
        }
        let hv: Vec<bool> = handles
            .iter()
            .map(|(id, w)| w.verify(Element::hash(id_str(*id).as_bytes()), acc_pk, issuer.revocation_registry.value))
            .collect();
        steps.push(json!({
            "r": r,
            "e": issuer.revocation_registry.elements.iter().map(|s| id_num(s)).collect::<Vec<_>>(),
            "a": issuer.revocation_registry.active.iter().map(|s| id_num(s)).collect::<Vec<_>>(),
            "div": div,
            "new_handle": new_handle.is_some(),
            "hv": hv,
        }));
    }
    json!({"r":"ok","steps":steps})
}

pub fn run(_op: &str, v: &Value) -> Value {
    if v["suite"].as_str() == Some("ps") { registry_case::<PsScheme>(v) } else { registry_case::<BbsScheme>(v) }
}
