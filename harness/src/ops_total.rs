//! f_total (C20): totality of the entry points that take data from another party.
//! A valid world (credentials, presentation schema, honest presentation, blind request/bundle) is
//! built through the public API; each object is turned into a CBOR tree, one structural mutation
//! is applied (delete / retarget / retype every key, index and reference; shrink and grow every
//! list; swap proof variants), the mutated tree is decoded back into the typed object and the
//! entry point is called under catch_unwind.  Reported per mutation: the descriptor, the decode
//! outcome, the entry point's outcome class, and (for verify) the structural abstract of the
//! mutated object the Coq skeleton is evaluated on.
use crate::ops_create::{build_world, World};
use crate::ops_issue::claim_from;
use credx::blind::{BlindCredentialBundle, BlindCredentialRequest};
use credx::claim::*;
use credx::credential::{ClaimSchema, CredentialSchema};
use credx::issuer::{Issuer, IssuerPublic};
use credx::knox::bbs::BbsScheme;
use credx::knox::ps::PsScheme;
use credx::knox::short_group_sig_core::short_group_traits::ShortGroupSignatureScheme;
use credx::presentation::*;
use credx::statement::*;
use indexmap::IndexMap;
use serde::{de::DeserializeOwned, Serialize};
use serde_cbor::Value as CV;
use serde_json::{json, Value};
use std::collections::{BTreeMap, BTreeSet};
use std::panic::{catch_unwind, AssertUnwindSafe};
use crate::util::last_panic;

#[derive(Clone, Debug)]
pub enum Seg {
    Key(CV),
    Idx(usize),
}

#[derive(Clone, Debug)]
pub enum Mut {
    Delete,          // remove the map entry / array element at the path
    Dup,             // array element duplicated at the end
    Replace(CV),     // node replaced
    RenameKey(CV),   // map entry's key replaced
}

#[derive(Clone, Debug)]
pub struct Point {
    pub path: Vec<Seg>,
    pub m: Mut,
    pub tag: &'static str,
}

pub fn to_tree<T: Serialize>(t: &T) -> Option<CV> {
    let b = serde_cbor::to_vec(t).ok()?;
    serde_cbor::from_slice::<CV>(&b).ok()
}
pub fn from_tree<T: DeserializeOwned>(v: &CV) -> Result<T, String> {
    let b = serde_cbor::to_vec(v).map_err(|e| e.to_string())?;
    match catch_unwind(AssertUnwindSafe(|| serde_cbor::from_slice::<T>(&b))) {
        Ok(Ok(t)) => Ok(t),
        Ok(Err(e)) => Err(format!("err:{e}")),
        Err(_) => Err("panic".to_string()),
    }
}

fn collect_texts(v: &CV, out: &mut BTreeSet<String>) {
    match v {
        CV::Text(s) if s.len() <= 80 => {
            out.insert(s.clone());
        }
        CV::Array(a) => a.iter().for_each(|x| collect_texts(x, out)),
        CV::Map(m) => m.iter().for_each(|(k, x)| {
            // map keys that are identifiers / labels (not struct field names) are candidates too
            collect_texts(k, out);
            collect_texts(x, out)
        }),
        CV::Tag(_, b) => collect_texts(b, out),
        _ => {}
    }
}

fn seg_str(s: &Seg) -> String {
    match s {
        Seg::Key(CV::Text(t)) => t.clone(),
        Seg::Key(CV::Integer(i)) => format!("#{i}"),
        Seg::Key(k) => format!("{k:?}"),
        Seg::Idx(i) => format!("[{i}]"),
    }
}
pub fn path_str(p: &[Seg]) -> String {
    p.iter().map(seg_str).collect::<Vec<_>>().join("/")
}

fn short(v: &CV) -> String {
    match v {
        CV::Null => "null".into(),
        CV::Bool(b) => format!("{b}"),
        CV::Integer(i) => format!("int:{i}"),
        CV::Bytes(b) => format!("bytes[{}]", b.len()),
        CV::Text(t) => format!("text:{}", t.chars().take(24).collect::<String>()),
        CV::Array(a) => format!("array[{}]", a.len()),
        CV::Map(m) => format!("map[{}]", m.len()),
        _ => "other".into(),
    }
}

/// Enumerate the mutation points of a tree (deterministic order).
pub fn enumerate(v: &CV, texts: &[String], out: &mut Vec<Point>) {
    let mut path = vec![];
    walk(v, texts, &mut path, out, 0);
}

fn retypes(v: &CV) -> Vec<(CV, &'static str)> {
    let mut r = vec![];
    let all: Vec<(CV, &'static str)> = vec![
        (CV::Null, "retype-null"),
        (CV::Integer(0), "retype-int"),
        (CV::Text("x".into()), "retype-text"),
        (CV::Array(vec![]), "retype-array"),
        (CV::Map(BTreeMap::new()), "retype-map"),
        (CV::Bytes(vec![]), "retype-bytes"),
        (CV::Bool(true), "retype-bool"),
    ];
    for (x, t) in all {
        if std::mem::discriminant(&x) != std::mem::discriminant(v) {
            r.push((x, t));
        }
    }
    r
}

fn walk(v: &CV, texts: &[String], path: &mut Vec<Seg>, out: &mut Vec<Point>, depth: usize) {
    // retype this node
    if depth > 0 {
        for (x, t) in retypes(v) {
            out.push(Point { path: path.clone(), m: Mut::Replace(x), tag: t });
        }
    }
    // empty / singleton containers
    if depth > 0 {
        match v {
            CV::Map(m) if !m.is_empty() => out.push(Point { path: path.clone(), m: Mut::Replace(CV::Map(BTreeMap::new())), tag: "empty-container" }),
            CV::Array(a) if !a.is_empty() => {
                out.push(Point { path: path.clone(), m: Mut::Replace(CV::Array(vec![])), tag: "empty-container" });
                if a.len() > 1 {
                    out.push(Point { path: path.clone(), m: Mut::Replace(CV::Array(vec![a[0].clone()])), tag: "empty-container" });
                }
            }
            _ => {}
        }
    }
    match v {
        CV::Map(m) => {
            let keys: Vec<CV> = m.keys().cloned().collect();
            for (ki, k) in keys.iter().enumerate() {
                path.push(Seg::Key(k.clone()));
                out.push(Point { path: path.clone(), m: Mut::Delete, tag: "delete-key" });
                // give this entry the value of a sibling entry (swap proof variants, cross-wire references)
                for (kj, k2) in keys.iter().enumerate() {
                    if kj != ki && keys.len() <= 12 {
                        out.push(Point { path: path.clone(), m: Mut::Replace(m[k2].clone()), tag: "value-of-sibling" });
                    }
                }
                // rename the key: to a sibling's name is impossible in a map (collision) => other texts
                if let CV::Text(kt) = k {
                    let mut n = 0;
                    for t in texts.iter().cycle().skip(ki).take(texts.len()) {
                        if t != kt && !m.contains_key(&CV::Text(t.clone())) {
                            out.push(Point { path: path.clone(), m: Mut::RenameKey(CV::Text(t.clone())), tag: "rename-key" });
                            n += 1;
                            if n >= 3 {
                                break;
                            }
                        }
                    }
                    out.push(Point { path: path.clone(), m: Mut::RenameKey(CV::Text("zz-none".into())), tag: "rename-key" });
                }
                walk(&m[k], texts, path, out, depth + 1);
                path.pop();
            }
        }
        CV::Array(a) if a.len() >= 16 && a.iter().all(|x| matches!(x, CV::Integer(i) if (0..=255).contains(i))) => {
            // a byte string written as a sequence of integers (fixed-size point / scalar encodings):
            // length changes and a few value changes, not twenty values per byte
            let n = a.len();
            for &i in &[0usize, n - 1] {
                path.push(Seg::Idx(i));
                out.push(Point { path: path.clone(), m: Mut::Delete, tag: "bytes-delete" });
                out.push(Point { path: path.clone(), m: Mut::Dup, tag: "bytes-dup" });
                if let CV::Integer(v) = &a[i] {
                    for x in [v ^ 1, v ^ 0x80, 0, 255, 256, -1] {
                        if x != *v {
                            out.push(Point { path: path.clone(), m: Mut::Replace(CV::Integer(x)), tag: "bytes-set" });
                        }
                    }
                }
                path.pop();
            }
        }
        CV::Array(a) => {
            let n = a.len();
            let visit: Vec<usize> = if n <= 6 { (0..n).collect() } else { vec![0, 1, n / 2, n - 1] };
            for &i in &visit {
                path.push(Seg::Idx(i));
                out.push(Point { path: path.clone(), m: Mut::Delete, tag: "delete-elem" });
                out.push(Point { path: path.clone(), m: Mut::Dup, tag: "dup-elem" });
                if i + 1 < n {
                    // swap with the next element (order of lists)
                    out.push(Point { path: path.clone(), m: Mut::Replace(a[i + 1].clone()), tag: "elem-of-next" });
                }
                walk(&a[i], texts, path, out, depth + 1);
                path.pop();
            }
        }
        CV::Text(s) => {
            let mut cands: Vec<String> = vec![String::new(), "zz-none".into()];
            // identifiers (statement ids, labels: short texts ending in a digit or used as references) are
            // retargeted to EVERY other identifier of the world; other texts to a rotating handful
            let is_id = |t: &String| t.len() <= 12 && t.chars().last().map(|c| c.is_ascii_digit()).unwrap_or(false);
            if is_id(s) {
                for t in texts.iter().filter(|t| is_id(t)) {
                    if t != s && cands.len() < 40 {
                        cands.push(t.clone());
                    }
                }
            }
            let start = out.len() % texts.len().max(1);
            let cap = cands.len() + 6;
            for t in texts.iter().cycle().skip(start).take(texts.len()) {
                if t != s && cands.len() < cap && !cands.contains(t) {
                    cands.push(t.clone());
                }
            }
            for c in cands {
                if &c != s {
                    out.push(Point { path: path.clone(), m: Mut::Replace(CV::Text(c)), tag: "retarget-text" });
                }
            }
        }
        CV::Integer(i) => {
            let mut c: BTreeSet<i128> = [0, 1, 2, 3, 4, 5, 7, 8, 31, 32, 33, 255, 256, 65535, 65536, (1i128 << 32), (1i128 << 63) - 1, (1i128 << 64) - 1, -1].into_iter().collect();
            c.insert(i + 1);
            c.insert(i - 1);
            c.remove(i);
            for x in c {
                out.push(Point { path: path.clone(), m: Mut::Replace(CV::Integer(x)), tag: "set-int" });
            }
        }
        CV::Bytes(b) => {
            let n = b.len();
            let mut c: Vec<Vec<u8>> = vec![vec![], vec![0u8; n]];
            if n > 0 {
                c.push(b[..n - 1].to_vec());
                c.push(b[1..].to_vec());
                let mut x = b.clone();
                x.push(0);
                c.push(x);
                let mut y = b.clone();
                y[n - 1] ^= 1;
                c.push(y);
                let mut z = b.clone();
                z[0] ^= 0x80;
                c.push(z);
            }
            if n == 48 || n == 96 {
                let mut id = vec![0u8; n];
                id[0] = 0xc0;
                c.push(id);
            }
            if n == 32 {
                c.push(vec![0xff; 32]);
            }
            if n > 352 && (n - 352) % 96 == 0 {
                // a bulletproof with one inner-product round fewer / more
                c.push(b[..n - 96].to_vec());
                let mut x = b.clone();
                x.extend_from_slice(&b[n - 96..]);
                c.push(x);
                c.push(b[..352].to_vec());
                // a corrupted L / R point
                let mut y = b.clone();
                y[352 + 5] ^= 0x55;
                c.push(y);
            }
            for x in c {
                if &x != b {
                    out.push(Point { path: path.clone(), m: Mut::Replace(CV::Bytes(x)), tag: "set-bytes" });
                }
            }
        }
        CV::Bool(b) => out.push(Point { path: path.clone(), m: Mut::Replace(CV::Bool(!b)), tag: "flip-bool" }),
        _ => {}
    }
}

pub fn apply(root: &CV, p: &Point) -> Option<CV> {
    let mut r = root.clone();
    if apply_at(&mut r, &p.path, &p.m) {
        Some(r)
    } else {
        None
    }
}

fn apply_at(v: &mut CV, path: &[Seg], m: &Mut) -> bool {
    if path.is_empty() {
        if let Mut::Replace(x) = m {
            *v = x.clone();
            return true;
        }
        return false;
    }
    if path.len() == 1 {
        match (&path[0], m, &mut *v) {
            (Seg::Key(k), Mut::Delete, CV::Map(mp)) => return mp.remove(k).is_some(),
            (Seg::Key(k), Mut::RenameKey(k2), CV::Map(mp)) => {
                if let Some(x) = mp.remove(k) {
                    mp.insert(k2.clone(), x);
                    return true;
                }
                return false;
            }
            (Seg::Idx(i), Mut::Delete, CV::Array(a)) => {
                if *i < a.len() {
                    a.remove(*i);
                    return true;
                }
                return false;
            }
            (Seg::Idx(i), Mut::Dup, CV::Array(a)) => {
                if *i < a.len() {
                    let x = a[*i].clone();
                    a.push(x);
                    return true;
                }
                return false;
            }
            _ => {}
        }
    }
    match (&path[0], v) {
        (Seg::Key(k), CV::Map(mp)) => match mp.get_mut(k) {
            Some(x) => apply_at(x, &path[1..], m),
            None => false,
        },
        (Seg::Idx(i), CV::Array(a)) => match a.get_mut(*i) {
            Some(x) => apply_at(x, &path[1..], m),
            None => false,
        },
        _ => false,
    }
}

fn desc(obj: &str, p: &Point) -> String {
    let what = match &p.m {
        Mut::Delete => "delete".to_string(),
        Mut::Dup => "dup".to_string(),
        Mut::Replace(x) => format!("replace:{}", short(x)),
        Mut::RenameKey(x) => format!("rename:{}", short(x)),
    };
    format!("{obj}:{}:{}:{what}", p.tag, path_str(&p.path))
}

/// adds "at": panic location to a result that observed a panic
fn with_at(mut v: Value) -> Value {
    let p = v["decode"] == "panic" || v["out"] == "panic" || v["dec_panic"] == true || v["verify"] == "panic";
    if p {
        v["at"] = json!(last_panic());
    }
    v
}

fn class<T, E>(r: std::thread::Result<Result<T, E>>) -> &'static str {
    match r {
        Ok(Ok(_)) => "ok",
        Ok(Err(_)) => "err",
        Err(_) => "panic",
    }
}

/// Which mutation indices to run: {"from":a,"to":b} or {"list":[...]}, optional "stride"
fn selected(sel: &Value, n: usize) -> Vec<usize> {
    if let Some(l) = sel["list"].as_array() {
        return l.iter().filter_map(|x| x.as_u64()).map(|x| x as usize).filter(|x| *x < n).collect();
    }
    let from = sel["from"].as_u64().unwrap_or(0) as usize;
    let to = (sel["to"].as_u64().unwrap_or(n as u64) as usize).min(n);
    let stride = sel["stride"].as_u64().unwrap_or(1).max(1) as usize;
    let off = sel["offset"].as_u64().unwrap_or(0) as usize;
    (from..to).filter(|i| i % stride == off % stride).collect()
}

// ------------------------------------------------------------------------------------------------
// structural abstract of a (possibly inconsistent) presentation + schema, for the Coq skeleton
// ------------------------------------------------------------------------------------------------

fn stmt_abs<S: ShortGroupSignatureScheme>(st: &Statements<S>) -> Value {
    match st {
        Statements::Signature(s) => {
            let labels: Vec<String> = s.issuer.schema.claim_indices.iter().cloned().collect();
            let pk = serde_json::to_value(&s.issuer.verifying_key).unwrap_or(Value::Null);
            // number of message generators of the verifying key
            let keylen = pk["y"].as_array().map(|a| a.len()).unwrap_or(0);
            json!({"k":"sig","id":s.id,"disclosed":s.disclosed.iter().cloned().collect::<Vec<_>>(),"labels":labels,"keylen":keylen})
        }
        Statements::Revocation(s) => json!({"k":"rev","id":s.id,"ref":s.reference_id,"claim":s.claim}),
        Statements::Membership(s) => json!({"k":"mem","id":s.id,"ref":s.reference_id,"claim":s.claim}),
        Statements::Equality(s) => json!({"k":"eq","id":s.id,"refs":s.ref_id_claim_index.iter().map(|(a,b)| json!([a,b])).collect::<Vec<_>>()}),
        Statements::Commitment(s) => json!({"k":"comm","id":s.id,"ref":s.reference_id,"claim":s.claim}),
        Statements::Range(s) => json!({"k":"range","id":s.id,"ref":s.reference_id,"sig":s.signature_id,"claim":s.claim,"lo":s.lower.is_some(),"hi":s.upper.is_some()}),
        Statements::VerifiableEncryption(s) => json!({"k":"venc","id":s.id,"ref":s.reference_id,"claim":s.claim,"dec":s.allow_message_decryption}),
        Statements::VerifiableEncryptionDecryption(s) => json!({"k":"vdec","id":s.id,"ref":s.reference_id,"claim":s.claim}),
    }
}

fn proof_abs<S: ShortGroupSignatureScheme>(key: &str, p: &PresentationProofs<S>) -> Value {
    match p {
        PresentationProofs::Signature(s) => {
            let pv = serde_json::to_value(&s.pok).unwrap_or(Value::Null);
            let nresp = pv["proof"].as_array().map(|a| a.len()).unwrap_or(0);
            json!({"k":"sig","key":key,"id":s.id,"disc":s.disclosed_messages.iter().map(|(i,sc)| json!([i, hex::encode(sc.to_be_bytes())])).collect::<Vec<_>>(),"nresp":nresp})
        }
        PresentationProofs::Revocation(x) => json!({"k":"rev","key":key,"id":x.id}),
        PresentationProofs::Membership(x) => json!({"k":"mem","key":key,"id":x.id}),
        PresentationProofs::Equality(x) => json!({"k":"eq","key":key,"id":x.id}),
        PresentationProofs::Commitment(x) => json!({"k":"comm","key":key,"id":x.id}),
        PresentationProofs::Range(x) => json!({"k":"range","key":key,"id":x.id}),
        PresentationProofs::VerifiableEncryption(x) => json!({"k":"venc","key":key,"id":x.id,"has_dec":x.decryptable_scalar_proof.is_some()}),
        PresentationProofs::VerifiableEncryptionDecryption(x) => json!({"k":"vdec","key":key,"id":x.id}),
    }
}

pub fn verify_abs<S: ShortGroupSignatureScheme>(p: &Presentation<S>, schema: &PresentationSchema<S>) -> Value {
    let stmts: Vec<Value> = schema.statements.iter().map(|(k, st)| {
        let mut a = stmt_abs(st);
        a["key"] = json!(k);
        a
    }).collect();
    let proofs: Vec<Value> = p.proofs.iter().map(|(k, pr)| proof_abs(k, pr)).collect();
    let disclosed: Vec<Value> = p.disclosed_messages.iter().map(|(id, m)| {
        json!([id, m.iter().map(|(l, c)| json!([l, hex::encode(c.to_scalar().to_be_bytes())])).collect::<Vec<_>>()])
    }).collect();
    json!({"stmts":stmts,"proofs":proofs,"disclosed":disclosed})
}

/// structural abstract of (credentials, schema) for the creation skeleton
pub fn create_abs<S: ShortGroupSignatureScheme>(creds: &IndexMap<String, PresentationCredential<S>>, schema: &PresentationSchema<S>) -> Value {
    let cr: Vec<Value> = creds.iter().map(|(k, c)| match c {
        PresentationCredential::Signature(c) => json!({"key":k,"k":"sig","is_number":c.claims.iter().map(|x| matches!(x, ClaimData::Number(_))).collect::<Vec<_>>()}),
        PresentationCredential::Membership(_) => json!({"key":k,"k":"mem"}),
    }).collect();
    let stmts: Vec<Value> = schema.statements.iter().map(|(k, st)| {
        let mut a = stmt_abs(st);
        a["key"] = json!(k);
        a
    }).collect();
    json!({"creds":cr,"stmts":stmts})
}

// ------------------------------------------------------------------------------------------------

fn run_verify<S: ShortGroupSignatureScheme>(v: &Value, w: &World<S>) -> Value {
    let created = catch_unwind(AssertUnwindSafe(|| Presentation::create(&w.credentials, &w.schema, &w.nonce)));
    let p = match created {
        Ok(Ok(p)) => p,
        Ok(Err(e)) => return json!({"r":"ok","create":"err","msg":format!("{e:?}").chars().take(200).collect::<String>()}),
        Err(_) => return json!({"r":"ok","create":"panic"}),
    };
    let tp = to_tree(&p).expect("tree of presentation");
    let ts = to_tree(&w.schema).expect("tree of schema");
    let mut texts = BTreeSet::new();
    collect_texts(&tp, &mut texts);
    collect_texts(&ts, &mut texts);
    // struct field names are texts as well; they are harmless candidates
    let texts: Vec<String> = texts.into_iter().collect();
    let obj = v["obj"].as_str().unwrap_or("pres");
    let mut pts = vec![];
    enumerate(if obj == "pres" { &tp } else { &ts }, &texts, &mut pts);
    if v["sel"]["describe"] == true {
        return json!({"r":"ok","create":"ok","n_points":pts.len(),"tags":pts.iter().map(|p| p.tag).collect::<Vec<_>>()});
    }
    let base = {
        // identity case: both objects through the tree and back
        let p2: Result<Presentation<S>, String> = from_tree(&tp);
        let s2: Result<PresentationSchema<S>, String> = from_tree(&ts);
        match (p2, s2) {
            (Ok(p2), Ok(s2)) => class(catch_unwind(AssertUnwindSafe(|| p2.verify(&s2, &w.nonce)))),
            _ => "decode-err",
        }
    };
    // the original presentation after the same value-tree round trip (map order canonicalised)
    let p_rt_bytes: Option<Vec<u8>> = from_tree::<Presentation<S>>(&tp).ok().and_then(|q| serde_cbor::to_vec(&q).ok());
    let mut results = vec![];
    for i in selected(&v["sel"], pts.len()) {
        let pt = &pts[i];
        let d = desc(obj, pt);
        let root = if obj == "pres" { &tp } else { &ts };
        let Some(t2) = apply(root, pt) else {
            results.push(with_at(json!({"i":i,"desc":d,"decode":"skip"})));
            continue;
        };
        let (pm, sm): (Result<Presentation<S>, String>, Result<PresentationSchema<S>, String>) =
            if obj == "pres" { (from_tree(&t2), Ok(w.schema.clone())) } else { (Ok(p.clone()), from_tree(&t2)) };
        match (pm, sm) {
            (Ok(pm), Ok(sm)) => {
                let out = class(catch_unwind(AssertUnwindSafe(|| pm.verify(&sm, &w.nonce))));
                let abs = verify_abs(&pm, &sm);
                // is the decoded object the original one (a mutation the decoder normalises away)?
                let same = obj == "pres" && serde_cbor::to_vec(&pm).ok() == p_rt_bytes;
                // the decryption entry points take the same prover-supplied proofs
                let mut dec = vec![];
                // (brute-force scalar decryption is expensive: only when the mutation touched such a proof)
                let touches = d.contains("VerifiableEncryption");
                for (_, pr) in pm.proofs.iter().filter(|_| touches) {
                    match pr {
                        PresentationProofs::VerifiableEncryption(x) => {
                            for (_, iss) in &w.issuers {
                                let key = &iss.verifiable_decryption_key;
                                dec.push(match catch_unwind(AssertUnwindSafe(|| x.decrypt_scalar(key))) { Ok(_) => "ok", Err(_) => "panic" });
                                dec.push(match catch_unwind(AssertUnwindSafe(|| x.decrypt(key))) { Ok(_) => "ok", Err(_) => "panic" });
                            }
                        }
                        PresentationProofs::VerifiableEncryptionDecryption(x) => {
                            for (_, iss) in &w.issuers {
                                let key = &iss.verifiable_decryption_key;
                                dec.push(class(catch_unwind(AssertUnwindSafe(|| x.decrypt_and_verify(key)))));
                            }
                        }
                        _ => {}
                    }
                }
                let dec_panic = dec.iter().any(|x| *x == "panic");
                results.push(with_at(json!({"i":i,"desc":d,"decode":"ok","out":out,"abs":abs,"dec_panic":dec_panic,"same":same})));
            }
            (Err(e), _) | (_, Err(e)) => {
                let k = if e == "panic" { "panic" } else { "err" };
                results.push(with_at(json!({"i":i,"desc":d,"decode":k})));
            }
        }
    }
    json!({"r":"ok","create":"ok","base":base,"n_points":pts.len(),"results":results})
}

fn run_create<S: ShortGroupSignatureScheme>(v: &Value, w: &World<S>) -> Value {
    let ts = to_tree(&w.schema).expect("tree of schema");
    let cred_vec: Vec<(String, PresentationCredential<S>)> = w.credentials.iter().map(|(k, c)| (k.clone(), c.clone())).collect();
    let tc = to_tree(&cred_vec).expect("tree of credentials");
    let mut texts = BTreeSet::new();
    collect_texts(&ts, &mut texts);
    collect_texts(&tc, &mut texts);
    let texts: Vec<String> = texts.into_iter().collect();
    let obj = v["obj"].as_str().unwrap_or("schema");
    let mut pts = vec![];
    enumerate(if obj == "schema" { &ts } else { &tc }, &texts, &mut pts);
    if v["sel"]["describe"] == true {
        return json!({"r":"ok","n_points":pts.len(),"tags":pts.iter().map(|p| p.tag).collect::<Vec<_>>()});
    }
    let base = {
        let s2: Result<PresentationSchema<S>, String> = from_tree(&ts);
        let c2: Result<IndexMap<String, PresentationCredential<S>>, String> = from_tree::<Vec<(String, PresentationCredential<S>)>>(&tc).map(|v| v.into_iter().collect());
        match (s2, c2) {
            (Ok(s2), Ok(c2)) => class(catch_unwind(AssertUnwindSafe(|| Presentation::create(&c2, &s2, &w.nonce)))),
            _ => "decode-err",
        }
    };
    let mut results = vec![];
    for i in selected(&v["sel"], pts.len()) {
        let pt = &pts[i];
        let d = desc(obj, pt);
        let root = if obj == "schema" { &ts } else { &tc };
        let Some(t2) = apply(root, pt) else {
            results.push(with_at(json!({"i":i,"desc":d,"decode":"skip"})));
            continue;
        };
        let (sm, cm): (Result<PresentationSchema<S>, String>, Result<IndexMap<String, PresentationCredential<S>>, String>) =
            if obj == "schema" { (from_tree(&t2), Ok(w.credentials.clone())) } else { (Ok(w.schema.clone()), from_tree::<Vec<(String, PresentationCredential<S>)>>(&t2).map(|v| v.into_iter().collect())) };
        match (sm, cm) {
            (Ok(sm), Ok(cm)) => {
                let r = catch_unwind(AssertUnwindSafe(|| Presentation::create(&cm, &sm, &w.nonce)));
                let (out, ver) = match r {
                    Ok(Ok(p)) => ("ok", class(catch_unwind(AssertUnwindSafe(|| p.verify(&sm, &w.nonce))))),
                    Ok(Err(_)) => ("err", "-"),
                    Err(_) => ("panic", "-"),
                };
                results.push(with_at(json!({"i":i,"desc":d,"decode":"ok","out":out,"verify":ver,"abs":create_abs(&cm, &sm)})));
            }
            (Err(e), _) | (_, Err(e)) => {
                let k = if e == "panic" { "panic" } else { "err" };
                results.push(with_at(json!({"i":i,"desc":d,"decode":k})));
            }
        }
    }
    json!({"r":"ok","base":base,"n_points":pts.len(),"results":results})
}

fn ctype_of(c: &ClaimData) -> ClaimType {
    match c {
        ClaimData::Hashed(_) => ClaimType::Hashed,
        ClaimData::Number(_) => ClaimType::Number,
        ClaimData::Scalar(_) => ClaimType::Scalar,
        ClaimData::Revocation(_) => ClaimType::Revocation,
        ClaimData::Enumeration(_) => ClaimType::Enumeration,
    }
}

/// blind issuance: request creation from issuer-supplied public data, blind signing of a holder-supplied
/// request, unblinding of an issuer-supplied bundle
/// labels / blindable list / claim count of a credential schema, and key sizes (generators the blind context indexes)
fn schema_abs(sc: &CredentialSchema) -> Value {
    json!({"labels": sc.claim_indices.iter().cloned().collect::<Vec<_>>(), "blindable": sc.blind_claims.iter().cloned().collect::<Vec<_>>(), "nclaims": sc.claims.len()})
}
fn ngens<T: Serialize>(key: &T, ps_field: &str) -> usize {
    let v = serde_json::to_value(key).unwrap_or(Value::Null);
    if let Some(a) = v[ps_field].as_array() {
        return a.len();
    }
    // BBS keys: public key has y; the secret key records max_messages
    v["y"].as_array().map(|a| a.len()).or_else(|| v["max_messages"].as_u64().map(|x| x as usize)).unwrap_or(0)
}
fn nresp_of<T: Serialize>(ctx: &T) -> usize {
    serde_json::to_value(ctx).ok().and_then(|v| v["proofs"].as_array().map(|a| a.len())).unwrap_or(0)
}

fn run_blind<S: ShortGroupSignatureScheme>(v: &Value) -> Value {
    let labels: Vec<String> = v["labels"].as_array().unwrap().iter().map(|x| x.as_str().unwrap().to_string()).collect();
    let claims: Vec<ClaimData> = v["claims"].as_array().unwrap().iter().map(claim_from).collect();
    let blindable: Vec<String> = v["blindable"].as_array().unwrap().iter().map(|x| labels[x.as_u64().unwrap() as usize].clone()).collect();
    let schema_claims: Vec<ClaimSchema> = claims.iter().zip(labels.iter()).map(|(c, l)| ClaimSchema { claim_type: ctype_of(c), label: l.clone(), print_friendly: true, validators: vec![] }).collect();
    let bl: Vec<&str> = blindable.iter().map(|s| s.as_str()).collect();
    let cs = match CredentialSchema::new(Some("s"), None, &bl, &schema_claims) {
        Ok(c) => c,
        Err(_) => return json!({"r":"ok","schema":"err"}),
    };
    let (ipub, issuer) = Issuer::<S>::new(&cs);
    let hidden_idx: Vec<usize> = v["hidden"].as_array().unwrap().iter().map(|x| x.as_u64().unwrap() as usize).collect();
    let known: BTreeMap<String, ClaimData> = (0..labels.len()).filter(|i| !hidden_idx.contains(i)).map(|i| (labels[i].clone(), claims[i].clone())).collect();
    let blind_claims: BTreeMap<String, ClaimData> = hidden_idx.iter().map(|&i| (labels[i].clone(), claims[i].clone())).collect();
    let (req, blinder) = match catch_unwind(AssertUnwindSafe(|| BlindCredentialRequest::<S>::new(&ipub, &blind_claims))) {
        Ok(Ok(x)) => x,
        Ok(Err(_)) => return json!({"r":"ok","request":"err"}),
        Err(_) => return json!({"r":"ok","request":"panic"}),
    };
    let bundle = {
        let mut iss = issuer.clone();
        match catch_unwind(AssertUnwindSafe(|| iss.blind_sign_credential(&req, &known))) {
            Ok(Ok(b)) => b,
            Ok(Err(_)) => return json!({"r":"ok","sign":"err"}),
            Err(_) => return json!({"r":"ok","sign":"panic"}),
        }
    };
    let t_ipub = to_tree(&ipub).expect("tree");
    let t_req = to_tree(&req).expect("tree");
    let t_known = to_tree(&known).expect("tree");
    let t_bundle = to_tree(&bundle).expect("tree");
    let t_bclaims = to_tree(&blind_claims).expect("tree");
    let mut texts = BTreeSet::new();
    for t in [&t_ipub, &t_req, &t_known, &t_bundle, &t_bclaims] {
        collect_texts(t, &mut texts);
    }
    let texts: Vec<String> = texts.into_iter().collect();
    let obj = v["obj"].as_str().unwrap_or("request");
    let root = match obj {
        "ipub" => &t_ipub,
        "request" => &t_req,
        "known" => &t_known,
        "bundle" => &t_bundle,
        _ => &t_bclaims,
    };
    let mut pts = vec![];
    enumerate(root, &texts, &mut pts);
    if v["sel"]["describe"] == true {
        return json!({"r":"ok","n_points":pts.len(),"tags":pts.iter().map(|p| p.tag).collect::<Vec<_>>()});
    }
    let mut results = vec![];
    for i in selected(&v["sel"], pts.len()) {
        let pt = &pts[i];
        let d = desc(obj, pt);
        let Some(t2) = apply(root, pt) else {
            results.push(with_at(json!({"i":i,"desc":d,"decode":"skip"})));
            continue;
        };
        let mut decode_err: Option<String> = None;
        let mut out = "-";
        let mut abs = Value::Null;
        // structural abstract of a blind-signing call: schema, key size, response count, labels, per-label validity
        let sign_abs = |iss: &Issuer<S>, req_labels: &Vec<String>, nresp: usize, known: &BTreeMap<String, ClaimData>| -> Value {
            let valid: Vec<Value> = known.iter().map(|(l, c)| {
                let ok = match iss.schema.claim_indices.get_index_of(l) {
                    Some(i) => iss.schema.claims.get(i).map(|t| c.is_type(t.claim_type) && t.is_valid(c) == Some(true)).unwrap_or(false),
                    None => false,
                };
                json!([l, ok])
            }).collect();
            json!({"k":"blind_sign","schema":schema_abs(&iss.schema),"nkey":ngens(&iss.signing_key, "y"),"nresp":nresp,
                   "req_labels":req_labels,"known":valid,"has_revocation":known.values().any(|c| matches!(c, ClaimData::Revocation(_)))})
        };
        match obj {
            "ipub" => match from_tree::<IssuerPublic<S>>(&t2) {
                // holder builds a request from issuer-supplied public data
                Ok(ip) => {
                    out = class(catch_unwind(AssertUnwindSafe(|| BlindCredentialRequest::<S>::new(&ip, &blind_claims))));
                    abs = json!({"k":"request_new","schema":schema_abs(&ip.schema),"ngens":ngens(&ip.verifying_key, "y_blinds"),
                                 "labels":blind_claims.keys().cloned().collect::<Vec<_>>()});
                }
                Err(e) => decode_err = Some(e),
            },
            "request" => match from_tree::<BlindCredentialRequest<S>>(&t2) {
                Ok(r) => {
                    let mut iss = issuer.clone();
                    out = class(catch_unwind(AssertUnwindSafe(|| iss.blind_sign_credential(&r, &known))));
                    if out != "panic" && class(catch_unwind(AssertUnwindSafe(|| r.verify(&issuer)))) == "panic" {
                        out = "panic";
                    }
                    abs = sign_abs(&issuer, &r.blind_claim_labels, nresp_of(&r.blind_signature_context), &known);
                }
                Err(e) => decode_err = Some(e),
            },
            "known" => match from_tree::<BTreeMap<String, ClaimData>>(&t2) {
                Ok(k) => {
                    let mut iss = issuer.clone();
                    out = class(catch_unwind(AssertUnwindSafe(|| iss.blind_sign_credential(&req, &k))));
                    abs = sign_abs(&issuer, &req.blind_claim_labels, nresp_of(&req.blind_signature_context), &k);
                }
                Err(e) => decode_err = Some(e),
            },
            "bundle" => match from_tree::<BlindCredentialBundle<S>>(&t2) {
                Ok(b) => {
                    abs = json!({"k":"unblind","schema":schema_abs(&b.issuer.schema),"bundle_labels":b.credential.claims.keys().cloned().collect::<Vec<_>>(),
                                 "blind_labels":blind_claims.keys().cloned().collect::<Vec<_>>(),"revocation_label":b.credential.revocation_label});
                    out = class(catch_unwind(AssertUnwindSafe(|| b.to_unblinded(&blind_claims, blinder))));
                }
                Err(e) => decode_err = Some(e),
            },
            _ => match from_tree::<BTreeMap<String, ClaimData>>(&t2) {
                Ok(bc) => {
                    let b = bundle.clone();
                    abs = json!({"k":"unblind","schema":schema_abs(&b.issuer.schema),"bundle_labels":b.credential.claims.keys().cloned().collect::<Vec<_>>(),
                                 "blind_labels":bc.keys().cloned().collect::<Vec<_>>(),"revocation_label":b.credential.revocation_label});
                    out = class(catch_unwind(AssertUnwindSafe(|| b.to_unblinded(&bc, blinder))));
                    if out != "panic" {
                        let o2 = class(catch_unwind(AssertUnwindSafe(|| BlindCredentialRequest::<S>::new(&ipub, &bc))));
                        if o2 == "panic" {
                            out = "panic";
                        }
                    }
                }
                Err(e) => decode_err = Some(e),
            },
        }
        match decode_err {
            None => results.push(with_at(json!({"i":i,"desc":d,"decode":"ok","out":out,"abs":abs}))),
            Some(e) => results.push(with_at(json!({"i":i,"desc":d,"decode": if e == "panic" {"panic"} else {"err"}}))),
        }
    }
    json!({"r":"ok","n_points":pts.len(),"results":results})
}

/// byte-level mutation points of an encoding: (position, kind)
fn byte_points(len: usize) -> Vec<(usize, &'static str)> {
    let mut pos: BTreeSet<usize> = BTreeSet::new();
    if len <= 400 {
        pos.extend(0..=len);
    } else {
        pos.extend(0..64);
        pos.extend(len - 64..=len);
        for k in 0..272 {
            pos.insert(64 + (len - 128) * k / 272);
        }
    }
    let mut out = vec![];
    for p in pos {
        out.push((p, "trunc"));
        if p < len {
            for k in ["flip1", "flip80", "set00", "setff", "del", "ins00", "insff"] {
                out.push((p, k));
            }
        }
    }
    out
}

fn byte_mutate(b: &[u8], p: usize, k: &str) -> Vec<u8> {
    let mut x = b.to_vec();
    match k {
        "trunc" => x.truncate(p),
        "flip1" => x[p] ^= 1,
        "flip80" => x[p] ^= 0x80,
        "set00" => x[p] = 0,
        "setff" => x[p] = 0xff,
        "del" => {
            x.remove(p);
        }
        "ins00" => x.insert(p, 0),
        _ => x.insert(p, 0xff),
    }
    x
}

fn dec_class<T: DeserializeOwned>(fmt: &str, b: &[u8]) -> (&'static str, Option<T>) {
    let r = catch_unwind(AssertUnwindSafe(|| -> Result<T, String> {
        match fmt {
            "cbor" => serde_cbor::from_slice::<T>(b).map_err(|e| e.to_string()),
            "bare" => serde_bare::from_slice::<T>(b).map_err(|e| e.to_string()),
            _ => serde_json::from_slice::<T>(b).map_err(|e| e.to_string()),
        }
    }));
    match r {
        Ok(Ok(t)) => ("ok", Some(t)),
        Ok(Err(_)) => ("err", None),
        Err(_) => ("panic", None),
    }
}

fn enc<T: Serialize>(fmt: &str, t: &T) -> Option<Vec<u8>> {
    match fmt {
        "cbor" => serde_cbor::to_vec(t).ok(),
        "bare" => serde_bare::to_vec(t).ok(),
        _ => serde_json::to_vec(t).ok(),
    }
}

/// corrupted encodings of every object kind that crosses a trust boundary, in each format
fn run_bytes<S: ShortGroupSignatureScheme>(v: &Value, w: &World<S>) -> Value {
    let fmt = v["fmt"].as_str().unwrap_or("cbor");
    let obj = v["obj"].as_str().unwrap_or("pres");
    let p = match catch_unwind(AssertUnwindSafe(|| Presentation::create(&w.credentials, &w.schema, &w.nonce))) {
        Ok(Ok(p)) => p,
        _ => return json!({"r":"ok","create":"err"}),
    };
    let bundle = w.issuers[0].1.clone().sign_credential(&w.claims[0]).ok();
    let encoded: Option<Vec<u8>> = match obj {
        "pres" => enc(fmt, &p),
        "schema" => enc(fmt, &w.schema),
        "ipub" => enc(fmt, &w.issuers[0].0),
        "issuer" => enc(fmt, &w.issuers[0].1),
        "cred" => bundle.as_ref().and_then(|b| enc(fmt, b)),
        _ => None,
    };
    let Some(b) = encoded else { return json!({"r":"ok","encode":"err"}) };
    let pts = byte_points(b.len());
    let base = match obj {
        "pres" => dec_class::<Presentation<S>>(fmt, &b).0,
        "schema" => dec_class::<PresentationSchema<S>>(fmt, &b).0,
        "ipub" => dec_class::<IssuerPublic<S>>(fmt, &b).0,
        "issuer" => dec_class::<Issuer<S>>(fmt, &b).0,
        _ => dec_class::<credx::credential::CredentialBundle<S>>(fmt, &b).0,
    };
    let mut results = vec![];
    for i in selected(&v["sel"], pts.len()) {
        let (pos, k) = pts[i];
        let x = byte_mutate(&b, pos, k);
        let d = format!("{obj}:{fmt}:{k}@{pos}/{}", b.len());
        let (dc, out) = match obj {
            "pres" => {
                let (c, t) = dec_class::<Presentation<S>>(fmt, &x);
                (c, t.map(|t| class(catch_unwind(AssertUnwindSafe(|| t.verify(&w.schema, &w.nonce))))))
            }
            "schema" => {
                let (c, t) = dec_class::<PresentationSchema<S>>(fmt, &x);
                (c, t.map(|t| {
                    let a = class(catch_unwind(AssertUnwindSafe(|| p.verify(&t, &w.nonce))));
                    let b2 = class(catch_unwind(AssertUnwindSafe(|| Presentation::create(&w.credentials, &t, &w.nonce))));
                    if a == "panic" || b2 == "panic" { "panic" } else { a }
                }))
            }
            "ipub" => {
                let (c, t) = dec_class::<IssuerPublic<S>>(fmt, &x);
                (c, t.map(|_| "ok"))
            }
            "issuer" => {
                let (c, t) = dec_class::<Issuer<S>>(fmt, &x);
                (c, t.map(|_| "ok"))
            }
            _ => {
                let (c, t) = dec_class::<credx::credential::CredentialBundle<S>>(fmt, &x);
                (c, t.map(|_| "ok"))
            }
        };
        results.push(with_at(json!({"i":i,"desc":d,"decode":dc,"out":out.unwrap_or("-")})));
    }
    json!({"r":"ok","base":base,"n_points":pts.len(),"results":results})
}

fn case<S: ShortGroupSignatureScheme>(v: &Value) -> Value {
    let target = v["target"].as_str().unwrap_or("verify");
    if target == "blind" {
        return run_blind::<S>(v);
    }
    let w = match build_world::<S>(v) {
        Ok(w) => w,
        Err(e) => return json!({"r":"ok","world":"err","msg":e}),
    };
    match target {
        "verify" => run_verify::<S>(v, &w),
        "create" => run_create::<S>(v, &w),
        "bytes" => run_bytes::<S>(v, &w),
        _ => json!({"r":"harness-error","msg":"unknown target"}),
    }
}

pub fn run(_op: &str, v: &Value) -> Value {
    if v["suite"].as_str() == Some("ps") { case::<PsScheme>(v) } else { case::<BbsScheme>(v) }
}
