//! f_wire_issue / f_wire_pres (C19): every object that crosses a trust boundary is encoded in each
//! format (JSON, CBOR, BARE), decoded, re-encoded (byte equality), re-encoded in the other
//! self-describing format (equality with the original's encoding: the decoded object *is* the
//! original), and used (same verification verdict as the original).
use crate::ops_create::build_world;
use crate::ops_issue::{claim_from, ctype, validator};
use crate::util::last_panic;
use credx::blind::{BlindCredentialBundle, BlindCredentialRequest};
use credx::claim::*;
use credx::credential::{ClaimSchema, CredentialBundle, CredentialSchema};
use credx::issuer::{Issuer, IssuerPublic};
use credx::knox::bbs::BbsScheme;
use credx::knox::ps::PsScheme;
use credx::knox::short_group_sig_core::short_group_traits::ShortGroupSignatureScheme;
use credx::presentation::*;
use credx::statement::*;
use indexmap::IndexMap;
use serde::{de::DeserializeOwned, Serialize};
use serde_json::{json, Value};
use std::collections::{BTreeMap, BTreeSet};
use std::panic::{catch_unwind, AssertUnwindSafe};

pub const FORMATS: [&str; 3] = ["json", "cbor", "bare"];

pub fn enc<T: Serialize>(fmt: &str, t: &T) -> Result<Vec<u8>, String> {
    let r = catch_unwind(AssertUnwindSafe(|| match fmt {
        "cbor" => serde_cbor::to_vec(t).map_err(|e| e.to_string()),
        "bare" => serde_bare::to_vec(t).map_err(|e| e.to_string()),
        _ => serde_json::to_vec(t).map_err(|e| e.to_string()),
    }));
    match r {
        Ok(x) => x,
        Err(_) => Err(format!("panic at {}", last_panic())),
    }
}
pub fn dec<T: DeserializeOwned>(fmt: &str, b: &[u8]) -> Result<T, String> {
    let r = catch_unwind(AssertUnwindSafe(|| match fmt {
        "cbor" => serde_cbor::from_slice::<T>(b).map_err(|e| e.to_string()),
        "bare" => serde_bare::from_slice::<T>(b).map_err(|e| e.to_string()),
        _ => serde_json::from_slice::<T>(b).map_err(|e| e.to_string()),
    }));
    match r {
        Ok(x) => x,
        Err(_) => Err(format!("panic at {}", last_panic())),
    }
}

/// number of optional fields the derive skips when serialising this object (positional formats cannot
/// tell a skipped field from the next one): CredentialSchema.label / description = None,
/// ClaimSchema.validators = [], Length / Range validators with an absent bound
pub fn skipped_fields(v: &Value) -> usize {
    match v {
        Value::Object(m) => {
            let mut n = 0;
            if m.contains_key("claim_type") && m.contains_key("print_friendly") && !m.contains_key("validators") {
                n += 1;
            }
            if m.contains_key("claim_indices") && m.contains_key("blind_claims") {
                n += (!m.contains_key("label")) as usize + (!m.contains_key("description")) as usize;
            }
            for k in ["Length", "Range"] {
                if let Some(Value::Object(inner)) = m.get(k) {
                    if m.len() == 1 {
                        n += (!inner.contains_key("min")) as usize + (!inner.contains_key("max")) as usize;
                    }
                }
            }
            n + m.values().map(skipped_fields).sum::<usize>()
        }
        Value::Array(a) => a.iter().map(skipped_fields).sum(),
        _ => 0,
    }
}

/// one object through every format; `use_it` yields the verdict string of an object
pub fn round_trips<T: Serialize + DeserializeOwned>(obj: &str, shape: &str, x: &T, use_it: &dyn Fn(&T) -> String, out: &mut Vec<Value>) {
    let v0 = match catch_unwind(AssertUnwindSafe(|| use_it(x))) {
        Ok(s) => s,
        Err(_) => "panic".to_string(),
    };
    let j0 = enc("json", x).ok();
    let c0 = enc("cbor", x).ok();
    let skipped = serde_json::to_value(x).map(|v| skipped_fields(&v)).unwrap_or(0);
    for fmt in FORMATS {
        let mut r = json!({"obj": obj, "shape": shape, "fmt": fmt, "verdict_orig": v0, "skipped": skipped});
        match enc(fmt, x) {
            Err(e) => {
                r["enc"] = json!(format!("err: {}", e.chars().take(100).collect::<String>()));
            }
            Ok(e1) => {
                r["enc"] = json!("ok");
                r["len"] = json!(e1.len());
                match dec::<T>(fmt, &e1) {
                    Err(e) => {
                        r["dec"] = json!(format!("err: {}", e.chars().take(140).collect::<String>()));
                    }
                    Ok(y) => {
                        r["dec"] = json!("ok");
                        r["reencode_same"] = json!(enc(fmt, &y).map(|e2| e2 == e1).unwrap_or(false));
                        r["same_as_json"] = json!(match (&j0, enc("json", &y)) { (Some(a), Ok(b)) => *a == b, _ => false });
                        r["same_as_cbor"] = json!(match (&c0, enc("cbor", &y)) { (Some(a), Ok(b)) => *a == b, _ => false });
                        r["verdict"] = json!(match catch_unwind(AssertUnwindSafe(|| use_it(&y))) { Ok(s) => s, Err(_) => "panic".to_string() });
                    }
                }
            }
        }
        out.push(r);
    }
}

fn ok_err<T, E>(r: Result<T, E>) -> &'static str {
    if r.is_ok() { "ok" } else { "err" }
}

/// presentation over one credential that discloses the claims at `disclose`; verdict of verify
fn present_verdict<S: ShortGroupSignatureScheme>(ipub: &IssuerPublic<S>, cred: &credx::credential::Credential<S>, disclose: &[usize]) -> String {
    let labels: Vec<String> = ipub.schema.claim_indices.iter().cloned().collect();
    let disclosed: BTreeSet<String> = disclose.iter().filter_map(|i| labels.get(*i).cloned()).collect();
    let sig_st = SignatureStatement { disclosed, id: "s".to_string(), issuer: ipub.clone() };
    let schema = PresentationSchema::new(&[sig_st.into()]);
    let mut creds: IndexMap<String, PresentationCredential<S>> = IndexMap::new();
    creds.insert("s".to_string(), cred.clone().into());
    match Presentation::create(&creds, &schema, b"n") {
        Ok(p) => format!("create-ok/verify-{}", ok_err(p.verify(&schema, b"n"))),
        Err(_) => "create-err".to_string(),
    }
}

fn issue_case<S: ShortGroupSignatureScheme>(v: &Value) -> Value {
    let spec = &v["schema"];
    let cl = spec["claims"].as_array().unwrap();
    let schema_claims: Vec<ClaimSchema> = cl
        .iter()
        .enumerate()
        .map(|(i, s)| ClaimSchema {
            claim_type: ctype(s["t"].as_str().unwrap()),
            label: s["label"].as_str().map(|x| x.to_string()).unwrap_or(format!("l{i}")),
            print_friendly: s["pf"].as_bool().unwrap_or(true),
            validators: s["validators"].as_array().map(|a| a.iter().map(validator).collect()).unwrap_or_default(),
        })
        .collect();
    let blind: Vec<String> = spec["blind"].as_array().map(|a| a.iter().map(|x| schema_claims[x.as_u64().unwrap() as usize].label.clone()).collect()).unwrap_or_default();
    let bl: Vec<&str> = blind.iter().map(|s| s.as_str()).collect();
    let cs = match CredentialSchema::new(spec["label"].as_str(), spec["desc"].as_str(), &bl, &schema_claims) {
        Ok(c) => c,
        Err(e) => return json!({"r":"ok","schema":"err","msg":format!("{e:?}")}),
    };
    let claims: Vec<ClaimData> = v["claims"].as_array().unwrap().iter().map(claim_from).collect();
    let bad_claims: Vec<Vec<ClaimData>> = v["bad_claims"].as_array().map(|a| a.iter().map(|c| c.as_array().unwrap().iter().map(claim_from).collect()).collect()).unwrap_or_default();
    let shape = v["shape"].as_str().unwrap_or("");
    let mut out = vec![];
    let (ipub, mut issuer) = Issuer::<S>::new(&cs);
    let bundle = match issuer.sign_credential(&claims) {
        Ok(b) => b,
        Err(e) => return json!({"r":"ok","sign":"err","msg":format!("{e:?}")}),
    };
    let ipub = IssuerPublic::from(&issuer);
    let disclose: Vec<usize> = v["disclose"].as_array().map(|a| a.iter().map(|x| x.as_u64().unwrap() as usize).collect()).unwrap_or_default();

    // claims, validators, claim schemas on their own
    for (i, c) in claims.iter().enumerate() {
        round_trips(&format!("claim"), &format!("{shape}#{i}"), c, &|y: &ClaimData| hex::encode(y.to_scalar().to_be_bytes()), &mut out);
    }
    for (i, cs1) in schema_claims.iter().enumerate() {
        let c = claims[i].clone();
        round_trips("claim_schema", &format!("{shape}#{i}"), cs1, &|y: &ClaimSchema| format!("{:?}", y.is_valid(&c)), &mut out);
        for (k, val) in cs1.validators.iter().enumerate() {
            let cc = c.clone();
            let bads: Vec<ClaimData> = bad_claims.iter().filter_map(|b| b.get(i).cloned()).collect();
            round_trips("validator", &format!("{shape}#{i}.{k}"), val, &|y: &ClaimValidator| format!("{:?}/{:?}", y.is_valid(&cc), bads.iter().map(|b| y.is_valid(b)).collect::<Vec<_>>()), &mut out);
        }
    }
    // the credential schema: which claim vectors would an issuer holding the decoded schema sign?
    {
        let claims2 = claims.clone();
        let bad2 = bad_claims.clone();
        round_trips("credential_schema", shape, &cs, &|y: &CredentialSchema| {
            let (_, mut iss) = Issuer::<S>::new(y);
            let mut s = format!("good-{}", ok_err(iss.sign_credential(&claims2)));
            for b in &bad2 {
                let (_, mut iss) = Issuer::<S>::new(y);
                s += &format!("/bad-{}", ok_err(iss.sign_credential(b)));
            }
            s
        }, &mut out);
    }
    // issuer public data: a presentation against a statement carrying the decoded data
    {
        let cred = bundle.credential.clone();
        let d = disclose.clone();
        round_trips("issuer_public", shape, &ipub, &|y: &IssuerPublic<S>| present_verdict(y, &cred, &d), &mut out);
    }
    // the issuer's own state: refresh the issued credential's handle, issue another credential, revoke
    {
        let cred = bundle.credential.clone();
        let claims2 = claims.clone();
        let d = disclose.clone();
        round_trips("issuer", shape, &issuer, &|y: &Issuer<S>| {
            let mut iss = y.clone();
            let rc = claims2.iter().find_map(|c| if let ClaimData::Revocation(r) = c { Some(r.clone()) } else { None });
            let refresh = rc.as_ref().map(|r| ok_err(iss.update_revocation_handle(r.clone()))).unwrap_or("none");
            let again = ok_err(iss.sign_credential(&claims2));  // same identifier: must be refused
            let ip = IssuerPublic::from(&iss);
            let pv = present_verdict(&ip, &cred, &d);
            format!("refresh-{refresh}/reissue-{again}/{pv}")
        }, &mut out);
    }
    // credential bundle
    {
        let d = disclose.clone();
        round_trips("credential_bundle", shape, &bundle, &|y: &CredentialBundle<S>| present_verdict(&y.issuer, &y.credential, &d), &mut out);
        let ip = ipub.clone();
        round_trips("credential", shape, &bundle.credential, &|y: &credx::credential::Credential<S>| present_verdict(&ip, y, &d), &mut out);
    }
    // blind issuance objects
    let hidden: Vec<usize> = spec["blind"].as_array().map(|a| a.iter().map(|x| x.as_u64().unwrap() as usize).collect()).unwrap_or_default();
    if !hidden.is_empty() {
        let labels: Vec<String> = schema_claims.iter().map(|c| c.label.clone()).collect();
        let blind_claims: BTreeMap<String, ClaimData> = hidden.iter().map(|&i| (labels[i].clone(), claims[i].clone())).collect();
        let mut known: BTreeMap<String, ClaimData> = (0..labels.len()).filter(|i| !hidden.contains(i)).map(|i| (labels[i].clone(), claims[i].clone())).collect();
        for (_, c) in known.iter_mut() {
            if let ClaimData::Revocation(r) = c {
                r.value = format!("{}-blind", r.value);
            }
        }
        if let Ok((req, blinder)) = BlindCredentialRequest::<S>::new(&ipub, &blind_claims) {
            {
                let iss0 = issuer.clone();
                let k = known.clone();
                round_trips("blind_request", shape, &req, &|y: &BlindCredentialRequest<S>| {
                    let mut iss = iss0.clone();
                    format!("blind-sign-{}", ok_err(iss.blind_sign_credential(y, &k)))
                }, &mut out);
            }
            if let Ok(bb) = issuer.blind_sign_credential(&req, &known) {
                let bc = blind_claims.clone();
                let d = disclose.clone();
                round_trips("blind_bundle", shape, &bb, &|y: &BlindCredentialBundle<S>| match y.clone().to_unblinded(&bc, blinder) {
                    Ok(cb) => format!("unblind-ok/{}", present_verdict(&cb.issuer, &cb.credential, &d)),
                    Err(_) => "unblind-err".to_string(),
                }, &mut out);
            }
        }
    }
    json!({"r":"ok","results":out})
}

fn pres_case<S: ShortGroupSignatureScheme>(v: &Value) -> Value {
    let w = match build_world::<S>(v) {
        Ok(w) => w,
        Err(e) => return json!({"r":"ok","world":"err","msg":e}),
    };
    let shape = v["shape"].as_str().unwrap_or("");
    let p = match catch_unwind(AssertUnwindSafe(|| Presentation::create(&w.credentials, &w.schema, &w.nonce))) {
        Ok(Ok(p)) => p,
        Ok(Err(e)) => return json!({"r":"ok","create":"err","msg":format!("{e:?}").chars().take(200).collect::<String>()}),
        Err(_) => return json!({"r":"ok","create":"panic"}),
    };
    let mut out = vec![];
    {
        let schema = w.schema.clone();
        let nonce = w.nonce.clone();
        round_trips("presentation", shape, &p, &|y: &Presentation<S>| format!("verify-{}", ok_err(y.verify(&schema, &nonce))), &mut out);
    }
    {
        let nonce = w.nonce.clone();
        let creds = w.credentials.clone();
        let p0 = p.clone();
        round_trips("presentation_schema", shape, &w.schema, &|y: &PresentationSchema<S>| {
            let a = ok_err(p0.verify(y, &nonce));
            let b = match Presentation::create(&creds, y, &nonce) {
                Ok(q) => format!("create-ok/verify-{}", ok_err(q.verify(y, &nonce))),
                Err(_) => "create-err".to_string(),
            };
            format!("verify-{a}/{b}")
        }, &mut out);
    }
    // every statement and proof on its own (the enum encodings), and every presentation credential
    for (id, st) in &w.schema.statements {
        round_trips("statement", &format!("{shape}:{id}"), st, &|y: &Statements<S>| y.id(), &mut out);
    }
    for (id, pr) in &p.proofs {
        round_trips("proof", &format!("{shape}:{id}"), pr, &|y: &PresentationProofs<S>| y.id().clone(), &mut out);
    }
    for (id, c) in &w.credentials {
        round_trips("presentation_credential", &format!("{shape}:{id}"), c, &|_y: &PresentationCredential<S>| String::new(), &mut out);
    }
    json!({"r":"ok","create":"ok","results":out})
}

pub fn run(op: &str, v: &Value) -> Value {
    let ps = v["suite"].as_str() == Some("ps");
    match op {
        "f_wire_issue" => if ps { issue_case::<PsScheme>(v) } else { issue_case::<BbsScheme>(v) },
        _ => if ps { pres_case::<PsScheme>(v) } else { pres_case::<BbsScheme>(v) },
    }
}
