//! f_vencbytes (C10): a hand-written holder for a schema of one signature statement and one verifiable-encryption
//! statement with scalar decryption requested, following Presentation::create except for the content of the byte
//! decomposition (adapted from the demonstration of seed C10-b).  The honest variant is the calibration case:
//! it must be accepted and decrypt to the signed scalar, otherwise this holder and the library have drifted apart.
use crate::ops_issue::claim_from;
use blsful::inner_types::{G1Affine, G1Projective, G2Affine, Scalar};
use bulletproofs::{BulletproofGens, PedersenGens, RangeProof};
use credx::claim::{ClaimData, ClaimType};
use credx::credential::{ClaimSchema, Credential, CredentialSchema};
use credx::issuer::Issuer;
use credx::knox::bbs::BbsScheme;
use credx::knox::ps::PsScheme;
use credx::knox::short_group_sig_core::short_group_traits::{ProofOfSignatureKnowledgeContribution, ShortGroupSignatureScheme};
use credx::knox::short_group_sig_core::{HiddenMessage, ProofMessage};
use credx::presentation::{ByteProof, Ciphertext, DecryptableScalarProof, Presentation, PresentationProofs, PresentationSchema, SignatureProof, VerifiableEncryptionProof};
use credx::statement::{SignatureStatement, VerifiableEncryptionStatement};
use elliptic_curve::ff::Field;
use elliptic_curve::group::prime::PrimeCurveAffine;
use indexmap::{indexmap, IndexMap};
use merlin::Transcript;
use rand::thread_rng;
use serde_json::{json, Value};
use std::collections::BTreeSet;
use std::panic::{catch_unwind, AssertUnwindSafe};

fn curve_parameters(transcript: &mut Transcript) {
    transcript.append_message(b"curve name", b"BLS12-381");
    transcript.append_message(
        b"curve G1 generator",
        G1Affine::generator().to_compressed().as_slice(),
    );
    transcript.append_message(
        b"curve G2 generator",
        G2Affine::generator().to_compressed().as_slice(),
    );
    transcript.append_message(
        b"subgroup size",
        &[
            0x73, 0xed, 0xa7, 0x53, 0x29, 0x9d, 0x7d, 0x48, 0x33, 0x39, 0xd8, 0x08, 0x09, 0xa1,
            0xd8, 0x05, 0x53, 0xbd, 0xa4, 0x02, 0xff, 0xfe, 0x5b, 0xfe, 0xff, 0xff, 0xff, 0xff,
            0x00, 0x00, 0x00, 0x01,
        ],
    );
    transcript.append_message(
        b"field modulus",
        &[
            0x1a, 0x01, 0x11, 0xea, 0x39, 0x7f, 0xe6, 0x9a, 0x4b, 0x1b, 0xa7, 0xb6, 0x43, 0x4b,
            0xac, 0xd7, 0x64, 0x77, 0x4b, 0x84, 0xf3, 0x85, 0x12, 0xbf, 0x67, 0x30, 0xd2, 0xa0,
            0xf6, 0xb0, 0xf6, 0x24, 0x1e, 0xab, 0xff, 0xfe, 0xb1, 0x53, 0xff, 0xff, 0xb9, 0xfe,
            0xff, 0xff, 0xff, 0xff, 0xaa, 0xab,
        ],
    );
}

/// A holder that follows Presentation::create for a schema made of one signature statement
/// (nothing disclosed) and one verifiable-encryption statement with scalar decryption
/// requested, except for the content of the byte decomposition.
fn holder<S: ShortGroupSignatureScheme>(
    credential: &Credential<S>,
    sig_st: &SignatureStatement<S>,
    verenc_st: &VerifiableEncryptionStatement<G1Projective>,
    schema: &PresentationSchema<S>,
    nonce: &[u8],
    bytes: &str,
    other: Scalar,
) -> Presentation<S> {
    let mut rng = thread_rng();
    let g = G1Projective::GENERATOR;
    let h = verenc_st.message_generator;
    let key = verenc_st.encryption_key.0;

    let mut transcript = Transcript::new(b"credx presentation");
    curve_parameters(&mut transcript);
    transcript.append_message(b"nonce", nonce);
    schema.add_challenge_contribution(&mut transcript);

    // the signature proof: every claim hidden, the encrypted one with a shared nonce `b`
    let b = Scalar::random(&mut rng);
    let messages = credential
        .claims
        .iter()
        .enumerate()
        .map(|(i, c)| {
            if i == verenc_st.claim {
                ProofMessage::Hidden(HiddenMessage::ExternalBlinding(c.to_scalar(), b))
            } else {
                ProofMessage::Hidden(HiddenMessage::ProofSpecificBlinding(c.to_scalar()))
            }
        })
        .collect::<Vec<_>>();
    transcript.append_message(b"disclosed messages from statement ", sig_st.id.as_bytes());
    transcript.append_message(b"disclosed messages length", &[0u8]);
    let pok = S::ProofOfSignatureKnowledgeContribution::commit(
        &credential.signature,
        &sig_st.issuer.verifying_key,
        &messages,
        &mut rng,
    )
    .unwrap();
    pok.add_proof_contribution(&mut transcript);

    // the ciphertext of the signed claim, exactly as the library does it
    let m = credential.claims[verenc_st.claim].to_scalar();
    let r = Scalar::random(&mut rng);
    let k = Scalar::random(&mut rng);
    let c1 = g * k;
    let c2 = h * m + key * k;
    let r1 = g * r;
    let r2 = h * b + key * r;
    transcript.append_message(b"", verenc_st.id.as_bytes());
    transcript.append_message(b"c1", c1.to_compressed().as_slice());
    transcript.append_message(b"c2", c2.to_compressed().as_slice());
    transcript.append_message(b"r1", r1.to_compressed().as_slice());
    transcript.append_message(b"r2", r2.to_compressed().as_slice());

    // the byte decomposition: here the holder deviates
    // "claim": the bytes of the signed claim (honest); "other": of another value, byte randomness still a
    // decomposition of k; "other_fresh": of another value with unrelated byte randomness;
    // "noncanonical": the 256-bit integer m + r (the same field element, another byte string)
    let message_bytes: [u8; 32] = match bytes {
        "claim" => m.to_be_bytes(),
        "noncanonical" => {
            let r_be: [u8; 32] = [0x73, 0xed, 0xa7, 0x53, 0x29, 0x9d, 0x7d, 0x48, 0x33, 0x39, 0xd8, 0x08, 0x09, 0xa1, 0xd8, 0x05,
                                  0x53, 0xbd, 0xa4, 0x02, 0xff, 0xfe, 0x5b, 0xfe, 0xff, 0xff, 0xff, 0xff, 0x00, 0x00, 0x00, 0x01];
            let mb = m.to_be_bytes();
            let mut out = [0u8; 32];
            let mut carry = 0u16;
            for i in (0..32).rev() {
                let s = mb[i] as u16 + r_be[i] as u16 + carry;
                out[i] = (s & 0xff) as u8;
                carry = s >> 8;
            }
            if carry != 0 { mb } else { out }
        }
        _ => other.to_be_bytes(),
    };
    let shift = Scalar::from(256u16);
    let mut byte_blinders = [Scalar::ZERO; 32];
    let mut blinder_blinders = [Scalar::ZERO; 32];
    let mut byte_nonces = [Scalar::ZERO; 32];
    let mut sum = Scalar::ZERO;
    for i in 0..32 {
        blinder_blinders[i] = Scalar::random(&mut rng);
        byte_nonces[i] = Scalar::random(&mut rng);
        if i < 31 {
            byte_blinders[i] = Scalar::random(&mut rng);
            sum += byte_blinders[i] * shift.pow([31u64 - i as u64]);
        }
    }
    // the byte randomness is a base-256 decomposition of the ciphertext randomness
    byte_blinders[31] = if bytes == "other_fresh" { Scalar::random(&mut rng) } else { k - sum };
    let mut byte_ciphertext = Ciphertext::default();
    for i in 0..32 {
        byte_ciphertext.c1[i] = g * byte_blinders[i];
        byte_ciphertext.c2[i] = h * Scalar::from(message_bytes[i]) + key * byte_blinders[i];
        transcript.append_u64(
            b"verifiable_encryption_decryptable_message_byte_index",
            i as u64,
        );
        transcript.append_message(
            b"byte_proof_c1",
            byte_ciphertext.c1[i].to_compressed().as_slice(),
        );
        transcript.append_message(
            b"byte_proof_c2",
            byte_ciphertext.c2[i].to_compressed().as_slice(),
        );
        let inner_r1 = g * blinder_blinders[i];
        let inner_r2 = h * byte_nonces[i] + key * blinder_blinders[i];
        transcript.append_message(b"byte_proof_r1", inner_r1.to_compressed().as_slice());
        transcript.append_message(b"byte_proof_r2", inner_r2.to_compressed().as_slice());
    }

    let mut okm = [0u8; 64];
    transcript.challenge_bytes(b"challenge bytes", &mut okm);
    let challenge = Scalar::from_bytes_wide(&okm);

    // responses
    let bp_gens = BulletproofGens::new(8, 32);
    let pedersen_gen = PedersenGens {
        B: h,
        B_blinding: key,
    };
    let mut rp_transcript = Transcript::new(b"PresentationEncryptionDecryption byte range proof");
    rp_transcript.append_message(b"challenge", &challenge.to_be_bytes());
    let values = message_bytes.iter().map(|b| *b as u64).collect::<Vec<_>>();
    let (range_proof, _) = RangeProof::prove_multiple(
        &bp_gens,
        &pedersen_gen,
        &mut rp_transcript,
        &values,
        &byte_blinders,
        8,
    )
    .unwrap();
    let mut byte_proofs = [ByteProof::default(); 32];
    for i in 0..32 {
        byte_proofs[i] = ByteProof {
            message: byte_nonces[i] + challenge * Scalar::from(message_bytes[i]),
            blinder: blinder_blinders[i] + challenge * byte_blinders[i],
        };
    }
    let verenc_proof = VerifiableEncryptionProof {
        id: verenc_st.id.clone(),
        c1,
        c2,
        blinder_proof: r + challenge * k,
        decryptable_scalar_proof: Some(DecryptableScalarProof {
            byte_proofs,
            range_proof,
            byte_ciphertext,
        }),
    };
    let sig_proof = SignatureProof::<S> {
        id: sig_st.id.clone(),
        disclosed_messages: IndexMap::new(),
        pok: pok.generate_proof(challenge).unwrap(),
    };

    let mut proofs: IndexMap<String, PresentationProofs<S>> = IndexMap::new();
    proofs.insert(verenc_st.id.clone(), verenc_proof.into());
    proofs.insert(sig_st.id.clone(), sig_proof.into());
    Presentation {
        proofs,
        challenge,
        disclosed_messages: indexmap! { sig_st.id.clone() => IndexMap::new() },
    }
}


fn ctype_of(c: &ClaimData) -> ClaimType {
    match c {
        ClaimData::Hashed(_) => ClaimType::Hashed,
        ClaimData::Number(_) => ClaimType::Number,
        ClaimData::Scalar(_) => ClaimType::Scalar,
        ClaimData::Revocation(_) => ClaimType::Revocation,
        ClaimData::Enumeration(_) => ClaimType::Enumeration,
    }
}

fn case<S: ShortGroupSignatureScheme>(v: &Value) -> Value {
    let claim = claim_from(&v["claim"]);
    let other = claim_from(&v["other"]).to_scalar();
    let schema_claims = [
        ClaimSchema { claim_type: ClaimType::Revocation, label: "identifier".to_string(), print_friendly: false, validators: vec![] },
        ClaimSchema { claim_type: ctype_of(&claim), label: "subject".to_string(), print_friendly: true, validators: vec![] },
    ];
    let cred_schema = CredentialSchema::new(Some("Test"), Some(""), &[], &schema_claims).unwrap();
    let (issuer_public, mut issuer) = Issuer::<S>::new(&cred_schema);
    let credential = issuer.sign_credential(&[credx::claim::RevocationClaim::from("id-venc-bytes").into(), claim.clone()]).unwrap().credential;
    let signed = claim.to_scalar();
    let sig_st = SignatureStatement { disclosed: BTreeSet::new(), id: "signature".to_string(), issuer: issuer_public.clone() };
    let verenc_st = VerifiableEncryptionStatement {
        message_generator: G1Projective::GENERATOR,
        encryption_key: issuer_public.verifiable_encryption_key,
        id: "encryption".to_string(),
        reference_id: sig_st.id.clone(),
        claim: 1,
        allow_message_decryption: true,
    };
    let schema = PresentationSchema::new(&[sig_st.clone().into(), verenc_st.clone().into()]);
    let nonce = [7u8; 16];
    let dk = &issuer.verifiable_decryption_key;
    let mut out = serde_json::Map::new();
    for variant in ["claim", "other", "other_fresh", "noncanonical"] {
        let r = catch_unwind(AssertUnwindSafe(|| {
            let p = holder(&credential, &sig_st, &verenc_st, &schema, &nonce, variant, other);
            let verdict = if p.verify(&schema, &nonce).is_ok() { "ok" } else { "err" };
            let proof = match &p.proofs["encryption"] {
                PresentationProofs::VerifiableEncryption(x) => (**x).clone(),
                _ => unreachable!(),
            };
            let group_ok = proof.decrypt(dk) == G1Projective::GENERATOR * signed;
            let scalar = match proof.decrypt_scalar(dk) {
                Some(s) if s == signed => "signed",
                Some(_) => "other",
                None => "none",
            };
            json!({"verify": verdict, "group_ok": group_ok, "scalar": scalar})
        }));
        out.insert(variant.to_string(), r.unwrap_or(json!({"verify":"panic"})));
    }
    json!({"r":"ok","variants":out})
}

pub fn run(v: &Value) -> Value {
    if v["suite"].as_str() == Some("ps") { case::<PsScheme>(v) } else { case::<BbsScheme>(v) }
}
