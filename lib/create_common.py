"""Scenario generator for the honest prover (Presentation::create) over well-formed schemas with every
statement kind; shared by C03, C04, C11, C10, C06."""
import random

I64MIN, I64MAX = -2**63, 2**63 - 1
NAMES = ["Alice", "Bob", "John Doe", "", "Zoë", "P Sherman 42 Wallaby Way Sydney"]


def claim(rng, t, val=None):
    if t == "h":
        v = val if val is not None else rng.choice(NAMES)
        return {"t": "h", "hex": v.encode().hex(), "pf": True}
    if t == "n":
        return {"t": "n", "v": str(val if val is not None else rng.choice([0, 1, -1, 41, 30303, I64MIN, I64MAX, rng.randrange(-10**6, 10**6)]))}
    if t == "s":
        return {"t": "s", "hex": "%064x" % (val if val is not None else rng.randrange(1, 2**200))}
    if t == "e":
        return {"t": "e", "dst": "color", "v": rng.randrange(0, 5), "total": 5}
    raise ValueError(t)


def gen(rng, suite, n_creds=None, kinds=None, heavy=False, shared_issuer=None, eq_shape=None):
    """kinds: allowed predicate kinds among rev, mem, eq, comm, range, venc, vencdec (venc with scalar decryption), vdec"""
    n_creds = n_creds or rng.choice([1, 1, 2, 3])
    kinds = kinds if kinds is not None else ["rev", "mem", "eq", "comm", "range", "venc"]
    if shared_issuer is None:
        shared_issuer = rng.random() < 0.3
    link = rng.choice(NAMES)
    creds, shape = [], None
    for ci in range(n_creds):
        if shared_issuer and shape is not None:
            types = shape
        else:
            n = rng.randrange(3, 7)
            types = ["r", "h"] + [rng.choice("hnhns") for _ in range(n - 2)]
            if "n" not in types:
                types[-1] = "n"
            shape = types
        cl = [{"t": "r", "s": f"id-{ci}-{rng.randrange(10**6)}"}]
        for t in types[1:]:
            cl.append(claim(rng, t))
        cl[1] = claim(rng, "h", link)          # claim 1 is the link value shared by all credentials (for equality)
        c = {"claims": cl}
        if shared_issuer:
            c["issuer"] = 0
        creds.append(c)
    stmts = []
    used = {}            # (cred) -> set of claim indices used by predicates (must stay hidden)
    preds = []
    pid = 0
    for ci, c in enumerate(creds):
        used[ci] = set()
    # predicates
    if "eq" in kinds and n_creds >= 2 and (eq_shape is not None or rng.random() < 0.7):
        shape = eq_shape if eq_shape is not None else (rng.choice(["one", "chain", "star", "chain_rev", "star_last", "mixed"]) if n_creds >= 3 else "one")
        if shape == "chain":      # pairwise statements a=b, b=c, ...: a claim is a later entry of one statement and the first of the next
            for ci in range(n_creds - 1):
                preds.append({"k": "eq", "id": f"e{ci}", "refs": [[f"s{ci}", 1], [f"s{ci + 1}", 1]]})
        elif shape == "chain_rev":  # b=a, c=b, ...: the claim shared with the earlier statement is listed last in the later one
            for ci in range(n_creds - 1):
                preds.append({"k": "eq", "id": f"e{ci}", "refs": [[f"s{ci + 1}", 1], [f"s{ci}", 1]]})
        elif shape == "star_last":  # b=a, c=a, ...
            for ci in range(1, n_creds):
                preds.append({"k": "eq", "id": f"e{ci - 1}", "refs": [[f"s{ci}", 1], ["s0", 1]]})
        elif shape == "mixed":      # overlapping statements, each listing its members in a random order
            for ci in range(n_creds - 1):
                members = [ci, ci + 1] + ([rng.randrange(n_creds)] if rng.random() < 0.4 else [])
                members = list(dict.fromkeys(members))
                rng.shuffle(members)
                preds.append({"k": "eq", "id": f"e{ci}", "refs": [[f"s{m}", 1] for m in members]})
        elif shape == "star":     # a=b, a=c, ...
            for ci in range(1, n_creds):
                preds.append({"k": "eq", "id": f"e{ci - 1}", "refs": [["s0", 1], [f"s{ci}", 1]]})
        else:
            preds.append({"k": "eq", "id": "e0", "refs": [[f"s{ci}", 1] for ci in range(n_creds)]})
        for ci in range(n_creds):
            used[ci].add(1)
    for ci, c in enumerate(creds):
        n = len(c["claims"])
        if "rev" in kinds and rng.random() < 0.5:
            preds.append({"k": "rev", "id": f"r{ci}", "ref": f"s{ci}", "claim": 0})
            used[ci].add(0)
        nums = [i for i in range(n) if c["claims"][i]["t"] == "n"]
        if "comm" in kinds and rng.random() < 0.6:
            i = rng.choice(nums) if (nums and rng.random() < 0.7) else rng.randrange(1, n)
            preds.append({"k": "comm", "id": f"c{ci}", "ref": f"s{ci}", "claim": i, "gens": rng.choice(["hash", "std"])})
            used[ci].add(i)
            if "range" in kinds and c["claims"][i]["t"] == "n" and rng.random() < 0.7:
                v = int(c["claims"][i]["v"])
                pat = rng.choice(["both", "lo", "hi"])
                lo = max(I64MIN, v - rng.choice([0, 1, 1000, 2**40])) if pat in ("both", "lo") else None
                hi = min(I64MAX, v + rng.choice([0, 1, 1000, 2**40])) if pat in ("both", "hi") else None
                preds.append({"k": "range", "id": f"g{ci}", "ref": f"c{ci}", "sig": f"s{ci}", "claim": i,
                              "lo": None if lo is None else str(lo), "hi": None if hi is None else str(hi)})
        if "mem" in kinds and rng.random() < 0.3:
            i = rng.randrange(1, n)
            preds.append({"k": "mem", "id": f"m{ci}", "ref": f"s{ci}", "claim": i})
            used[ci].add(i)
        if "venc" in kinds and rng.random() < 0.4:
            i = rng.randrange(0, n)
            preds.append({"k": "venc", "id": f"v{ci}", "ref": f"s{ci}", "claim": i, "dec": False, "gen": rng.choice(["std", "hash"])})
            used[ci].add(i)
        if "vencdec" in kinds and heavy and rng.random() < 0.5:
            i = rng.randrange(0, n)
            preds.append({"k": "venc", "id": f"w{ci}", "ref": f"s{ci}", "claim": i, "dec": True, "gen": "std"})
            used[ci].add(i)
        if "vdec" in kinds and heavy and rng.random() < 0.5:
            i = rng.randrange(1, n)
            preds.append({"k": "vdec", "id": f"d{ci}", "ref": f"s{ci}", "claim": i, "gen": rng.choice(["std", "hash"])})
            used[ci].add(i)
    for ci, c in enumerate(creds):
        n = len(c["claims"])
        free = [i for i in range(n) if i not in used[ci]]
        d = sorted(rng.sample(free, rng.randrange(0, len(free) + 1))) if free else []
        stmts.append({"k": "sig", "id": f"s{ci}", "cred": ci, "disclosed": d})
    # statement order: signatures anywhere, a range after... any order is legal for the schema; keep references resolvable
    allst = stmts + preds
    if rng.random() < 0.4:
        rng.shuffle(allst)
    nonce = rng.choice(["", "00", "%032x" % rng.getrandbits(128), "%0128x" % rng.getrandbits(512)])
    return {"op": "f_create", "suite": suite, "seed": rng.randrange(1 << 30), "nonce": nonce, "creds": creds, "stmts": allst,
            "action": {"k": "verify"}}


def kinds_of(s):
    out = set()
    for st in s["stmts"]:
        k = st["k"]
        if k == "venc" and st.get("dec"):
            k = "vencdec"
        out.add(k)
    return out
