"""C07 — undisclosed claims stay confidential, including low-entropy ones (partial)."""
import json, random
import common as C
import create_common as CC

EXTRA_VO = []
TRUSTED_BASE = [
    "Coq 8.16.1 kernel; Print Assumptions of every C07 theorem: closed under the global context",
    "PARTIAL: theorems give perfect honest-verifier zero knowledge of the commitment sub-protocol (explicit bijection on the randomness), uniformity of every Schnorr response, the encryption sub-protocol's view as a function of the ElGamal ciphertext and uniform responses (Model/Preds.v of src/presentation/{commitment,verifiable_encryption}.rs, create.rs:126-158), credential-independence of the re-randomised signature elements; semantic security of ElGamal (DDH), zero knowledge of bulletproofs-bls and of the accumulator proof are assumed",
    "the tie between Model/Preds.v and the implementation's prover is (i) the verifier side (C03/C05: the real verifier accepts, its model is validated) and (ii) the distinguisher catalogue below run on Presentation::create output: a reuse of a nonce as blinding factor / encryption randomness / second nonce makes one of the tested relations hold",
    "correspondence / search: harness/src/ops_create.rs action leak — for every commitment / encryption / encrypt-and-decrypt statement and every candidate value m' (signed value, +-1, random, the credential's other claims): L == m'*Q1 + (resp - c*m')*Q2 for every transmitted G1 element L and public generators Q1, Q2 in {G, message generator, blinder generator / encryption key, 0}; per-byte dictionary tests G*resp_i - c1_i == c*b*G and resp_i == c*b for b in 0..255, byte proofs sharing a nonce, resp == c*m' (zero nonce); the statement's own blinding factor recovered from its response under degenerate randomness (nonce = the factor itself, zero, or the claim's nonce) and stripped from the commitment / ciphertext; (resp_i - resp_j) == c*(m_i - m_j) for every pair of hidden claims",
]
TRUSTED_BASE = TRUSTED_BASE + [
    "the accumulator proof parameters X, Y, Z, K are treated as elements with hidden, independent logs; tie to the code: they are recomputed by the harness as hash-to-curve images of four distinct inputs (op d_proof_params, repeats the prefix bytes and the domain separation tag of vb20) and must equal ProofParams::new",
]
ASSUMPTIONS = ["DDH in G1 (ElGamal), zero knowledge of bulletproofs, the OS random number generator",
               "the catalogue is a finite set of public-data distinguishers; absence of a hit is evidence, the theorems carry the claim for the modelled sub-protocols"]


def explore(ctx):
    tier, seed = ctx["tier"], ctx["seed"]
    rng = random.Random(seed)
    n = 400 if tier == "thorough" else 60
    cs = []
    for i in range(n):
        heavy = (i % 4 == 0)
        s = CC.gen(rng, "ps" if i % 2 else "bbs", kinds=["rev", "eq", "comm", "range", "venc"] + (["vencdec", "vdec"] if heavy else []), heavy=heavy)
        s["action"] = {"k": "leak"}
        cs.append(s)
    if ctx.get("replay"):
        rp = json.load(open(ctx["replay"]))
        if rp.get("case", {}).get("op") == "f_create":
            cs = [rp["case"]]
    impl = C.run_exec_parallel(cs, nproc=16, timeout=7200)
    failures, samples = [], []
    hist = {"statements_tested": {}, "hits": 0, "bytes_tests": 0}
    distinct = set()
    n_tests = 0
    for s, r in zip(cs, impl):
        if r.get("create") != "ok" or r.get("verify") != "ok" or "leak" not in r:
            failures.append({"class": None, "witness": False, "text": f"honest baseline failed: {json.dumps(r)[:300]}", "case": s})
            continue
        for rep in r["leak"]:
            hist["statements_tested"][rep["kind"]] = hist["statements_tested"].get(rep["kind"], 0) + 1
            distinct.add(C.case_hash([s["suite"], s["stmts"], rep["stmt"]]))
            n_tests += 1
            for t in rep["tests"]:
                if t["true_value"] and t["decoys"] == 0:
                    hist["hits"] += 1
                    failures.append({"class": None, "witness": True,
                                     "text": f"public-data distinguisher succeeds on a {rep['kind']} statement: {t['test']} holds for the signed value and for no decoy ({s['suite']})", "case": s})
            br = rep.get("bytes_recovered")
            if br is not None:
                hist["bytes_tests"] += 1
                if br.get("all") or br.get("some", 0) > 0:
                    failures.append({"class": None, "witness": True,
                                     "text": f"per-byte dictionary test recovers bytes of the encrypted scalar without the key on a {rep['kind']} statement: {br}", "case": s})
        if len(samples) < 4:
            samples.append({"suite": s["suite"], "stmts": s["stmts"], "leak_report": r["leak"]})
    # ---- value dependence: the same claim vectors under fresh signatures, against other claim vectors, one nonce
    vs = []
    for i in range(120 if tier == "thorough" else 24):
        heavy = (i % 6 == 0)
        s = CC.gen(rng, "ps" if i % 2 else "bbs", n_creds=2, kinds=["rev", "mem", "comm", "range", "venc"] + (["vencdec", "vdec"] if heavy else []), heavy=heavy, shared_issuer=True)
        for j, cl in enumerate(s["creds"][0]["claims"]):
            if cl["t"] == "n":
                s["creds"][1]["claims"][j] = dict(cl)       # the other vector satisfies the same range statements
        s["stmts"] = [x for x in s["stmts"] if x["id"].endswith("0")]
        s["action"] = {"k": "valuedep", "alt": {"s0": 1}}
        vs.append(s)
    vimpl = C.run_exec_parallel(vs, nproc=16, timeout=7200)
    hist["valuedep_leaves"] = 0
    for s, r in zip(vs, vimpl):
        if r.get("create") != "ok" or r.get("verify") != "ok" or r.get("verifyb") != "ok" or "valuedep" not in r:
            failures.append({"class": None, "witness": False, "text": f"honest baseline failed (value-dependence part): {json.dumps(r)[:300]}", "case": s})
            continue
        hist["valuedep_leaves"] += r["n_leaves"]
        n_tests += 1
        distinct.add(C.case_hash([s["suite"], s["stmts"], "valuedep"]))
        for h in r["valuedep"]:
            hist["hits"] += 1
            failures.append({"class": None, "witness": True,
                             "text": f"a transmitted element is a function of the hidden claim values alone: {h['path']} is the same for two independently issued credentials over the same claims and differs for other claims ({s['suite']}); candidate values can be tested against it", "case": s})
    failures += C.proof_params_pin()
    failures += C.domain_generator_pin()
    return {
        "evaluations": n_tests,
        "distinct_nontrivial": len(distinct),
        "rule": "cases = honestly created presentations over generated schemas containing commitment / range / verifiable-encryption (with and without scalar decryption) / encrypt-and-decrypt / equality / revocation statements on hidden claims of every type, BBS and PS; per predicate statement the distinguisher catalogue is evaluated with the signed value and 3+ decoys; a relation that holds for the signed value and for no decoy is a violation; plus, per schema, three presentations under one nonce (the credentials, freshly issued credentials over the same claim vectors, credentials over other claim vectors): a leaf of the hidden part equal in the first two and different in the third is a violation; distinct by (suite, statements, statement id)",
        "samples": samples or [{}],
        "histograms": hist,
        "failures": failures,
        "exhaustive": False,
    }
