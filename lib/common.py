"""Shared machinery of ./check: builds, Coq audit, model evaluation, evidence, known findings."""
import fcntl, hashlib, json, os, re, subprocess, sys, time, glob

VERIF = os.path.dirname(os.path.dirname(os.path.abspath(__file__)))
COQ = os.path.join(VERIF, "coq")
CACHE = os.path.join(VERIF, ".cache")
TARGET = os.path.join(CACHE, "target")
BUILD = os.path.join(VERIF, "build")
HARNESS = os.path.join(VERIF, "harness")
ACVH = os.path.join(TARGET, "release", "acvh")
REPO = "/repo"

ALLOWED_AXIOMS = {
    # axioms declared by Coq's standard library that this development may rely on
    "FunctionalExtensionality.functional_extensionality_dep",
    "functional_extensionality_dep",
    "Classical_Prop.classic",
    "classic",
    "Eqdep.Eq_rect_eq.eq_rect_eq",
    "ProofIrrelevance.proof_irrelevance",
    "JMeq.JMeq_eq",
}

FORBIDDEN = re.compile(
    r"\b(Admitted|admit|Axiom|Axioms|Parameter|Parameters|Conjecture|Conjectures|Abort All|"
    r"Unset Guard Checking|Unset Positivity Checking|Unset Universe Checking|bypass_check|"
    r"Admit Obligations|give_up)\b|type-in-type|impredicative-set")


class Infra(Exception):
    """Infrastructure failure (exit 2, no VIOLATION line)."""


def log(*a):
    print(*a, file=sys.stderr, flush=True)


def env_offline():
    e = dict(os.environ)
    e["CARGO_NET_OFFLINE"] = "true"
    e["CARGO_TARGET_DIR"] = TARGET
    return e


class Lock:
    def __init__(self, name):
        os.makedirs(CACHE, exist_ok=True)
        self.path = os.path.join(CACHE, name)

    def __enter__(self):
        self.f = open(self.path, "w")
        fcntl.flock(self.f, fcntl.LOCK_EX)

    def __exit__(self, *a):
        fcntl.flock(self.f, fcntl.LOCK_UN)
        self.f.close()


def build_harness(features=True, timeout=1800):
    """cargo build of the harness against /repo's current working tree."""
    with Lock("cargo.lock"):
        cmd = ["cargo", "build", "--release", "--offline"]
        t0 = time.time()
        p = subprocess.run(cmd, cwd=HARNESS, env=env_offline(), capture_output=True, text=True,
                           timeout=timeout)
        if p.returncode != 0:
            raise Infra("harness build failed:\n" + p.stderr[-4000:])
        log(f"[build] harness ok in {time.time()-t0:.1f}s")
    return ACVH


ACVH_OC = os.path.join(TARGET, "oc", "acvh")
_BIN = [ACVH]


class overflow_checked:
    """Context manager: the harness (and credx under it) rebuilt with profile `oc` = release +
    overflow-checks + debug-assertions, and run_exec switched to that binary.  An arithmetic overflow
    or a failed debug_assert! then unwinds as it does in a debug build of the library."""
    def __enter__(self):
        with Lock("cargo.lock"):
            t0 = time.time()
            p = subprocess.run(["cargo", "build", "--profile", "oc", "--offline"], cwd=HARNESS, env=env_offline(),
                               capture_output=True, text=True, timeout=3000)
            if p.returncode != 0:
                raise Infra("harness build (overflow-checked) failed:\n" + p.stderr[-4000:])
            log(f"[build] harness (overflow-checked profile) ok in {time.time()-t0:.1f}s")
        _BIN[0] = ACVH_OC
        return self

    def __exit__(self, *a):
        _BIN[0] = ACVH
        return False


def coq_sources():
    out = []
    for line in open(os.path.join(COQ, "_CoqProject")):
        line = line.strip()
        if line.endswith(".v"):
            out.append(line)
    return out


def ensure_makefile():
    mk = os.path.join(COQ, "Makefile")
    cp = os.path.join(COQ, "_CoqProject")
    if not os.path.exists(mk) or os.path.getmtime(mk) < os.path.getmtime(cp):
        p = subprocess.run(["coq_makefile", "-f", "_CoqProject", "-o", "Makefile"], cwd=COQ,
                           capture_output=True, text=True)
        if p.returncode != 0:
            raise Infra("coq_makefile failed: " + p.stderr)


def build_coq(targets, timeout=3000):
    """Full .vo build (never -vos) of the given targets through coq_makefile's Makefile.
    Returns (ok, output)."""
    with Lock("coq.lock"):
        ensure_makefile()
        cmd = ["timeout", str(timeout), "make", "-j16"] + targets
        t0 = time.time()
        p = subprocess.run(cmd, cwd=COQ, capture_output=True, text=True)
        log(f"[build] coq {' '.join(targets)} rc={p.returncode} in {time.time()-t0:.1f}s")
        return p.returncode == 0, p.stdout + p.stderr


def dep_cone(relpath, seen=None):
    """Transitive closure of `From ACV Require Import` from a .v file (paths relative to coq/)."""
    if seen is None:
        seen = set()
    if relpath in seen:
        return seen
    seen.add(relpath)
    txt = open(os.path.join(COQ, relpath)).read()
    for m in re.finditer(r"From ACV Require (?:Import|Export)((?:\s+[A-Za-z_]\w*(?:\.[A-Za-z_]\w*)*)+)\s*\.(?=\s)", txt):
        for mod in m.group(1).split():
            p = mod.replace(".", "/") + ".v"
            if os.path.exists(os.path.join(COQ, p)):
                dep_cone(p, seen)
    return seen


STMT = re.compile(r"^\s*(Theorem|Lemma|Corollary|Example|Fact|Proposition)\s+([A-Za-z_][\w']*)", re.M)


def count_obligations(props_file):
    n = 0
    names = []
    for f in sorted(dep_cone(props_file)):
        txt = strip_comments(open(os.path.join(COQ, f)).read())
        for m in STMT.finditer(txt):
            n += 1
            if f == props_file and m.group(1) == "Theorem":
                names.append(m.group(2))
    return n, names


def strip_comments(txt):
    out = []
    depth = 0
    i = 0
    instr = False
    while i < len(txt):
        if not instr and txt.startswith("(*", i):
            depth += 1
            i += 2
            continue
        if not instr and depth > 0 and txt.startswith("*)", i):
            depth -= 1
            i += 2
            continue
        ch = txt[i]
        if depth == 0:
            if ch == '"':
                instr = not instr
            out.append(ch)
        i += 1
    return "".join(out)


def forbidden_scan():
    """grep of the whole development for vernacular that would weaken the proofs."""
    hits = []
    for f in coq_sources():
        txt = strip_comments(open(os.path.join(COQ, f)).read())
        for ln, line in enumerate(txt.split("\n"), 1):
            if FORBIDDEN.search(line):
                hits.append(f"{f}:{ln}: {line.strip()}")
    proj = open(os.path.join(COQ, "_CoqProject")).read()
    if FORBIDDEN.search(proj):
        hits.append("_CoqProject: forbidden flag")
    return hits


def audit_props(pid, theorem_names, workdir):
    """Print Assumptions for every property theorem, parsed against the allow-list.
    Returns (ok, report dict name -> list of axioms, raw)."""
    os.makedirs(workdir, exist_ok=True)
    f = os.path.join(workdir, f"audit_{pid}.v")
    with open(f, "w") as fh:
        fh.write(f"From ACV Require Import Props.{pid}.\n")
        for n in theorem_names:
            fh.write(f'Goal True. idtac "@@@ {n}". Abort.\nPrint Assumptions {n}.\n')
    p = subprocess.run(["timeout", "600", "coqc", "-noglob", "-Q", COQ, "ACV", f],
                       capture_output=True, text=True, cwd=workdir)
    raw = p.stdout + p.stderr
    if p.returncode != 0:
        return False, {}, raw
    report = {}
    cur = None
    for line in raw.split("\n"):
        if line.startswith("@@@ "):
            cur = line[4:].strip()
            report[cur] = []
        elif cur is not None:
            m = re.match(r"^([A-Za-z_][\w.']*)\s*:", line)
            if m and not line.startswith("Closed under") and not line.startswith("Axioms"):
                report[cur].append(m.group(1))
    ok = True
    for n in theorem_names:
        if n not in report:
            ok = False
        for ax in report.get(n, []):
            if ax not in ALLOWED_AXIOMS and ax.split(".")[-1] not in ALLOWED_AXIOMS:
                ok = False
    return ok, report, raw


def coqchk(pid, timeout=3000):
    """Independent re-check of Props/<pid>.vo and everything it depends on (thorough tier).
    Returns (ok, report): ok iff coqchk succeeds and lists no axiom outside the allow-list, nothing
    relying on type-in-type, unsafe fixpoints or assumed positivity."""
    p = subprocess.run(["timeout", str(timeout), "coqchk", "-o", "-silent", "-Q", COQ, "ACV", f"ACV.Props.{pid}"],
                       capture_output=True, text=True, cwd=COQ)
    out = p.stdout + p.stderr
    report = {"rc": p.returncode}
    ok = p.returncode == 0
    for key, label in (("axioms", "* Axioms:"), ("type_in_type", "* Constants/Inductives relying on type-in-type:"),
                       ("unsafe_fix", "* Constants/Inductives relying on unsafe (co)fixpoints:"),
                       ("assumed_positive", "* Inductives whose positivity is assumed:")):
        i = out.find(label)
        if i < 0:
            report[key] = "?"
            ok = False
            continue
        rest = out[i + len(label):]
        j = rest.find("\n* ")
        body = (rest if j < 0 else rest[:j]).strip()
        items = [] if body == "<none>" else [x.strip() for x in body.split("\n") if x.strip()]
        report[key] = items
        if key == "axioms":
            for ax in items:
                name = ax.split(":")[0].strip()
                if name not in ALLOWED_AXIOMS and name.split(".")[-1] not in ALLOWED_AXIOMS:
                    ok = False
        elif items:
            ok = False
    if not ok:
        report["raw_tail"] = out[-1500:]
    return ok, report


def run_exec(ops, timeout=3600):
    """Run the implementation on a list of op dicts; returns list of result dicts."""
    inp = "\n".join(json.dumps(o, separators=(",", ":")) for o in ops) + "\n"
    p = subprocess.run([_BIN[0], "exec"], input=inp, capture_output=True, text=True, timeout=timeout)
    if p.returncode != 0:
        raise Infra(f"acvh exec failed rc={p.returncode}: {p.stderr[-2000:]}")
    lines = [l for l in p.stdout.split("\n") if l.strip()]
    if len(lines) != len(ops):
        raise Infra(f"acvh exec returned {len(lines)} lines for {len(ops)} ops")
    return [json.loads(l) for l in lines]


def run_exec_robust(ops, per_op_timeout=600):
    """As run_exec, for entry points that must neither abort nor hang: an op on which the process dies (abort,
    stack overflow, allocation failure, a signal) or which prints nothing for per_op_timeout seconds gets the result
    {"r": "abort" | "timeout", ...} and the remaining ops are run in a fresh process."""
    import threading, selectors
    out, i = [], 0
    while i < len(ops):
        chunk = ops[i:]
        inp = "\n".join(json.dumps(o, separators=(",", ":")) for o in chunk) + "\n"
        p = subprocess.Popen([_BIN[0], "exec"], stdin=subprocess.PIPE, stdout=subprocess.PIPE, stderr=subprocess.PIPE)

        def feed():
            try:
                p.stdin.write(inp.encode())
                p.stdin.close()
            except Exception:
                pass
        th = threading.Thread(target=feed, daemon=True)
        th.start()
        err_buf = []
        te = threading.Thread(target=lambda: err_buf.append(p.stderr.read()), daemon=True)
        te.start()
        sel = selectors.DefaultSelector()
        sel.register(p.stdout, selectors.EVENT_READ)
        buf, got, how = b"", [], None
        last = time.time()
        while len(got) < len(chunk):
            ev = sel.select(timeout=5)
            if ev:
                d = os.read(p.stdout.fileno(), 1 << 16)
                if not d:
                    how = "abort"
                    break
                buf += d
                while b"\n" in buf:
                    line, buf = buf.split(b"\n", 1)
                    if line.strip():
                        got.append(json.loads(line))
                        last = time.time()
            elif time.time() - last > per_op_timeout:
                how = "timeout"
                break
        sel.close()
        if how == "timeout":
            p.kill()
        try:
            rc = p.wait(timeout=30)
        except Exception:
            p.kill()
            rc = p.wait()
        te.join(timeout=5)
        out += got
        if len(got) == len(chunk):
            break
        stderr = (err_buf[0] if err_buf else b"").decode(errors="replace")
        stderr = stderr if len(stderr) <= 1200 else stderr[:600] + " ... " + stderr[-600:]
        out.append({"r": how or "abort", "rc": rc, "stderr": stderr})
        i += len(got) + 1
    return out


def run_exec_parallel(ops, nproc=16, timeout=3600, robust=False):
    """As run_exec, the op list cut into nproc contiguous chunks run concurrently."""
    one = (lambda c: run_exec_robust(c)) if robust else (lambda c: run_exec(c, timeout))
    if len(ops) < 64 or nproc <= 1:
        return one(ops)
    import concurrent.futures as cf
    k = (len(ops) + nproc - 1) // nproc
    chunks = [ops[i:i + k] for i in range(0, len(ops), k)]
    with cf.ThreadPoolExecutor(max_workers=nproc) as ex:
        res = list(ex.map(one, chunks))
    return [r for c in res for r in c]


def run_model(pid, header, terms, runner="run_all", shard_size=400, timeout=1200, tag="cases"):
    """Evaluate the model on the Coq terms (strings), sharded over parallel coqc processes.
    `header` is the Require/Import preamble. Returns the list of output lines (one per term)."""
    import concurrent.futures as cf
    d = os.path.join(BUILD, pid)
    os.makedirs(d, exist_ok=True)
    for old in glob.glob(os.path.join(d, f"{tag}_*.v")) + glob.glob(os.path.join(d, f"{tag}_*.vo")):
        os.remove(old)
    shards = [terms[i:i + shard_size] for i in range(0, len(terms), shard_size)]

    def one(idx_sh):
        idx, sh = idx_sh
        f = os.path.join(d, f"{tag}_{idx}.v")
        with open(f, "w") as fh:
            fh.write(header + "\n")
            fh.write("Set Printing Depth 100000000. Set Printing Width 1000.\n")
            fh.write("Definition the_cases := [\n  " + ";\n  ".join(sh) + "\n].\n")
            fh.write(f"Eval vm_compute in {runner} the_cases.\n")
        p = subprocess.run(["bash", "-c", f"ulimit -s unlimited; exec timeout {timeout} coqc -noglob -Q {COQ} ACV {f}"],
                           capture_output=True, text=True, cwd=d)
        if p.returncode != 0:
            raise Infra(f"coqc failed on {f}: {p.stdout[-1500:]}{p.stderr[-1500:]}")
        out = p.stdout
        a = out.find('= "')
        b = out.rfind('"\n     : ')
        if a < 0 or b < 0:
            raise Infra(f"cannot parse coqc output of {f}: {out[:500]}")
        body = out[a + 3:b]
        lines = body.split("\n")
        if lines and lines[-1] == "":
            lines = lines[:-1]
        if len(lines) != len(sh):
            raise Infra(f"{f}: {len(lines)} output lines for {len(sh)} cases")
        return lines

    with cf.ThreadPoolExecutor(max_workers=16) as ex:
        res = list(ex.map(one, list(enumerate(shards))))
    return [l for r in res for l in r]


# ---------------------------------------------------------------- Coq term printers

def cz(z):
    z = int(z)
    return f"({z})" if z < 0 else str(z)


def cbytes(b):
    return "[" + ";".join(str(x) for x in b) + "]"


def cbool(b):
    return "true" if b else "false"


def clist(items):
    return "[" + "; ".join(items) + "]"


# ---------------------------------------------------------------- findings / evidence

def proof_params_pin():
    """The accumulator proof parameters X, Y, Z, K are the hash-to-curve images of four distinct inputs: what the
    independence assumption of the theorems on the accumulator proof (hidden mutual logs) rests on.  Returns failures."""
    ops = [{"op": "d_proof_params", "nonce": n, "no_entropy": ne} for n, ne in (("", False), ("00", False), ("76657269666965722d6e6f6e6365", False), ("", True))]
    out = []
    for op, r in zip(ops, run_exec(ops)):
        if r.get("r") != "ok":
            raise Infra("d_proof_params: " + json.dumps(r)[:300])
        bad = [k for k in ("x", "y", "z", "k", "distinct") if not r.get(k)]
        if bad:
            out.append({"class": None, "witness": False, "case": {"op": op, "result": r},
                        "text": "correspondence broken: the accumulator proof parameters " + ", ".join(bad).upper() + " are not the independent hash-to-curve outputs "
                                "(PREFIX ff/fe/fd/fc || nonce || key) the theorems' independence assumption on X, Y, Z rests on; a known relation between them lets an observer "
                                "strip the randomisation of E_C, T_sigma, T_rho"})
    return out


def domain_generator_pin():
    """create_domain_proof_generator(domain) is the hash-to-curve image of the domain string: what 'different generators yield
    unrelated pseudonyms' and the hiding of commitments on such bases rest on.  Returns failures."""
    ops = [{"op": "d_domain_gen", "domain": d.encode().hex()} for d in ("", "a", "verifier-1.example", "verifier-2.example", "x" * 200)]
    out = []
    for op, r in zip(ops, run_exec(ops)):
        if r.get("r") != "ok":
            raise Infra("d_domain_gen: " + json.dumps(r)[:300])
        if not (r.get("same") and r.get("nontrivial")):
            out.append({"class": None, "witness": False, "case": {"op": op, "result": r},
                        "text": "correspondence broken: create_domain_proof_generator is not the hash-to-curve image of the domain string; with a known log relative to G "
                                "(or to another domain's base) pseudonyms of one holder in two domains are related by a public factor"})
    return out


def load_known_findings(pid):
    findings, fixed = [], []
    path = os.path.join(VERIF, "known-findings.txt")
    if os.path.exists(path):
        for line in open(path):
            line = line.strip()
            if not line or line.startswith("#"):
                continue
            m = re.match(r"finding: property=(\w+) (\S+) :: (.*)$", line)
            if m and m.group(1) == pid:
                findings.append({"class": m.group(2), "text": m.group(3)})
            m = re.match(r"fixed: property=(\w+) (\S+) (.*)$", line)
            if m and m.group(1) == pid:
                fixed.append({"commit": m.group(2), "text": m.group(3)})
    return findings, fixed


def write_json(path, obj):
    os.makedirs(os.path.dirname(path), exist_ok=True)
    tmp = path + ".tmp"
    with open(tmp, "w") as fh:
        json.dump(obj, fh, indent=1, sort_keys=True)
        fh.write("\n")
    os.replace(tmp, path)


def case_hash(obj):
    return hashlib.sha256(json.dumps(obj, sort_keys=True).encode()).hexdigest()[:16]


def coq_version():
    p = subprocess.run(["coqc", "--version"], capture_output=True, text=True)
    return p.stdout.strip().split("\n")[0]


def git_head(path):
    p = subprocess.run(["git", "-C", path, "rev-parse", "--short", "HEAD"], capture_output=True, text=True)
    return p.stdout.strip()
