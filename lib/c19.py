"""C19 — wire formats round-trip every protocol object without changing its meaning."""
import json, os, random, time
import common as C
import create_common as CC
import c20

EXTRA_VO = ["Exec/RunC19.vo"]

HEADER = """From Coq Require Import ZArith List String.
From ACV Require Import Model.Codec Model.SerdeTree Exec.RunC19.
Import ListNotations. Open Scope string_scope."""

TRUSTED_BASE = [
    "Coq 8.16.1 kernel (coqc, vm_compute for case evaluation); no axioms (Print Assumptions: closed)",
    "hand-written Gallina models: coq/Model/Codec.v (byte layouts of the hand-written to_bytes/from_bytes codecs, fixed-width leaves opaque: a compressed point / canonical scalar decoder is a Section variable with the round-trip and canonicity hypotheses stated in the theorems) and coq/Model/SerdeTree.v (serde data-model trees of the types with hand-written or attribute-driven impls; by-name and positional decoders)",
    "correspondence: harness/src/ops_wire.rs (encode/decode/re-encode/cross-encode/use every object kind in JSON, CBOR and BARE), harness/src/ops_codec.rs (hand-written codecs byte for byte, leaf validity table handed to the model), harness/src/ops_tree.rs (recording serde Serializer dumping the data-model tree the real Serialize impls produce), lib/c19.py",
    "modelled, not verified: the concrete syntaxes of serde_json, serde_cbor and serde_bare, the derive-generated impls of types without attributes, blstrs_plus point/scalar encodings and bulletproofs' RangeProof are exercised by round trips only",
]
ASSUMPTIONS = [
    "compressed point decoding and canonical scalar decoding are injective partial inverses of their encoders (hypotheses of the codec theorems; exercised by the leaf table of every case)",
    "a self-describing format returns the tree it was given (JSON, CBOR); BARE returns the tree positionally, without names and without knowledge of skipped fields",
]

NAMES = ["Alice", "José Núñez", "", "山田 太郎", "Zoë", "x" * 40]


def hexs(s):
    return s.encode().hex()


def issue_shapes(rng, tier):
    """credential schemas of every claim type with empty / non-empty optional fields and validator lists"""
    shapes = []

    def mk(name, label, desc, blind, claims, good, bads, disclose):
        shapes.append({"shape": name, "schema": {"label": label, "desc": desc, "blind": blind, "claims": claims},
                       "claims": good, "bad_claims": bads, "disclose": disclose})

    sc = lambda: CC.claim(rng, "s")
    for k, nm in enumerate(NAMES[:4] if tier == "quick" else NAMES):
        # every optional field absent, no validators (nothing skipped except everything)
        mk(f"bare-min-{k}", None, None, [], [{"t": "r", "label": "id", "validators": []}, {"t": "h", "label": "name", "pf": True, "validators": []}],
           [{"t": "r", "s": f"id-{k}"}, {"t": "h", "hex": hexs(nm), "pf": True}], [], [1])
    # all claim types, mixed validators, some optional fields present
    mk("mixed", "lab", None, [1, 3],
       [{"t": "r", "label": "id", "validators": []},
        {"t": "h", "label": "name", "pf": True, "validators": [{"k": "len", "min": 2, "max": None}, {"k": "regex", "rx": "^[A-Z].*$"}]},
        {"t": "n", "label": "age", "validators": [{"k": "range", "min": "0", "max": "150"}]},
        {"t": "s", "label": "sc", "validators": []},
        {"t": "e", "label": "color", "validators": []},
        {"t": "h", "label": "hx", "pf": False, "validators": [{"k": "anyone", "claims": [{"t": "h", "hex": "00ff", "pf": False}, {"t": "h", "hex": "01", "pf": False}]}]}],
       [{"t": "r", "s": "id-1"}, {"t": "h", "hex": hexs("Alice"), "pf": True}, {"t": "n", "v": "41"}, sc(), {"t": "e", "dst": "color", "v": 2, "total": 5}, {"t": "h", "hex": "00ff", "pf": False}],
       [[{"t": "r", "s": "id-2"}, {"t": "h", "hex": hexs("alice"), "pf": True}, {"t": "n", "v": "41"}, sc(), {"t": "e", "dst": "color", "v": 2, "total": 5}, {"t": "h", "hex": "00ff", "pf": False}],
        [{"t": "r", "s": "id-3"}, {"t": "h", "hex": hexs("Alice"), "pf": True}, {"t": "n", "v": "151"}, sc(), {"t": "e", "dst": "color", "v": 2, "total": 5}, {"t": "h", "hex": "00ff", "pf": False}]],
       [1, 4])
    # nothing skipped: every optional field present, every claim with a fully specified validator
    mk("full", "lab", "a description", [1],
       [{"t": "r", "label": "id", "validators": [{"k": "len", "min": 1, "max": 64}]},
        {"t": "h", "label": "name", "pf": True, "validators": [{"k": "len", "min": 0, "max": 100}]},
        {"t": "n", "label": "age", "validators": [{"k": "range", "min": str(-2 ** 63), "max": str(2 ** 63 - 1)}]},
        {"t": "e", "label": "kind", "validators": [{"k": "anyone", "claims": [{"t": "e", "dst": "kind", "v": 0, "total": 3}, {"t": "e", "dst": "kind", "v": 2, "total": 3}]}]}],
       [{"t": "r", "s": "id-full"}, {"t": "h", "hex": hexs("Zoë Müller"), "pf": True}, {"t": "n", "v": str(-2 ** 63)}, {"t": "e", "dst": "kind", "v": 2, "total": 3}],
       [[{"t": "r", "s": "id-full2"}, {"t": "h", "hex": hexs("Zoë Müller"), "pf": True}, {"t": "n", "v": "5"}, {"t": "e", "dst": "kind", "v": 1, "total": 3}]],
       [1, 2, 3])
    # enumeration claims and half-open validators
    mk("enum-halfopen", None, "d", [2],
       [{"t": "r", "label": "id", "validators": []},
        {"t": "e", "label": "phone", "validators": []},
        {"t": "n", "label": "n1", "validators": [{"k": "range", "min": None, "max": "10"}]},
        {"t": "n", "label": "n2", "validators": [{"k": "range", "min": "-5", "max": None}]},
        {"t": "h", "label": "t", "pf": True, "validators": [{"k": "len", "min": None, "max": 3}]}],
       [{"t": "r", "s": "id-e"}, {"t": "e", "dst": "phone_number_type", "v": 1, "total": 3}, {"t": "n", "v": "10"}, {"t": "n", "v": "-5"}, {"t": "h", "hex": hexs("abc"), "pf": True}],
       [[{"t": "r", "s": "id-e2"}, {"t": "e", "dst": "phone_number_type", "v": 1, "total": 3}, {"t": "n", "v": "11"}, {"t": "n", "v": "-5"}, {"t": "h", "hex": hexs("abc"), "pf": True}],
        [{"t": "r", "s": "id-e3"}, {"t": "e", "dst": "phone_number_type", "v": 1, "total": 3}, {"t": "n", "v": "10"}, {"t": "n", "v": "-6"}, {"t": "h", "hex": hexs("abcd"), "pf": True}]],
       [1])
    # hashed claims that are not text, print-friendly flag false in the schema
    mk("binary-hashed", "l", "d", [],
       [{"t": "r", "label": "id", "validators": []}, {"t": "h", "label": "blob", "pf": False, "validators": []}, {"t": "s", "label": "s", "validators": []}],
       [{"t": "r", "s": "id-b"}, {"t": "h", "hex": "00ff80c3", "pf": False}, {"t": "s", "hex": "%064x" % (c20.c18.R - 1)}], [], [1, 2])
    for i in range(40 if tier == "thorough" else 4):
        n = rng.randrange(2, 6)
        types = ["r"] + [rng.choice("hnseh") for _ in range(n - 1)]
        cl, good = [], []
        for j, t in enumerate(types):
            vals = []
            if t == "h" and rng.random() < 0.5:
                vals.append({"k": "len", "min": rng.choice([None, 0, 1]), "max": rng.choice([None, 50, 100])})
            if t == "n" and rng.random() < 0.5:
                vals.append({"k": "range", "min": rng.choice([None, str(-10 ** 9)]), "max": rng.choice([None, str(10 ** 9)])})
            cl.append({"t": t, "label": f"l{j}", "pf": rng.random() < 0.8, "validators": vals})
            if t == "r":
                good.append({"t": "r", "s": f"id-r{i}"})
            elif t == "h":
                good.append({"t": "h", "hex": hexs(rng.choice(NAMES[:5]) or "ab"), "pf": rng.random() < 0.8})
            elif t == "n":
                good.append({"t": "n", "v": str(rng.choice([0, -1, 41, 10 ** 8]))})
            elif t == "s":
                good.append(CC.claim(rng, "s"))
            else:
                good.append({"t": "e", "dst": "d", "v": rng.randrange(3), "total": 3})
        blind = [j for j in range(1, n) if rng.random() < 0.3]
        mk(f"rnd-{i}", rng.choice([None, "label"]), rng.choice([None, "desc"]), blind, cl, good, [], [j for j in range(1, n) if rng.random() < 0.5])
    return shapes


def pres_shapes(rng, tier, suite):
    out = [("full", c20.world(rng, suite, heavy=True)), ("small", c20.small_world(rng, suite))]
    for i in range(12 if tier == "thorough" else 3):
        w = CC.gen(rng, suite, kinds=["rev", "mem", "eq", "comm", "range", "venc", "vencdec", "vdec"], heavy=(i % 2 == 0))
        out.append((f"gen-{i}", {k: w[k] for k in ("suite", "seed", "nonce", "creds", "stmts")}))
    return out


def explore(ctx):
    tier, seed = ctx["tier"], ctx["seed"]
    rng = random.Random(seed)
    failures, hist, samples = [], {}, []
    nontrivial = set()
    evaluations = 0

    def bump(k, n=1):
        hist[k] = hist.get(k, 0) + n

    if ctx.get("replay"):
        rec = json.load(open(ctx["replay"]))
        op = rec.get("case", {}).get("op")
        if op:
            r = C.run_exec([op])[0]
            print("replay result:", json.dumps(r)[:3000])
        return {"evaluations": 1, "failures": [], "rule": "replay", "samples": [], "histograms": {}}

    # ------------------------------------------------------------------ part A: serde formats
    ops = []
    for suite in ("bbs", "ps"):
        for sh in issue_shapes(rng, tier):
            ops.append(dict(sh, op="f_wire_issue", suite=suite))
        for name, w in pres_shapes(rng, tier, suite):
            ops.append(dict(w, op="f_wire_pres", shape=name))
    res = C.run_exec_parallel(ops, nproc=16, timeout=7200) if len(ops) >= 64 else _par(ops)
    for op, r in zip(ops, res):
        if r.get("r") != "ok" or "results" not in r:
            raise C.Infra(f"wire case {op.get('shape')}: unexpected harness answer {json.dumps(r)[:300]}")
        for x in r["results"]:
            evaluations += 1
            key = f"{x['obj']}:{x['fmt']}"
            bump("A:" + key)
            problems = []
            if x.get("enc") != "ok":
                problems.append("encode " + str(x.get("enc")))
            elif x.get("dec") != "ok":
                problems.append("decode " + str(x.get("dec")))
            else:
                if not x["reencode_same"]:
                    problems.append("the decoded object re-encodes to different bytes")
                if not (x["same_as_json"] and x["same_as_cbor"]):
                    problems.append("the decoded object differs from the original (its JSON / CBOR encodings differ)")
                if x["verdict"] != x["verdict_orig"]:
                    problems.append(f"verdict changed: {x['verdict_orig']} -> {x['verdict']}")
                if x["verdict_orig"] == "panic" or x["verdict"] == "panic":
                    problems.append("use of the object panicked")
            if "panic" in str(x.get("enc")) or "panic" in str(x.get("dec")):
                problems.append("codec panicked")
            if not problems:
                nontrivial.add(C.case_hash([op["suite"], op.get("shape"), x["obj"], x["shape"], x["fmt"]]))
                bump("A:ok")
                continue
            cls = None
            if x["fmt"] == "bare" and x.get("skipped", 0) > 0 and x.get("enc") == "ok" and "panic" not in str(x.get("dec")):
                cls = "bare-skipped-optional-field"
            bump("A:problem:" + (cls or "unclassified"))
            failures.append({"class": cls, "witness": True,
                             "text": f"{x['obj']} ({op['suite']}, shape {x['shape']}) through {x['fmt']}: " + "; ".join(problems),
                             "case": {"op": op, "object": x["obj"], "format": x["fmt"], "result": x}})
    for op, r in list(zip(ops, res))[:: max(1, len(ops) // 4)]:
        x = r["results"][0]
        samples.append({"part": "serde", "suite": op["suite"], "shape": op.get("shape"), "object": x["obj"], "format": x["fmt"],
                        "decode": x.get("dec"), "reencode_same": x.get("reencode_same"), "verdict": x.get("verdict")})

    # ------------------------------------------------------------------ part B: hand-written byte codecs
    specs = []
    for suite in ("bbs", "ps"):
        for k in range(8 if tier == "thorough" else 3):
            n = rng.randrange(2, 7)
            claims = [{"t": "r", "s": f"id-{k}"}] + [CC.claim(rng, rng.choice("hns")) for _ in range(n - 1)]
            disclosed = [i for i in range(1, n) if rng.random() < 0.5]
            if k == 0:
                disclosed = list(range(0, n))       # every message revealed: the shortest proof
            blind = [i for i in range(1, n) if rng.random() < 0.5] or [1]
            specs.append({"op": "d_codec_samples", "suite": suite, "claims": claims, "disclosed": disclosed, "blind": blind})
    sres = _par(specs)
    dec_ops, dec_meta = [], []
    for spec, s in zip(specs, sres):
        if s.get("r") != "ok":
            raise C.Infra("codec samples: " + json.dumps(s)[:300])
        for name, v in s["samples"].items():
            if "b" not in v:
                failures.append({"class": None, "witness": True, "text": f"{spec['suite']} {name}.to_bytes panics at {v.get('at')}", "case": {"op": spec}})
                continue
            dec_ops.append({"op": "d_codec_dec", "suite": spec["suite"], "codec": name, "b": v["b"]})
            dec_meta.append((spec, name, v))
    dres = _par(dec_ops)
    for (spec, name, v), op, d in zip(dec_meta, dec_ops, dres):
        evaluations += 1
        bump(f"B:{spec['suite']}:{name}:{d['r']}")
        problems = []
        if d["r"] != "ok":
            problems.append(f"from_bytes(to_bytes(x)) = {d['r']} {d.get('at', '')}")
        else:
            if d["re"] != v["b"]:
                problems.append("the decoded object re-encodes to different bytes")
            if d["json"] != v["json"]:
                problems.append("the decoded object differs from the original")
        if problems:
            failures.append({"class": None, "witness": True, "text": f"hand-written codec {spec['suite']} {name}: " + "; ".join(problems),
                             "case": {"op": op, "sample_spec": spec, "original_json": v["json"]}})
        else:
            nontrivial.add(C.case_hash([spec["suite"], name, v["b"]]))
    if dec_meta:
        spec, name, v = dec_meta[0]
        samples.append({"part": "codec", "suite": spec["suite"], "codec": name, "bytes": len(v["b"]) // 2, "roundtrip": dres[0]["r"]})

    extra = {}
    if "model_parts" in globals():
        extra = model_parts(ctx, rng, dec_meta, failures, bump, samples)
        evaluations += extra.get("evaluations", 0)

    return {
        "evaluations": evaluations,
        "distinct_nontrivial": len(nontrivial),
        "rule": "cases = (object instance, format): every object kind (claims of all five types, validators of all four kinds with present / absent bounds, claim schemas, credential schemas with present / absent label, description, blindable list and validator lists, issuer public data, issuer state, credentials and bundles, blind requests and bundles, presentation schemas, every statement and proof variant, presentations, presentation credentials) x {JSON, CBOR, BARE} x {BBS, PS}: decode(encode(x)) must succeed, re-encode to the same bytes, have the same JSON and CBOR encodings as x, and give the same verdict when used (issuance decision on conformant and violating claim vectors, presentation creation and verification, refresh / re-issue, blind signing, unblinding); hand-written to_bytes/from_bytes of keys, signatures, contexts and proofs: from_bytes(to_bytes(x)) = x with the same bytes, compared byte for byte with the Coq layout model. distinct by hash; non-trivial = round trip complete and all comparisons made",
        "samples": samples,
        "histograms": {"counts": hist},
        "failures": failures,
        "exhaustive": False,
    }


def _par(ops):
    import concurrent.futures as cf
    if not ops:
        return []
    with cf.ThreadPoolExecutor(max_workers=16) as ex:
        return list(ex.map(lambda o: C.run_exec([o])[0], ops))
