"""C19 — wire formats round-trip every protocol object without changing its meaning."""
import json, os, random, time
import common as C
import create_common as CC
import c20

EXTRA_VO = ["Exec/RunC19.vo"]

HEADER = """From Coq Require Import ZArith List String.
From ACV Require Import Model.ClaimCodec Model.Codec Model.SerdeTree Exec.RunC19.
Import ListNotations. Open Scope string_scope."""

TRUSTED_BASE = [
    "Coq 8.16.1 kernel (coqc, vm_compute for case evaluation); no axioms (Print Assumptions: closed)",
    "hand-written Gallina models: coq/Model/Codec.v (byte layouts of the hand-written to_bytes/from_bytes codecs, fixed-width leaves opaque: a compressed point / canonical scalar decoder is a Section variable with the round-trip and canonicity hypotheses stated in the theorems) and coq/Model/SerdeTree.v (serde data-model trees of the types with hand-written or attribute-driven impls; by-name and positional decoders)",
    "correspondence: harness/src/ops_wire.rs (encode/decode/re-encode/cross-encode/use every object kind in JSON, CBOR and BARE), harness/src/ops_codec.rs (hand-written codecs byte for byte, leaf validity table handed to the model), harness/src/ops_tree.rs (recording serde Serializer dumping the data-model tree the real Serialize impls produce), lib/c19.py",
    "modelled, not verified: the concrete syntaxes of serde_json, serde_cbor and serde_bare, the derive-generated impls of types without attributes, blstrs_plus point/scalar encodings and bulletproofs' RangeProof are exercised by round trips only",
]
ASSUMPTIONS = [
    "compressed point decoding and canonical scalar decoding are injective partial inverses of their encoders (hypotheses of the codec theorems; exercised by the leaf table of every case)",
    "a self-describing format returns the tree it was given (JSON, CBOR); BARE returns the tree positionally, without names and without knowledge of skipped fields",
]

NAMES = ["Alice", "José Núñez", "", "山田 太郎", "Zoë", "x" * 40]


def hexs(s):
    return s.encode().hex()


def issue_shapes(rng, tier):
    """credential schemas of every claim type with empty / non-empty optional fields and validator lists"""
    shapes = []

    def mk(name, label, desc, blind, claims, good, bads, disclose):
        shapes.append({"shape": name, "schema": {"label": label, "desc": desc, "blind": blind, "claims": claims},
                       "claims": good, "bad_claims": bads, "disclose": disclose})

    sc = lambda: CC.claim(rng, "s")
    for k, nm in enumerate(NAMES[:4] if tier == "quick" else NAMES):
        # every optional field absent, no validators (nothing skipped except everything)
        mk(f"bare-min-{k}", None, None, [], [{"t": "r", "label": "id", "validators": []}, {"t": "h", "label": "name", "pf": True, "validators": []}],
           [{"t": "r", "s": f"id-{k}"}, {"t": "h", "hex": hexs(nm), "pf": True}], [], [1])
    # all claim types, mixed validators, some optional fields present
    mk("mixed", "lab", None, [1, 3],
       [{"t": "r", "label": "id", "validators": []},
        {"t": "h", "label": "name", "pf": True, "validators": [{"k": "len", "min": 2, "max": None}, {"k": "regex", "rx": "^[A-Z].*$"}]},
        {"t": "n", "label": "age", "validators": [{"k": "range", "min": "0", "max": "150"}]},
        {"t": "s", "label": "sc", "validators": []},
        {"t": "e", "label": "color", "validators": []},
        {"t": "h", "label": "hx", "pf": False, "validators": [{"k": "anyone", "claims": [{"t": "h", "hex": "00ff", "pf": False}, {"t": "h", "hex": "01", "pf": False}]}]}],
       [{"t": "r", "s": "id-1"}, {"t": "h", "hex": hexs("Alice"), "pf": True}, {"t": "n", "v": "41"}, sc(), {"t": "e", "dst": "color", "v": 2, "total": 5}, {"t": "h", "hex": "00ff", "pf": False}],
       [[{"t": "r", "s": "id-2"}, {"t": "h", "hex": hexs("alice"), "pf": True}, {"t": "n", "v": "41"}, sc(), {"t": "e", "dst": "color", "v": 2, "total": 5}, {"t": "h", "hex": "00ff", "pf": False}],
        [{"t": "r", "s": "id-3"}, {"t": "h", "hex": hexs("Alice"), "pf": True}, {"t": "n", "v": "151"}, sc(), {"t": "e", "dst": "color", "v": 2, "total": 5}, {"t": "h", "hex": "00ff", "pf": False}]],
       [1, 4])
    # nothing skipped: every optional field present, every claim with a fully specified validator
    mk("full", "lab", "a description", [1],
       [{"t": "r", "label": "id", "validators": [{"k": "len", "min": 1, "max": 64}]},
        {"t": "h", "label": "name", "pf": True, "validators": [{"k": "len", "min": 0, "max": 100}]},
        {"t": "n", "label": "age", "validators": [{"k": "range", "min": str(-2 ** 63), "max": str(2 ** 63 - 1)}]},
        {"t": "e", "label": "kind", "validators": [{"k": "anyone", "claims": [{"t": "e", "dst": "kind", "v": 0, "total": 3}, {"t": "e", "dst": "kind", "v": 2, "total": 3}]}]}],
       [{"t": "r", "s": "id-full"}, {"t": "h", "hex": hexs("Zoë Müller"), "pf": True}, {"t": "n", "v": str(-2 ** 63)}, {"t": "e", "dst": "kind", "v": 2, "total": 3}],
       [[{"t": "r", "s": "id-full2"}, {"t": "h", "hex": hexs("Zoë Müller"), "pf": True}, {"t": "n", "v": "5"}, {"t": "e", "dst": "kind", "v": 1, "total": 3}]],
       [1, 2, 3])
    # enumeration claims and half-open validators
    mk("enum-halfopen", None, "d", [2],
       [{"t": "r", "label": "id", "validators": []},
        {"t": "e", "label": "phone", "validators": []},
        {"t": "n", "label": "n1", "validators": [{"k": "range", "min": None, "max": "10"}]},
        {"t": "n", "label": "n2", "validators": [{"k": "range", "min": "-5", "max": None}]},
        {"t": "h", "label": "t", "pf": True, "validators": [{"k": "len", "min": None, "max": 3}]}],
       [{"t": "r", "s": "id-e"}, {"t": "e", "dst": "phone_number_type", "v": 1, "total": 3}, {"t": "n", "v": "10"}, {"t": "n", "v": "-5"}, {"t": "h", "hex": hexs("abc"), "pf": True}],
       [[{"t": "r", "s": "id-e2"}, {"t": "e", "dst": "phone_number_type", "v": 1, "total": 3}, {"t": "n", "v": "11"}, {"t": "n", "v": "-5"}, {"t": "h", "hex": hexs("abc"), "pf": True}],
        [{"t": "r", "s": "id-e3"}, {"t": "e", "dst": "phone_number_type", "v": 1, "total": 3}, {"t": "n", "v": "10"}, {"t": "n", "v": "-6"}, {"t": "h", "hex": hexs("abcd"), "pf": True}]],
       [1])
    # hashed claims that are not text, print-friendly flag false in the schema
    mk("binary-hashed", "l", "d", [],
       [{"t": "r", "label": "id", "validators": []}, {"t": "h", "label": "blob", "pf": False, "validators": []}, {"t": "s", "label": "s", "validators": []}],
       [{"t": "r", "s": "id-b"}, {"t": "h", "hex": "00ff80c3", "pf": False}, {"t": "s", "hex": "%064x" % (c20.c18.R - 1)}], [], [1, 2])
    for i in range(40 if tier == "thorough" else 4):
        n = rng.randrange(2, 6)
        types = ["r"] + [rng.choice("hnseh") for _ in range(n - 1)]
        cl, good = [], []
        for j, t in enumerate(types):
            vals = []
            if t == "h" and rng.random() < 0.5:
                vals.append({"k": "len", "min": rng.choice([None, 0, 1]), "max": rng.choice([None, 50, 100])})
            if t == "n" and rng.random() < 0.5:
                vals.append({"k": "range", "min": rng.choice([None, str(-10 ** 9)]), "max": rng.choice([None, str(10 ** 9)])})
            cl.append({"t": t, "label": f"l{j}", "pf": rng.random() < 0.8, "validators": vals})
            if t == "r":
                good.append({"t": "r", "s": f"id-r{i}"})
            elif t == "h":
                good.append({"t": "h", "hex": hexs(rng.choice(NAMES[:5]) or "ab"), "pf": rng.random() < 0.8})
            elif t == "n":
                good.append({"t": "n", "v": str(rng.choice([0, -1, 41, 10 ** 8]))})
            elif t == "s":
                good.append(CC.claim(rng, "s"))
            else:
                good.append({"t": "e", "dst": "d", "v": rng.randrange(3), "total": 3})
        blind = [j for j in range(1, n) if rng.random() < 0.3]
        mk(f"rnd-{i}", rng.choice([None, "label"]), rng.choice([None, "desc"]), blind, cl, good, [], [j for j in range(1, n) if rng.random() < 0.5])
    return shapes


def pres_shapes(rng, tier, suite):
    out = [("full", c20.world(rng, suite, heavy=True)), ("small", c20.small_world(rng, suite))]
    for i in range(12 if tier == "thorough" else 3):
        w = CC.gen(rng, suite, kinds=["rev", "mem", "eq", "comm", "range", "venc", "vencdec", "vdec"], heavy=(i % 2 == 0))
        out.append((f"gen-{i}", {k: w[k] for k in ("suite", "seed", "nonce", "creds", "stmts")}))
    return out


def explore(ctx):
    tier, seed = ctx["tier"], ctx["seed"]
    rng = random.Random(seed)
    failures, hist, samples = [], {}, []
    nontrivial = set()
    evaluations = 0

    def bump(k, n=1):
        hist[k] = hist.get(k, 0) + n

    if ctx.get("replay"):
        rec = json.load(open(ctx["replay"]))
        op = rec.get("case", {}).get("op")
        if op:
            r = C.run_exec([op])[0]
            print("replay result:", json.dumps(r)[:3000])
        return {"evaluations": 1, "failures": [], "rule": "replay", "samples": [], "histograms": {}}

    # ------------------------------------------------------------------ part A: serde formats
    ops = []
    for suite in ("bbs", "ps"):
        for sh in issue_shapes(rng, tier):
            ops.append(dict(sh, op="f_wire_issue", suite=suite))
        for name, w in pres_shapes(rng, tier, suite):
            ops.append(dict(w, op="f_wire_pres", shape=name))
    res = C.run_exec_parallel(ops, nproc=16, timeout=7200) if len(ops) >= 64 else _par(ops)
    for op, r in zip(ops, res):
        if r.get("r") != "ok" or "results" not in r:
            raise C.Infra(f"wire case {op.get('shape')}: unexpected harness answer {json.dumps(r)[:300]}")
        for x in r["results"]:
            evaluations += 1
            key = f"{x['obj']}:{x['fmt']}"
            bump("A:" + key)
            problems = []
            if x.get("enc") != "ok":
                problems.append("encode " + str(x.get("enc")))
            elif x.get("dec") != "ok":
                problems.append("decode " + str(x.get("dec")))
            else:
                if not x["reencode_same"]:
                    problems.append("the decoded object re-encodes to different bytes")
                if not (x["same_as_json"] and x["same_as_cbor"]):
                    problems.append("the decoded object differs from the original (its JSON / CBOR encodings differ)")
                if x["verdict"] != x["verdict_orig"]:
                    problems.append(f"verdict changed: {x['verdict_orig']} -> {x['verdict']}")
                if x["verdict_orig"] == "panic" or x["verdict"] == "panic":
                    problems.append("use of the object panicked")
            if "panic" in str(x.get("enc")) or "panic" in str(x.get("dec")):
                problems.append("codec panicked")
            if not problems:
                nontrivial.add(C.case_hash([op["suite"], op.get("shape"), x["obj"], x["shape"], x["fmt"]]))
                bump("A:ok")
                continue
            cls = None
            if x["fmt"] == "bare" and x.get("skipped", 0) > 0 and x.get("enc") == "ok" and "panic" not in str(x.get("dec")):
                cls = "bare-skipped-optional-field"
            bump("A:problem:" + (cls or "unclassified"))
            failures.append({"class": cls, "witness": True,
                             "text": f"{x['obj']} ({op['suite']}, shape {x['shape']}) through {x['fmt']}: " + "; ".join(problems),
                             "case": {"op": op, "object": x["obj"], "format": x["fmt"], "result": x}})
    for op, r in list(zip(ops, res))[:: max(1, len(ops) // 4)]:
        x = r["results"][0]
        samples.append({"part": "serde", "suite": op["suite"], "shape": op.get("shape"), "object": x["obj"], "format": x["fmt"],
                        "decode": x.get("dec"), "reencode_same": x.get("reencode_same"), "verdict": x.get("verdict")})

    # ------------------------------------------------------------------ part B: hand-written byte codecs
    specs = []
    for suite in ("bbs", "ps"):
        for k in range(8 if tier == "thorough" else 3):
            n = rng.randrange(2, 7)
            claims = [{"t": "r", "s": f"id-{k}"}] + [CC.claim(rng, rng.choice("hns")) for _ in range(n - 1)]
            disclosed = [i for i in range(1, n) if rng.random() < 0.5]
            blind = [i for i in range(1, n) if rng.random() < 0.5] or [1]
            spec = {"op": "d_codec_samples", "suite": suite, "claims": claims, "disclosed": disclosed, "blind": blind}
            if k == 0:
                spec["disclosed"] = list(range(0, n))       # every message revealed: the shortest proof
                spec["norev"] = True
            specs.append(spec)
    sres = _par(specs)
    dec_ops, dec_meta = [], []
    for spec, s in zip(specs, sres):
        if s.get("r") != "ok":
            raise C.Infra("codec samples: " + json.dumps(s)[:300])
        for name, v in s["samples"].items():
            if "b" not in v:
                failures.append({"class": None, "witness": True, "text": f"{spec['suite']} {name}.to_bytes panics at {v.get('at')}", "case": {"op": spec}})
                continue
            dec_ops.append({"op": "d_codec_dec", "suite": spec["suite"], "codec": name, "b": v["b"]})
            dec_meta.append((spec, name, v))
    dres = _par(dec_ops)
    for (spec, name, v), op, d in zip(dec_meta, dec_ops, dres):
        evaluations += 1
        bump(f"B:{spec['suite']}:{name}:{d['r']}")
        problems = []
        if d["r"] != "ok":
            problems.append(f"from_bytes(to_bytes(x)) = {d['r']} {d.get('at', '')}")
        else:
            if d["re"] != v["b"]:
                problems.append("the decoded object re-encodes to different bytes")
            if d["json"] != v["json"]:
                problems.append("the decoded object differs from the original")
        if problems:
            failures.append({"class": None, "witness": True, "text": f"hand-written codec {spec['suite']} {name}: " + "; ".join(problems),
                             "case": {"op": op, "sample_spec": spec, "original_json": v["json"]}})
        else:
            nontrivial.add(C.case_hash([spec["suite"], name, v["b"]]))
    if dec_meta:
        spec, name, v = dec_meta[0]
        samples.append({"part": "codec", "suite": spec["suite"], "codec": name, "bytes": len(v["b"]) // 2, "roundtrip": dres[0]["r"]})

    extra = {}
    if "model_parts" in globals():
        extra = model_parts(ctx, rng, dec_meta, failures, bump, samples)
        evaluations += extra.get("evaluations", 0)

    return {
        "evaluations": evaluations,
        "distinct_nontrivial": len(nontrivial),
        "rule": "cases = (object instance, format): every object kind (claims of all five types, validators of all four kinds with present / absent bounds, claim schemas, credential schemas with present / absent label, description, blindable list and validator lists, issuer public data, issuer state, credentials and bundles, blind requests and bundles, presentation schemas, every statement and proof variant, presentations, presentation credentials) x {JSON, CBOR, BARE} x {BBS, PS}: decode(encode(x)) must succeed, re-encode to the same bytes, have the same JSON and CBOR encodings as x, and give the same verdict when used (issuance decision on conformant and violating claim vectors, presentation creation and verification, refresh / re-issue, blind signing, unblinding); hand-written to_bytes/from_bytes of keys, signatures, contexts and proofs: from_bytes(to_bytes(x)) = x with the same bytes, compared byte for byte with the Coq layout model. distinct by hash; non-trivial = round trip complete and all comparisons made",
        "samples": samples,
        "histograms": {"counts": hist},
        "failures": failures,
        "exhaustive": False,
    }


def _par(ops):
    import concurrent.futures as cf
    if not ops:
        return []
    with cf.ThreadPoolExecutor(max_workers=16) as ex:
        return list(ex.map(lambda o: C.run_exec([o])[0], ops))


# ---------------------------------------------------------------------------------------------------
# model parts: data-model trees, by-name round trip, skipped-field predicate, codec layouts
# ---------------------------------------------------------------------------------------------------
CT = {"h": "THashed", "n": "TNumber", "s": "TScalar", "r": "TRevocation", "e": "TEnumeration", "u": "TUnknown"}


def cbytes_hex(h):
    return C.cbytes(list(bytes.fromhex(h)))


def cclaim(c):
    t = c["t"]
    if t == "h":
        return f"(CHashed {cbytes_hex(c['hex'])} {C.cbool(c.get('pf', False))})"
    if t == "n":
        return f"(CNumber {C.cz(int(c['v']))})"
    if t == "s":
        return f"(CScalar {int(c['hex'], 16)})"
    if t == "r":
        return f"(CRevocation {C.cbytes(list(c['s'].encode()))})"
    if t == "e":
        return f"(CEnum {C.cbytes(list(c['dst'].encode()))} {int(c['v'])} {int(c['total'])})"
    raise ValueError(t)


def copt(v):
    return "None" if v is None else f"(Some {C.cz(int(v))})"


def cvalidator(v):
    k = v["k"]
    if k == "len":
        return f"(VLength {copt(v.get('min'))} {copt(v.get('max'))})"
    if k == "range":
        return f"(VRange {copt(v.get('min'))} {copt(v.get('max'))})"
    if k == "regex":
        return f"(VRegex {C.cbytes(list(v['rx'].encode()))})"
    return "(VAnyOne " + C.clist([cclaim(c) for c in v["claims"]]) + ")"


def cclaim_schema(s, i):
    label = s.get("label") or f"l{i}"
    return ("{| cs_type := %s; cs_label := %s; cs_pf := %s; cs_validators := %s |}" %
            (CT[s["t"]], C.cbytes(list(label.encode())), C.cbool(s.get("pf", True)), C.clist([cvalidator(v) for v in s.get("validators", [])])))


def cschema(sp):
    claims = sp["claims"]
    labels = [(c.get("label") or f"l{i}") for i, c in enumerate(claims)]
    ob = lambda x: "None" if x is None else f"(Some {C.cbytes(list(x.encode()))})"
    return ("{| sch_id := %s; sch_label := %s; sch_desc := %s; sch_blind := %s; sch_indices := %s; sch_claims := %s |}" %
            (C.cbytes(list(b"the-id")), ob(sp.get("label")), ob(sp.get("desc")),
             C.clist([C.cbytes(list(labels[i].encode())) for i in sp.get("blind", [])]),
             C.clist([C.cbytes(list(l.encode())) for l in labels]),
             C.clist([cclaim_schema(c, i) for i, c in enumerate(claims)])))


CODECS = {("ps", "pk"): "CPsPk", ("ps", "sk"): "CPsSk", ("ps", "sig"): "CPsSig", ("ps", "bsig"): "CPsSig", ("ps", "pok"): "CPsPok",
          ("ps", "ctx"): "CPsCtx", ("bbs", "pok"): "CBbsPok"}


def model_parts(ctx, rng, dec_meta, failures, bump, samples):
    tier = ctx["tier"]
    n_eval = 0
    # ---- objects
    objs = []   # (descr, d_tree op, coq obj term)
    seen = set()

    def add(descr, op, term):
        k = json.dumps(op, sort_keys=True)
        if k not in seen:
            seen.add(k)
            objs.append((descr, op, term))

    for t in "hnsre":
        add(f"claim_type {t}", {"op": "d_tree", "kind": "claim_type", "t": t}, f"OType {CT[t]}")
    for sh in issue_shapes(rng, tier):
        sp = sh["schema"]
        for c in sh["claims"] + [c for b in sh["bad_claims"] for c in b]:
            add("claim", {"op": "d_tree", "kind": "claim", "c": c}, f"OClaim {cclaim(c)}")
        for i, cs in enumerate(sp["claims"]):
            for v in cs.get("validators", []):
                add("validator", {"op": "d_tree", "kind": "validator", "v": v}, f"OValidator {cvalidator(v)}")
            add("claim_schema", {"op": "d_tree", "kind": "claim_schema", "claims": [dict(cs, label=cs.get("label") or f"l{i}")]},
                f"OClaimSchema {cclaim_schema(cs, i)}")
        add("credential_schema", {"op": "d_tree", "kind": "credential_schema", "label": sp.get("label"), "desc": sp.get("desc"),
                                  "blind": sp.get("blind", []), "claims": sp["claims"], "id": "the-id"}, f"OSchema {cschema(sp)}")
    # extra claims: extremes
    for c in [{"t": "n", "v": str(-2 ** 63)}, {"t": "n", "v": str(2 ** 63 - 1)}, {"t": "h", "hex": "", "pf": True}, {"t": "h", "hex": "", "pf": False},
              {"t": "h", "hex": "ff00", "pf": False}, {"t": "s", "hex": "%064x" % 0}, {"t": "s", "hex": "%064x" % (c20.c18.R - 1)},
              {"t": "e", "dst": "", "v": 255, "total": 2 ** 64 - 1}, {"t": "r", "s": ""}]:
        add("claim", {"op": "d_tree", "kind": "claim", "c": c}, f"OClaim {cclaim(c)}")
    for v in [{"k": "len", "min": None, "max": None}, {"k": "range", "min": None, "max": None}, {"k": "len", "min": 0, "max": 2 ** 64 - 1},
              {"k": "anyone", "claims": []}, {"k": "regex", "rx": ""}]:
        add("validator", {"op": "d_tree", "kind": "validator", "v": v}, f"OValidator {cvalidator(v)}")
    impl = _par([o[1] for o in objs])
    terms = []
    for d, op, t in objs:
        terms += [f"KTree true ({t})", f"KTree false ({t})", f"KRt true ({t})", f"KRt false ({t})", f"KSkips ({t})", f"KPos ({t})"]
    model = C.run_model("C19", HEADER, terms, shard_size=200, tag="tree")
    for k, ((d, op, t), r) in enumerate(zip(objs, impl)):
        if r.get("r") != "ok":
            raise C.Infra("d_tree: " + json.dumps(r)[:300])
        m_hr, m_bin, rt_hr, rt_bin, skips, pos = [x.strip() for x in model[6 * k: 6 * k + 6]]
        n_eval += 1
        bump("M:tree:" + d.split()[0])
        for which, mi, ii in (("human-readable", m_hr, r["hr"]), ("binary", m_bin, r["bin"])):
            if mi != ii:
                failures.append({"class": None, "witness": False,
                                 "text": f"correspondence broken: {which} data-model tree of {d}: impl={ii[:300]} model={mi[:300]}",
                                 "case": {"op": op, "coq_term": t, "impl": ii, "model": mi}})
        if m_hr != "panic" and rt_hr != "1" or m_bin != "panic" and rt_bin != "1":
            failures.append({"class": None, "witness": False, "text": f"model: decode-by-name after serialise does not return {d}", "case": {"op": op, "coq_term": t}})
        # positional format: the model's skipped-field predicate against the BARE round trip of the implementation
        bare_ok = r["bare"] == "ok"
        if d.split()[0] in ("validator", "claim_schema", "credential_schema"):
            bump(f"M:bare:{d.split()[0]}:skips={skips}:impl={r['bare']}")
            if (skips == "0") != bare_ok:
                failures.append({"class": None, "witness": False,
                                 "text": f"correspondence broken: BARE round trip of {d} is {r['bare']} but the model's skipped-field predicate says {skips}",
                                 "case": {"op": op, "coq_term": t}})
            # ... and the model's positional reader itself: it gives the object back exactly when the implementation's does
            if pos != "na":
                bump(f"M:pos-reader:{d.split()[0]}:model={pos}:impl={r['bare']}")
                if (pos == "ok") != bare_ok:
                    failures.append({"class": None, "witness": False,
                                     "text": f"correspondence broken: BARE round trip of {d} is {r['bare']} but the model's positional reader says {pos}",
                                     "case": {"op": op, "coq_term": t}})
        elif not bare_ok:
            failures.append({"class": None, "witness": True, "text": f"BARE round trip of {d} fails: {r['bare']}", "case": {"op": op}})
    samples.append({"part": "tree", "object": objs[-1][0], "impl_hr": impl[-1]["hr"][:160], "model_hr": model[-6].strip()[:160]})

    # ---- hand-written codecs against the layout model: the honest encodings and mutations of them
    cases = []
    for spec, name, v in dec_meta:
        cname = CODECS.get((spec["suite"], name))
        if cname is None:
            continue
        b = bytes.fromhex(v["b"])
        muts = [b, b[:-1], b[:-32], b[:-48], b + b"\x00", b + b[-32:], b[:48], b[:96], b[:112], b[:144], b[:208], b[:256], b[:288], b""]
        for _ in range(40 if tier == "thorough" else 10):
            m = bytearray(b)
            k = rng.randrange(5)
            p = rng.randrange(len(m))
            if k == 0:
                m[p] ^= 1 << rng.randrange(8)
            elif k == 1:
                m = m[:p]
            elif k == 2:
                m[p:p + 32] = b"\xff" * min(32, len(m) - p)
            elif k == 3 and cname == "CPsPk":
                q = rng.choice([192, 192 + 4 + 96 * ((len(m) - 200) // 144)]) if len(m) > 300 else 192
                m[q:q + 4] = rng.choice([b"\x00\x00\x00\x00", b"\x00\x00\x00\x01", b"\xff\xff\xff\xff", b"\x00\x00\x01\x00"])
            else:
                m = m + bytes(rng.randrange(256) for _ in range(rng.choice([1, 16, 32, 48])))
            muts.append(bytes(m))
        for mb in muts:
            cases.append((spec["suite"], name, cname, mb))
    dec = _par([{"op": "d_codec_dec", "suite": s, "codec": n, "b": mb.hex()} for s, n, _, mb in cases])
    pts = _par([{"op": "d_codec_points", "b": mb.hex()} for _, _, _, mb in cases])
    terms = []
    for (s, n, cname, mb), p in zip(cases, pts):
        t48 = C.clist([cbytes_hex(x) for x in p["g1"]])
        t96 = C.clist([cbytes_hex(x) for x in p["g2"]])
        terms.append(f"KCodec {cname} {t48} {t96} {C.cbytes(list(mb))}")
    model = C.run_model("C19", HEADER, terms, shard_size=40, tag="codec") if terms else []
    for (s, n, cname, mb), d, m in zip(cases, dec, model):
        n_eval += 1
        il = "ok " + d["re"] if d["r"] == "ok" else d["r"]
        bump(f"M:codec:{s}:{n}:{d['r']}")
        if il != m.strip():
            failures.append({"class": None, "witness": d["r"] == "panic",
                             "text": f"correspondence broken: {s} {n}.from_bytes on {len(mb)} bytes: impl={il[:120]} model={m.strip()[:120]}",
                             "case": {"op": {"op": "d_codec_dec", "suite": s, "codec": n, "b": mb.hex()}}})
    if cases:
        samples.append({"part": "codec-model", "codec": cases[0][1], "bytes": len(cases[0][3]), "impl": dec[0]["r"], "model": model[0].strip()[:40]})
    return {"evaluations": n_eval}
