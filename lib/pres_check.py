"""Generic explore() for the presentation-verifier properties."""
import json, random
import common as C
import pres_common as PC

TRUSTED_COMMON = [
    "Coq 8.16.1 kernel; Print Assumptions of every theorem of this property: closed under the global context (theorems quantify over every K with feqb_ok K / is_field K)",
    "hand-written model coq/Model/Pres.v of src/presentation/verify.rs, src/verifier/{signature,equality,commitment,revocation}.rs (the accumulator proof's recomputed commitments enter the model as one opaque transcript item computed by the harness with MembershipProof::finalize; its algebra is Model/AccProof.v, C06), src/knox/{bbs,ps}/pok_signature_proof.rs in the exponent model (truncating msm, index->slot walk, dispatch, disclosed-claim comparison)",
    "Fiat-Shamir read symbolically: the challenge comparison succeeds iff the presented challenge was derived by hashing a transcript with the same proof-dependent items (random-oracle / collision-resistance reading of merlin)",
    "pseudo-logs: hash-derived bases (BBS generators, PS sigma_1) get independent random logs; model and code then agree on verdicts except with probability ~2^-250 per case",
    "correspondence: harness/src/ops_adv.rs (external honest and deviating prover; the verifier's challenge is read from its own mismatch error on a zero-challenge dummy), lib/pres_common.py",
]


def scenarios_for(pid, devs, rng, tier, shapes):
    out = []
    reps = 12 if tier == "thorough" else 3
    for _ in range(reps):
        for suite in ("bbs", "ps"):
            for shape in shapes:
                # honest baseline for the shape
                b = PC.base_scenario(rng, suite, **shape)
                out.append(b)
                for d in devs:
                    s = PC.base_scenario(rng, suite, **shape)
                    tgt = d.get("target", "s0")
                    dev = dict(d["dev"])
                    dev["stmt"] = tgt
                    if dev["k"] == "eq_one_side_disclosed":
                        # the verifier discloses, on one side, the very claim an equality statement refers to (the
                        # repository's own tests use such schemas); the two signed values differ
                        eqs = [x for x in s["stmts"] if x["k"] == "eq"]
                        if not eqs or len(eqs[0]["refs"]) < 2:
                            continue
                        sid, ci = eqs[0]["refs"][-1]
                        for st in s["stmts"]:
                            if st["k"] == "sig" and st["id"] == sid:
                                st["disclosed"] = sorted(set(st["disclosed"]) | {ci})
                                cl = s["creds"][st["cred"]]["claims"]
                                cl[ci] = cl[ci] + "x" if cl[ci].startswith("h:") else "n:%d" % (int(cl[ci][2:]) + 1)
                    if dev["k"] == "eq_disc_reverse_exploit":
                        # two credentials of 5 text claims; the equality is on claim 3; the last credential discloses claims 1 and 2,
                        # signs another value at claim 3 and the matching one at claim 4
                        if len(s["creds"]) < 2 or not any(x["k"] == "eq" for x in s["stmts"]):
                            continue
                        for k2, cr in enumerate(s["creds"]):
                            cr["claims"] = [cr["claims"][0], f"h:a{k2}", f"h:b{k2}", "h:link", f"h:z{k2}"]
                        s["creds"][-1]["claims"][3] = "h:Mallory"
                        s["creds"][-1]["claims"][4] = "h:link"
                        last = None
                        for st in s["stmts"]:
                            if st["k"] == "sig":
                                st["disclosed"] = []
                                if st["cred"] == len(s["creds"]) - 1:
                                    st["disclosed"] = [1, 2]
                                    last = st["id"]
                            if st["k"] == "eq":
                                st["refs"] = [[r[0], 3] for r in st["refs"]]
                        s["stmts"] = [st for st in s["stmts"] if st["k"] in ("sig", "eq")]
                        tgt = last
                        dev["stmt"] = last
                        dev["eq_claim"], dev["shift_claim"] = 3, 4
                    if d.get("need_disclosed", 0):
                        # make sure the target (or the signature statement a targeted predicate refers to) discloses enough claims
                        sig_tgt = tgt
                        for x in s["stmts"]:
                            if x["id"] == tgt and x["k"] != "sig" and "ref" in x:
                                sig_tgt = x["ref"]
                        for st in s["stmts"]:
                            if st["k"] == "sig" and st["id"] == sig_tgt:
                                n = len(s["creds"][st["cred"]]["claims"])
                                lo = 2 if any(x["k"] in ("eq", "comm") for x in s["stmts"]) else 1
                                pool = list(range(lo, n))
                                want = d["need_disclosed"]
                                if len(pool) < want:
                                    continue
                                if len(st["disclosed"]) < want:
                                    st["disclosed"] = sorted(rng.sample(pool, want))
                                # predicates must stay on hidden claims
                                for x in s["stmts"]:
                                    if x["k"] == "comm" and x["ref"] == sig_tgt and x["claim"] in st["disclosed"]:
                                        hidden = [i for i in range(n) if i not in st["disclosed"]]
                                        x["claim"] = hidden[-1] if hidden else 0
                                    if x["k"] == "comm" and x["ref"] == sig_tgt and dev["k"] == "reorder_shift_exploit":
                                        # a hidden claim after the first disclosed one: where a walk over a reordered list shifts
                                        later = [i for i in range(n) if i not in st["disclosed"] and st["disclosed"] and i > min(st["disclosed"])]
                                        if later:
                                            x["claim"] = later[0]
                    ok = True
                    for st in s["stmts"]:
                        if st["k"] == "sig" and st["id"] == tgt:
                            if len(st["disclosed"]) < d.get("need_disclosed", 0):
                                ok = False
                            if dev["k"] in ("false_reported_swap", "swap_disclosed_everywhere") and len(st["disclosed"]) >= 2:
                                cl = s["creds"][st["cred"]]["claims"]
                                a, b = st["disclosed"][0], st["disclosed"][1]
                                # the two swapped claims must differ, also across credentials sharing the schema
                                for cr in s["creds"]:
                                    if cr["issuer"] == s["creds"][st["cred"]]["issuer"]:
                                        cr["claims"][a] = "h:first-" + cr["claims"][0]
                                        cr["claims"][b] = "h:second-" + cr["claims"][0]
                    if dev["k"] == "other_issuer_sig" and len(s["creds"]) < 2:
                        ok = False
                    if not any(st["id"] == tgt for st in s["stmts"]):
                        ok = False
                    if dev["k"].startswith("rev_other_element"):
                        # needs a second credential in the same registry, with another identifier
                        rs = [x for x in s["stmts"] if x["k"] in ("rev", "mem") and x["id"] == tgt]
                        if not rs:
                            ok = False
                        elif rs[0]["k"] == "mem":
                            pass        # another element of the verifier's set: always available
                        else:
                            ci = next(x["cred"] for x in s["stmts"] if x["k"] == "sig" and x["id"] == rs[0]["ref"])
                            others = [c for j, c in enumerate(s["creds"]) if j != ci and c["issuer"] == s["creds"][ci]["issuer"]
                                      and c["claims"][0] != s["creds"][ci]["claims"][0]]
                            if not others:
                                ok = False
                    if dev["k"] in ("eq_independent_nonces", "eq_copy_response", "eq_unequal_shared_nonce"):
                        if not any(st["k"] == "eq" for st in s["stmts"]):
                            ok = False
                        else:
                            # the LAST credential's referenced value differs from the others
                            s["creds"][-1]["claims"][1] = "h:Mallory" if s["creds"][0]["claims"][1][:2] == "h:" else "n:99"
                            same = [c for c in s["creds"][:-1] if c["issuer"] == s["creds"][-1]["issuer"]]
                            if s["creds"][-1]["claims"][1] == s["creds"][0]["claims"][1]:
                                ok = False
                    if dev["k"] == "extra_consistent":
                        for st in s["stmts"]:
                            if st["k"] == "sig" and st["id"] == tgt:
                                n = len(s["creds"][st["cred"]]["claims"])
                                pred = {x["claim"] for x in s["stmts"] if x["k"] == "comm" and x["ref"] == tgt}
                                if any(x["k"] == "eq" for x in s["stmts"]):
                                    pred.add(1)
                                if not [i for i in range(1, n) if i not in st["disclosed"] and i not in pred]:
                                    ok = False
                    if not ok:
                        continue
                    s["dev"] = dev
                    out.append(s)
    return out


def explore_generic(pid, ctx, devs, shapes, own_props, rule_extra=""):
    tier, seed = ctx["tier"], ctx["seed"]
    rng = random.Random(seed * 7919 + hash(pid) % 1000)
    scns = scenarios_for(pid, devs, rng, tier, shapes)
    if ctx.get("replay"):
        rp = json.load(open(ctx["replay"]))
        if "scenario" in rp.get("case", {}):
            scns = [rp["case"]["scenario"]]
    results = PC.run(pid, scns)
    failures, hist, distinct = PC.judge(pid, results, own_props)
    samples = []
    for x in results[:400:37]:
        samples.append({"suite": x["scn"]["suite"], "stmts": x["scn"]["stmts"], "dev": x["scn"]["dev"], "impl": x["impl"], "model": x["model"]})
    return {
        "evaluations": len(results),
        "distinct_nontrivial": distinct,
        "rule": "cases = (credential set, presentation schema, deviation) scenarios: schemas of 1..3 credentials of 3..5 claims with random disclosure subsets, optional equality and commitment statements, statements in random order, BBS and PS; for each shape the honest external prover and every deviation of the catalogue " + rule_extra +
                "; each case builds a reference (zero-challenge) and a final presentation, runs Presentation::verify and the Coq model on the same objects (pseudo-logs) and compares accept/reject; acceptance of a must-reject deviation is a witness; distinct by (suite, statements, deviation, claim counts); every case is non-trivial (reaches the verifier on both sides)",
        "samples": samples[:10],
        "histograms": hist,
        "failures": failures,
        "exhaustive": False,
    }
