"""C06 — revocation: revoked credentials cannot present, all others still can (partial)."""
import itertools, json, random
import common as C
import c13

EXTRA_VO = ["Exec/RunC13.vo", "Exec/RunPres.vo", "Exec/RunAcc.vo"]
TRUSTED_BASE = [
    "Coq 8.16.1 kernel; Print Assumptions of every C06 theorem: closed under the global context",
    "PARTIAL: theorems = completeness, invalid-handle rejection and special soundness of the VB20 zero-knowledge membership sub-protocol (coq/Model/AccProof.v of src/knox/accumulator/vb20/proof.rs:104-335, src/verifier/revocation.rs) composed with C13 (bookkeeping = accumulator, fresh / stale handles) and C14 (public updates); that no efficiently computable handle exists for a revoked identifier is the accumulator's q-SDH assumption, assumed",
    "expected verdicts of executed cases are derived from the registry model's trace (coq/Model/Registry.v evaluated by coqc): a handle obtained at removed-list R presents successfully at removed-list R' iff R = R' (stale), or iff the owner is not in R' minus R and every revocation in between was a single identifier (single-step public update), never when borrowed or when the registry value is used as handle",
    "Model/AccProof.v is tied to proof.rs by execution: MembershipProof::finalize on parameters with known logs, arbitrary proof fields and challenges, hashes exactly the G1 / GT elements the model's acc_finalize predicts (harness op f_accfin; transcript labels of get_bytes_for_challenge are repeated in the harness); the committing side uses the OS random generator and is tied through acceptance of honest proofs only",
    "correspondence: harness/src/ops_revoc.rs (Issuer + Presentation::create/verify with a revocation statement against the current registry value for every holder, every handle it can derive, after every operation), lib/c06.py",
]
ASSUMPTIONS = ["q-SDH for the accumulator; unforgeability (C01) links the presented identifier to the signed one",
               "batch coefficients are computed by the harness with the issuer's key (Accumulator::update_assign), as a publishing issuer would"]


def gen_ops(rng, nh, ln):
    ops = [{"k": rng.choice(["issue", "issue", "blind"]), "id": h} for h in range(nh)]
    rng.shuffle(ops)
    ops = ops[:rng.randrange(2, nh + 1)]
    for _ in range(ln):
        k = rng.random()
        if k < 0.2:
            ops.append({"k": rng.choice(["issue", "blind"]), "id": rng.randrange(nh)})
        elif k < 0.6:
            n = rng.choice([1, 1, 1, 2, 2, 0, 3])
            ops.append({"k": "revoke", "ids": [rng.randrange(nh) for _ in range(n)]})
        else:
            ops.append({"k": "refresh", "id": rng.randrange(nh)})
    return ops


ACC_HEADER = """From Coq Require Import ZArith List String.
From ACV Require Import Exec.RunAcc.
Import ListNotations. Open Scope Z_scope."""


def c13_R():
    return 0x73eda753299d7d483339d80809a1d80553bda402fffe5bfeffffffff00000001


def explore(ctx):
    tier, seed = ctx["tier"], ctx["seed"]
    rng = random.Random(seed)
    n = 500 if tier == "thorough" else 70
    cases = []
    for i in range(n):
        nh = rng.choice([2, 3, 4])
        cases.append({"op": "f_revoc", "suite": "ps" if i % 2 else "bbs", "holders": nh, "ops": gen_ops(rng, nh, rng.randrange(2, 7))})
    # the deciding shapes first: single revocation, batch revocation, revoke-then-refresh-others, failed batch
    fixed = [
        [{"k": "issue", "id": 0}, {"k": "issue", "id": 1}, {"k": "revoke", "ids": [1]}, {"k": "refresh", "id": 0}, {"k": "refresh", "id": 1}],
        [{"k": "issue", "id": 0}, {"k": "issue", "id": 1}, {"k": "issue", "id": 2}, {"k": "revoke", "ids": [1, 2]}, {"k": "refresh", "id": 0}],
        [{"k": "issue", "id": 0}, {"k": "issue", "id": 1}, {"k": "revoke", "ids": [1, 3]}, {"k": "refresh", "id": 1}, {"k": "revoke", "ids": [0]}, {"k": "issue", "id": 0}],
        [{"k": "issue", "id": 0}, {"k": "issue", "id": 1}, {"k": "issue", "id": 2}, {"k": "revoke", "ids": [2, 1]}, {"k": "refresh", "id": 1}, {"k": "refresh", "id": 0}],
    ]
    # an identifier whose first issuance was blind: revoked, then asked for again through either entry point
    fixed += [
        [{"k": "blind", "id": 0}, {"k": "issue", "id": 1}, {"k": "revoke", "ids": [0]}, {"k": "blind", "id": 0}, {"k": "refresh", "id": 0}],
        [{"k": "blind", "id": 0}, {"k": "blind", "id": 1}, {"k": "revoke", "ids": [1]}, {"k": "issue", "id": 1}, {"k": "refresh", "id": 0}],
    ]
    # a revoked identifier asked for again (refused), and only THEN a refresh / another request for it: a refusal must
    # leave no trace the later calls could build on
    fixed += [
        [{"k": "issue", "id": 0}, {"k": "issue", "id": 1}, {"k": "revoke", "ids": [1]}, {"k": "issue", "id": 1}, {"k": "refresh", "id": 1}, {"k": "issue", "id": 1}, {"k": "refresh", "id": 0}],
        [{"k": "issue", "id": 0}, {"k": "issue", "id": 1}, {"k": "revoke", "ids": [0]}, {"k": "blind", "id": 0}, {"k": "refresh", "id": 0}, {"k": "blind", "id": 0}],
        [{"k": "blind", "id": 0}, {"k": "issue", "id": 1}, {"k": "issue", "id": 2}, {"k": "revoke", "ids": [0, 2]}, {"k": "issue", "id": 2}, {"k": "blind", "id": 2}, {"k": "refresh", "id": 2}, {"k": "refresh", "id": 1}],
    ]
    # growing, shrinking and mixed batch sizes between a holder's first handle and now (multi-batch catch-up)
    fixed += [
        [{"k": "issue", "id": i} for i in range(4)] + [{"k": "revoke", "ids": [1]}, {"k": "revoke", "ids": [2, 3]}],
        [{"k": "issue", "id": i} for i in range(7)] + [{"k": "revoke", "ids": [1]}, {"k": "revoke", "ids": [2, 3, 4]}, {"k": "revoke", "ids": [5, 6]}],
        [{"k": "issue", "id": i} for i in range(7)] + [{"k": "revoke", "ids": [1, 2, 3]}, {"k": "revoke", "ids": [4, 5]}, {"k": "revoke", "ids": [6]}],
    ]
    for j, f in enumerate(fixed):
        for suite in ("bbs", "ps"):
            cases.insert(0, {"op": "f_revoc", "suite": suite, "holders": 7, "ops": f})
    if ctx.get("replay"):
        rp = json.load(open(ctx["replay"]))
        if rp.get("case", {}).get("op") == "f_revoc":
            cases = [rp["case"]]
    impl = C.run_exec_parallel(cases, nproc=16, timeout=7200)

    def c13op(o):
        if o["k"] == "issue":
            return {"k": "issue", "id": o["id"] + 1}
        if o["k"] == "blind":
            return {"k": "blind", "id": o["id"] + 1, "valid": True}
        if o["k"] == "revoke":
            return {"k": "revoke", "ids": [x + 1 for x in o["ids"]]}
        return {"k": "refresh", "id": o["id"] + 1}
    model = C.run_model("C06", c13.HEADER, ["[" + "; ".join(c13.coq_op(c13op(o)) for o in c["ops"]) + "]" for c in cases], shard_size=100)
    failures, samples = [], []
    hist = {"accept": 0, "reject": 0, "panic": 0, "kinds": {}, "expected_accept": 0, "expected_reject": 0}
    distinct = set()
    n_pres = 0
    for c, r, m in zip(cases, impl, model):
        case = dict(c)
        if r.get("r") != "ok":
            failures.append({"class": None, "witness": False, "text": f"harness failure {json.dumps(r)[:200]}", "case": case})
            continue
        if r.get("shadow_ok") is False:
            failures.append({"class": None, "witness": False, "text": "the accumulator recomputed with Accumulator::update_assign differs from the registry's value after a revocation", "case": case})
        mt = c13.parse_model(m)
        removed_at = [set(x["r"]) for x in mt]          # after each step (ids are +1)
        for si, (o, st, ms) in enumerate(zip(c["ops"], r["steps"], mt)):
            if st["r"] != ms["res"]:
                failures.append({"class": None, "witness": False, "text": f"step {si} {o}: result {st['r']} vs registry model {ms['res']}", "case": case})
            cur = removed_at[si]
            for p in st["pres"]:
                n_pres += 1
                h = p["holder"] + 1
                kind = p["kind"]
                hist["kinds"][kind] = hist["kinds"].get(kind, 0) + 1
                hist[p["out"]] = hist.get(p["out"], 0) + 1
                if kind in ("latest", "oldest"):
                    fs = p["from_step"]
                    exp = (removed_at[fs] == cur) and (h not in cur)
                elif kind == "multi-batch-update":
                    # one multi-batch update over every published epoch since the first handle: valid iff never revoked
                    exp = h not in cur
                elif kind == "public-update":
                    # tracked chain: valid iff it could follow every change of the value and the owner was never revoked
                    exp = p["tracked_to_current"] and (h not in cur)
                    if not p["tracked_to_current"]:
                        exp = None if h not in cur else False
                else:
                    exp = False
                if exp is None:
                    continue
                hist["expected_accept" if exp else "expected_reject"] += 1
                distinct.add(C.case_hash([c["suite"], c["ops"][:si + 1], p["holder"], kind]))
                got = p["out"] == "accept"
                if got != exp:
                    revoked = h in cur
                    if got and revoked:
                        txt = f"REVOKED holder {p['holder']} obtains an accepted presentation with handle '{kind}' after step {si} ({c['suite']})"
                    elif got:
                        txt = f"holder {p['holder']} is accepted with an invalid handle '{kind}' after step {si} ({c['suite']}); model expects reject"
                    else:
                        txt = f"NON-revoked holder {p['holder']} with a valid handle '{kind}' is rejected after step {si} ({c['suite']}): {p['out']}"
                    failures.append({"class": None, "witness": True, "text": txt, "case": case})
        if len(samples) < 3:
            samples.append({"ops": c["ops"], "suite": c["suite"], "steps": [{"r": s["r"], "pres": s["pres"]} for s in r["steps"]][:4]})
    failures.sort(key=lambda f: len(f["case"].get("ops", [])))
    # ---- the accumulator proof model against MembershipProof::finalize: parameters with known logs, arbitrary proof
    # fields and challenge; the model's eight exponents must reproduce what the implementation hashes
    frng = random.Random(seed + 66)
    R = c13_R()
    fcases = []
    for i in range(240 if tier == "thorough" else 40):
        vals = {k: frng.randrange(1, R) for k in ("x", "y", "z", "alpha", "V", "ec", "ts", "tr", "ss", "sr", "sds", "sdr", "sy", "c")}
        if i % 8 == 1:
            vals["c"] = 0
        if i % 8 == 2:
            vals["sy"] = 0
        if i % 8 == 3:
            vals["ss"] = vals["sr"] = 0
        if i % 8 == 4:
            vals["sds"], vals["sdr"] = R - 1, 1
        fcases.append(vals)
    order = ["x", "y", "z", "alpha", "V", "ec", "ts", "tr", "ss", "sr", "sds", "sdr", "sy", "c"]
    fmodel = C.run_model("C06", ACC_HEADER, ["mkF " + " ".join(str(v[k]) for k in order) for v in fcases], runner="run_fins", shard_size=40, tag="accfin")
    fops = []
    for v, m in zip(fcases, fmodel):
        exps = m.strip().split(" ")
        fops.append(dict({"op": "f_accfin", "expect": exps}, **{k: "%064x" % v[k] for k in order}))
    fimpl = C.run_exec_parallel(fops, nproc=16)
    hist["accfin"] = {"same": 0, "different": 0}
    for v, op, r in zip(fcases, fops, fimpl):
        n_pres += 1
        if r.get("r") != "ok":
            failures.append({"class": None, "witness": False, "text": f"harness failure (f_accfin) {json.dumps(r)[:200]}", "case": op})
            continue
        hist["accfin"]["same" if r["same"] else "different"] += 1
        if not r["same"]:
            failures.append({"class": None, "witness": False,
                             "text": "correspondence broken: MembershipProof::finalize hashes other values than the model's acc_finalize (Model/AccProof.v) predicts", "case": op})
        # a broken wiring would also pass if the comparison itself were vacuous: perturb one expected exponent, it must differ
    neg = []
    for k, op in enumerate(fops[:16]):
        e = list(op["expect"])
        j = k % 8
        e[j] = "%064x" % ((int(e[j], 16) + 1) % R)
        neg.append(dict(op, expect=e))
    for op, r in zip(neg, C.run_exec_parallel(neg, nproc=16)):
        if r.get("r") != "ok" or r.get("same"):
            failures.append({"class": None, "witness": False, "text": "f_accfin does not distinguish a perturbed exponent (the comparison is vacuous)", "case": op})
    # ---- a deviating holder at the presentation layer: the accumulator sub-protocol of the revocation statement run on
    # ANOTHER holder's identifier and valid handle (what a revoked holder with an accomplice would do); the verifier model
    # (Model/Pres.v, theorem C06_accept_revocation_link) and Presentation::verify must both refuse
    import pres_common as PC
    import pres_check as K
    devs = [{"dev": {"k": "rev_other_element_shared"}, "target": "r0"}, {"dev": {"k": "rev_other_element_independent"}, "target": "r0"},
            {"dev": {"k": "omit_pred"}, "target": "r0"}]
    shapes = [dict(n_creds=2, rev=True, one_issuer=True, n_claims=4), dict(n_creds=3, rev=True, one_issuer=True, n_claims=3)]
    scns = K.scenarios_for("C06", devs, random.Random(seed + 6), "quick" if tier == "quick" else "thorough", shapes)
    pres = PC.run("C06", scns, tag="pres")
    pf, phist, _ = PC.judge("C06", pres, {"C05", "C06"})
    failures += pf
    hist["external_prover"] = phist.get("by_dev", {})
    n_pres += len(pres)
    return {
        "evaluations": n_pres,
        "distinct_nontrivial": len(distinct),
        "rule": "cases = issuer histories over 2..4 holders (issue and blind issue, re-issue through either entry point, single and batch revocation incl. failing batches, refresh); after every operation every holder with a credential presents with a revocation statement against the current registry value using its latest handle, its oldest handle, the handle it maintained by single-step public updates, its first handle brought up to date by one multi-batch update over the published batch coefficients, another holder's handle and the registry value itself; plus MembershipProof::finalize against the Coq model of the accumulator proof on random parameters, proofs and challenges; plus an external holder that runs the revocation statement's accumulator sub-protocol on another holder's identifier and handle (compared with the Coq verifier model); the verdict of Presentation::create + verify is compared with the verdict derived from the Coq registry model's trace; distinct by (suite, history prefix, holder, handle kind)",
        "samples": samples,
        "histograms": hist,
        "failures": failures,
        "exhaustive": False,
    }
